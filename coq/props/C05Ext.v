(* C05Ext -- additions to props/C05.v (to be merged by the integrator): the per-kind laws RT_k and the closure of the
   region are PROVED for five of the seven kinds -- ReST, numpydoc, google, class, argparse -- over concrete model-level
   converters, and every chain over those kinds (any length, repetitions allowed) preserves the interface, with NO
   kind_law hypothesis.  Statements closed by `exact` only; lemmas in proofs/C05ClosedFacts.v; definitions in
   model/C05Closed.v.

   Converters (conv_model o k = parse_k o emit_k over the models; o : cenv holds the API options):
     rest = C05Spec.conv_rest;  numpydoc / google = C01SpecNG.text_of_o then DocParseNG.parse_ng (emit_default_doc=False);
     class = class_docstring_text (DocEmit.to_docstring), EmitAst.emit_class, class_docstring_ir, ParseAst.parse_class,
             any line length / emit_default_doc / word_wrap / class name / bases / decorators / infer_type;
     argparse = EmitAst.emit_argparse (word_wrap and wrap_description off, function_type static, any non-empty function
             name), ParseAst.parse_argparse_ast; the docstring text / docstring IR handed to them are ARBITRARY functions
             of the current description (parameters, description and return entry do not depend on them: props/C04.v).
   Domain: closed_dom o i (boolean, executable) = chain_safe closed_kinds i  (the region of props/C05.v for these kinds)
     && complete i  (summary; >= 1 parameter; every parameter has prose, a declared type and an explicit scalar default
        that is not a spelling of None; no return entry)
     && the guards of the per-kind theorems: guard_C01_rest false, guard_C01_ng (both styles), guard_C02_ast and
        doc_link_ok (ce_w o) (ce_edd o) (ce_ww o), guard_C04_ast -- the two code guards taken on the description without its
        carried body --
     && internal_ok i  (no carried body, or exactly the statement  return argument_parser  that parse.argparse_ast records).
   On this domain [preserved] determines summary and parameters exactly, so closure reduces to what each parser writes
   into the remaining fields.  Discharges, for these five kinds, the hypotheses RT_rest .. RT_argparse and the closure
   of the domain of C05_chain_preserved / C05_composition.

   Found on the way (confirmed on the real code, see the report):
   - guard_C02_ast / guard_C04_ast are NOT closed under the argparse conversion: parse.argparse_ast records
     return argument_parser  as a carried body (C05_guards_not_closed_under_argparse); emit.class_ (emit_call off) and
     emit.argparse_function are shown to write the same artefact with or without that body;
   - inside chain_safe (class None) the class conversion turns the float default -0.0 into 0.0, and the argparse
     conversion strips a summary wrapped in quote marks: C05Spec.c05_class_of does not name either
     (C05_region_hole_negzero, C05_region_hole_quoted_summary).

   NOT proved here (still):
   - the function and method kinds (KFunction, KMethod): their laws stay hypotheses of C05_chain_preserved
     (conv_model declines them); chains that mix them in are not covered;
   - that the guards follow from chain_safe: they do NOT in general (the two holes above; C05_guard_conjuncts_docstring
     shows a float in exponent notation inside chain_safe, outside the guards of the C01 theorems, where only the
     numpydoc / google MODEL declines); whether [complete] follows from chain_safe closed_kinds is not proved either;
   - descriptions with a return entry, parameters without default / prose, None defaults, chains over fewer kinds on the
     correspondingly larger regions chain_safe ks;
   - inherited from C01 / C02 / C04: the numpydoc / google printer is the specification printer (word_wrap off); the
     argparse emitter with word_wrap off; ast.unparse then ast.parse is the identity on emitted trees; that
     emit.docstring / parse_docstring succeed on the argparse function docstring. *)
From Coq Require Import List Bool.
From Coq Require String.
Import String.StringSyntax.
From DT Require Import PyStr PyVal Defaults PyAst IR.
From DT Require EmitAst ParseAst C01Spec C01SpecNG DocParseNG C05Spec C05Closed C02Codec C04Codec C05ClosedFacts.
From DT Require PureUtils C02DocLinkDefs C03Spec C03DocLinkDefs.
Import ListNotations.

(* ---- the per-kind laws on the domain: round trip AND closure, no hypothesis ---- *)

Theorem C05_law_rest : forall o, C05Spec.kind_law (C05Closed.conv_model o) (C05Closed.closed_dom o) C05Spec.KRest.
Proof. exact C05ClosedFacts.law_rest. Qed.
Print Assumptions C05_law_rest.

Theorem C05_law_numpydoc : forall o, C05Spec.kind_law (C05Closed.conv_model o) (C05Closed.closed_dom o) C05Spec.KNumpydoc.
Proof. exact C05ClosedFacts.law_numpydoc. Qed.
Print Assumptions C05_law_numpydoc.

Theorem C05_law_google : forall o, C05Spec.kind_law (C05Closed.conv_model o) (C05Closed.closed_dom o) C05Spec.KGoogle.
Proof. exact C05ClosedFacts.law_google. Qed.
Print Assumptions C05_law_google.

Theorem C05_law_class : forall o, C05Spec.kind_law (C05Closed.conv_model o) (C05Closed.closed_dom o) C05Spec.KClass.
Proof. exact C05ClosedFacts.law_class. Qed.
Print Assumptions C05_law_class.

Theorem C05_law_argparse : forall o, C05Closed.env_ok o = true ->
    C05Spec.kind_law (C05Closed.conv_model o) (C05Closed.closed_dom o) C05Spec.KArgparse.
Proof. exact C05ClosedFacts.law_argparse. Qed.
Print Assumptions C05_law_argparse.

(* the closure argument, once: same summary and parameters, no return entry, harmless carried body => in the domain *)
Theorem C05_domain_closed : forall o i i',
    C05Closed.closed_dom o i = true ->
    ir_doc i' = ir_doc i -> ir_params i' = ir_params i -> (forall g, ir_returns i' <> Has g) ->
    C05Closed.internal_ok i' = true ->
    C05Closed.closed_dom o i' = true.
Proof. exact C05ClosedFacts.closed_dom_fields. Qed.
Print Assumptions C05_domain_closed.

(* on complete descriptions preserved leaves no freedom *)
Theorem C05_complete_preserved_exact : forall i i', C05Closed.complete i = true -> C05Spec.preserved i i' = true ->
    ir_doc i' = ir_doc i /\ ir_params i' = ir_params i /\ (forall g, ir_returns i' <> Has g).
Proof. exact C05ClosedFacts.complete_preserved_eq. Qed.
Print Assumptions C05_complete_preserved_exact.

(* ---- every chain over the closed kinds: any length, repetitions allowed ---- *)

Theorem C05_chain_closed : forall o cs, C05Closed.env_ok o = true -> forallb C05Closed.closed_kind cs = true ->
    forall i, C05Closed.closed_dom o i = true ->
    exists i', C05Spec.chain (C05Closed.conv_model o) cs i = Ok i'
               /\ C05Spec.preserved i i' = true /\ C05Closed.closed_dom o i' = true.
Proof. exact C05ClosedFacts.chain_closed. Qed.
Print Assumptions C05_chain_closed.

Theorem C05_chain_closed_incl : forall o cs, C05Closed.env_ok o = true -> incl cs C05Closed.closed_kinds ->
    forall i, C05Closed.closed_dom o i = true ->
    exists i', C05Spec.chain (C05Closed.conv_model o) cs i = Ok i'
               /\ C05Spec.preserved i i' = true /\ C05Closed.closed_dom o i' = true.
Proof. exact C05ClosedFacts.chain_closed_incl. Qed.
Print Assumptions C05_chain_closed_incl.

Theorem C05_chain_closed_no_swap : forall o cs, C05Closed.env_ok o = true -> forallb C05Closed.closed_kind cs = true ->
    forall i, C05Closed.closed_dom o i = true ->
    exists i', C05Spec.chain (C05Closed.conv_model o) cs i = Ok i'
               /\ List.length (ir_params i) = List.length (ir_params i')
               /\ forall k n g, nth_error (ir_params i) k = Some (n, g) ->
                  exists g', nth_error (ir_params i') k = Some (n, g')
                             /\ C01Spec.same_typ g g' = true /\ C01Spec.same_prose g g' = true
                             /\ C01Spec.same_default_ir (g_default g) (g_default g') = true.
Proof. exact C05ClosedFacts.chain_closed_no_swap. Qed.
Print Assumptions C05_chain_closed_no_swap.

(* on the domain the chain returns summary and parameters unchanged, and no return entry *)
Theorem C05_chain_closed_exact : forall o cs, C05Closed.env_ok o = true -> forallb C05Closed.closed_kind cs = true ->
    forall i, C05Closed.closed_dom o i = true ->
    exists i', C05Spec.chain (C05Closed.conv_model o) cs i = Ok i' /\ ir_doc i' = ir_doc i /\ ir_params i' = ir_params i
               /\ (forall g, ir_returns i' <> Has g).
Proof. exact C05ClosedFacts.chain_closed_exact. Qed.
Print Assumptions C05_chain_closed_exact.

(* the domain lies inside the region of props/C05.v for these kinds *)
Theorem C05_closed_dom_in_region : forall o i,
    C05Closed.closed_dom o i = true -> C05Spec.chain_safe C05Closed.closed_kinds i = true.
Proof. exact C05ClosedFacts.closed_dom_in_region. Qed.
Print Assumptions C05_closed_dom_in_region.

(* ---- the carried body ---- *)

(* the argparse conversion in closed form, with or without the remnant as carried body of the input *)
Theorem C05_argparse_with_remnant : forall pt i edd fc fr tc tr ds di ft' fnm,
    C05Closed.internal_ok i = true -> C04Codec.guard_C04_ast (C05Closed.clear_internal i) = true ->
    exists s,
      EmitAst.emit_argparse pt i edd (Some (fc :: fr)) (Some (tc :: tr)) false false (Ok ds) = Ok (s, i)
      /\ ParseAst.parse_argparse_ast (Ok di) s ft' fnm
         = Ok (mkIR (ParseAst.fld_of_opt fnm)
                    (Has (match ParseAst.truthy_opt_str ft' with Some t => t | None => L "static" end))
                    (ir_doc i) (C04Codec.norm_params_C04 false (ir_params i)) Missing
                    (Some (mkInternal C05Closed.argparse_remnant (Has (fc :: fr)) (Has (L "static"))))).
Proof. exact C05ClosedFacts.argparse_full. Qed.
Print Assumptions C05_argparse_with_remnant.

Theorem C05_emit_class_with_remnant : forall pt i cn bs ds ww tds s,
    C05Closed.internal_ok i = true ->
    EmitAst.emit_class pt (C05Closed.clear_internal i) false cn bs ds ww tds = Ok (s, C05Closed.clear_internal i) ->
    EmitAst.emit_class pt i false cn bs ds ww tds = Ok (s, i).
Proof. exact C05ClosedFacts.emit_class_remnant. Qed.
Print Assumptions C05_emit_class_with_remnant.

Theorem C05_guards_not_closed_under_argparse :
  match C05Closed.conv_argparse C05Closed.default_env C05Closed.w_closed with
  | Ok i' => negb (C02Codec.guard_C02_ast i') && negb (C04Codec.guard_C04_ast i')
             && C02Codec.guard_C02_ast C05Closed.w_closed && C04Codec.guard_C04_ast C05Closed.w_closed
             && C05Closed.internal_ok i' && C05Closed.closed_dom C05Closed.default_env i'
  | Err _ => false
  end = true.
Proof. exact C05ClosedFacts.guards_not_closed_under_argparse. Qed.
Print Assumptions C05_guards_not_closed_under_argparse.

(* ---- non-vacuity, and why the conjuncts ---- *)

(* five parameters (str, int, float, bool, Optional[int]; prose ending in a full stop or a comma; negative default) *)
Example C05_closed_nonvacuous :
  C05Closed.closed_dom C05Closed.default_env C05Closed.w_closed = true
  /\ List.length (ir_params C05Closed.w_closed) = 5.
Proof. exact C05ClosedFacts.w_closed_in_dom. Qed.
Print Assumptions C05_closed_nonvacuous.

(* also with emit_default_doc and word_wrap on for the class emitter *)
Example C05_closed_nonvacuous_edd : C05Closed.closed_dom C05ClosedFacts.env_edd C05Closed.w_closed = true.
Proof. exact C05ClosedFacts.w_closed_in_dom_edd. Qed.
Print Assumptions C05_closed_nonvacuous_edd.

Example C05_sample_chain :
  match C05Spec.chain (C05Closed.conv_model C05Closed.default_env) C05ClosedFacts.sample_chain C05Closed.w_closed with
  | Ok i' => C05Spec.preserved C05Closed.w_closed i' && C05Closed.closed_dom C05Closed.default_env i'
  | Err _ => false
  end = true.
Proof. exact C05ClosedFacts.sample_chain_runs. Qed.
Print Assumptions C05_sample_chain.

(* guard_C02_ast is needed: inside chain_safe, class None, -0.0 comes back as 0.0 through the class kind *)
Theorem C05_region_hole_negzero :
  C05Spec.chain_safe C05Closed.closed_kinds C05ClosedFacts.w_negzero = true
  /\ C05Closed.complete C05ClosedFacts.w_negzero = true
  /\ C05Spec.c05_class_of [C05Spec.KClass] C05ClosedFacts.w_negzero = None
  /\ C02Codec.guard_C02_ast C05ClosedFacts.w_negzero = false
  /\ match C05Closed.conv_class C05Closed.default_env C05ClosedFacts.w_negzero with
     | Ok i' => C05Spec.preserved C05ClosedFacts.w_negzero i' | Err _ => true end = false.
Proof. exact C05ClosedFacts.region_hole_negzero. Qed.
Print Assumptions C05_region_hole_negzero.

(* guard_C04_ast is needed: inside chain_safe, class None, a summary in quote marks loses them through argparse *)
Theorem C05_region_hole_quoted_summary :
  C05Spec.chain_safe C05Closed.closed_kinds C05ClosedFacts.w_quoted_summary = true
  /\ C05Closed.complete C05ClosedFacts.w_quoted_summary = true
  /\ C05Spec.c05_class_of [C05Spec.KArgparse] C05ClosedFacts.w_quoted_summary = None
  /\ C04Codec.guard_C04_ast C05ClosedFacts.w_quoted_summary = false
  /\ match C05Closed.conv_argparse C05Closed.default_env C05ClosedFacts.w_quoted_summary with
     | Ok i' => C05Spec.preserved C05ClosedFacts.w_quoted_summary i' | Err _ => true end = false.
Proof. exact C05ClosedFacts.region_hole_quoted_summary. Qed.
Print Assumptions C05_region_hole_quoted_summary.

(* the guards of the C01 theorems bound what is proved: inside chain_safe, outside them, the numpydoc / google model
   declines the text while the ReST model round-trips it *)
Theorem C05_guard_conjuncts_docstring :
  C05Spec.chain_safe C05Closed.closed_kinds C05ClosedFacts.w_exp_float = true
  /\ C05Closed.complete C05ClosedFacts.w_exp_float = true
  /\ C01Spec.guard_C01_rest false C05ClosedFacts.w_exp_float = false
  /\ C01SpecNG.guard_C01_ng DocParseNG.SGoogle C05ClosedFacts.w_exp_float = false
  /\ C01SpecNG.guard_C01_ng DocParseNG.SNumpydoc C05ClosedFacts.w_exp_float = false
  /\ C05Closed.conv_google C05ClosedFacts.w_exp_float = Err Unmodelled
  /\ match C05Spec.conv_rest C05ClosedFacts.w_exp_float with
     | Ok i' => C05Spec.preserved C05ClosedFacts.w_exp_float i' | Err _ => false end = true.
Proof. exact C05ClosedFacts.guard_conjuncts_docstring. Qed.
Print Assumptions C05_guard_conjuncts_docstring.

(* complete is needed: a parameter without default acquires one through the class kind *)
Theorem C05_complete_needed :
  C05Closed.complete C05ClosedFacts.w_no_default = false
  /\ C05Spec.chain_safe C05Closed.closed_kinds C05ClosedFacts.w_no_default = false
  /\ C02Codec.guard_C02_ast C05ClosedFacts.w_no_default = true
  /\ match C05Closed.conv_class C05Closed.default_env C05ClosedFacts.w_no_default with
     | Ok i' => C05Spec.preserved C05ClosedFacts.w_no_default i' | Err _ => true end = false.
Proof. exact C05ClosedFacts.complete_needed. Qed.
Print Assumptions C05_complete_needed.

(* ================================================================== *)
(* All seven kinds (added once props/C03Ext.v was available): function and method                                   *)
(* ================================================================== *)
(* conv_function / conv_method (model/C05Closed.v: conv_fn) = the composition C03_partial_closed is about:
   function_docstring_text (DocEmit.to_docstring as emit.function calls it), EmitAst.emit_function (function_name f),
   C03Spec.reparse_stmt (ast.unparse / ast.parse), function_docstring_ir (cleandoc, parse.docstring),
   ParseSig.parse_function; any inline_types / emit_as_kwonlyargs / indent_level / emit_separating_tab / word_wrap
   (fenv), emit_default_doc off.  conv_model7 extends conv_model by these two.
   Domain: closed_dom7 o f i = closed_dom o i && internal_ok7 i (a carried body does not come from a function named f)
     && for both kinds: C03Spec.guard_C03 and C03DocLinkDefs.doc_link_ok on core_view i (summary and parameters only; the
        C03 domain admits neither a carried body nor a Missing return field, which the class / argparse parsers write:
        emit.function and to_docstring are shown not to look at them: C05_conv_fn_core).
   env_ok7 o: the argparse function has a non-empty name OTHER than f (needed: C05_env_ok7_needed, confirmed on the real
   code: emit.function splices the carried  return argument_parser  into f and parse.function invents a return entry).
   The old five-kind theorems above are unchanged.

   With these, NO kind_law hypothesis of C05_chain_preserved remains on closed_dom7.

   Enlarging the domain (C05_return_entry_blockers, C05_none_default_blockers; computed on the models, matching chain_safe):
   - a typed return entry with prose: carried by rest, function, method only; numpydoc, google and class give it the
     default 0, argparse drops it -- so it can only enter a domain for chains over {rest, function, method}: DONE below
     on the domain closed_dom_ret (C05_chain_closed_ret);
   - the default None under Optional[...]: only argparse blocks it (the default is lost).  For the other six kinds the
     obstacle is the shape of the per-kind theorems, not the code: every kind returns the spelling NoneStr, which
     [preserved] / same_interface identify with None, so the relation no longer determines the parameters and the
     guards would have to be shown invariant under the three spellings of None; C02 has a closed form
     (canon_default), C01 / C03 state a relation only.  Not done here.
   Still NOT proved: function / method with emit_default_doc on (a C03 finding class), the inherited gaps of C03Ext
   (cleandoc and reparse_stmt are models), and everything listed above for the five kinds. *)

Theorem C05_law7 : forall o f k, C05Closed.env_ok7 o = true ->
    C05Spec.kind_law (C05Closed.conv_model7 o f) (C05Closed.closed_dom7 o f) k.
Proof. exact C05ClosedFacts.law7. Qed.
Print Assumptions C05_law7.

(* the function / method conversion, with what it writes: summary and parameters unchanged, no return entry, no
   carried body *)
Theorem C05_conv_fn_closed : forall o f c r i,
    C05Closed.closed_dom7 o f i = true -> C05Closed.fn_guard o f (c :: r) i = true ->
    exists i', C05Closed.conv_fn o f (c :: r) i = Ok i'
               /\ C05ClosedFacts.core_eq i i' /\ ir_internal i' = None.
Proof. exact C05ClosedFacts.conv_fn_closed. Qed.
Print Assumptions C05_conv_fn_closed.

(* emit.function / to_docstring do not look at name, type, an absent return entry or a harmless carried body *)
Theorem C05_conv_fn_core : forall o f c r i,
    C05Closed.internal_ok i = true -> C05Closed.internal_ok7 i = true -> (forall g, ir_returns i <> Has g) ->
    C05Closed.conv_fn o f (c :: r) i = C05Closed.conv_fn o f (c :: r) (C05ClosedFacts.core i).
Proof. exact C05ClosedFacts.conv_fn_core. Qed.
Print Assumptions C05_conv_fn_core.

(* every chain over all seven kinds, any length, repetitions allowed, no law hypothesis *)
Theorem C05_chain_closed7 : forall o f cs, C05Closed.env_ok7 o = true ->
    forall i, C05Closed.closed_dom7 o f i = true ->
    exists i', C05Spec.chain (C05Closed.conv_model7 o f) cs i = Ok i'
               /\ C05Spec.preserved i i' = true /\ C05Closed.closed_dom7 o f i' = true.
Proof. exact C05ClosedFacts.chain_closed7. Qed.
Print Assumptions C05_chain_closed7.

Theorem C05_chain_closed7_no_swap : forall o f cs, C05Closed.env_ok7 o = true ->
    forall i, C05Closed.closed_dom7 o f i = true ->
    exists i', C05Spec.chain (C05Closed.conv_model7 o f) cs i = Ok i'
               /\ List.length (ir_params i) = List.length (ir_params i')
               /\ forall k n g, nth_error (ir_params i) k = Some (n, g) ->
                  exists g', nth_error (ir_params i') k = Some (n, g')
                             /\ C01Spec.same_typ g g' = true /\ C01Spec.same_prose g g' = true
                             /\ C01Spec.same_default_ir (g_default g) (g_default g') = true.
Proof. exact C05ClosedFacts.chain_closed7_no_swap. Qed.
Print Assumptions C05_chain_closed7_no_swap.

Theorem C05_chain_closed7_exact : forall o f cs, C05Closed.env_ok7 o = true ->
    forall i, C05Closed.closed_dom7 o f i = true ->
    exists i', C05Spec.chain (C05Closed.conv_model7 o f) cs i = Ok i' /\ ir_doc i' = ir_doc i /\ ir_params i' = ir_params i
               /\ (forall g, ir_returns i' <> Has g).
Proof. exact C05ClosedFacts.chain_closed7_exact. Qed.
Print Assumptions C05_chain_closed7_exact.

Theorem C05_closed_dom7_in_closed_dom : forall o f i,
    C05Closed.closed_dom7 o f i = true -> C05Closed.closed_dom o i = true.
Proof. exact C05ClosedFacts.closed_dom7_in_closed_dom. Qed.
Print Assumptions C05_closed_dom7_in_closed_dom.

(* the docstring links of C02 / C03 with the summary kept (local re-derivations of C02DocLink / C03DocLink proofs) *)
Theorem C05_function_doc_link_summary : forall w o i,
    C03Spec.guard_C03 o i = true -> C03DocLinkDefs.doc_link_ok w o i = true ->
    exists text d,
      C03DocLinkDefs.function_docstring_text w o i = Ok text
      /\ C03DocLinkDefs.function_docstring_ir text = Ok d
      /\ C03Spec.doc_agrees o i d = true
      /\ (forall d0, ir_doc i = Has d0 -> d0 <> [] -> ir_doc d = Has d0).
Proof. exact C05ClosedFacts.FnLink.fn_doc_link_sum. Qed.
Print Assumptions C05_function_doc_link_summary.

Theorem C05_class_doc_link_summary : forall w edd ww i,
    C02Codec.guard_C02_ast i = true -> C02DocLinkDefs.doc_link_ok w edd ww i = true ->
    exists text d, C02DocLinkDefs.class_docstring_text w edd ww i = Ok text /\ C02DocLinkDefs.class_docstring_ir text = Ok d
                   /\ C02Codec.doc_agrees i d = true /\ ir_doc d = ir_doc i.
Proof. exact C05ClosedFacts.ClassLink.doc_link_sum. Qed.
Print Assumptions C05_class_doc_link_summary.

(* non-vacuity: the five-parameter description is in the seven-kind domain for the API defaults of emit.function and for
   types in the docstring / positional arguments / indent 1 / no separating tab / no word wrap; a twelve-hop chain *)
Example C05_closed7_nonvacuous :
  C05Closed.env_ok7 C05Closed.default_env = true
  /\ C05Closed.closed_dom7 C05Closed.default_env C05Closed.default_fenv C05Closed.w_closed = true
  /\ C05Closed.closed_dom7 C05Closed.default_env (C05Closed.mkFE false false 1 false false) C05Closed.w_closed = true.
Proof. exact C05ClosedFacts.w_closed_in_dom7. Qed.
Print Assumptions C05_closed7_nonvacuous.

Example C05_sample_chain7 :
  match C05Spec.chain (C05Closed.conv_model7 C05Closed.default_env C05Closed.default_fenv) C05ClosedFacts.sample_chain7
                      C05Closed.w_closed with
  | Ok i' => C05Spec.preserved C05Closed.w_closed i'
             && C05Closed.closed_dom7 C05Closed.default_env C05Closed.default_fenv i'
  | Err _ => false
  end = true.
Proof. exact C05ClosedFacts.sample_chain7_runs. Qed.
Print Assumptions C05_sample_chain7.

Theorem C05_env_ok7_needed :
  C05Closed.env_ok C05ClosedFacts.env_fname_f = true /\ C05Closed.env_ok7 C05ClosedFacts.env_fname_f = false
  /\ C05Closed.closed_dom7 C05ClosedFacts.env_fname_f C05Closed.default_fenv C05Closed.w_closed = true
  /\ match C05Spec.chain (C05Closed.conv_model7 C05ClosedFacts.env_fname_f C05Closed.default_fenv)
                         [C05Spec.KArgparse; C05Spec.KFunction] C05Closed.w_closed with
     | Ok i' => negb (C05Spec.preserved C05Closed.w_closed i') && match ir_returns i' with Has _ => true | _ => false end
     | Err _ => false
     end = true.
Proof. exact C05ClosedFacts.env_ok7_needed. Qed.
Print Assumptions C05_env_ok7_needed.

Theorem C05_return_entry_blockers :
  map (fun k => C05ClosedFacts.passes k C05ClosedFacts.w_ret) C05Spec.all_kinds = [true; false; false; false; true; true; false]
  /\ map (fun k => C05Spec.chain_safe [k] C05ClosedFacts.w_ret) C05Spec.all_kinds = [true; false; false; false; true; true; false].
Proof. exact C05ClosedFacts.return_entry_blockers. Qed.
Print Assumptions C05_return_entry_blockers.

Theorem C05_none_default_blockers :
  map (fun k => C05ClosedFacts.passes k C05ClosedFacts.w_none) C05Spec.all_kinds = [true; true; true; true; true; true; false]
  /\ map (fun k => C05Spec.chain_safe [k] C05ClosedFacts.w_none) C05Spec.all_kinds = [true; true; true; true; true; true; false]
  /\ map (fun k => match C05Closed.conv_model7 C05Closed.default_env C05Closed.default_fenv k C05ClosedFacts.w_none with
                   | Ok i' => match ir_params i' with (_, g) :: _ => g_default g | [] => None end
                   | Err _ => None
                   end) C05Spec.all_kinds
     = [Some (DV (VStr PureUtils.NoneStr)); Some (DV (VStr PureUtils.NoneStr)); Some (DV (VStr PureUtils.NoneStr));
        Some (DV (VStr PureUtils.NoneStr)); Some (DV (VStr PureUtils.NoneStr)); Some (DV (VStr PureUtils.NoneStr)); None].
Proof. exact C05ClosedFacts.none_default_blockers. Qed.
Print Assumptions C05_none_default_blockers.

(* ================================================================== *)
(* A typed return entry with prose (no default), over the kinds that carry it: rest, function, method               *)
(* ================================================================== *)
(* closed_dom_ret o f i = chain_safe [rest; function; method] i && complete_ret i (as complete, with a return entry that has
   prose and a type and no default) && guard_C01_rest false i && internal_ok i && internal_ok7 i
   && for both function kinds guard_C03 and doc_link_ok on ret_view i (summary, parameters, return entry).
   On it [preserved] determines summary, parameters AND the return entry (C05_complete_ret_preserved_exact). *)

Theorem C05_law_ret : forall o f k, C05Closed.ret_kind k = true ->
    C05Spec.kind_law (C05Closed.conv_model7 o f) (C05Closed.closed_dom_ret o f) k.
Proof. exact C05ClosedFacts.law_ret. Qed.
Print Assumptions C05_law_ret.

Theorem C05_chain_closed_ret : forall o f cs, forallb C05Closed.ret_kind cs = true ->
    forall i, C05Closed.closed_dom_ret o f i = true ->
    exists i', C05Spec.chain (C05Closed.conv_model7 o f) cs i = Ok i'
               /\ C05Spec.preserved i i' = true /\ C05Closed.closed_dom_ret o f i' = true.
Proof. exact C05ClosedFacts.chain_closed_ret. Qed.
Print Assumptions C05_chain_closed_ret.

Theorem C05_complete_ret_preserved_exact : forall i i',
    C05Closed.complete_ret i = true -> C05Spec.preserved i i' = true ->
    ir_doc i' = ir_doc i /\ ir_params i' = ir_params i /\ ir_returns i' = ir_returns i.
Proof. exact C05ClosedFacts.complete_ret_preserved_eq. Qed.
Print Assumptions C05_complete_ret_preserved_exact.

(* five parameters and a return entry; both option sets of emit.function; a six-hop chain *)
Example C05_closed_ret_nonvacuous :
  C05Closed.closed_dom_ret C05Closed.default_env C05Closed.default_fenv C05Closed.w_ret_closed = true
  /\ C05Closed.closed_dom_ret C05Closed.default_env (C05Closed.mkFE false false 1 false false) C05Closed.w_ret_closed = true
  /\ match C05Spec.chain (C05Closed.conv_model7 C05Closed.default_env C05Closed.default_fenv)
                         [C05Spec.KFunction; C05Spec.KRest; C05Spec.KMethod; C05Spec.KMethod; C05Spec.KRest; C05Spec.KFunction]
                         C05Closed.w_ret_closed with
     | Ok i' => C05Spec.preserved C05Closed.w_ret_closed i'
                && C05Closed.closed_dom_ret C05Closed.default_env C05Closed.default_fenv i'
     | Err _ => false
     end = true.
Proof. exact C05ClosedFacts.w_ret_closed_in_dom. Qed.
Print Assumptions C05_closed_ret_nonvacuous.
