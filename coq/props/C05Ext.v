(* C05Ext -- additions to props/C05.v (to be merged by the integrator): the per-kind laws RT_k and the closure of the
   region are PROVED for five of the seven kinds -- ReST, numpydoc, google, class, argparse -- over concrete model-level
   converters, and every chain over those kinds (any length, repetitions allowed) preserves the interface, with NO
   kind_law hypothesis.  Statements closed by `exact` only; lemmas in proofs/C05ClosedFacts.v; definitions in
   model/C05Closed.v.

   Converters (conv_model o k = parse_k o emit_k over the models; o : cenv holds the API options):
     rest = C05Spec.conv_rest;  numpydoc / google = C01SpecNG.text_of_o then DocParseNG.parse_ng (emit_default_doc=False);
     class = class_docstring_text (DocEmit.to_docstring), EmitAst.emit_class, class_docstring_ir, ParseAst.parse_class,
             any line length / emit_default_doc / word_wrap / class name / bases / decorators / infer_type;
     argparse = EmitAst.emit_argparse (word_wrap and wrap_description off, function_type static, any non-empty function
             name), ParseAst.parse_argparse_ast; the docstring text / docstring IR handed to them are ARBITRARY functions
             of the current description (parameters, description and return entry do not depend on them: props/C04.v).
   Domain: closed_dom o i (boolean, executable) = chain_safe closed_kinds i  (the region of props/C05.v for these kinds)
     && complete i  (summary; >= 1 parameter; every parameter has prose, a declared type and an explicit scalar default
        that is not a spelling of None; no return entry)
     && the guards of the per-kind theorems: guard_C01_rest false, guard_C01_ng (both styles), guard_C02_ast and
        doc_link_ok (ce_w o) (ce_edd o) (ce_ww o), guard_C04_ast -- the two code guards taken on the description without its
        carried body --
     && internal_ok i  (no carried body, or exactly the statement  return argument_parser  that parse.argparse_ast records).
   On this domain [preserved] determines summary and parameters exactly, so closure reduces to what each parser writes
   into the remaining fields.  Discharges, for these five kinds, the hypotheses RT_rest .. RT_argparse and the closure
   of the domain of C05_chain_preserved / C05_composition.

   Found on the way (confirmed on the real code, see the report):
   - guard_C02_ast / guard_C04_ast are NOT closed under the argparse conversion: parse.argparse_ast records
     return argument_parser  as a carried body (C05_guards_not_closed_under_argparse); emit.class_ (emit_call off) and
     emit.argparse_function are shown to write the same artefact with or without that body;
   - inside chain_safe (class None) the class conversion turns the float default -0.0 into 0.0, and the argparse
     conversion strips a summary wrapped in quote marks: C05Spec.c05_class_of does not name either
     (C05_region_hole_negzero, C05_region_hole_quoted_summary).

   NOT proved here (still):
   - the function and method kinds (KFunction, KMethod): their laws stay hypotheses of C05_chain_preserved
     (conv_model declines them); chains that mix them in are not covered;
   - that the guards follow from chain_safe: they do NOT in general (the two holes above; C05_guard_conjuncts_docstring
     shows a float in exponent notation inside chain_safe, outside the guards of the C01 theorems, where only the
     numpydoc / google MODEL declines); whether [complete] follows from chain_safe closed_kinds is not proved either;
   - descriptions with a return entry, parameters without default / prose, None defaults, chains over fewer kinds on the
     correspondingly larger regions chain_safe ks;
   - inherited from C01 / C02 / C04: the numpydoc / google printer is the specification printer (word_wrap off); the
     argparse emitter with word_wrap off; ast.unparse then ast.parse is the identity on emitted trees; that
     emit.docstring / parse_docstring succeed on the argparse function docstring. *)
From Coq Require Import List Bool.
From Coq Require String.
Import String.StringSyntax.
From DT Require Import PyStr PyVal Defaults PyAst IR.
From DT Require EmitAst ParseAst C01Spec C01SpecNG DocParseNG C05Spec C05Closed C02Codec C04Codec C05ClosedFacts.
Import ListNotations.

(* ---- the per-kind laws on the domain: round trip AND closure, no hypothesis ---- *)

Theorem C05_law_rest : forall o, C05Spec.kind_law (C05Closed.conv_model o) (C05Closed.closed_dom o) C05Spec.KRest.
Proof. exact C05ClosedFacts.law_rest. Qed.
Print Assumptions C05_law_rest.

Theorem C05_law_numpydoc : forall o, C05Spec.kind_law (C05Closed.conv_model o) (C05Closed.closed_dom o) C05Spec.KNumpydoc.
Proof. exact C05ClosedFacts.law_numpydoc. Qed.
Print Assumptions C05_law_numpydoc.

Theorem C05_law_google : forall o, C05Spec.kind_law (C05Closed.conv_model o) (C05Closed.closed_dom o) C05Spec.KGoogle.
Proof. exact C05ClosedFacts.law_google. Qed.
Print Assumptions C05_law_google.

Theorem C05_law_class : forall o, C05Spec.kind_law (C05Closed.conv_model o) (C05Closed.closed_dom o) C05Spec.KClass.
Proof. exact C05ClosedFacts.law_class. Qed.
Print Assumptions C05_law_class.

Theorem C05_law_argparse : forall o, C05Closed.env_ok o = true ->
    C05Spec.kind_law (C05Closed.conv_model o) (C05Closed.closed_dom o) C05Spec.KArgparse.
Proof. exact C05ClosedFacts.law_argparse. Qed.
Print Assumptions C05_law_argparse.

(* the closure argument, once: same summary and parameters, no return entry, harmless carried body => in the domain *)
Theorem C05_domain_closed : forall o i i',
    C05Closed.closed_dom o i = true ->
    ir_doc i' = ir_doc i -> ir_params i' = ir_params i -> (forall g, ir_returns i' <> Has g) ->
    C05Closed.internal_ok i' = true ->
    C05Closed.closed_dom o i' = true.
Proof. exact C05ClosedFacts.closed_dom_fields. Qed.
Print Assumptions C05_domain_closed.

(* on complete descriptions preserved leaves no freedom *)
Theorem C05_complete_preserved_exact : forall i i', C05Closed.complete i = true -> C05Spec.preserved i i' = true ->
    ir_doc i' = ir_doc i /\ ir_params i' = ir_params i /\ (forall g, ir_returns i' <> Has g).
Proof. exact C05ClosedFacts.complete_preserved_eq. Qed.
Print Assumptions C05_complete_preserved_exact.

(* ---- every chain over the closed kinds: any length, repetitions allowed ---- *)

Theorem C05_chain_closed : forall o cs, C05Closed.env_ok o = true -> forallb C05Closed.closed_kind cs = true ->
    forall i, C05Closed.closed_dom o i = true ->
    exists i', C05Spec.chain (C05Closed.conv_model o) cs i = Ok i'
               /\ C05Spec.preserved i i' = true /\ C05Closed.closed_dom o i' = true.
Proof. exact C05ClosedFacts.chain_closed. Qed.
Print Assumptions C05_chain_closed.

Theorem C05_chain_closed_incl : forall o cs, C05Closed.env_ok o = true -> incl cs C05Closed.closed_kinds ->
    forall i, C05Closed.closed_dom o i = true ->
    exists i', C05Spec.chain (C05Closed.conv_model o) cs i = Ok i'
               /\ C05Spec.preserved i i' = true /\ C05Closed.closed_dom o i' = true.
Proof. exact C05ClosedFacts.chain_closed_incl. Qed.
Print Assumptions C05_chain_closed_incl.

Theorem C05_chain_closed_no_swap : forall o cs, C05Closed.env_ok o = true -> forallb C05Closed.closed_kind cs = true ->
    forall i, C05Closed.closed_dom o i = true ->
    exists i', C05Spec.chain (C05Closed.conv_model o) cs i = Ok i'
               /\ List.length (ir_params i) = List.length (ir_params i')
               /\ forall k n g, nth_error (ir_params i) k = Some (n, g) ->
                  exists g', nth_error (ir_params i') k = Some (n, g')
                             /\ C01Spec.same_typ g g' = true /\ C01Spec.same_prose g g' = true
                             /\ C01Spec.same_default_ir (g_default g) (g_default g') = true.
Proof. exact C05ClosedFacts.chain_closed_no_swap. Qed.
Print Assumptions C05_chain_closed_no_swap.

(* on the domain the chain returns summary and parameters unchanged, and no return entry *)
Theorem C05_chain_closed_exact : forall o cs, C05Closed.env_ok o = true -> forallb C05Closed.closed_kind cs = true ->
    forall i, C05Closed.closed_dom o i = true ->
    exists i', C05Spec.chain (C05Closed.conv_model o) cs i = Ok i' /\ ir_doc i' = ir_doc i /\ ir_params i' = ir_params i
               /\ (forall g, ir_returns i' <> Has g).
Proof. exact C05ClosedFacts.chain_closed_exact. Qed.
Print Assumptions C05_chain_closed_exact.

(* the domain lies inside the region of props/C05.v for these kinds *)
Theorem C05_closed_dom_in_region : forall o i,
    C05Closed.closed_dom o i = true -> C05Spec.chain_safe C05Closed.closed_kinds i = true.
Proof. exact C05ClosedFacts.closed_dom_in_region. Qed.
Print Assumptions C05_closed_dom_in_region.

(* ---- the carried body ---- *)

(* the argparse conversion in closed form, with or without the remnant as carried body of the input *)
Theorem C05_argparse_with_remnant : forall pt i edd fc fr tc tr ds di ft' fnm,
    C05Closed.internal_ok i = true -> C04Codec.guard_C04_ast (C05Closed.clear_internal i) = true ->
    exists s,
      EmitAst.emit_argparse pt i edd (Some (fc :: fr)) (Some (tc :: tr)) false false (Ok ds) = Ok (s, i)
      /\ ParseAst.parse_argparse_ast (Ok di) s ft' fnm
         = Ok (mkIR (ParseAst.fld_of_opt fnm)
                    (Has (match ParseAst.truthy_opt_str ft' with Some t => t | None => L "static" end))
                    (ir_doc i) (C04Codec.norm_params_C04 false (ir_params i)) Missing
                    (Some (mkInternal C05Closed.argparse_remnant (Has (fc :: fr)) (Has (L "static"))))).
Proof. exact C05ClosedFacts.argparse_full. Qed.
Print Assumptions C05_argparse_with_remnant.

Theorem C05_emit_class_with_remnant : forall pt i cn bs ds ww tds s,
    C05Closed.internal_ok i = true ->
    EmitAst.emit_class pt (C05Closed.clear_internal i) false cn bs ds ww tds = Ok (s, C05Closed.clear_internal i) ->
    EmitAst.emit_class pt i false cn bs ds ww tds = Ok (s, i).
Proof. exact C05ClosedFacts.emit_class_remnant. Qed.
Print Assumptions C05_emit_class_with_remnant.

Theorem C05_guards_not_closed_under_argparse :
  match C05Closed.conv_argparse C05Closed.default_env C05Closed.w_closed with
  | Ok i' => negb (C02Codec.guard_C02_ast i') && negb (C04Codec.guard_C04_ast i')
             && C02Codec.guard_C02_ast C05Closed.w_closed && C04Codec.guard_C04_ast C05Closed.w_closed
             && C05Closed.internal_ok i' && C05Closed.closed_dom C05Closed.default_env i'
  | Err _ => false
  end = true.
Proof. exact C05ClosedFacts.guards_not_closed_under_argparse. Qed.
Print Assumptions C05_guards_not_closed_under_argparse.

(* ---- non-vacuity, and why the conjuncts ---- *)

(* five parameters (str, int, float, bool, Optional[int]; prose ending in a full stop or a comma; negative default) *)
Example C05_closed_nonvacuous :
  C05Closed.closed_dom C05Closed.default_env C05Closed.w_closed = true
  /\ List.length (ir_params C05Closed.w_closed) = 5.
Proof. exact C05ClosedFacts.w_closed_in_dom. Qed.
Print Assumptions C05_closed_nonvacuous.

(* also with emit_default_doc and word_wrap on for the class emitter *)
Example C05_closed_nonvacuous_edd : C05Closed.closed_dom C05ClosedFacts.env_edd C05Closed.w_closed = true.
Proof. exact C05ClosedFacts.w_closed_in_dom_edd. Qed.
Print Assumptions C05_closed_nonvacuous_edd.

Example C05_sample_chain :
  match C05Spec.chain (C05Closed.conv_model C05Closed.default_env) C05ClosedFacts.sample_chain C05Closed.w_closed with
  | Ok i' => C05Spec.preserved C05Closed.w_closed i' && C05Closed.closed_dom C05Closed.default_env i'
  | Err _ => false
  end = true.
Proof. exact C05ClosedFacts.sample_chain_runs. Qed.
Print Assumptions C05_sample_chain.

(* guard_C02_ast is needed: inside chain_safe, class None, -0.0 comes back as 0.0 through the class kind *)
Theorem C05_region_hole_negzero :
  C05Spec.chain_safe C05Closed.closed_kinds C05ClosedFacts.w_negzero = true
  /\ C05Closed.complete C05ClosedFacts.w_negzero = true
  /\ C05Spec.c05_class_of [C05Spec.KClass] C05ClosedFacts.w_negzero = None
  /\ C02Codec.guard_C02_ast C05ClosedFacts.w_negzero = false
  /\ match C05Closed.conv_class C05Closed.default_env C05ClosedFacts.w_negzero with
     | Ok i' => C05Spec.preserved C05ClosedFacts.w_negzero i' | Err _ => true end = false.
Proof. exact C05ClosedFacts.region_hole_negzero. Qed.
Print Assumptions C05_region_hole_negzero.

(* guard_C04_ast is needed: inside chain_safe, class None, a summary in quote marks loses them through argparse *)
Theorem C05_region_hole_quoted_summary :
  C05Spec.chain_safe C05Closed.closed_kinds C05ClosedFacts.w_quoted_summary = true
  /\ C05Closed.complete C05ClosedFacts.w_quoted_summary = true
  /\ C05Spec.c05_class_of [C05Spec.KArgparse] C05ClosedFacts.w_quoted_summary = None
  /\ C04Codec.guard_C04_ast C05ClosedFacts.w_quoted_summary = false
  /\ match C05Closed.conv_argparse C05Closed.default_env C05ClosedFacts.w_quoted_summary with
     | Ok i' => C05Spec.preserved C05ClosedFacts.w_quoted_summary i' | Err _ => true end = false.
Proof. exact C05ClosedFacts.region_hole_quoted_summary. Qed.
Print Assumptions C05_region_hole_quoted_summary.

(* the guards of the C01 theorems bound what is proved: inside chain_safe, outside them, the numpydoc / google model
   declines the text while the ReST model round-trips it *)
Theorem C05_guard_conjuncts_docstring :
  C05Spec.chain_safe C05Closed.closed_kinds C05ClosedFacts.w_exp_float = true
  /\ C05Closed.complete C05ClosedFacts.w_exp_float = true
  /\ C01Spec.guard_C01_rest false C05ClosedFacts.w_exp_float = false
  /\ C01SpecNG.guard_C01_ng DocParseNG.SGoogle C05ClosedFacts.w_exp_float = false
  /\ C01SpecNG.guard_C01_ng DocParseNG.SNumpydoc C05ClosedFacts.w_exp_float = false
  /\ C05Closed.conv_google C05ClosedFacts.w_exp_float = Err Unmodelled
  /\ match C05Spec.conv_rest C05ClosedFacts.w_exp_float with
     | Ok i' => C05Spec.preserved C05ClosedFacts.w_exp_float i' | Err _ => false end = true.
Proof. exact C05ClosedFacts.guard_conjuncts_docstring. Qed.
Print Assumptions C05_guard_conjuncts_docstring.

(* complete is needed: a parameter without default acquires one through the class kind *)
Theorem C05_complete_needed :
  C05Closed.complete C05ClosedFacts.w_no_default = false
  /\ C05Spec.chain_safe C05Closed.closed_kinds C05ClosedFacts.w_no_default = false
  /\ C02Codec.guard_C02_ast C05ClosedFacts.w_no_default = true
  /\ match C05Closed.conv_class C05Closed.default_env C05ClosedFacts.w_no_default with
     | Ok i' => C05Spec.preserved C05ClosedFacts.w_no_default i' | Err _ => true end = false.
Proof. exact C05ClosedFacts.complete_needed. Qed.
Print Assumptions C05_complete_needed.
