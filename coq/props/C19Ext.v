(* C19Ext -- additions to props/C19.v (to be merged by the integrator): the clause of C19
       each generated definition DESCRIBES THE INTERFACE OF THE OBJECT IT WAS GENERATED FROM
   is a theorem for all three output types.  props/C19.v takes the text of every generated definition as a recorded
   input of model/Gen.v; here gen is composed with the converter models (model/C19Compose.v): the text is
   to_code(emit.<type>(ir, <the keyword arguments gen passes>)) computed by EmitAst from the entry's interface
   description, with the docstring text of C02DocLinkDefs / C03DocLinkDefs / DocEmit.  Statements closed by `exact`
   only; lemmas in proofs/C19ComposeFacts.v.

   What stays an INPUT / HYPOTHESIS (stated precisely):
   - python_like ps: the six facts about ast.parse / ast.unparse of model/C19Spec.v (consistent together with a
     parser that knows definitions: C19_python_like_with_definitions);
   - the parse of the LIVE object of every mapping entry (parse._inspect): ce_parsed, the IR it returned;
   - to_code = ast.unparse on the emitted tree: any function stmt -> gout str (the written definition is the
     statement whose text is to_code(s), s the emitted tree; guard_C19's entry_wf says ast.parse reads that text as one
     definition with the generated name); ce_pt, what ast.parse makes of the code strings inside an IR (EmitAst's
     boundary input);
   - for a class and an argparse function the parser model is applied to the emitted tree itself: that
     ast.parse(ast.unparse(tree)) is that tree is R1 of props/C02.v and props/C04.v (checked per case by the oracle,
     not proved); for a function the step is modelled (C03Spec.reparse_stmt) and part of the theorem;
   - for an argparse function the IR di that parse.docstring returns for the generated docstring is universally
     quantified (the parameters do not depend on it).

   The per-entry guard (C19Compose.entry_guard) is the guard of the closed round-trip theorem of the kind
   (C02_partial_closed: guard_C02_ast + doc_link_ok; C03_partial_closed: guard_C03 + doc_link_ok at the options
   emit.function runs with under gen: static, inline types, keyword-only arguments, indent 2, word_wrap on;
   C04_partial: guard_C04_ast) plus, each with a witness below or a reason:
   - class: emit_call off, or no return entry (C19_class_emit_call_witness: KeyError on the real code otherwise);
   - function: the generated name is an identifier (otherwise the model of the unparse/parse step declines; on the
     real code the written module does not parse);
   - argparse: the generated name is not empty (C19_argparse_empty_name_witness); no help text is re-flowed by
     textwrap.fill, which emit.argparse_function applies by default (C19_argparse_wrap_witness: the prose comes back
     with a line break, confirmed on the real code: a finding inside guard_C04); emit.docstring returns a text for the
     generated docstring (boolean, evaluated; a limit of the Fill model only).

   NOT proved here (still):
   - the fidelity of parse._inspect on live objects (C06/C07 territory; entries on which it raises are the entry-*
     finding classes of C19Spec);
   - R1 for class / argparse trees, and that ast.parse gives the definition statement the kind flag of the emitted
     tree (the flag c of TDef is left existential);
   - the round trip outside entry_guard (the NOT-proved lists of props/C02Ext.v, C03Ext.v, C04.v apply verbatim);
   - through the CLI, only when the recorded options are those main passes (route_opts_ok: emit_default_doc on, no
     empty decorator list); the API route has no such condition. *)
From Coq Require Import List Bool Arith.
From Coq Require String.
Import String.StringSyntax.
From DT Require Import PyStr PyVal Defaults PyAst IR EmitAst ParseAst C02Spec C02Codec C04Spec C04Codec Gen C19Spec C19Compose.
From DT Require C06Spec C03Spec C02DocLinkDefs C02DocLink C04Compose.
From DT Require C19ComposeFacts.
Import ListNotations.

(* ---- one entry (any kind): inside the guard of the kind the emitter gen calls returns a definition that carries
   the templated name, and the parser of the kind reads it back as a description of the same interface *)
Theorem C19_entry_describes_interface : forall k o pt nm i di,
    entry_guard k o pt nm i = true ->
    exists s i', entry_def k o pt nm i = Ok s /\ def_name s = Some nm
                 /\ def_is_class s = (match k with GClass => true | _ => false end)
                 /\ parse_back k o pt i di s = Ok i' /\ describes k i i' = true.
Proof. exact C19ComposeFacts.entry_describes_interface. Qed.
Print Assumptions C19_entry_describes_interface.

(* the same as one executable test *)
Theorem C19_entry_round_trip : forall k o pt nm i di,
    entry_guard k o pt nm i = true -> entry_round_trip_b k o pt nm i di = true.
Proof. exact C19ComposeFacts.entry_round_trip. Qed.
Print Assumptions C19_entry_round_trip.

(* ---- the whole module, any number of entries: under python_like, guard_C19 and the per-entry guards the run ends
   normally and creates the file; the written text parses to the hoisted header statements, then one definition per
   mapping entry in mapping order, each named by the template, each the statement whose text is to_code of the tree
   the emitter built from the entry's description, each read back by the parser of its kind as the same interface
   (def_describes), then __all__ listing exactly those names; the non-import statements of the module are those of
   the header followed by these *)
Theorem C19_module_describes_interfaces : forall ps, python_like ps -> forall to_code c k x,
    ci_gen x = gen_in_of to_code c -> ci_existing x = None -> route_opts_ok x = true ->
    guard_C19 ps x = true ->
    kind_of (cg_type c) = Some k ->
    forallb (centry_guard k (cg_opts c) (cg_name_tpl c)) (centries_of c) = true ->
    exists g names header defs,
      fst (run_c19 ps x) = GOk g
      /\ snd (run_c19 ps x) = Some (g_written g)
      /\ Forall2 (fun ce n => format_name (cg_name_tpl c) (ce_name ce) = GOk n) (centries_of c) names
      /\ g_all g = names
      /\ header_of ps (ci_gen x) = Some header
      /\ ps (g_written g) = Some (hoist header ++ defs ++ [TAll names (all_text names)])
      /\ filter nonimp (hoist header ++ defs ++ [TAll names (all_text names)])
         = filter nonimp header ++ defs ++ [TAll names (all_text names)]
      /\ Forall2 (def_describes to_code k (cg_opts c) (cg_name_tpl c)) (centries_of c) defs
      /\ Forall2 is_def_named names defs.
Proof. exact C19ComposeFacts.module_describes_interfaces. Qed.
Print Assumptions C19_module_describes_interfaces.

(* ---- building blocks of independent use *)
(* C03_partial for an arbitrary identifier as function name (props/C03.v fixes the name f) *)
Theorem C19_function_any_name : forall nm o i text d,
    C06Spec.is_identifier nm = true ->
    C03Spec.guard_C03 o i = true -> C03Spec.doc_agrees o i d = true ->
    exists s s' r,
      emit_function (C03Spec.fo_pt o) i (Some nm) (Some (C03Spec.fo_kind o)) (C03Spec.fo_inline o) (C03Spec.fo_kwonly o)
                    (Ok text) = Ok (s, i)
      /\ def_name s = Some nm
      /\ C03Spec.reparse_stmt s = Ok s' /\ C03Spec.parse_fn (Some d) s' = Ok r
      /\ C03Spec.same_interface_fn (C03Spec.fo_kind o) i r = true.
Proof. exact C19ComposeFacts.FnPart.C03_partial_named. Qed.
Print Assumptions C19_function_any_name.

(* emit.argparse_function at its default word_wrap=True: the tree of word_wrap=False, so C04_partial covers it *)
Theorem C19_argparse_word_wrap_default : forall pt i edd fn ft wd ds,
    guard_C04_ast i = true -> argparse_help_nowrap i = true ->
    emit_argparse pt i edd fn ft wd true ds = emit_argparse pt i edd fn ft wd false ds.
Proof. exact C19ComposeFacts.argparse_word_wrap_default. Qed.
Print Assumptions C19_argparse_word_wrap_default.

(* emit.class_ with emit_call on and no return entry: the class of emit_call off *)
Theorem C19_class_emit_call_irrelevant : forall pt i cn bs ds ww tds,
    no_carried_body i = true -> no_return_entry i = true ->
    emit_class pt i true cn bs ds ww tds = emit_class pt i false cn bs ds ww tds.
Proof. exact C19ComposeFacts.emit_class_call_irrelevant. Qed.
Print Assumptions C19_class_emit_call_irrelevant.

(* ---- non-vacuity *)
(* a two-entry mapping of class type (four and two attributes, defaults, an undocumented attribute, a return entry)
   meets every boolean hypothesis, by either route, and both generated classes round-trip *)
Example C19_module_nonvacuous_class :
  guard_C19 (table_parse C19ComposeFacts.ex_tab) (C19ComposeFacts.ex_x C19ComposeFacts.ex_class ViaApi) = true
  /\ guard_C19 (table_parse C19ComposeFacts.ex_tab) (C19ComposeFacts.ex_x C19ComposeFacts.ex_class ViaCli) = true
  /\ route_opts_ok (C19ComposeFacts.ex_x C19ComposeFacts.ex_class ViaCli) = true
  /\ kind_of (cg_type C19ComposeFacts.ex_class) = Some GClass
  /\ forallb (centry_guard GClass (cg_opts C19ComposeFacts.ex_class) (cg_name_tpl C19ComposeFacts.ex_class))
             (centries_of C19ComposeFacts.ex_class) = true
  /\ List.length (centries_of C19ComposeFacts.ex_class) = 2
  /\ map (fun ce => match ce_parsed ce with
                    | GOk i => entry_round_trip_b GClass (cg_opts C19ComposeFacts.ex_class) (ce_pt ce) (L "XConfig") i i
                    | GErr _ => false
                    end) (centries_of C19ComposeFacts.ex_class) = [true; true].
Proof. exact C19ComposeFacts.module_nonvacuous_class. Qed.
Print Assumptions C19_module_nonvacuous_class.

(* two-entry mappings of the other two types (five parameters with defaults, a ** parameter and a return entry;
   eleven options) meet them too *)
Example C19_module_nonvacuous_function_argparse :
  guard_C19 (table_parse C19ComposeFacts.ex_tab) (C19ComposeFacts.ex_x C19ComposeFacts.ex_function ViaApi) = true
  /\ kind_of (cg_type C19ComposeFacts.ex_function) = Some GFunction
  /\ forallb (centry_guard GFunction (cg_opts C19ComposeFacts.ex_function) (cg_name_tpl C19ComposeFacts.ex_function))
             (centries_of C19ComposeFacts.ex_function) = true
  /\ guard_C19 (table_parse C19ComposeFacts.ex_tab) (C19ComposeFacts.ex_x C19ComposeFacts.ex_argparse ViaApi) = true
  /\ kind_of (cg_type C19ComposeFacts.ex_argparse) = Some GArgparse
  /\ forallb (centry_guard GArgparse (cg_opts C19ComposeFacts.ex_argparse) (cg_name_tpl C19ComposeFacts.ex_argparse))
             (centries_of C19ComposeFacts.ex_argparse) = true
  /\ List.length (ir_params C19ComposeFacts.ex_fir) = 5 /\ List.length (ir_params C04Compose.w4_ok) = 11.
Proof. exact C19ComposeFacts.module_nonvacuous_function_argparse. Qed.
Print Assumptions C19_module_nonvacuous_function_argparse.

(* there is a Python-like parser that knows definitions (GenFacts.toy_parse knows imports and __all__ only) ... *)
Theorem C19_python_like_with_definitions : python_like C19ComposeFacts.toy2_parse.
Proof. exact C19ComposeFacts.python_like_toy2. Qed.
Print Assumptions C19_python_like_with_definitions.

(* ... for which ALL hypotheses of C19_module_describes_interfaces hold together on a two-entry mapping of class type
   with a prepended import ... *)
Example C19_module_all_hypotheses :
  python_like C19ComposeFacts.toy2_parse
  /\ guard_C19 C19ComposeFacts.toy2_parse (C19ComposeFacts.ex_x C19ComposeFacts.ex_class_imp ViaApi) = true
  /\ route_opts_ok (C19ComposeFacts.ex_x C19ComposeFacts.ex_class_imp ViaApi) = true
  /\ kind_of (cg_type C19ComposeFacts.ex_class_imp) = Some GClass
  /\ forallb (centry_guard GClass (cg_opts C19ComposeFacts.ex_class_imp) (cg_name_tpl C19ComposeFacts.ex_class_imp))
             (centries_of C19ComposeFacts.ex_class_imp) = true.
Proof. exact C19ComposeFacts.module_all_hypotheses. Qed.
Print Assumptions C19_module_all_hypotheses.

(* ... so that its conclusion holds of that run: the import, then the two classes in mapping order, each described,
   then __all__ *)
Example C19_module_example_conclusion :
  let x := C19ComposeFacts.ex_x C19ComposeFacts.ex_class_imp ViaApi in
  let c := C19ComposeFacts.ex_class_imp in
  exists g names header defs,
    fst (run_c19 C19ComposeFacts.toy2_parse x) = GOk g
    /\ snd (run_c19 C19ComposeFacts.toy2_parse x) = Some (g_written g)
    /\ names = [L "AlphaConfig"; L "BetaConfig"]
    /\ g_all g = names
    /\ header = [TImport None (L "import os")]
    /\ C19ComposeFacts.toy2_parse (g_written g) = Some (hoist header ++ defs ++ [TAll names (all_text names)])
    /\ Forall2 (def_describes C19ComposeFacts.ex_to_code GClass (cg_opts c) (cg_name_tpl c)) (centries_of c) defs.
Proof. exact C19ComposeFacts.module_example_conclusion. Qed.
Print Assumptions C19_module_example_conclusion.

Example C19_module_example_run :
  option_map g_written (match fst (run_c19 C19ComposeFacts.toy2_parse (C19ComposeFacts.ex_x C19ComposeFacts.ex_class_imp ViaApi)) with
                        | GOk g => Some g | GErr _ => None end)
  = Some (L "import os" ++ [nl; nl] ++ L "class AlphaConfig" ++ [nl; nl] ++ L "class BetaConfig" ++ [nl]
            ++ L "__all__ = ['AlphaConfig', 'BetaConfig']").
Proof. exact C19ComposeFacts.module_example_run. Qed.
Print Assumptions C19_module_example_run.

(* ---- the extra side conditions are needed *)
(* argparse: a help text longer than the wrapping width comes back with a line break (inside guard_C04_ast) *)
Theorem C19_argparse_wrap_witness :
  guard_C04_ast C19ComposeFacts.w_wrap = true /\ argparse_help_nowrap C19ComposeFacts.w_wrap = false
  /\ is_Ok (argparse_docstring_text gen_width C19ComposeFacts.w_wrap) = true
  /\ entry_round_trip_b GArgparse (mkOpts false true None) [] (L "set_cli_args") C19ComposeFacts.w_wrap C19ComposeFacts.w_wrap
     = false
  /\ match entry_def GArgparse (mkOpts false true None) [] (L "set_cli_args") C19ComposeFacts.w_wrap with
     | Ok s => match parse_back GArgparse (mkOpts false true None) [] C19ComposeFacts.w_wrap C19ComposeFacts.w_wrap s with
               | Ok i' => option_map (fun g => negb (mem_c nl C19ComposeFacts.long_help)
                                               && match g_doc g with Has d => mem_c nl d | _ => false end)
                                     (od_get (L "n") (ir_params i')) = Some true
               | Err _ => False
               end
     | Err _ => False
     end.
Proof. exact C19ComposeFacts.argparse_wrap_witness. Qed.
Print Assumptions C19_argparse_wrap_witness.

(* argparse: an empty generated name: the function is named by the IR, not by the template *)
Theorem C19_argparse_empty_name_witness :
  entry_guard GArgparse (mkOpts false true None) [] (L "x") C04Compose.w4_ok = true
  /\ entry_round_trip_b GArgparse (mkOpts false true None) [] [] C04Compose.w4_ok C04Compose.w4_ok = false.
Proof. exact C19ComposeFacts.argparse_empty_name_witness. Qed.
Print Assumptions C19_argparse_empty_name_witness.

(* class: emit_call with a return entry without default: emit.class_ raises KeyError *)
Theorem C19_class_emit_call_witness :
  guard_C02_ast C02DocLink.w_link_ok = true
  /\ C02DocLinkDefs.doc_link_ok gen_width true true C02DocLink.w_link_ok = true
  /\ entry_guard GClass (mkOpts false true None) [] (L "XConfig") C02DocLink.w_link_ok = true
  /\ entry_guard GClass (mkOpts true true None) [] (L "XConfig") C02DocLink.w_link_ok = false
  /\ entry_def GClass (mkOpts true true None) [] (L "XConfig") C02DocLink.w_link_ok = Err KeyError
  /\ entry_guard GClass (mkOpts true true None) [] (L "XConfig") C19ComposeFacts.ex_ir2 = true.
Proof. exact C19ComposeFacts.class_emit_call_witness. Qed.
Print Assumptions C19_class_emit_call_witness.
