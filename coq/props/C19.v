(* C19: gen writes one well-formed, correctly named definition per mapping entry.
   Statements only; the lemmas live in proofs/GenFacts.v, the definitions in model/Gen.v and
   model/C19Spec.v.  parse_src stands for ast.parse; python_like lists what is assumed of it. *)
From Coq Require Import List Ascii Bool Arith ZArith Permutation Sorted.
From Coq Require String.
Import String.StringSyntax.
From DT Require Import PyStr Sexp PyVal Gen C19Spec GenFacts.
Import ListNotations.

(* ---- hoisting (any number of statements) *)
(* the hoisted body is a rearrangement of the parsed body *)
Theorem C19_hoist_permutation : forall body, Permutation (hoist body) body.
Proof. exact hoist_perm. Qed.
Print Assumptions C19_hoist_permutation.

(* the non-imports keep their relative order *)
Theorem C19_hoist_keeps_nonimports : forall body, filter nonimp (hoist body) = filter nonimp body.
Proof. exact hoist_keeps_nonimports. Qed.
Print Assumptions C19_hoist_keeps_nonimports.

(* the imports come out __future__ first, each group in its original order *)
Theorem C19_hoist_imports_order : forall body,
    filter is_import (hoist body) = filter is_future body ++ filter is_plain_import body.
Proof. exact hoist_imports_order. Qed.
Print Assumptions C19_hoist_imports_order.

(* stable sort: for every key the subsequence with that key is unchanged *)
Theorem C19_hoist_stable : forall k body, filter (rank_is k) (hoist body) = filter (rank_is k) body.
Proof. exact hoist_stable. Qed.
Print Assumptions C19_hoist_stable.

(* docstring (at most one statement) first, then every import, then every non-import *)
Theorem C19_hoist_imports_first : forall body,
    exists d i o, hoist body = d ++ i ++ o
                  /\ d = doc_part body
                  /\ i = filter is_future body ++ filter is_plain_import body
                  /\ Forall (fun t => is_import t = true) i
                  /\ Forall (fun t => is_import t = false) o
                  /\ o = filter nonimp (rest_part body).
Proof. exact hoist_imports_first. Qed.
Print Assumptions C19_hoist_imports_first.

(* after the docstring the keys never decrease *)
Theorem C19_hoist_sorted : forall body,
    exists d, length d <= 1 /\ hoist body = d ++ hoist3 (rest_part body)
              /\ (has_doc body = true -> exists r, body = d ++ r /\ d <> [])
              /\ StronglySorted (fun a b => rank a <= rank b) (hoist3 (rest_part body)).
Proof. exact hoist_sorted. Qed.
Print Assumptions C19_hoist_sorted.

(* all of the above about what gen writes, for any account of the parser *)
Theorem C19_gen_hoisting : forall ps gi g, snd (gen ps gi) = GOk g ->
    exists body, ps (g_content g) = Some body
      /\ Permutation (g_hoisted g) body
      /\ filter nonimp (g_hoisted g) = filter nonimp body
      /\ filter is_import (g_hoisted g) = filter is_future body ++ filter is_plain_import body
      /\ (forall k, filter (rank_is k) (g_hoisted g) = filter (rank_is k) body)
      /\ (exists d, length d <= 1 /\ g_hoisted g = d ++ hoist3 (rest_part body)
                    /\ StronglySorted (fun a b => rank a <= rank b) (hoist3 (rest_part body)))
      /\ g_written g = unparse_module (g_hoisted g).
Proof. exact gen_hoisting. Qed.
Print Assumptions C19_gen_hoisting.

(* ---- names, order, __all__ (any number of entries) *)
Theorem C19_names_in_order : forall tpl es names,
    names_of tpl es = GOk names -> Forall2 (fun e n => format_name tpl (e_name e) = GOk n) es names.
Proof. exact names_of_spec. Qed.
Print Assumptions C19_names_in_order.

(* when every conversion returns a text, the loop yields exactly those names and one text per
   entry, both in mapping order, for each of the three output types *)
Theorem C19_loop_names_and_texts : forall tpl type_ o es names,
    known_type type_ = true -> forallb is_emitted es = true -> names_of tpl es = GOk names ->
    snd (run_entries tpl type_ o es) = GOk (names, texts_of es).
Proof. exact run_entries_ok. Qed.
Print Assumptions C19_loop_names_and_texts.

(* templates literal{name}literal, e.g. {name}Config and Gen{name} *)
Theorem C19_simple_template : forall pre post es,
    brace_free pre = true -> brace_free post = true ->
    names_of (pre ++ L "{name}" ++ post) es = GOk (map (fun e => pre ++ e_name e ++ post) es).
Proof. exact names_of_simple_template. Qed.
Print Assumptions C19_simple_template.

(* ---- parseability reduces to: the header parses, each piece is one definition *)
Theorem C19_content_parses : forall ps, python_like ps -> forall P tp texts defs names,
    ps P = Some tp -> Forall2 (fun t d => ps t = Some [d]) texts defs ->
    forallb safe_name names = true ->
    ps (P ++ [nl] ++ join [nl; nl] texts ++ [nl] ++ all_text names)
    = Some (tp ++ defs ++ [TAll names (all_text names)]).
Proof. exact content_parses. Qed.
Print Assumptions C19_content_parses.

Theorem C19_written_parses : forall ps, python_like ps -> forall m,
    Forall (wf_top ps) m -> ps (unparse_module m) = Some m.
Proof. exact unparse_module_parses. Qed.
Print Assumptions C19_written_parses.

(* ---- the guarded property *)
Theorem C19_partial : forall ps, python_like ps -> forall x, guard_C19 ps x = true -> C19_at ps x.
Proof. exact C19_partial_lemma. Qed.
Print Assumptions C19_partial.

(* through the CLI an existing output file is always refused and left untouched *)
Theorem C19_cli_refuses : forall ps x old,
    ci_via x = ViaCli -> ci_existing x = Some old -> C19_at ps x.
Proof. exact C19_cli_refuses_lemma. Qed.
Print Assumptions C19_cli_refuses.

(* fresh output, every entry converts: C19 holds for each of the three types, any number of
   entries, any imports file, prepend with or without a final newline *)
Theorem C19_all_entries_convert : forall ps, python_like ps -> forall x,
    C19_domain ps x = true -> ci_existing x = None ->
    forallb is_emitted (entries_of (ci_gen x)) = true ->
    C19_at ps x.
Proof. exact C19_all_entries_convert_lemma. Qed.
Print Assumptions C19_all_entries_convert.

(* the header of the assembled text parses to prepend's statements followed by the imports, for
   any number of import statements *)
Theorem C19_header_parses : forall ps, python_like ps -> forall gi header,
    header_of ps gi = Some header ->
    ps (prepend_arg (gi_prepend gi) ++ imports_text ps gi) = Some header.
Proof. exact C19_header_parses_lemma. Qed.
Print Assumptions C19_header_parses.

(* missing required option, or --type outside the three choices: usage error, nothing runs *)
Theorem C19_cli_usage : forall a ex,
    (ca_name_tpl a = None \/ ca_input_mapping a = None \/ ca_type a = None \/ ca_output_filename a = None
     \/ exists ty, ca_type a = Some ty /\ known_type ty = false) ->
    cli_gen a ex = CliUsage.
Proof. exact cli_gen_usage. Qed.
Print Assumptions C19_cli_usage.

(* ---- what is false of the code *)
Theorem C19_refuted : forall ps, python_like ps -> ~ C19_statement ps.
Proof. exact C19_refuted_lemma. Qed.
Print Assumptions C19_refuted.

(* ... and there is a Python-like parser (the assumptions are consistent) *)
Theorem C19_refuted_nonvacuous : exists ps, python_like ps /\ ~ C19_statement ps.
Proof. exact GenFacts.C19_refuted_nonvacuous. Qed.
Print Assumptions C19_refuted_nonvacuous.

Theorem C19_fails_entry : forall ps x es,
    gi_mapping (ci_gen x) = GOk es -> forallb is_emitted es = false -> ci_existing x = None -> ~ C19_at ps x.
Proof. exact C19_fails_entry_lemma. Qed.
Print Assumptions C19_fails_entry.

Theorem C19_api_appends : forall ps x old g,
    ci_via x = ViaApi -> ci_existing x = Some old -> snd (gen ps (ci_gen x)) = GOk g ->
    snd (run_c19 ps x) = Some (old ++ g_written g) /\ ~ C19_at ps x.
Proof. exact C19_api_appends_lemma. Qed.
Print Assumptions C19_api_appends.

Theorem C19_refuted_api_append : forall ps, python_like ps ->
    C19_domain ps w_append = true
    /\ snd (run_c19 ps w_append) = Some (L "OLD = 1" ++ L "__all__ = []")
    /\ ~ C19_at ps w_append.
Proof. exact C19_refuted_api_append_lemma. Qed.
Print Assumptions C19_refuted_api_append.

(* ---- instances computed on inputs recorded from real runs *)
(* two entries, two imports, prepend without a final newline: inside the guard, and it runs *)
Example C19_nonvacuous :
  guard_C19 (table_parse w_in_guard_tab) w_in_guard = true
  /\ exists written, snd (run_c19 (table_parse w_in_guard_tab) w_in_guard) = Some written.
Proof. exact C19_nonvacuous_lemma. Qed.
Print Assumptions C19_nonvacuous.

(* the same with output type function *)
Example C19_nonvacuous_function :
  guard_C19 (table_parse w_in_guard_function_tab) w_in_guard_function = true
  /\ exists written, snd (run_c19 (table_parse w_in_guard_function_tab) w_in_guard_function) = Some written.
Proof. exact C19_nonvacuous_function_lemma. Qed.
Print Assumptions C19_nonvacuous_function.

Example C19_witness_annotated :
  C19_domain (table_parse w_annotated_tab) w_annotated = true
  /\ finding_class_C19 (table_parse w_annotated_tab) w_annotated = Some K_entry_annotated
  /\ fst (run_c19 (table_parse w_annotated_tab) w_annotated) = GErr (L "SyntaxError").
Proof. exact w_annotated_fails. Qed.
Print Assumptions C19_witness_annotated.

Example C19_witness_undocumented :
  C19_domain (table_parse w_undocumented_tab) w_undocumented = true
  /\ finding_class_C19 (table_parse w_undocumented_tab) w_undocumented = Some K_entry_undocumented
  /\ fst (run_c19 (table_parse w_undocumented_tab) w_undocumented) = GErr (L "KeyError").
Proof. exact w_undocumented_fails. Qed.
Print Assumptions C19_witness_undocumented.

Example C19_witness_no_params :
  C19_domain (table_parse w_no_params_tab) w_no_params = true
  /\ finding_class_C19 (table_parse w_no_params_tab) w_no_params = Some K_entry_no_params
  /\ fst (run_c19 (table_parse w_no_params_tab) w_no_params) = GErr (L "RuntimeError").
Proof. exact w_no_params_fails. Qed.
Print Assumptions C19_witness_no_params.

Example C19_witness_returns_argparse :
  C19_domain (table_parse w_returns_argparse_tab) w_returns_argparse = true
  /\ finding_class_C19 (table_parse w_returns_argparse_tab) w_returns_argparse = Some K_entry_returns_argparse
  /\ fst (run_c19 (table_parse w_returns_argparse_tab) w_returns_argparse) = GErr (L "TypeError").
Proof. exact w_returns_argparse_fails. Qed.
Print Assumptions C19_witness_returns_argparse.

Example C19_witness_returns_function :
  C19_domain (table_parse w_returns_function_tab) w_returns_function = true
  /\ finding_class_C19 (table_parse w_returns_function_tab) w_returns_function = Some K_entry_returns_function
  /\ fst (run_c19 (table_parse w_returns_function_tab) w_returns_function) = GErr (L "AttributeError").
Proof. exact w_returns_function_fails. Qed.
Print Assumptions C19_witness_returns_function.

Example C19_witness_untyped_param :
  C19_domain (table_parse w_untyped_param_tab) w_untyped_param = true
  /\ finding_class_C19 (table_parse w_untyped_param_tab) w_untyped_param = Some K_entry_untyped_param
  /\ fst (run_c19 (table_parse w_untyped_param_tab) w_untyped_param) = GErr (L "TypeError").
Proof. exact w_untyped_param_fails. Qed.
Print Assumptions C19_witness_untyped_param.

Example C19_witness_api_appends :
  C19_domain (table_parse w_api_appends_tab) w_api_appends = true
  /\ finding_class_C19 (table_parse w_api_appends_tab) w_api_appends = Some K_api_appends
  /\ exists after, snd (run_c19 (table_parse w_api_appends_tab) w_api_appends) = Some after
                   /\ startswith (L "OLD = 1") after = true /\ after <> L "OLD = 1" ++ [nl].
Proof. exact C19_witness_api_appends_lemma. Qed.
Print Assumptions C19_witness_api_appends.
