(* C08Ext -- additions to props/C08.v (to be merged by the integrator): the fixed point after one pass is PROVED, with
   no law hypothesis, for the ReST, numpydoc, google, class and argparse kinds over the concrete converters of
   model/C05Closed.v on the domain closed_dom (see props/C05Ext.v for converters and domain).  Statements closed by
   `exact` only; lemmas in proofs/C05ClosedFacts.v.

   The three premises of C08_fixpoint_from_laws are theorems here, for N_k = out_model o k (an explicit description built
   from the options, the summary and the parameters only):
     LAW     conv_model o k i = Ok (out_model o k i)                 (C08_one_pass_closed_form)
     CLOSED  closed_dom o (out_model o k i) = true                   (C08_domain_closed_under_pass)
     IDEM    out_model o k (out_model o k i) = out_model o k i       (C08_pass_idempotent, unconditional)
   hence conv_k (conv_k i) = conv_k i as outcomes (C08_conv_fixpoint) and the statement of the property: the three
   emissions exist and the second and third are the same artefact (C08_closed), also after any chain over these kinds
   (C08_after_chain).  For the docstring kinds the first emission is already the fixed text (C08_docstring_text_fixed).
   The artefact compared is the model's: the docstring text, or the class / function statement handed to ast.unparse.

   Replaces, for these kinds, "the fixpoint theorems for the class/function/argparse kinds are from-laws" in the
   MANIFEST note (class and argparse: closed; also numpydoc / google, which C08.v did not state).

   NOT proved here (still):
   - the function and method kinds;
   - outside closed_dom (in particular descriptions on which a pass really normalises something: a default acquired,
     a full stop added, None turned into a zero value -- there C08_fixpoint_from_laws / C08_fixpoint_relational with
     their hypotheses remain the statement); inside closed_dom every pass returns summary and parameters unchanged;
   - emitter option combinations other than those of cenv (docstring kinds: word_wrap off, default sentences on; argparse:
     word_wrap and wrap_description off); ast.unparse of the emitted statement (the comparison is on the statement);
   - argparse: the function docstring text is an arbitrary function of the description, so first and second emission may
     differ in it; second and third do not. *)
From Coq Require Import List Bool.
From DT Require Import PyStr PyVal Defaults PyAst IR.
From DT Require C05Spec C05Closed C05ClosedFacts.
Import ListNotations.

(* LAW: one pass in closed form *)
Theorem C08_one_pass_closed_form : forall o k i,
    C05Closed.env_ok o = true -> C05Closed.closed_kind k = true -> C05Closed.closed_dom o i = true ->
    C05Closed.conv_model o k i = Ok (C05ClosedFacts.out_model o k i).
Proof. exact C05ClosedFacts.conv_model_closed. Qed.
Print Assumptions C08_one_pass_closed_form.

(* CLOSED *)
Theorem C08_domain_closed_under_pass : forall o k i,
    C05Closed.closed_kind k = true -> C05Closed.closed_dom o i = true ->
    C05Closed.closed_dom o (C05ClosedFacts.out_model o k i) = true.
Proof. exact C05ClosedFacts.out_model_closed. Qed.
Print Assumptions C08_domain_closed_under_pass.

(* IDEM *)
Theorem C08_pass_idempotent : forall o k i,
    C05ClosedFacts.out_model o k (C05ClosedFacts.out_model o k i) = C05ClosedFacts.out_model o k i.
Proof. exact C05ClosedFacts.out_model_idem. Qed.
Print Assumptions C08_pass_idempotent.

(* the pass returns the same interface *)
Theorem C08_pass_preserves : forall o k i,
    C05Closed.closed_kind k = true -> C05Closed.closed_dom o i = true ->
    C05Spec.preserved i (C05ClosedFacts.out_model o k i) = true.
Proof. exact C05ClosedFacts.out_model_preserved. Qed.
Print Assumptions C08_pass_preserves.

(* converting twice gives what converting once gave *)
Theorem C08_conv_fixpoint : forall o k i i1,
    C05Closed.env_ok o = true -> C05Closed.closed_kind k = true -> C05Closed.closed_dom o i = true ->
    C05Closed.conv_model o k i = Ok i1 -> C05Closed.conv_model o k i1 = Ok i1.
Proof. exact C05ClosedFacts.conv_model_fixpoint. Qed.
Print Assumptions C08_conv_fixpoint.

(* the statement of the property: t1 = emit i, t2 = emit (parse t1), t3 = emit (parse t2) exist and t2 = t3 *)
Theorem C08_closed : forall o k i,
    C05Closed.env_ok o = true -> C05Closed.closed_kind k = true -> C05Closed.closed_dom o i = true ->
    C05Closed.C08_at o k i.
Proof. exact C05ClosedFacts.C08_closed_lemma. Qed.
Print Assumptions C08_closed.

(* and after any chain of conversions over the closed kinds *)
Theorem C08_after_chain : forall o cs k i,
    C05Closed.env_ok o = true -> forallb C05Closed.closed_kind cs = true -> C05Closed.closed_kind k = true ->
    C05Closed.closed_dom o i = true ->
    exists i', C05Spec.chain (C05Closed.conv_model o) cs i = Ok i' /\ C05Closed.C08_at o k i'.
Proof. exact C05ClosedFacts.C08_after_chain. Qed.
Print Assumptions C08_after_chain.

(* docstring kinds: already the first emission is the fixed text *)
Theorem C08_docstring_text_fixed : forall o k i,
    C05Closed.env_ok o = true -> C05Closed.closed_dom o i = true -> C05Spec.is_doc_kind k = true ->
    C05Closed.emit_model o k (C05ClosedFacts.out_model o k i) = C05Closed.emit_model o k i.
Proof. exact C05ClosedFacts.docstring_text_fixed. Qed.
Print Assumptions C08_docstring_text_fixed.

(* not vacuous: the five-parameter description of C05Ext is in the domain (both option sets) *)
Example C08_closed_nonvacuous :
  C05Closed.closed_dom C05Closed.default_env C05Closed.w_closed = true
  /\ List.length (ir_params C05Closed.w_closed) = 5.
Proof. exact C05ClosedFacts.w_closed_in_dom. Qed.
Print Assumptions C08_closed_nonvacuous.

(* ================================================================== *)
(* All seven kinds: function and method (conv_model7 / emit_model7 / closed_dom7, see props/C05Ext.v)                 *)
(* ================================================================== *)
(* For the function / method kinds the fixed point is derived relationally (the C08_fixpoint_relational pattern): the
   conversion returns a description with the same summary and parameters, no return entry and no carried body, and
   emit.function / to_docstring look at nothing else -- so converting it again is converting the original again.
   The artefact compared is the function statement handed to ast.unparse. *)

Theorem C08_conv_fixpoint7 : forall o f k i i1,
    C05Closed.env_ok7 o = true -> C05Closed.closed_dom7 o f i = true ->
    C05Closed.conv_model7 o f k i = Ok i1 -> C05Closed.conv_model7 o f k i1 = Ok i1.
Proof. exact C05ClosedFacts.conv_model7_fixpoint. Qed.
Print Assumptions C08_conv_fixpoint7.

Theorem C08_closed7 : forall o f k i,
    C05Closed.env_ok7 o = true -> C05Closed.closed_dom7 o f i = true -> C05Closed.C08_at7 o f k i.
Proof. exact C05ClosedFacts.C08_closed7_lemma. Qed.
Print Assumptions C08_closed7.

Theorem C08_after_chain7 : forall o f cs k i,
    C05Closed.env_ok7 o = true -> C05Closed.closed_dom7 o f i = true ->
    exists i', C05Spec.chain (C05Closed.conv_model7 o f) cs i = Ok i' /\ C05Closed.C08_at7 o f k i'.
Proof. exact C05ClosedFacts.C08_after_chain7. Qed.
Print Assumptions C08_after_chain7.

Example C08_closed7_nonvacuous :
  C05Closed.env_ok7 C05Closed.default_env = true
  /\ C05Closed.closed_dom7 C05Closed.default_env C05Closed.default_fenv C05Closed.w_closed = true
  /\ C05Closed.closed_dom7 C05Closed.default_env (C05Closed.mkFE false false 1 false false) C05Closed.w_closed = true.
Proof. exact C05ClosedFacts.w_closed_in_dom7. Qed.
Print Assumptions C08_closed7_nonvacuous.
