(* C14Ext: extensions of props/C14.v (to be merged into it).  Statements only; lemmas in proofs/C14Success.v, the
   executable side conditions and result predicates in model/C14Guard2.v.

   What these theorems discharge of the MANIFEST level note of C14:
   * "that the call SUCCEEDS inside the guard is ... not proved": C14_success / C14_partial_total prove it, for every
     input of guard_C14_total = guard_C14 && addresses_resolve && wrap_ready && target_unshadowed.
   * "guard_C14 covers single-pair non-eval calls": C14_multi_placed covers any number of pairs (non-eval).

   NOT proved here (state after round 2):
   * target_unshadowed is no longer needed: C14_success' / C14_partial_total' hold under
     guard_C14_total' = guard_C14 && addresses_resolve && wrap_ready (tree positions are unique identities in a
     freshly annotated tree: arg_free_module in proofs/C14Success.v);
   * success for several pairs is proved (C14_multi_total) only without a template (no_wrap) and when find_in_ast
     attaches no [default] attribute on the way to an input address (logs_empty: the addressed input nodes are
     assignments, class attributes, or arguments without default) - then the input tree is not mutated between the
     pairs; with a template or defaults the theorem for several pairs stays conditional on the write
     (C14_multi_placed).  Closing this needs: find_in_ast commutes with apply_dlog / set_ann_by_id on the input tree;
   * for several pairs, that the node put at each position carries the input's annotation / value (only positions
     and the frame are stated);
   * that class_loc_free (in guard_C14_multi) follows from the single-pair guard (same position-uniqueness argument
     as for target_unshadowed, not carried out);
   * that the dynamic component of guard_C14_multi (quiet_loop, evaluated along the run of the model) equals the
     static condition  dotted ip_i <> dotted op_j for i < j;
   * eval mode (--input-eval) for any number of pairs. *)
From Coq Require Import List ZArith.
From Coq Require String.
Import String.StringSyntax.
From DT Require Import PyStr PyVal PyAst Locate SyncProps C15Spec C14Spec C14Guard2 SyncPropsFacts C14Facts C14Success.
Import ListNotations.

(* inside guard_C14_total the model of sync_properties terminates without exception and writes the output file once *)
Theorem C14_success : forall x, guard_C14_total x = true ->
    exists tree, run_C14 x = ([EvWrite FOutput tree], Ok tt).
Proof. exact C14_success_lemma. Qed.
Print Assumptions C14_success.

(* success AND the written tree is the parsed output tree with exactly the node at the resolved position of the
   output address replaced (frame relation) by the input's node, whose content is what C14 expects there
   (expected_node: the input's name, annotation through the template, value); together with C14_holds *)
Theorem C14_partial_total : forall x, guard_C14_total x = true -> C14_total_holds x /\ C14_holds x.
Proof. exact C14_partial_total_lemma. Qed.
Print Assumptions C14_partial_total.

Theorem C14_total_nonvacuous :
  guard_C14_total (w_call w_in [L "f.a"] w_out [L "g.x"] w_opt) = true
  /\ guard_C14_total (w_call w_in_cls [L "K.lr"] w_out_cls [L "Cfg.lr"] w_opt) = true
  /\ guard_C14_total (w_call w_in_cls [L "K.m.a"] w_out_cls [L "train.opt"] w_opt) = true
  /\ guard_C14_total (w_call w_in_cls [L "K.m.k"] w_out_cls [L "train.y"] None) = true
  /\ C14_at_b (w_call w_in_cls [L "K.m.a"] w_out_cls [L "train.opt"] w_opt) = true.
Proof. exact C14_total_nonvacuous_lemma. Qed.
Print Assumptions C14_total_nonvacuous.

(* why each extra side condition is there *)
Theorem C14_total_needs :
  (guard_C14 (w_call w_in [L "f.nope"] w_out [L "g.x"] None) = true
   /\ addresses_resolve (w_call w_in [L "f.nope"] w_out [L "g.x"] None) = false
   /\ run_C14 (w_call w_in [L "f.nope"] w_out [L "g.x"] None) = ([], Err AssertionError))
  /\ (guard_C14 x_no_tables = true /\ addresses_resolve x_no_tables = true /\ wrap_ready x_no_tables = false
      /\ run_C14 x_no_tables = ([], Err Unmodelled))
  /\ (guard_C14 (w_call w_in [L "f.a"] w_out_shadow [L "C.z"] None) = true
      /\ target_unshadowed (w_call w_in [L "f.a"] w_out_shadow [L "C.z"] None) = false
      /\ C14_at_b (w_call w_in [L "f.a"] w_out_shadow [L "C.z"] None) = true).
Proof. exact C14_total_side_conditions. Qed.
Print Assumptions C14_total_needs.

(* any number of pairs (no eval), by induction over the list of pairs: whenever the call writes, every pair, in
   order, replaced exactly one node of the current tree, and that node is the one at the position its output address
   resolves to in the ORIGINAL output file; nothing else changed (frame relation) *)
Theorem C14_multi_placed : forall x, guard_C14_multi x = true ->
    forall tree, fst (run_C14 x) = [EvWrite FOutput tree] ->
                 placed (ci_out x) (ci_ops x) (annotate_at [0] (ci_out x)) tree.
Proof. exact C14_multi_lemma. Qed.
Print Assumptions C14_multi_placed.

Theorem C14_multi_nonvacuous :
  guard_C14_multi (x_multi3 None) = true /\ is_write (run_C14 (x_multi3 None)) = true /\ C14_at_b (x_multi3 None) = true
  /\ guard_C14_multi (x_multi3 w_opt) = true /\ is_write (run_C14 (x_multi3 w_opt)) = true
  /\ C14_at_b (x_multi3 w_opt) = true
  /\ guard_C14_multi (w_call w_in [L "f.a"; L "f.a"] w_out [L "g.x"; L "g.y"] None) = true
  /\ guard_C14_multi (w_call w_in_ff [L "f.a"; L "f.b"] w_out_ff [L "f.a"; L "f.b"] None) = true
  /\ C14_at_b (w_call w_in_ff [L "f.a"; L "f.b"] w_out_ff [L "f.a"; L "f.b"] None) = true.
Proof. exact C14_multi_nonvacuous_lemma. Qed.
Print Assumptions C14_multi_nonvacuous.

(* the excluded region is where several-pairs-on-unreannotated-tree bites: one output address twice (AssertionError),
   a moved node carrying a later output address (the wrong node is replaced), two parameters swapped *)
Theorem C14_multi_refuted :
  (C14_domain x_same_output = true /\ all_pairs_clean x_same_output (ci_ips x_same_output) (ci_ops x_same_output) = true
   /\ addresses_resolve x_same_output = true
   /\ locs_distinct (map dotted (ci_ops x_same_output)) = false
   /\ run_C14 x_same_output = ([], Err AssertionError))
  /\ (C14_domain x_moved_hit = true /\ all_pairs_clean x_moved_hit (ci_ips x_moved_hit) (ci_ops x_moved_hit) = true
      /\ addresses_resolve x_moved_hit = true
      /\ locs_distinct (map dotted (ci_ops x_moved_hit)) = true
      /\ guard_C14_multi x_moved_hit = false
      /\ C14_at_b x_moved_hit = false
      /\ option_map (fun t => match t with [SFunc _ a _ _ _] => map a_name (ar_args a) | _ => [] end)
                    (written_tree (run_C14 x_moved_hit)) = Some [L "y"; L "y"])
  /\ (guard_C14_multi x_swap = false /\ C14_at_b x_swap = false
      /\ option_map (fun t => match t with [SFunc _ a _ _ _] => map a_name (ar_args a) | _ => [] end)
                    (written_tree (run_C14 x_swap)) = Some [L "a"; L "b"]
      /\ option_map (fun t => match t with [SFunc _ a _ _ _] => map a_ann (ar_args a) | _ => [] end)
                    (written_tree (run_C14 x_swap)) = Some [Some (EName (L "int")); None]).
Proof. exact C14_multi_refuted_lemma. Qed.
Print Assumptions C14_multi_refuted.

(* ---------------------------------------------------------------------------------------------- round 2 *)
(* the same two theorems without target_unshadowed *)
Theorem C14_success' : forall x, guard_C14_total' x = true ->
    exists tree, run_C14 x = ([EvWrite FOutput tree], Ok tt).
Proof. exact C14_success_lemma'. Qed.
Print Assumptions C14_success'.

Theorem C14_partial_total' : forall x, guard_C14_total' x = true -> C14_total_holds x /\ C14_holds x.
Proof. exact C14_partial_total_lemma'. Qed.
Print Assumptions C14_partial_total'.

(* the input that target_unshadowed excluded is covered now *)
Theorem C14_shadow_covered :
  guard_C14_total' (w_call w_in [L "f.a"] w_out_shadow [L "C.z"] None) = true
  /\ guard_C14_total (w_call w_in [L "f.a"] w_out_shadow [L "C.z"] None) = false.
Proof. exact C14_total_shadow_covered. Qed.
Print Assumptions C14_shadow_covered.

(* several pairs, unconditional: the call succeeds with one write of the output file AND every pair landed at the
   position its output address resolves to in the original output file (no template, no default attached to an
   addressed input node) *)
Theorem C14_multi_total : forall x, guard_C14_multi_total x = true -> C14_multi_total_holds x.
Proof. exact C14_multi_total_lemma. Qed.
Print Assumptions C14_multi_total.

Theorem C14_multi_total_nonvacuous :
  guard_C14_multi_total x_mt_mixed = true /\ C14_at_b x_mt_mixed = true
  /\ guard_C14_multi_total (w_call w_in_ff [L "f.a"; L "f.b"] w_out_ff [L "f.a"; L "f.b"] None) = true
  /\ guard_C14_multi_total (w_call w_in_cls [L "K.lr"; L "K.m.a"] w_out_cls [L "Cfg.lr"; L "train.x"] None) = true.
Proof. exact C14_multi_total_nonvacuous_lemma. Qed.
Print Assumptions C14_multi_total_nonvacuous.

Theorem C14_multi_total_needs :
  (guard_C14_multi x_hz = true /\ addresses_resolve x_hz = true /\ logs_empty x_hz = true
   /\ hazard_free_pairs x_hz (ci_ips x_hz) (ci_ops x_hz) = false /\ run_C14 x_hz = ([], Err Unmodelled))
  /\ (guard_C14_multi (x_multi3 None) = true /\ logs_empty (x_multi3 None) = false
      /\ is_write (run_C14 (x_multi3 None)) = true).
Proof. exact C14_multi_total_side_conditions. Qed.
Print Assumptions C14_multi_total_needs.
