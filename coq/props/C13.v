(* C13: conversions do not interfere through shared inputs.  Statements only; lemmas in proofs/C13Facts.v.
   Model: EmitAst (the three emitters return the IR as they leave it); spec: C13Spec.
   The docstring layer (to_docstring / emit.docstring) is a parameter (td, dsf, doc_op) exactly as it is an
   explicit input of the EmitAst emitters; the theorems quantify over every such layer.
   emit.docstring as a fourth call on the shared IR is the abstract doc_op. *)
From Coq Require Import List.
From Coq Require String.
Import String.StringSyntax.
From DT Require Import PyStr PyVal PyAst IR EmitAst C13Spec C13Facts.
Import ListNotations.

(* the unguarded statement is false of the faithful model: argparse_function writes typ = "Any" into the
   shared parameter dicts, and the function emitted next gains `x: Any` *)
Theorem C13_refuted : ~ C13_statement.
Proof. exact C13_refuted_lemma. Qed.
Print Assumptions C13_refuted.

(* ---- footprints: everything the three emitters write into the caller's IR ---- *)
Theorem C13_class_writes_nothing : forall pt i ec cn bs ds ww tds s i2,
    emit_class pt i ec cn bs ds ww tds = Ok (s, i2) -> i2 = i.
Proof. exact emit_class_ir. Qed.
Print Assumptions C13_class_writes_nothing.

Theorem C13_function_writes_what_to_docstring_writes : forall pt i fn ft it kw tds s i2,
    emit_function pt i fn ft it kw tds = Ok (s, i2) -> exists text, tds = Ok (text, i2).
Proof. exact emit_function_ir. Qed.
Print Assumptions C13_function_writes_what_to_docstring_writes.

Theorem C13_argparse_footprint : forall pt i edd fn ft wd ww ds s i2,
    emit_argparse pt i edd fn ft wd ww ds = Ok (s, i2) ->
    i2 = ir_with_params i (map (fun kv => (fst kv, argparse_footprint (snd kv))) (ir_params i)).
Proof. exact emit_argparse_ir. Qed.
Print Assumptions C13_argparse_footprint.

(* ---- non-interference, any sequence length: inside the guard (if an argparse call occurs, every
   parameter has a typ and a doc key) and when the docstring layer leaves this IR as it found it (needed
   only if a function / docstring call occurs), every call gives the artefact it gives on a fresh copy ---- *)
Theorem C13_partial : forall pt td dsf doc_op ops i,
    (existsb uses_shared_docstring ops = true -> td_stable_on td doc_op i) ->
    guard_C13 ops i = true ->
    run_shared pt td dsf doc_op ops i = run_fresh pt td dsf doc_op ops i.
Proof. exact C13_frame_lemma. Qed.
Print Assumptions C13_partial.

(* sequences over the class emitter alone never interfere, whatever the docstring layer does (this is the
   interference the property text names; it is gone since emit.class_ copies its argument) *)
Theorem C13_class_only : forall pt td dsf doc_op ops i,
    forallb is_class ops = true ->
    run_shared pt td dsf doc_op ops i = run_fresh pt td dsf doc_op ops i.
Proof. exact C13_class_only_lemma. Qed.
Print Assumptions C13_class_only.

Theorem C13_class_neutral : forall pt td dsf doc_op ec cn bs ds ww edd ops i a i',
    run_op pt td dsf doc_op (OpClass ec cn bs ds ww edd) i = Ok (a, i') ->
    run_shared pt td dsf doc_op (OpClass ec cn bs ds ww edd :: ops) i
    = do rest <- run_shared pt td dsf doc_op ops i; Ok (a :: rest).
Proof. exact C13_class_neutral_lemma. Qed.
Print Assumptions C13_class_neutral.

(* run_shared is the fold_left that threads the one IR object *)
Theorem C13_run_shared_is_fold : forall pt td dsf doc_op ops i,
    run_shared pt td dsf doc_op ops i = do r <- run_shared_fold pt td dsf doc_op ops i; Ok (fst r).
Proof. exact run_shared_fold_spec. Qed.
Print Assumptions C13_run_shared_is_fold.

Example C13_nonvacuous :
  guard_C13 w_ops_ok w_ir_ok = true
  /\ exists l, run_shared [] w_td w_dsf w_doc_op w_ops_ok w_ir_ok = Ok l /\ List.length l = 4.
Proof. exact C13_nonvacuous_lemma. Qed.
Print Assumptions C13_nonvacuous.
