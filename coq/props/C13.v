(* C13: conversions do not interfere through shared inputs.  Statements only; lemmas in proofs/C13Facts.v.
   Model: EmitAst (the three AST emitters return the IR as they leave it); spec: C13Spec.
   What is assumed about the docstring layer (another builder's model), and nothing else:
   - the TEXT to_docstring / emit.docstring return is arbitrary (parameters td, dsf; the theorems hold for all);
   - that to_docstring leaves the IR it is given as it found it is NOT a hypothesis: it is part of the EmitAst
     model of emit.function / emit.class_ (they return, and read, the IR they were handed) and is compared
     with the caller's IR after every call by the emitast correspondence family;
   - emit.docstring as a fourth call on the shared IR is the abstract doc_op; the full statement needs
     doc_pure doc_op (it does not write into the IR).  That hypothesis is FALSE of the implementation today
     (emit_param_str -> set_default_doc writes doc/default into the shared param dicts): finding class
     docstring-rewrites-shared-ir, observed by the oracle; it cannot be dropped (C13_doc_pure_needed). *)
From Coq Require Import List.
From Coq Require String.
Import String.StringSyntax.
From DT Require Import PyStr PyVal PyAst IR EmitAst C13Spec C13Facts.
Import ListNotations.

(* the full statement: any sequence, any length, any options, any docstring text *)
Theorem C13 : C13_statement.
Proof. exact C13_lemma. Qed.
Print Assumptions C13.

(* sequences over emit.class_, emit.function and emit.argparse_function: no assumption at all *)
Theorem C13_emitters : C13_emitters_statement.
Proof. exact C13_emitters_lemma. Qed.
Print Assumptions C13_emitters.

(* per IR: it is enough that emit.docstring leaves THIS IR alone (needed only if a docstring call occurs) *)
Theorem C13_partial : forall pt td dsf doc_op ops i,
    (existsb is_docstring ops = true -> doc_stable_on doc_op i) ->
    run_shared pt td dsf doc_op ops i = run_fresh pt td dsf doc_op ops i.
Proof. exact C13_frame_lemma. Qed.
Print Assumptions C13_partial.

(* ---- footprints: the three emitters write nothing into the caller's IR ---- *)
Theorem C13_class_writes_nothing : forall pt i ec cn bs ds ww tds s i2,
    emit_class pt i ec cn bs ds ww tds = Ok (s, i2) -> i2 = i.
Proof. exact emit_class_ir. Qed.
Print Assumptions C13_class_writes_nothing.

Theorem C13_function_writes_nothing : forall pt i fn ft it kw tds s i2,
    emit_function pt i fn ft it kw tds = Ok (s, i2) -> i2 = i.
Proof. exact emit_function_ir. Qed.
Print Assumptions C13_function_writes_nothing.

Theorem C13_argparse_writes_nothing : forall pt i edd fn ft wd ww ds s i2,
    emit_argparse pt i edd fn ft wd ww ds = Ok (s, i2) -> i2 = i.
Proof. exact emit_argparse_ir. Qed.
Print Assumptions C13_argparse_writes_nothing.

(* a docstring call that appends a default sentence to the shared prose changes the argparse function
   emitted next: the hypothesis on emit.docstring is needed *)
Theorem C13_doc_pure_needed :
  run_shared [] w_td w_dsf w_doc_op w_ops w_ir <> run_fresh [] w_td w_dsf w_doc_op w_ops w_ir.
Proof. exact C13_doc_pure_needed_lemma. Qed.
Print Assumptions C13_doc_pure_needed.

(* run_shared is the fold_left that threads the one IR object *)
Theorem C13_run_shared_is_fold : forall pt td dsf doc_op ops i,
    run_shared pt td dsf doc_op ops i = do r <- run_shared_fold pt td dsf doc_op ops i; Ok (fst r).
Proof. exact run_shared_fold_spec. Qed.
Print Assumptions C13_run_shared_is_fold.

Example C13_nonvacuous :
  exists l, run_shared [] w_td w_dsf w_doc_op w_ops_ok w_ir_ok = Ok l /\ List.length l = 5.
Proof. exact C13_nonvacuous_lemma. Qed.
Print Assumptions C13_nonvacuous.

(* the docstring premise discharged for the DocEmit model of emit.docstring (any width, any style):
   the full statement with the concrete docstring layer *)
From DT Require DocEmit DocEmitPure.
Theorem C13_with_docemit : forall w st pt td dsf ops i,
    run_shared pt td dsf (DocEmitPure.doc_op_of w st) ops i
    = run_fresh pt td dsf (DocEmitPure.doc_op_of w st) ops i.
Proof. intros w st pt td dsf ops i. exact (C13_lemma pt td dsf _ (DocEmitPure.emit_docstring_doc_pure w st) ops i). Qed.
Print Assumptions C13_with_docemit.
