(* C07: parsing source code is faithful to Python's own view of it.  Statements only; the lemmas live in
   proofs/MergeFacts.v, proofs/ParseSigFacts.v, proofs/C07Facts.v.  Model of /repo after fixes cc5b15e
   (signature order), 14f8a19 (AST defaults first), e642f10 (get_value Not).
   The full statement is still FALSE of the faithful model (C07_refuted): an undocumented ** parameter
   is dropped (def f(a, **kwargs) parses to a).  What is proved:
   - C07_names: the exact list of names of the result - the signature's positional and keyword-only
     names in source order, then a documented ** parameter - for every set order, every docstring
     (all / some / none documented, in any order), unbounded in the number of parameters; each name once
     (C07_nodup); equal to Python's names in source order IFF an existing ** parameter is documented
     (C07_order_exact); the only name that can be missing is an undocumented ** one (C07_missing_only_kwarg);
     the old order witness now holds (C07_old_order_witness_holds);
   - C07_partial: inside the boolean guard (complement = the named finding classes of C07Spec) the
     whole property holds: names, order, prose attached, documented default/type win, signature
     defaults and annotations fill the gaps. *)
From Coq Require Import List Permutation.
From Coq Require String.
Import String.StringSyntax.
From DT Require Import PyStr PyVal PyAst IR Merge ParseSig C12Spec C07Spec MergeFacts ParseSigFacts C07Facts.
Import ListNotations.

Theorem C07_refuted : ~ C07_statement.
Proof. exact C07_refuted_lemma. Qed.
Print Assumptions C07_refuted.

Theorem C07_partial : forall pi pj d fd, perm_ok pi -> perm_ok pj -> guard_C07 d fd = true -> C07_at pi pj d fd.
Proof. exact C07_partial_lemma. Qed.
Print Assumptions C07_partial.

Theorem C07_names : forall pi pj d fd it ww ft fnm r, C07_domain d fd = true ->
  parse_function pi pj d fd it ww ft fnm = Ok r -> od_keys (ir_params r) = expected_names d fd.
Proof. exact parse_function_names. Qed.
Print Assumptions C07_names.

Theorem C07_nodup : forall pi pj d fd it ww ft fnm r, C07_domain d fd = true ->
  parse_function pi pj d fd it ww ft fnm = Ok r -> NoDup (od_keys (ir_params r)).
Proof. exact parse_function_names_NoDup. Qed.
Print Assumptions C07_nodup.

Theorem C07_order_exact : forall d fd, C07_domain d fd = true ->
  (expected_names d fd = sig_names fd <-> order_guard d fd = true).
Proof. exact order_guard_iff. Qed.
Print Assumptions C07_order_exact.

(* names and source order for every function, every docstring: only the ** parameter is conditional *)
Theorem C07_names_in_source_order : forall pi pj d fd it ww ft fnm r, C07_domain d fd = true ->
  order_guard d fd = true ->
  parse_function pi pj d fd it ww ft fnm = Ok r -> od_keys (ir_params r) = sig_names fd.
Proof. exact C07_names_lemma. Qed.
Print Assumptions C07_names_in_source_order.

Theorem C07_no_kwarg : forall pi pj d fd it ww ft fnm r a, C07_domain d fd = true ->
  fd_arguments fd = Some a -> kwarg_name a = None ->
  parse_function pi pj d fd it ww ft fnm = Ok r -> od_keys (ir_params r) = sig_names fd.
Proof. exact C07_names_no_kwarg. Qed.
Print Assumptions C07_no_kwarg.

Theorem C07_kwarg_documented : forall pi pj d fd it ww ft fnm r a, C07_domain d fd = true ->
  fd_arguments fd = Some a -> kwarg_documented d a fd = true ->
  parse_function pi pj d fd it ww ft fnm = Ok r -> od_keys (ir_params r) = sig_names fd.
Proof. exact C07_names_kwarg_documented. Qed.
Print Assumptions C07_kwarg_documented.

Theorem C07_missing_only_kwarg : forall pi pj d fd it ww ft fnm r a, C07_domain d fd = true ->
  fd_arguments fd = Some a -> parse_function pi pj d fd it ww ft fnm = Ok r ->
  od_keys (ir_params r) = sig_names fd
  \/ (exists k, kwarg_name a = Some k /\ sig_names fd = od_keys (ir_params r) ++ [k]).
Proof. exact C07Facts.C07_missing_only_kwarg. Qed.
Print Assumptions C07_missing_only_kwarg.

Theorem C07_undocumented : forall pi pj d fd it ww ft fnm r, C07_domain d fd = true ->
  doc_names d fd = nil -> (match fd_arguments fd with Some a => kwarg_name a = None | None => False end) ->
  parse_function pi pj d fd it ww ft fnm = Ok r -> od_keys (ir_params r) = sig_names fd.
Proof. exact C07_names_undocumented. Qed.
Print Assumptions C07_undocumented.

(* def f(a, b) documenting only b: refuted the statement before fix cc5b15e, inside the guard now *)
Theorem C07_old_order_witness_holds : guard_C07 old_wit_doc old_wit_fd = true
  /\ exists r, parse_default id_perm id_perm old_wit_doc old_wit_fd = Ok r /\ od_keys (ir_params r) = [L "a"; L "b"].
Proof. exact old_witness_now_holds. Qed.
Print Assumptions C07_old_order_witness_holds.

(* what Python sees: positional and keyword-only names in source order, then the ** one *)
Theorem C07_py_signature_names : forall n a b dc r, fd_facts a ->
  sig_names (SFunc n a b dc r) = sig_pos_names a ++ opt_list (kwarg_name a).
Proof. exact sig_names_spec. Qed.
Print Assumptions C07_py_signature_names.

(* a class merged with its __init__: names of the merged interface; the __init__ parameters keep their
   order when the class attributes shared with it are, in class order, a prefix of them *)
Theorem C07_class_merge_names : forall pi pj t inner r, NoDup (od_keys (ir_params inner)) ->
  ir_merge pi pj t inner = Ok r ->
  od_keys (ir_params r) = class_merged_names (od_keys (ir_params t)) (od_keys (ir_params inner)).
Proof. exact class_merge_names_lemma. Qed.
Print Assumptions C07_class_merge_names.

Theorem C07_class_order : forall tnames inames, NoDup inames ->
  class_order_guard tnames inames = true -> init_names_in_merged tnames inames = inames.
Proof. exact class_order_lemma. Qed.
Print Assumptions C07_class_order.

Example C07_witness_class : finding_class_C07 wit_doc wit_fd = Some K_kwargs_undocumented.
Proof. exact wit_class. Qed.
Print Assumptions C07_witness_class.

Example C07_nonvacuous :
  guard_C07 nv_doc nv_fd = true /\ List.length (sig_names nv_fd) = 4 /\ List.length (doc_names nv_doc nv_fd) = 3.
Proof. exact C07_nonvacuous_lemma. Qed.
Print Assumptions C07_nonvacuous.
