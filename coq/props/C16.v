(* C16: implementation bodies are carried through conversions verbatim.  Statements only; the lemmas
   live in proofs/C16Facts.v.  Model: EmitAst (the three splice sites), spec and guards: C16Spec.
   The parse side of the round trip (what parse.function / parse.argparse_ast store in `_internal`, and
   that parse.function takes the return default from the body's last return) is ParseAst's; the oracle of
   harness/prop_C16.py runs the whole round trip on the implementation. *)
From Coq Require Import List.
From Coq Require String.
Import String.StringSyntax.
From DT Require Import PyStr PyVal PyAst IR EmitAst C16Spec C16Facts.
Import ListNotations.

(* the full statement is false of the faithful model *)
Theorem C16_refuted : ~ C16_statement.
Proof. exact C16_refuted_lemma. Qed.
Print Assumptions C16_refuted.

Theorem C16_function_refuted : ~ (forall b rv, function_body_splice b rv = b).
Proof. exact C16_function_refuted_lemma. Qed.
Print Assumptions C16_function_refuted.

Theorem C16_argparse_refuted : ~ (forall b, argparse_body_skip b = Ok b).
Proof. exact C16_argparse_refuted_lemma. Qed.
Print Assumptions C16_argparse_refuted.

(* RewriteName is scope-blind: `def inner(a): return a` becomes `return self.a` *)
Theorem C16_call_refuted : ~ (forall ids s, ids <> [] -> rewrite_stmt ids s = subst_stmt ids s).
Proof. exact C16_call_refuted_lemma. Qed.
Print Assumptions C16_call_refuted.

(* ---- function: any body, any length ---- *)
(* the emitted body is the docstring followed by the splice of the carried body (re-attached only when
   name and type match) and the generated return *)
Theorem C16_function_emitted : forall pt i fn ft it kw tds n a body d r i2,
    emit_function pt i fn ft it kw tds = Ok (SFunc n a body d r, i2) ->
    exists text b rv fname ftype,
      py_or fn (ir_name i) = Ok fname /\ py_or ft (ir_type i) = Ok ftype
      /\ get_internal_body fname ftype i = Ok b
      /\ function_return_val pt i = Ok rv
      /\ body = SExpr (set_value (VStr text)) :: function_body_splice b rv.
Proof. exact emit_function_body. Qed.
Print Assumptions C16_function_emitted.

(* no statement dropped, duplicated or reordered: the splice is the body minus at most its final Return,
   followed by the generated return *)
Theorem C16_function_structure : forall b r,
    function_body_splice b (Some r) = strip_final_return b ++ [r]
    /\ exists tail, b = strip_final_return b ++ tail
                    /\ (tail = [] \/ exists x, tail = [x] /\ is_return x = true).
Proof. intros b r. split; [apply splice_struct | apply strip_final_return_prefix]. Qed.
Print Assumptions C16_function_structure.

Theorem C16_function_no_default : forall b, function_body_splice b None = b.
Proof. exact splice_none. Qed.
Print Assumptions C16_function_no_default.

Theorem C16_function_partial : forall b rv, guard_C16_function b rv = true -> function_body_splice b rv = b.
Proof. exact C16_function_partial_lemma. Qed.
Print Assumptions C16_function_partial.

Theorem C16_function_one_final_return : forall b r, is_return r = true ->
    last_is_return (function_body_splice b (Some r)) = true
    /\ (last_is_return b = true -> last_is_return (strip_final_return b) = true ->
        exists b' x y, b = b' ++ [x; y]).
Proof. exact splice_final_return. Qed.
Print Assumptions C16_function_one_final_return.

Theorem C16_internal_body_matches : forall n t i b,
    get_internal_body n t i = Ok b ->
    b = [] \/ exists it, ir_internal i = Some it /\ b = in_body it
                         /\ fld_eq_opt (in_from_name it) n = true /\ fld_eq_opt (in_from_type it) t = true.
Proof. exact get_internal_body_spec. Qed.
Print Assumptions C16_internal_body_matches.

(* ---- argparse ---- *)
Theorem C16_argparse_emitted : forall pt i edd fn ft wd ww ds n a body d r i2,
    emit_argparse pt i edd fn ft wd ww ds = Ok (SFunc n a body d r, i2) ->
    exists doc desc adds b tail fname ftype,
      py_or fn (ir_name i) = Ok fname /\ py_or ft (ir_type i) = Ok ftype
      /\ get_internal_body fname ftype i = Ok b
      /\ argparse_tail pt i b = Ok tail
      /\ List.length adds = List.length (ir_params i)
      /\ body = doc :: desc :: adds ++ tail.
Proof. exact emit_argparse_body. Qed.
Print Assumptions C16_argparse_emitted.

Theorem C16_argparse_partial : forall b, argparse_guard b = true -> argparse_body_skip b = Ok b.
Proof. exact C16_argparse_partial_lemma. Qed.
Print Assumptions C16_argparse_partial.

Theorem C16_argparse_one_final_return : forall pt i b tail,
    argparse_guard b = true -> argparse_tail pt i b = Ok tail ->
    (last_is_return b = true /\ tail = b)
    \/ (last_is_return b = false /\ exists r, tail = b ++ [r] /\ is_return r = true).
Proof. exact argparse_tail_spec. Qed.
Print Assumptions C16_argparse_one_final_return.

(* ---- class __call__ ---- *)
Theorem C16_call_partial : forall ids b,
    guard_C16_call ids b = true -> rewrite_body ids b = Ok (map (subst_stmt ids) b).
Proof. exact C16_call_partial_lemma. Qed.
Print Assumptions C16_call_partial.

Theorem C16_call_statement_level : forall ids s, ids <> [] -> no_shadow ids s = true ->
    rewrite_stmt ids s = subst_stmt ids s.
Proof. exact rewrite_stmt_subst. Qed.
Print Assumptions C16_call_statement_level.

(* emit.class_ never reaches RewriteName's "empty set: rewrite every name" branch *)
Theorem C16_class_call_body : forall pt i cn bs ds ww tds n bases body decos i2 s0 rest,
    emit_class pt i true cn bs ds ww tds = Ok (SClass n bases body decos, i2) ->
    (match ir_internal i with Some it => in_body it | None => [] end) = s0 :: rest ->
    (ir_params i = [] /\ In (call_meth (s0 :: rest)) body)
    \/ (ir_params i <> [] /\ exists b', rewrite_body (od_keys (ir_params i)) (s0 :: rest) = Ok b'
                                        /\ In (call_meth b') body).
Proof. exact emit_class_call_body. Qed.
Print Assumptions C16_class_call_body.

Example C16_nonvacuous :
  guard_C16_call [L "a"; L "b"] w_body = true
  /\ guard_C16_function w_body (Some (SReturn (Some (ETuple [EName (L "t"); EName (L "b")])))) = true
  /\ argparse_guard w_body = true
  /\ rewrite_body [L "a"; L "b"] w_body <> Ok w_body.
Proof. exact C16_nonvacuous_lemma. Qed.
Print Assumptions C16_nonvacuous.
