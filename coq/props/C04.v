(* C04 -- argparse round trip  emit.argparse_function -> parse.argparse_ast  at the AST level (models EmitAst /
   ParseAst).  Statements closed by `exact` only; lemmas in proofs/C04Compose.v, ParseAstFacts.v, C06Facts.v;
   definitions in model/C04Codec.v, C04Spec.v, C02Spec.v.

   The docstring layer is decoupled in the models (the emitter takes the text of emit.docstring as an input, the
   parser takes the IR parse_docstring returned); the parameters do not depend on either, so the theorems hold for
   every such text and IR.

   NOT proved here (stated honestly):
   - ast.unparse followed by ast.parse is the identity on the emitted tree (R1): run per case by the oracle;
   - word_wrap / wrap_description on (Fill.fill on help texts and the description): C04_partial is stated for both
     off; names and order (C04_names_order) hold for every option combination;
   - outside guard_C04_ast: **kwargs-style names (Optional[dict] / loads: the None marker is emitted through the
     recorded parse table), return entries that carry a default (C04_return_requoted_witness shows what happens),
     code-quoted defaults, carried bodies, Literal[...] whose strings contain quote marks; types argparse cannot
     express (guard_C04_ast is inside C04_domain, where argparse_type_norm is the identity);
   - that finding_class_C04 is complete: it is validated by the oracle on every run. *)
From Coq Require Import List Bool ZArith.
From Coq Require String.
Import String.StringSyntax.
From DT Require Import PyStr PyVal Defaults PyAst IR TyExpr EmitAst ParseAst C02Spec C04Spec C06Spec C04Codec.
From DT Require ParseAstFacts C06Facts C04Compose.
Import ListNotations.

(* the statement at full strength is false of the faithful model (bool without default comes back Optional[bool]) *)
Theorem C04_refuted : ~ C04_ast_statement.
Proof. exact C04Compose.C04_refuted_lemma. Qed.
Print Assumptions C04_refuted.

(* names and order: for every IR with distinct names and no carried body, every option combination (default text,
   word wrap, description wrap), every docstring text and docstring IR, whenever emitter and parser succeed: one
   add_argument call per parameter, one parameter per call, in order -- whatever types, help and defaults are *)
Theorem C04_names_order : forall pt i edd fn ft wd ww ds di ft' fnm s i0 i',
    NoDup (map fst (ir_params i)) ->
    no_carried_body_C04 i = true ->
    emit_argparse pt i edd fn ft wd ww ds = Ok (s, i0) ->
    parse_argparse_ast (Ok di) s ft' fnm = Ok i' ->
    map fst (ir_params i') = map fst (ir_params i).
Proof. exact C04Compose.C04_names_order_lemma. Qed.
Print Assumptions C04_names_order.

(* the guarded codec: inside guard_C04_ast (scalar T, Optional[T], List[T], Literal['a', 'b', ...]; help text without announcement;
   type-consistent explicit defaults, or none where argparse has a zero value or Optional) the emitter succeeds, the
   parser succeeds on the emitted function; the description comes back, the parameters come back as the closed form
   norm_params_C04 -- names, order, help, type, list-ness, optionality, defaults with their Python type; required
   options without default acquire the zero value of their type, optional ones None once an earlier option had a
   default (the require_default flag is threaded through the induction) -- which is the same interface as the input
   after argparse_type_norm.  Any parse table, default text on or off, any number of parameters *)
Theorem C04_partial : forall pt i edd fc fr tc tr ds di ft' fnm,
    guard_C04_ast i = true ->
    exists s i',
      emit_argparse pt i edd (Some (fc :: fr)) (Some (tc :: tr)) false false (Ok ds) = Ok (s, i)
      /\ parse_argparse_ast (Ok di) s ft' fnm = Ok i'
      /\ ir_params i' = norm_params_C04 false (ir_params i)
      /\ ir_doc i' = ir_doc i
      /\ ir_returns i' = Missing
      /\ same_interface_argparse (argparse_type_norm i) i' = true.
Proof. exact C04Compose.C04_ast_partial_lemma. Qed.
Print Assumptions C04_partial.

(* one option, for either value of the parser's require_default flag *)
Theorem C04_option_codec : forall pt edd n g rd,
    param_ok_C04 (n, g) = true ->
    exists c, param2argparse_param pt false edd n g = Ok (ParseAstFacts.call_stmt c)
              /\ parse_out_param (fst c) (snd c) rd false = Ok (n, norm_param_C04 rd g).
Proof. exact C04Compose.param_codec_C04. Qed.
Print Assumptions C04_option_codec.

(* the keywords the emitter writes for a shape, and what the parser reads from them *)
Theorem C04_emitted_keywords : forall pt edd n docf t d sh,
    shape_of_typ t = Some sh -> plain_name_C04 n = true ->
    help_ok_C04 (mkG docf (Has t) d) = true -> default_ok_C04 sh d = true ->
    param2argparse_param pt false edd n (mkG docf (Has t) d)
    = Ok (ParseAstFacts.call_stmt
            (option_arg n,
             kws_of (C04Compose.typ2_of sh) None (C04Compose.action_of sh) (prose_of (mkG docf (Has t) d))
                    (C04Compose.required_of sh d) (C04Compose.dflt_of d))).
Proof. exact C04Compose.param2argparse_shape. Qed.
Print Assumptions C04_emitted_keywords.

(* _resolve_arg depends on the option name only through "ends with kwargs" *)
Theorem C04_resolve_arg_plan : forall n docf t d r0 s,
    resolve_plan t = Some s -> endswith (L "kwargs") n = false ->
    resolve_arg None None n (mkG docf (Has t) d) r0 (Some (L "str"))
    = Ok (rs_action s, rs_choices s, C04Compose.req_of_plan s r0, rs_typ s, mkG docf (Has t) d).
Proof. exact C04Compose.resolve_arg_plan. Qed.
Print Assumptions C04_resolve_arg_plan.

(* one computed witness per finding class that is visible at the AST level with wrapping off *)
Theorem C04_witnesses : forallb C04Compose.c04_witness_ok C04Compose.c04_witnesses = true.
Proof. exact C04Compose.C04_witnesses_lemma. Qed.
Print Assumptions C04_witnesses.

Theorem C04_return_requoted_witness :
  option_map c04_class_name (finding_class_C04 C04Compose.o4 C04Compose.w4_ret) = Some (L "return-default-requoted")
  /\ C04_domain C04Compose.w4_ret = true
  /\ match emit_argparse [] C04Compose.w4_ret false (Some (L "set_cli_args")) (Some (L "static")) false false
                         (Ok C04Compose.ds_ret) with
     | Ok (s, _) =>
       match parse_argparse_ast (Ok C04Compose.di_ret) s None None with
       | Ok i' => option_map g_default (fget (ir_returns i')) = Some (Some (DV (VStr (L "'```5```'"))))
                  /\ same_interface_argparse (argparse_type_norm C04Compose.w4_ret) i' = false
       | Err _ => False
       end
     | Err _ => False
     end.
Proof. exact C04Compose.C04_return_requoted_witness. Qed.
Print Assumptions C04_return_requoted_witness.

Theorem C04_nonvacuous :
  guard_C04_ast C04Compose.w4_ok = true
  /\ guard_C04 (mkO04 false false false) C04Compose.w4_ok = true /\ guard_C04 (mkO04 true false false) C04Compose.w4_ok = true
  /\ C04_ast_holds_b [] C04Compose.w4_ok false false false = true /\ C04_ast_holds_b [] C04Compose.w4_ok true false false = true
  /\ map (fun kv => g_default (snd kv)) (norm_params_C04 false (ir_params C04Compose.w4_ok))
     = [None; Some (DV (VInt 0)); Some (DV (VStr PureUtils.NoneStr)); Some (DV (VStr (L "mnist"))); Some (DV (VInt (-5)%Z));
        Some (DV (VBool false)); Some (DV (VStr [])); Some (DV (VFloat (L "-0.0"))); Some (DV (VStr (L "x")));
        Some (DV (VStr PureUtils.NoneStr)); Some (DV (VStr (L "adam")))].
Proof. exact C04Compose.C04_nonvacuous_lemma. Qed.
Print Assumptions C04_nonvacuous.

(* ---- the strongest structural theorems of the two layers, re-exported ---- *)

(* parse side: one parameter per add_argument call, in call order *)
Theorem C04_parse_argparse_ast_calls : forall di nm a ds calls names decos rets ft fnm i,
    parse_argparse_ast (Ok di)
      (SFunc nm a (SExpr (EConst (VStr ds)) :: map ParseAstFacts.call_stmt calls
                         ++ [SReturn (Some (EName (L "argument_parser")))])
             decos rets) ft fnm = Ok i ->
    Forall2 (fun c n => ParseAstFacts.out_param_name (fst c) = Ok n) calls names ->
    NoDup names ->
    map fst (ir_params i) = names /\ ir_returns i = Missing /\ ir_doc i = Has [].
Proof. exact ParseAstFacts.parse_argparse_ast_calls. Qed.
Print Assumptions C04_parse_argparse_ast_calls.

(* parse side: never duplicate option names *)
Theorem C04_parse_argparse_ast_NoDup : forall di fd ft fnm i,
    parse_argparse_ast di fd ft fnm = Ok i -> NoDup (map fst (ir_params i)).
Proof. exact ParseAstFacts.parse_argparse_ast_NoDup. Qed.
Print Assumptions C04_parse_argparse_ast_NoDup.

(* emit side: one add_argument("--name", ...) per parameter, in order, after docstring and description *)
Theorem C04_argparse_options : forall pt i edd fn ft wd ww ds n a body d r i2,
    emit_argparse pt i edd fn ft wd ww ds = Ok (SFunc n a body d r, i2) ->
    exists doc desc adds tail,
      body = doc :: desc :: adds ++ tail
      /\ is_add_argument doc = None /\ is_add_argument desc = None
      /\ Forall2 (fun kv s => exists kws, is_add_argument s = Some (spec_option (fst kv), kws)) (ir_params i) adds.
Proof. exact C06Facts.emit_argparse_options. Qed.
Print Assumptions C04_argparse_options.
