(* C01 — docstring round trip in ReST, numpydoc and Google styles.
   Statements closed by `exact` only; lemmas live in proofs/{DocParseFacts,C01RestLink,DocParseNGFacts}.v. *)
From Coq Require Import List.
From DT Require Import PyStr PyVal IR.
From DT Require DocEmit DocParse C01Spec DocParseFacts C01RestLink.
From DT Require DocParseNG C01SpecNG DocParseNGFacts.

(* ---- ReST ---- *)

(* guard => emit with the DocEmit model (word_wrap off, default sentences on), the text is recognised as
   ReST, parse.docstring gives back the same interface; any number of parameters, both parse modes *)
Theorem C01_rest_partial : forall w edd i,
    C01Spec.guard_C01_rest edd i = true ->
    exists text i0 i',
      DocEmit.emit_docstring w DocEmit.Rest false true i = Ok (text, i0)
      /\ DocParse.detect_style (Some text) = DocParse.Rest
      /\ DocParse.parse_dot_docstring DocParse.ng_unmodelled text false true edd = Ok i'
      /\ C01Spec.same_interface edd i i' = true.
Proof. exact C01RestLink.C01_rest_partial_emit_lemma. Qed.
Print Assumptions C01_rest_partial.

Theorem C01_rest_partial_spec_printer : forall edd i,
    C01Spec.guard_C01_rest edd i = true -> C01Spec.C01_rest_at edd i.
Proof. exact DocParseFacts.C01_rest_partial_lemma. Qed.
Print Assumptions C01_rest_partial_spec_printer.

Theorem C01_rest_refuted : ~ DocParseFacts.C01_rest_statement.
Proof. exact DocParseFacts.C01_rest_refuted_lemma. Qed.
Print Assumptions C01_rest_refuted.

(* class-free: clean prose + declared type, no defaults *)
Theorem C01_rest_no_defaults : forall edd i, DocParseFacts.simple_ir i = true -> C01Spec.C01_rest_at edd i.
Proof. exact DocParseFacts.C01_rest_no_defaults_lemma. Qed.
Print Assumptions C01_rest_no_defaults.

(* the scanner on token-free blocks *)
Theorem C01_scan_rest_blocks : forall doc blocks,
    C01Spec.no_rest_token doc = true ->
    (forall b, In b blocks -> In (fst b) DocParse.rest_scan_tokens /\ C01Spec.no_rest_token (snd b) = true) ->
    blocks <> nil \/ doc <> nil ->
    DocParse.scan_rest (doc ++ concat (map DocParseFacts.blk blocks))
    = (false, doc) :: map (fun b => (true, DocParseFacts.blk b)) blocks.
Proof. exact DocParseFacts.scan_rest_blocks. Qed.
Print Assumptions C01_scan_rest_blocks.

(* style detection: the token sets of the three styles are disjoint (computed from the live constants) *)
Theorem C01_style_tokens_disjoint : DocParseFacts.tokens_disjoint = true.
Proof. exact DocParseFacts.style_tokens_disjoint. Qed.
Print Assumptions C01_style_tokens_disjoint.

Theorem C01_rest_return_only_round_trips :
  C01Spec.guard_C01_rest true DocParseFacts.w_return_only = true
  /\ C01Spec.guard_C01_rest false DocParseFacts.w_return_only = true
  /\ C01Spec.C01_rest_at_b true DocParseFacts.w_return_only = true
  /\ C01Spec.C01_rest_at_b false DocParseFacts.w_return_only = true.
Proof. exact DocParseFacts.w_return_only_round_trips. Qed.
Print Assumptions C01_rest_return_only_round_trips.

Theorem C01_rest_nonvacuous :
  C01Spec.guard_C01_rest true DocParseFacts.w_in_guard = true
  /\ C01Spec.guard_C01_rest false DocParseFacts.w_in_guard = true.
Proof. exact DocParseFacts.C01_rest_nonvacuous_lemma. Qed.
Print Assumptions C01_rest_nonvacuous.

(* ---- numpydoc and Google ---- *)

(* guard + the scan link (scanner output on the emitted text = the expected blocks; evaluated on every
   in-guard oracle point) => style detected, parse succeeds, same interface *)
Theorem C01_ng_partial_modulo_scan : forall style i,
    C01SpecNG.guard_C01_ng style i = true -> C01SpecNG.scan_link_b style i = true ->
    C01SpecNG.C01_ng_at style i.
Proof. exact DocParseNGFacts.C01_ng_partial_modulo_scan. Qed.
Print Assumptions C01_ng_partial_modulo_scan.

(* text emitted in one style is never read as another *)
Theorem C01_ng_detect_style : forall style i,
    C01SpecNG.guard_C01_ng style i = true ->
    exists text, C01SpecNG.text_of_o style i = Ok text
                 /\ DocParseNG.detect_style text = C01SpecNG.style3_of style.
Proof. exact DocParseNGFacts.detect_style_guard. Qed.
Print Assumptions C01_ng_detect_style.

Theorem C01_ng_refuted : ~ DocParseNGFacts.C01_ng_statement.
Proof. exact DocParseNGFacts.C01_ng_refuted. Qed.
Print Assumptions C01_ng_refuted.
