(* C18 (extension): word-wrap and line length, PARSE level, ReST style.  Statements only; the lemmas live in
   proofs/C18Parse.v, the definitions in model/C18ParseSpec.v.

   Proved here (for every width w > 0, any number of parameters, prose of any length):
     C18_rest_pieces   piece-wise guard only (no reference to C01): emit.docstring(ir, "rest") succeeds with
                       word_wrap on and off; whenever parse.docstring reads the unwrapped text, it reads the
                       wrapped text too, with the same parameters (names, order, types, defaults, prose - the
                       reader re-joins wrapped prose) and with the summary and the prose of the return entry equal
                       modulo line breaks and runs of white space; whatever interface the unwrapped parse agrees
                       with, the wrapped parse agrees with modulo white space.
     C18_rest_parse    inside the ReST guard of C01 in addition: both parses succeed, agree with each other and
                       with the IR.
   NOT proved here:
     - the closed-form sufficient condition (prose whose words are separated by single blanks, headers and type
       lines that fit, no default sentence) for the piece-wise guard: [guard_C18_rest_tidy] is defined in
       model/C18ParseSpec.v, but  guard_C18_rest_tidy w i = true -> guard_C18_rest_pieces w i = true  is only
       evaluated per point (it needs the greedy first line of textwrap.fill, which FillFacts.seg does not record);
     - entries whose prose carries a default sentence (Defaults to ...): the piece-wise guard asks for prose that
       announces no default; a sentence that is split by the wrapper is a known finding class
       (default-sentence-wrapped), a sentence that stays whole on the last line is transparent on every point
       evaluated but not proved;
     - wrapped :type / :rtype: lines (finding class wrapped-type-line), headers that do not fit
       (param-header-wrapped), the numpydoc and Google styles (C18_nowrap covers them where nothing wraps). *)
From Coq Require Import List.
From Coq Require String.
Import String.StringSyntax.
From DT Require Import PyStr PyVal PureUtils Defaults IR Fill DocEmit C18Spec DocParse C01Spec C18ParseSpec C18Parse.
Import ListNotations.

Theorem C18_rest_pieces : forall w edd i,
    0 < w -> guard_C18_rest_pieces w i = true ->
    exists tw tu,
      emit_docstring w DocEmit.Rest true true i = Ok (tw, i)
      /\ emit_docstring w DocEmit.Rest false true i = Ok (tu, i)
      /\ forall du, parse_dot_docstring ng_unmodelled tu false true edd = Ok du ->
           exists dw, parse_dot_docstring ng_unmodelled tw false true edd = Ok dw
                      /\ ir_params dw = ir_params du
                      /\ same_interface_ws false du dw = true
                      /\ (forall k i0, same_interface k i0 du = true -> same_interface_ws k i0 dw = true).
Proof. exact C18_rest_pieces_lemma. Qed.
Print Assumptions C18_rest_pieces.

Theorem C18_rest_parse : forall w edd i,
    guard_C18_rest_parse w edd i = true ->
    exists tw tu dw du,
      emit_docstring w DocEmit.Rest true true i = Ok (tw, i)
      /\ emit_docstring w DocEmit.Rest false true i = Ok (tu, i)
      /\ parse_dot_docstring ng_unmodelled tw false true edd = Ok dw
      /\ parse_dot_docstring ng_unmodelled tu false true edd = Ok du
      /\ ir_params dw = ir_params du
      /\ same_interface_ws false du dw = true
      /\ same_interface edd i du = true
      /\ same_interface_ws edd i dw = true.
Proof. exact C18_rest_parse_lemma. Qed.
Print Assumptions C18_rest_parse.

Theorem C18_rest_parse_b : forall w edd i,
    guard_C18_rest_parse w edd i = true -> C18_rest_parse_at_b w edd i = true.
Proof. exact C18_rest_parse_b_lemma. Qed.
Print Assumptions C18_rest_parse_b.

Example C18_rest_parse_nonvacuous :
  guard_C18_rest_parse 30 true c18_long_ir = true
  /\ guard_C18_rest_parse 30 false c18_long_ir = true
  /\ guard_C18_rest_parse 79 true c18_long_ir = true
  /\ guard_nowrap 30 DocEmit.Rest true c18_long_ir = false
  /\ (exists tw tu, emit_docstring 30 DocEmit.Rest true true c18_long_ir = Ok (tw, c18_long_ir)
                    /\ emit_docstring 30 DocEmit.Rest false true c18_long_ir = Ok (tu, c18_long_ir)
                    /\ tw <> tu).
Proof. exact C18_rest_parse_nonvacuous_lemma. Qed.
Print Assumptions C18_rest_parse_nonvacuous.

(* inside the ReST guard of C01 alone the parse-level statement is false of the faithful model: a split default
   sentence read with emit_default_doc=False (typed parameter), a double blank that becomes an announce when the
   reader re-joins the wrapped prose, a header that does not fit *)
Theorem C18_rest_parse_witnesses :
  (guard_C01_rest false c18_w_default_split = true /\ C18_rest_parse_at_b 30 false c18_w_default_split = false
   /\ guard_C18_rest_parse 30 false c18_w_default_split = false)
  /\ (guard_C01_rest true c18_w_double_blank = true /\ C18_rest_parse_at_b 40 true c18_w_double_blank = false
      /\ guard_C18_rest_parse 40 true c18_w_double_blank = false)
  /\ (guard_C01_rest true c18_long_ir = true /\ C18_rest_parse_at_b 12 true c18_long_ir = false
      /\ guard_C18_rest_parse 12 true c18_long_ir = false).
Proof. exact C18_rest_parse_witnesses_lemma. Qed.
Print Assumptions C18_rest_parse_witnesses.

Theorem C18_rest_parse_refuted : ~ C18_rest_parse_statement.
Proof. exact C18_rest_parse_refuted_lemma. Qed.
Print Assumptions C18_rest_parse_refuted.

(* evaluated per point only: the closed-form guard implies the piece-wise guard at widths 1..100 of the sample *)
Example C18_rest_tidy_sample :
  forallb (fun w => implb (guard_C18_rest_tidy w c18_long_ir) (guard_C18_rest_pieces w c18_long_ir)) (seq 1 100) = true
  /\ guard_C18_rest_tidy 22 c18_long_ir = true /\ guard_C18_rest_tidy 21 c18_long_ir = false.
Proof. exact C18_rest_tidy_sample_lemma. Qed.
Print Assumptions C18_rest_tidy_sample.
