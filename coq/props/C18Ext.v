(* C18 (extension): word-wrap and line length, PARSE level, ReST style.  Statements only; the lemmas live in
   proofs/C18Parse.v, the definitions in model/C18ParseSpec.v.

   Proved here (for every width w > 0, any number of parameters, prose of any length):
     C18_rest_pieces   piece-wise guard only (no reference to C01): emit.docstring(ir, "rest") succeeds with
                       word_wrap on and off; whenever parse.docstring reads the unwrapped text, it reads the
                       wrapped text too, with the same parameters (names, order, types, defaults, prose - the
                       reader re-joins wrapped prose) and with the summary and the prose of the return entry equal
                       modulo line breaks and runs of white space; whatever interface the unwrapped parse agrees
                       with, the wrapped parse agrees with modulo white space.
     C18_rest_parse    inside the ReST guard of C01 in addition: both parses succeed, agree with each other and
                       with the IR.
     C18_tidy_pieces   the closed-form guard [guard_C18_rest_tidy] (summary and prose are words separated by single
                       plain blanks, every  :param name:  /  :returns:  header fits the width, every type line fits,
                       prose announces no default) implies the piece-wise guard: proved from a line representation
                       of textwrap.fill on tidy text and the greediness of its first line (proofs/C18FillTidy.v).
     C18_rest_parse_tidy  the parse-level theorem under the closed-form guard and the ReST guard of C01.
   NOT proved here:
     - default sentences: C18_rest_parse_d (below) covers a sentence  " Defaults to s"  that the wrapper leaves whole at
       the end of the last line, after a blank (not after a line break), for emit_default_doc true and false; the
       no-split condition is stated piece-wise (on the emitter's own strings), not in closed form; a sentence that
       is split by the wrapper is a finding class (default-sentence-wrapped; for a TYPED parameter read with
       emit_default_doc=False see C18_default_split_typed_witness: finding_class_C18 does not cover it);
     - prose with runs of blanks or other white space (a double blank can become an announcement when the reader
       re-joins the wrapped prose: witness C18_rest_parse_witnesses);
     - wrapped :type / :rtype: lines (finding class wrapped-type-line), headers that do not fit
       (param-header-wrapped), the numpydoc and Google styles (C18_nowrap covers them where nothing wraps). *)
From Coq Require Import List.
From Coq Require String.
Import String.StringSyntax.
From DT Require Import PyStr PyVal PureUtils Defaults IR Fill DocEmit C18Spec DocParse C01Spec C18ParseSpec C18Parse C18FillTidy C18ParseDflt.
From DT Require Import C18Spec2 C18Spec2Facts.
Import ListNotations.

Theorem C18_rest_pieces : forall w edd i,
    0 < w -> guard_C18_rest_pieces w i = true ->
    exists tw tu,
      emit_docstring w DocEmit.Rest true true i = Ok (tw, i)
      /\ emit_docstring w DocEmit.Rest false true i = Ok (tu, i)
      /\ forall du, parse_dot_docstring ng_unmodelled tu false true edd = Ok du ->
           exists dw, parse_dot_docstring ng_unmodelled tw false true edd = Ok dw
                      /\ ir_params dw = ir_params du
                      /\ same_interface_ws false du dw = true
                      /\ (forall k i0, same_interface k i0 du = true -> same_interface_ws k i0 dw = true).
Proof. exact C18_rest_pieces_lemma. Qed.
Print Assumptions C18_rest_pieces.

Theorem C18_rest_parse : forall w edd i,
    guard_C18_rest_parse w edd i = true ->
    exists tw tu dw du,
      emit_docstring w DocEmit.Rest true true i = Ok (tw, i)
      /\ emit_docstring w DocEmit.Rest false true i = Ok (tu, i)
      /\ parse_dot_docstring ng_unmodelled tw false true edd = Ok dw
      /\ parse_dot_docstring ng_unmodelled tu false true edd = Ok du
      /\ ir_params dw = ir_params du
      /\ same_interface_ws false du dw = true
      /\ same_interface edd i du = true
      /\ same_interface_ws edd i dw = true.
Proof. exact C18_rest_parse_lemma. Qed.
Print Assumptions C18_rest_parse.

Theorem C18_rest_parse_b : forall w edd i,
    guard_C18_rest_parse w edd i = true -> C18_rest_parse_at_b w edd i = true.
Proof. exact C18_rest_parse_b_lemma. Qed.
Print Assumptions C18_rest_parse_b.

Example C18_rest_parse_nonvacuous :
  guard_C18_rest_parse 30 true c18_long_ir = true
  /\ guard_C18_rest_parse 30 false c18_long_ir = true
  /\ guard_C18_rest_parse 79 true c18_long_ir = true
  /\ guard_nowrap 30 DocEmit.Rest true c18_long_ir = false
  /\ (exists tw tu, emit_docstring 30 DocEmit.Rest true true c18_long_ir = Ok (tw, c18_long_ir)
                    /\ emit_docstring 30 DocEmit.Rest false true c18_long_ir = Ok (tu, c18_long_ir)
                    /\ tw <> tu).
Proof. exact C18_rest_parse_nonvacuous_lemma. Qed.
Print Assumptions C18_rest_parse_nonvacuous.

(* inside the ReST guard of C01 alone the parse-level statement is false of the faithful model: a split default
   sentence read with emit_default_doc=False (typed parameter), a double blank that becomes an announce when the
   reader re-joins the wrapped prose, a header that does not fit *)
Theorem C18_rest_parse_witnesses :
  (guard_C01_rest false c18_w_default_split = true /\ C18_rest_parse_at_b 30 false c18_w_default_split = false
   /\ guard_C18_rest_parse 30 false c18_w_default_split = false)
  /\ (guard_C01_rest true c18_w_double_blank = true /\ C18_rest_parse_at_b 40 true c18_w_double_blank = false
      /\ guard_C18_rest_parse 40 true c18_w_double_blank = false)
  /\ (guard_C01_rest true c18_long_ir = true /\ C18_rest_parse_at_b 12 true c18_long_ir = false
      /\ guard_C18_rest_parse 12 true c18_long_ir = false).
Proof. exact C18_rest_parse_witnesses_lemma. Qed.
Print Assumptions C18_rest_parse_witnesses.

Theorem C18_rest_parse_refuted : ~ C18_rest_parse_statement.
Proof. exact C18_rest_parse_refuted_lemma. Qed.
Print Assumptions C18_rest_parse_refuted.

(* evaluated per point only: the closed-form guard implies the piece-wise guard at widths 1..100 of the sample *)
Example C18_rest_tidy_sample :
  forallb (fun w => implb (guard_C18_rest_tidy w c18_long_ir) (guard_C18_rest_pieces w c18_long_ir)) (seq 1 100) = true
  /\ guard_C18_rest_tidy 22 c18_long_ir = true /\ guard_C18_rest_tidy 21 c18_long_ir = false.
Proof. exact C18_rest_tidy_sample_lemma. Qed.
Print Assumptions C18_rest_tidy_sample.

(* ---- the closed form ---- *)

(* textwrap.fill on tidy text: the lines are consecutive pieces of the text, one blank is dropped at each break *)
Theorem C18_fill_tidy_lines : forall w s r,
    tidy s = true -> fill w s = Ok r ->
    exists ls, ls <> [] /\ s = join [sp] ls /\ r = join [nl] ls /\ Forall line_ok ls.
Proof. exact fill_tidy_repr. Qed.
Print Assumptions C18_fill_tidy_lines.

(* ... and a header that fits the width stays on the first line *)
Theorem C18_fill_first_line : forall w h D r l,
    single_spaced (h ++ sp :: D) = true -> last_c h = Some l -> l <> sp ->
    List.length h <= w -> fill w (h ++ sp :: D) = Ok r -> startswith h r = true.
Proof. exact fill_first_line. Qed.
Print Assumptions C18_fill_first_line.

Theorem C18_tidy_pieces : forall w i,
    guard_C18_rest_tidy w i = true -> guard_C18_rest_pieces w i = true.
Proof. exact C18_tidy_pieces_lemma. Qed.
Print Assumptions C18_tidy_pieces.

Theorem C18_rest_parse_tidy : forall w edd i,
    guard_C01_rest edd i = true -> guard_C18_rest_tidy w i = true ->
    exists tw tu dw du,
      emit_docstring w DocEmit.Rest true true i = Ok (tw, i)
      /\ emit_docstring w DocEmit.Rest false true i = Ok (tu, i)
      /\ parse_dot_docstring ng_unmodelled tw false true edd = Ok dw
      /\ parse_dot_docstring ng_unmodelled tu false true edd = Ok du
      /\ ir_params dw = ir_params du
      /\ same_interface_ws false du dw = true
      /\ same_interface edd i du = true
      /\ same_interface_ws edd i dw = true.
Proof. exact C18_rest_parse_tidy_lemma. Qed.
Print Assumptions C18_rest_parse_tidy.

(* three parameters and a return entry, prose several times longer than the width: inside both guards at
   widths 22 and 30 (the longest type line has 22 characters), not inside the nothing-wraps region *)
Example C18_rest_parse_tidy_nonvacuous :
  guard_C18_rest_tidy 22 c18_long_ir = true /\ guard_C18_rest_tidy 30 c18_long_ir = true
  /\ guard_C01_rest true c18_long_ir = true /\ guard_C01_rest false c18_long_ir = true
  /\ guard_nowrap 30 DocEmit.Rest true c18_long_ir = false
  /\ guard_C18_rest_tidy 21 c18_long_ir = false.
Proof. exact C18_rest_parse_tidy_nonvacuous_lemma. Qed.
Print Assumptions C18_rest_parse_tidy_nonvacuous.

(* ---- default sentences that the wrapper leaves whole ---- *)

(* the wider piece-wise guard contains the narrower one *)
Theorem C18_pieces_d_of_pieces : forall w i,
    guard_C18_rest_pieces w i = true -> guard_C18_rest_pieces_d w i = true.
Proof. exact pieces_d_of_pieces. Qed.
Print Assumptions C18_pieces_d_of_pieces.

Theorem C18_rest_pieces_d : forall w edd i,
    0 < w -> guard_C18_rest_pieces_d w i = true ->
    exists tw tu,
      emit_docstring w DocEmit.Rest true true i = Ok (tw, i)
      /\ emit_docstring w DocEmit.Rest false true i = Ok (tu, i)
      /\ forall du, parse_dot_docstring ng_unmodelled tu false true edd = Ok du ->
           exists dw, parse_dot_docstring ng_unmodelled tw false true edd = Ok dw
                      /\ ir_params dw = ir_params du
                      /\ same_interface_ws false du dw = true
                      /\ (forall k i0, same_interface k i0 du = true -> same_interface_ws k i0 dw = true).
Proof. exact C18_rest_pieces_d_lemma. Qed.
Print Assumptions C18_rest_pieces_d.

Theorem C18_rest_parse_d : forall w edd i,
    guard_C18_rest_parse_d w edd i = true ->
    exists tw tu dw du,
      emit_docstring w DocEmit.Rest true true i = Ok (tw, i)
      /\ emit_docstring w DocEmit.Rest false true i = Ok (tu, i)
      /\ parse_dot_docstring ng_unmodelled tw false true edd = Ok dw
      /\ parse_dot_docstring ng_unmodelled tu false true edd = Ok du
      /\ ir_params dw = ir_params du
      /\ same_interface_ws false du dw = true
      /\ same_interface edd i du = true
      /\ same_interface_ws edd i dw = true.
Proof. exact C18_rest_parse_d_lemma. Qed.
Print Assumptions C18_rest_parse_d.

Theorem C18_rest_parse_d_b : forall w edd i,
    guard_C18_rest_parse_d w edd i = true -> C18_rest_parse_at_b w edd i = true.
Proof. exact C18_rest_parse_d_b_lemma. Qed.
Print Assumptions C18_rest_parse_d_b.

(* an int default on a typed parameter, an untyped parameter, a str default, a return entry; the prose wraps at widths
   30 and 50 and the sentences stay whole; at width 42 a sentence is split and the statement fails *)
Example C18_rest_parse_d_nonvacuous :
  guard_C18_rest_parse_d 30 true c18_dflt_ir = true /\ guard_C18_rest_parse_d 30 false c18_dflt_ir = true
  /\ guard_C18_rest_parse_d 50 true c18_dflt_ir = true /\ guard_C18_rest_parse_d 50 false c18_dflt_ir = true
  /\ guard_C18_rest_parse 30 true c18_dflt_ir = false
  /\ guard_nowrap 50 DocEmit.Rest true c18_dflt_ir = false
  /\ guard_C18_rest_parse_d 42 true c18_dflt_ir = false /\ C18_rest_parse_at_b 42 false c18_dflt_ir = false.
Proof. exact C18_rest_parse_d_nonvacuous_lemma. Qed.
Print Assumptions C18_rest_parse_d_nonvacuous.

(* typed parameter, split default sentence, emit_default_doc=False: finding_class_C18 answers None, the default read
   from the wrapped text has the line break and the indent inside *)
Theorem C18_default_split_typed_witness :
  guard_C01_rest false c18_w_default_split = true
  /\ finding_class_C18 30 (E_docstring DocEmit.Rest) c18_w_default_split = None
  /\ C18_rest_parse_at_b 30 false c18_w_default_split = false
  /\ C18_rest_parse_at_b 30 true c18_w_default_split = true
  /\ guard_C18_rest_parse_d 30 false c18_w_default_split = false
  /\ (exists tw dw pw, emit_docstring 30 DocEmit.Rest true true c18_w_default_split = Ok (tw, c18_w_default_split)
                       /\ parse_dot_docstring ng_unmodelled tw false true false = Ok dw
                       /\ ir_params dw = [(L "alpha", pw)]
                       /\ g_default pw = Some (DV (VStr (L "a b c d" ++ [nl] ++ L "    e f g h")))).
Proof. exact C18_default_split_typed_witness_lemma. Qed.
Print Assumptions C18_default_split_typed_witness.

(* ---- the classifier refined by what the reader does with default sentences (model/C18Spec2.v) ---- *)

(* with a reader that keeps the sentence it is the old classifier; its guard is inside the old guard; it only ever adds
   the class default-sentence-wrapped, and only for the reader that drops the sentence *)
Theorem C18_classifier_r_keep : forall w e i, finding_class_C18_r true w e i = finding_class_C18 w e i.
Proof. exact finding_class_C18_r_keep. Qed.
Print Assumptions C18_classifier_r_keep.

Theorem C18_guard_r_inside : forall k w e i, guard_C18_r k w e i = true -> guard_C18 w e i = true.
Proof. exact guard_C18_r_inside. Qed.
Print Assumptions C18_guard_r_inside.

Theorem C18_classifier_r_adds : forall k w e i c,
    finding_class_C18_r k w e i = Some c -> finding_class_C18 w e i = Some c \/ (k = false /\ c = K18_default_wrapped).
Proof. exact finding_class_C18_r_adds. Qed.
Print Assumptions C18_classifier_r_adds.

(* the point the parse-level proof found (typed parameter, split default sentence, reader with emit_default_doc=False) *)
Theorem C18_split_typed_default_classified :
  finding_class_C18 30 (E_docstring DocEmit.Rest) c18_w_default_split = None
  /\ finding_class_C18_r false 30 (E_docstring DocEmit.Rest) c18_w_default_split = Some K18_default_wrapped
  /\ finding_class_C18_r true 30 (E_docstring DocEmit.Rest) c18_w_default_split = None
  /\ C18_rest_parse_at_b 30 false c18_w_default_split = false
  /\ C18_rest_parse_at_b 30 true c18_w_default_split = true.
Proof. exact split_typed_default_classified. Qed.
Print Assumptions C18_split_typed_default_classified.
