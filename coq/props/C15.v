(* C15: dotted locations.  Statements only; the lemmas live in proofs/LocateFacts.v, RewriteFacts.v, C15Facts.v. *)
From Coq Require Import List.
From Coq Require String.
Import String.StringSyntax.
From DT Require Import PyStr PyVal PyAst Locate C15Spec LocateFacts RewriteFacts C15Facts.
Import ListNotations.

(* the full lookup statement is false of the faithful model: a path through a nested class (C.D.z) is not found *)
Theorem C15_refuted : ~ C15_statement.
Proof. exact C15_refuted_lemma. Qed.
Print Assumptions C15_refuted.

(* completeness of the finding classes: outside every class find_in_ast on the annotated module returns exactly
   the node (same tree position, same content) that the independent resolver names, or None when there is none;
   modules of any size and nesting *)
Theorem C15_partial : forall m q, guard_C15 m q = true -> C15_find_at m q.
Proof. exact C15_partial_lemma. Qed.
Print Assumptions C15_partial.

(* RewriteAtQuery, any annotated tree, any search, any replacement node: a visit that returns replaces nothing
   (then nothing addressed was there, and the tree is the same up to same_mod_defaults) or exactly one position,
   the first in visit order whose _location matches, every other position unchanged *)
Theorem C15_rewrite_frame_thm : C15_rewrite_frame.
Proof. exact C15_rewrite_frame_lemma. Qed.
Print Assumptions C15_rewrite_frame_thm.

(* "replaces the node at the location": false in general ... *)
Theorem C15_rewrite_refuted : ~ C15_rewrite_statement.
Proof. exact C15_rewrite_refuted_lemma. Qed.
Print Assumptions C15_rewrite_refuted.

(* ... true exactly inside rw_guard_C15: the replaced position is the position of resolve q m *)
Theorem C15_rewrite_partial : forall m q repl m' st,
    q <> [] -> rw_guard_C15 m q = true ->
    rewrite_visit q repl (annotate m) = Ok (NMod m', st) ->
    match resolve q m with
    | Some (p, _) => rw_replaced st = true /\ replaced_first q (rw_node st) p (annotate m) m'
    | None => rw_replaced st = false /\ Forall2 (same_mod_defaults q) (annotate m) m'
    end.
Proof. exact C15_rewrite_partial_lemma. Qed.
Print Assumptions C15_rewrite_partial.

(* further refutation witnesses, one per defect *)
Theorem C15_depth3_not_found :
  find_view [L "C"; L "D"; L "z"] [w_C] = Ok None
  /\ option_map fst (resolve [L "C"; L "D"; L "z"] [w_C]) = Some [0; 2; 0].
Proof. exact C15_refuted_depth3. Qed.
Print Assumptions C15_depth3_not_found.

Theorem C15_annotated_assignment_prefix :
  find_view [L "attr"; L "y"] [SAnnAssign (EName (L "attr")) (EName (L "int")) None]
  = Ok (Some ([0], PStmt (SAnnAssign (EName (L "attr")) (EName (L "int")) None)))
  /\ resolve [L "attr"; L "y"] [SAnnAssign (EName (L "attr")) (EName (L "int")) None] = None.
Proof. exact C15_refuted_annassign_prefix. Qed.
Print Assumptions C15_annotated_assignment_prefix.

(* regression lemmas for the defects fixed in /repo 6d00342 *)
Theorem C15_function_before_class_resolves :
  find_view [L "C"; L "method"] [w_helper; w_C] = Ok (resolve [L "C"; L "method"] [w_helper; w_C])
  /\ find_view [L "C"; L "method"; L "a"] [w_helper; w_C] = Ok (resolve [L "C"; L "method"; L "a"] [w_helper; w_C])
  /\ option_map fst (resolve [L "C"; L "method"; L "a"] [w_helper; w_C]) = Some [1; 1; 0; 1].
Proof. exact C15_regression_function_before_class. Qed.
Print Assumptions C15_function_before_class_resolves.

Theorem C15_keyword_only_found :
  find_view [L "C"; L "method"; L "k"] [w_C] = Ok (resolve [L "C"; L "method"; L "k"] [w_C])
  /\ option_map fst (resolve [L "C"; L "method"; L "k"] [w_C]) = Some [0; 1; 1; 0].
Proof. exact C15_regression_kwonly. Qed.
Print Assumptions C15_keyword_only_found.

Theorem C15_same_name_collision :
  first_hit_list [L "D"; L "z"] (annotate [w_C; w_D2]) = Some [0; 2; 0]
  /\ option_map fst (resolve [L "D"; L "z"] [w_C; w_D2]) = Some [1; 0].
Proof. exact C15_rewrite_refuted_collision. Qed.
Print Assumptions C15_same_name_collision.

(* class-free corollaries *)
Theorem C15_toplevel_names : forall m x,
    supported m = true -> forallb assign_ok m = true -> C15_find_at m [x].
Proof. exact C15_toplevel. Qed.
Print Assumptions C15_toplevel_names.

Theorem C15_function_argument : forall m x y pre args body d r post,
    supported m = true -> split_member x m = Some (pre, SFunc x args body d r, post) ->
    C15_find_at m [x; y].
Proof. exact C15_function_arg. Qed.
Print Assumptions C15_function_argument.

Theorem C15_class_method_argument : forall m x y z pre bs body d post pre' args body' d' r' post',
    supported m = true ->
    split_member x m = Some (pre, SClass x bs body d, post) ->
    split_member y body = Some (pre', SFunc y args body' d' r', post') ->
    C15_find_at m [x; y; z].
Proof. exact C15_class_method_arg. Qed.
Print Assumptions C15_class_method_argument.

Example C15_nonvacuous :
  guard_C15 [w_helper; w_C] [L "C"; L "method"; L "a"] = true
  /\ guard_C15 [w_helper; w_C] [L "C"; L "method"; L "k"] = true
  /\ guard_C15 [w_helper; w_C] [L "helper"; L "nope"] = true
  /\ guard_C15 [w_C; w_helper] [L "C"; L "method"; L "a"] = true
  /\ guard_C15 [w_C; w_helper] [L "C"; L "attr"] = true
  /\ guard_C15 [w_C; w_helper] [L "C"] = true
  /\ guard_C15 [w_C; w_helper] [L "C"; L "nope"] = true
  /\ rw_guard_C15 [w_C; w_helper] [L "C"; L "method"; L "k"] = true
  /\ resolve [L "C"; L "method"; L "a"] [w_C; w_helper] = Some ([0; 1; 0; 1], PArg (mkArg (L "a") None)).
Proof. exact C15_nonvacuous_lemma. Qed.
Print Assumptions C15_nonvacuous.
