(* C11: structure preserved.  File granularity unconditionally; inside a file from the laws REWRITE_FRAME
   and RENDER_PARSE.  Statements only; the lemmas live in proofs/FSFacts.v and proofs/SyncFacts.v. *)
From Coq Require Import List Ascii Bool Arith Relations.
From Coq Require String.
Import String.StringSyntax.
From DT Require Import PyStr Sexp PyVal PureUtils FS Sync Cli PyStrFacts FSFacts SyncFacts CliFacts.
Import ListNotations.

(* a path that is neither a listed file nor the temporary name of one is unchanged *)
Theorem C11_only_targets :
    forall (node tree irT opts : Type) (emit_k : kind -> irT -> opts -> outcome node)
      (parse_file : path -> bytes -> outcome tree) (find : list str -> tree -> option node)
      (rewrite : list str -> node -> tree -> tree * bool) (cmp : node -> node -> bool)
      (render_node : node -> outcome bytes) (render_tree : tree -> outcome bytes)
      (opts_of : option node -> list str -> kind -> opts) (type_ok : kind -> node -> bool)
      (parse_truth : kind -> option node -> list str -> outcome irT) (fs : fsys) 
      (a : sync_args) (truth : path) (faults : path -> fault) (fs' : fsys)
      (r : outcome (list (path * bool))) (pr : list str) (p : path),
    ground_truth emit_k parse_file find rewrite cmp render_node render_tree opts_of type_ok
      parse_truth fs a truth faults = (fs', r, pr) ->
    ~ In p (targets a) ->
    (forall t : path, In t (targets a) -> p <> tmp_of t) -> fs_get p fs' = fs_get p fs.
Proof. exact ground_truth_only_targets. Qed.
Print Assumptions C11_only_targets.

(* one call: only the file and its temporary name can change *)
Theorem C11_conform_frame :
    forall (node tree irT opts : Type) (emit_k : kind -> irT -> opts -> outcome node)
      (parse_file : path -> bytes -> outcome tree) (find : list str -> tree -> option node)
      (rewrite : list str -> node -> tree -> tree * bool) (cmp : node -> node -> bool)
      (render_node : node -> outcome bytes) (render_tree : tree -> outcome bytes)
      (opts_of : option node -> list str -> kind -> opts) (type_ok : kind -> node -> bool)
      (fs : fsys) (file : path) (search : list str) (k : kind) (ir : irT) 
      (f : fault) (fs' : fsys) (r : outcome bool) (pr : list str),
    conform emit_k parse_file find rewrite cmp render_node render_tree opts_of type_ok fs file search
      k ir f = (fs', r, pr) ->
    forall p : path, p <> file -> p <> tmp_of file -> fs_get p fs' = fs_get p fs.
Proof. exact conform_frame. Qed.
Print Assumptions C11_conform_frame.

(* append mode: old text, at most one newline, then the new text *)
Theorem C11_append_prefix :
    forall (fs : fsys) (file : path) (src old : bytes),
    fs_get file fs = Some old ->
    exists sep : list ascii, (sep = [] \/ sep = [nl]) /\ intended fs file Ap src = old ++ sep ++ src.
Proof. exact intended_append_prefix. Qed.
Print Assumptions C11_append_prefix.

(* the append branch of conform keeps the old text as a prefix *)
Theorem C11_append_keeps_old :
    forall (node tree irT opts : Type) (emit_k : kind -> irT -> opts -> outcome node)
      (parse_file : path -> bytes -> outcome tree) (find : list str -> tree -> option node)
      (rewrite : list str -> node -> tree -> tree * bool) (cmp : node -> node -> bool)
      (render_node : node -> outcome bytes) (render_tree : tree -> outcome bytes)
      (opts_of : option node -> list str -> kind -> opts) (type_ok : kind -> node -> bool)
      (fs : fsys) (file : path) (search : list str) (k : kind) (ir : irT) 
      (f : fault) (fs' : fsys) (pr : list str) (old : bytes) (t : tree),
    conform emit_k parse_file find rewrite cmp render_node render_tree opts_of type_ok fs file search
      k ir f = (fs', Ok true, pr) ->
    fs_get file fs = Some old ->
    parse_file file old = Ok t ->
    find search t = None ->
    exists sep src : list ascii,
      (sep = [] \/ sep = [nl]) /\ fs_get file fs' = Some (old ++ sep ++ src).
Proof. exact conform_append_keeps_old. Qed.
Print Assumptions C11_append_keeps_old.

(* the replaced branch: the new bytes parse to a tree equal to the old one everywhere else *)
Theorem C11_replaced_keeps_others :
    forall (node tree irT opts : Type) (emit_k : kind -> irT -> opts -> outcome node)
      (parse_file : path -> bytes -> outcome tree) (find : list str -> tree -> option node)
      (rewrite : list str -> node -> tree -> tree * bool) (cmp : node -> node -> bool)
      (render_node : node -> outcome bytes) (render_tree : tree -> outcome bytes)
      (opts_of : option node -> list str -> kind -> opts) (type_ok : kind -> node -> bool) 
      (X : Type) (others : list str -> tree -> list X),
    REWRITE_FRAME_law node tree rewrite X others ->
    RENDER_PARSE_law tree parse_file render_tree ->
    forall (fs : fsys) (file : path) (search : list str) (k : kind) (ir : irT) 
      (f : fault) (fs' : fsys) (pr : list str) (content : bytes) (t : tree) 
      (o : node),
    conform emit_k parse_file find rewrite cmp render_node render_tree opts_of type_ok fs file search
      k ir f = (fs', Ok true, pr) ->
    fs_get file fs = Some content ->
    parse_file file content = Ok t ->
    find search t = Some o ->
    exists (content' : bytes) (t' : tree),
      fs_get file fs' = Some content' /\
      parse_file file content' = Ok t' /\ others search t' = others search t.
Proof. exact conform_replaced_keeps_others. Qed.
Print Assumptions C11_replaced_keeps_others.
