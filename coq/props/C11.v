(* C11: structure preserved.  File granularity unconditionally; inside a file from the laws REWRITE_FRAME
   and RENDER_PARSE.  Statements only; the lemmas live in proofs/FSFacts.v and proofs/SyncFacts.v. *)
From Coq Require Import List Ascii Bool Arith Relations.
From Coq Require String.
Import String.StringSyntax.
From DT Require Import PyAst Locate C15Spec LocateFacts RewriteFacts C15Facts SyncLocate.
From DT Require Import PyStr Sexp PyVal PureUtils FS Sync Cli PyStrFacts FSFacts SyncFacts CliFacts.
Import ListNotations.

(* a path that is neither a listed file nor the temporary name of one is unchanged *)
Theorem C11_only_targets :
    forall (node tree irT opts : Type) (emit_k : kind -> irT -> opts -> outcome node)
      (parse_file : path -> bytes -> outcome tree) (find : list str -> tree -> option node)
      (rewrite : list str -> node -> tree -> tree * bool) (cmp : node -> node -> bool)
      (render_node : node -> outcome bytes) (render_tree : tree -> outcome bytes)
      (opts_of : option node -> list str -> kind -> opts) (type_ok : kind -> node -> bool)
      (parse_truth : kind -> option node -> list str -> outcome irT) (fs : fsys) 
      (a : sync_args) (truth : path) (faults : path -> fault) (fs' : fsys)
      (r : outcome (list (path * bool))) (pr : list str) (p : path),
    ground_truth emit_k parse_file find rewrite cmp render_node render_tree opts_of type_ok
      parse_truth fs a truth faults = (fs', r, pr) ->
    ~ In p (targets a) ->
    (forall t : path, In t (targets a) -> p <> tmp_of t) -> fs_get p fs' = fs_get p fs.
Proof. exact ground_truth_only_targets. Qed.
Print Assumptions C11_only_targets.

(* one call: only the file and its temporary name can change *)
Theorem C11_conform_frame :
    forall (node tree irT opts : Type) (emit_k : kind -> irT -> opts -> outcome node)
      (parse_file : path -> bytes -> outcome tree) (find : list str -> tree -> option node)
      (rewrite : list str -> node -> tree -> tree * bool) (cmp : node -> node -> bool)
      (render_node : node -> outcome bytes) (render_tree : tree -> outcome bytes)
      (opts_of : option node -> list str -> kind -> opts) (type_ok : kind -> node -> bool)
      (fs : fsys) (file : path) (search : list str) (k : kind) (ir : irT) 
      (f : fault) (fs' : fsys) (r : outcome bool) (pr : list str),
    conform emit_k parse_file find rewrite cmp render_node render_tree opts_of type_ok fs file search
      k ir f = (fs', r, pr) ->
    forall p : path, p <> file -> p <> tmp_of file -> fs_get p fs' = fs_get p fs.
Proof. exact conform_frame. Qed.
Print Assumptions C11_conform_frame.

(* append mode: old text, at most one newline, then the new text *)
Theorem C11_append_prefix :
    forall (fs : fsys) (file : path) (src old : bytes),
    fs_get file fs = Some old ->
    exists sep : list ascii, (sep = [] \/ sep = [nl]) /\ intended fs file Ap src = old ++ sep ++ src.
Proof. exact intended_append_prefix. Qed.
Print Assumptions C11_append_prefix.

(* the append branch of conform keeps the old text as a prefix *)
Theorem C11_append_keeps_old :
    forall (node tree irT opts : Type) (emit_k : kind -> irT -> opts -> outcome node)
      (parse_file : path -> bytes -> outcome tree) (find : list str -> tree -> option node)
      (rewrite : list str -> node -> tree -> tree * bool) (cmp : node -> node -> bool)
      (render_node : node -> outcome bytes) (render_tree : tree -> outcome bytes)
      (opts_of : option node -> list str -> kind -> opts) (type_ok : kind -> node -> bool)
      (fs : fsys) (file : path) (search : list str) (k : kind) (ir : irT) 
      (f : fault) (fs' : fsys) (pr : list str) (old : bytes) (t : tree),
    conform emit_k parse_file find rewrite cmp render_node render_tree opts_of type_ok fs file search
      k ir f = (fs', Ok true, pr) ->
    fs_get file fs = Some old ->
    parse_file file old = Ok t ->
    find search t = None ->
    exists sep src : list ascii,
      (sep = [] \/ sep = [nl]) /\ fs_get file fs' = Some (old ++ sep ++ src).
Proof. exact conform_append_keeps_old. Qed.
Print Assumptions C11_append_keeps_old.

(* the replaced branch: the new bytes parse to a tree equal to the old one everywhere else *)
Theorem C11_replaced_keeps_others :
    forall (node tree irT opts : Type) (emit_k : kind -> irT -> opts -> outcome node)
      (parse_file : path -> bytes -> outcome tree) (find : list str -> tree -> option node)
      (rewrite : list str -> node -> tree -> tree * bool) (cmp : node -> node -> bool)
      (render_node : node -> outcome bytes) (render_tree : tree -> outcome bytes)
      (opts_of : option node -> list str -> kind -> opts) (type_ok : kind -> node -> bool) 
      (X : Type) (others : list str -> tree -> list X),
    REWRITE_FRAME_law node tree rewrite X others ->
    RENDER_PARSE_law tree parse_file render_tree ->
    forall (fs : fsys) (file : path) (search : list str) (k : kind) (ir : irT) 
      (f : fault) (fs' : fsys) (pr : list str) (content : bytes) (t : tree) 
      (o : node),
    conform emit_k parse_file find rewrite cmp render_node render_tree opts_of type_ok fs file search
      k ir f = (fs', Ok true, pr) ->
    fs_get file fs = Some content ->
    parse_file file content = Ok t ->
    find search t = Some o ->
    exists (content' : bytes) (t' : tree),
      fs_get file fs' = Some content' /\
      parse_file file content' = Ok t' /\ others search t' = others search t.
Proof. exact conform_replaced_keeps_others. Qed.
Print Assumptions C11_replaced_keeps_others.

(* ---- the tree layer instantiated with the Locate model (proofs/SyncLocate.v, from the C15 theorems) ---- *)
(* the frame law discharged for RewriteAtQuery: every tree, search and replacement node, no guard (reference = tree before) *)
Theorem C11_locate_rewrite_frame :
    REWRITE_FRAME_REF_law anode amodule astmt loc_rewrite others_ref.
Proof. exact loc_rewrite_frame. Qed.
Print Assumptions C11_locate_rewrite_frame.

(* the abstract theorem with the tree before as reference *)
Theorem C11_replaced_keeps_others_ref :
    forall (node tree irT opts X : Type) (emit_k : kind -> irT -> opts -> outcome node)
      (parse_file : path -> bytes -> outcome tree) (find : list str -> tree -> option node)
      (rewrite : list str -> node -> tree -> tree * bool) (cmp : node -> node -> bool)
      (render_node : node -> outcome bytes) (render_tree : tree -> outcome bytes)
      (opts_of : option node -> list str -> kind -> opts) (type_ok : kind -> node -> bool)
      (others : tree -> list str -> tree -> list X),
    REWRITE_FRAME_REF_law node tree X rewrite others ->
    RENDER_PARSE_law tree parse_file render_tree ->
    forall (fs : fsys) (file : path) (search : list str) (k : kind) (ir : irT) 
      (f : fault) (fs' : fsys) (pr : list str) (content : bytes) (t : tree) 
      (o : node),
    conform emit_k parse_file find rewrite cmp render_node render_tree opts_of type_ok fs file search
      k ir f = (fs', Ok true, pr) ->
    fs_get file fs = Some content ->
    parse_file file content = Ok t ->
    find search t = Some o ->
    exists (content' : bytes) (t' : tree) (n : node),
      fs_get file fs' = Some content' /\
      parse_file file content' = Ok t' /\
      emit_k k ir (opts_of (Some o) search k) = Ok n /\
      rewrite search n t = (t', true) /\ others t search t' = others t search t.
Proof. exact conform_replaced_keeps_others_ref. Qed.
Print Assumptions C11_replaced_keeps_others_ref.

(* over the Locate layer: a replacement keeps every other top-level statement; only RENDER_PARSE is assumed *)
Theorem C11_sync_replace_keeps_other_statements :
    forall (irT opts : Type) (emit_k : kind -> irT -> opts -> outcome anode)
      (parse_file : path -> bytes -> outcome amodule) (cmp : anode -> anode -> bool)
      (render_node : anode -> outcome bytes) (render_tree : amodule -> outcome bytes)
      (opts_of : option anode -> list str -> kind -> opts) (type_ok : kind -> anode -> bool),
    RENDER_PARSE_law amodule parse_file render_tree ->
    forall (fs : fsys) (file : path) (search : list str) (k : kind) (ir : irT) 
      (f : fault) (fs' : fsys) (pr : list str) (content : bytes) (t : amodule) 
      (o : anode),
    conform emit_k parse_file loc_find loc_rewrite cmp render_node render_tree opts_of type_ok fs
      file search k ir f = (fs', Ok true, pr) ->
    fs_get file fs = Some content ->
    parse_file file content = Ok t ->
    loc_find search t = Some o ->
    exists (content' : bytes) (t' : amodule),
      fs_get file fs' = Some content' /\
      parse_file file content' = Ok t' /\ others_ref t search t' = others_ref t search t.
Proof. exact sync_replace_keeps_other_statements. Qed.
Print Assumptions C11_sync_replace_keeps_other_statements.

(* inside rw_guard_C15 the one position that changed is the position of resolve *)
Theorem C11_sync_replace_preserves_other_statements :
    forall (irT opts : Type) (emit_k : kind -> irT -> opts -> outcome anode)
      (parse_file : path -> bytes -> outcome amodule) (cmp : anode -> anode -> bool)
      (render_node : anode -> outcome bytes) (render_tree : amodule -> outcome bytes)
      (opts_of : option anode -> list str -> kind -> opts) (type_ok : kind -> anode -> bool),
    RENDER_PARSE_law amodule parse_file render_tree ->
    forall (fs : fsys) (file : path) (search : list str) (k : kind) (ir : irT) 
      (f : fault) (fs' : fsys) (pr : list str) (content : bytes) (m : module) 
      (o : anode),
    conform emit_k parse_file loc_find loc_rewrite cmp render_node render_tree opts_of type_ok fs
      file search k ir f = (fs', Ok true, pr) ->
    fs_get file fs = Some content ->
    parse_file file content = Ok (annotate m) ->
    loc_find search (annotate m) = Some o ->
    rw_guard_C15 m search = true ->
    exists (content' : bytes) (t' : amodule) (p : Locate.path) (pn : pnode) 
    (r : anode),
      fs_get file fs' = Some content' /\
      parse_file file content' = Ok t' /\
      resolve search m = Some (p, pn) /\
      replaced_first search r p (annotate m) t' /\
      others_ref (annotate m) search t' = others_ref (annotate m) search (annotate m).
Proof. exact sync_replace_preserves_other_statements. Qed.
Print Assumptions C11_sync_replace_preserves_other_statements.

(* a FunctionDef statement is never swapped for the replacement node *)
Theorem C11_visit_keeps_function :
    forall (q : loc) (st : rw_state) (i : Locate.path) (l : option loc) (n : str) 
      (a : aarguments) (b : list astmt) (d : list expr) (r : option expr) 
      (s' : astmt) (st' : rw_state),
    visit_stmt q st (AFunc i l n a b d r) = Ok (s', st') ->
    exists a' : aarguments, s' = AFunc i l n a' b d r.
Proof. exact visit_keeps_function. Qed.
Print Assumptions C11_visit_keeps_function.
