(* NOTE: the FOLLOW-UP section at the end of this file closes the function targets (the bullet on RT_at KFunction below is
   superseded there) and adds the install phase. *)
(* C09Ext -- additions to props/C09.v (to be merged by the integrator): the last step of the property's own wording.
   props/C09.v proves that after a successful fault-free run every target is `stable` (found at its location and equal,
   to cmp, to the re-emission of the truth).  Here the emit / parse / compare layers are INSTANTIATED
   (model/C09Instance.v: emit_k := the EmitAst emitters with the docstring text composed as in C02DocLinkDefs /
   C03DocLinkDefs / DocEmit.emit_docstring and the options _default_options yields; cmp := equality of the PyAst tree
   with the emitted node or with its written form, which is what cmp_ast(o, n) or cmp_ast(o, _as_written(n)) decides on
   the modelled fragment; the per-kind parser := ParseAst.parse_class / parse_argparse_ast / ParseSig.parse_function
   applied to the NODE, its docstring read from the node) and composed with the round-trip theorems of the converter
   layers: a stable target, WHEN PARSED with the parser of its kind, yields an IR with the same interface as the truth
   IR (same parameter names, order, types, prose, defaults: C02Spec.same_interface; for argparse
   C04Spec.same_interface_argparse, which adds the description).  Statements closed by `exact` only; lemmas in
   proofs/C09Interface.v.

   PROVED here, for every tree layer (tree, parse_file, find, rewrite, render_node, render_tree), every parse_truth,
   every line width w and parse table pt, any number of parameters, any pre-state of the target files:
   - class targets: closed.  Inside guard_C09_class w ir = guard_C02_ast ir && doc_link_ok w false true ir (the guard
     of C02_partial and the side condition of C02_partial_closed at the options conformance uses) the emitted class
     parsed at the node has the interface of ir (C09_class_round_trip_node; the docstring constant of the emitted class
     is shown to be class_docstring text, i.e. set_value's quote stripping does not touch it), hence so has every
     stable class target (C09_stable_class_target_same_interface) and every class target after a successful
     fault-free run under FIX and REPLACES (C09_interface_agreement), or under FIX alone: that, or the rewriter
     declined a found definition that differs (C09_interface_agreement_settled);
   - argparse targets: the same from C04_partial, inside guard_C09_argparse w pt ir = guard_C04_ast ir
     && argparse_wrap_neutral pt ir && argparse_doc_layer_ok w ir, for a name whose last component is not empty.
     argparse_wrap_neutral (every add_argument call is the same with word_wrap on, the option conformance leaves
     on while C04_partial is stated for off) is NEEDED: C09_argparse_wrap_needed (a help text longer than the line
     comes back with a line break; same on the real code).  argparse_doc_layer_ok (the fixed docstring of the argparse
     function is emitted and read back without raising) and the non-empty name are limits of the proof (C04_partial is
     stated for a non-empty function name; no failing input is known);
   - any kind, function targets included: from the round trip of that kind at the truth IR as a named premise
     RT_at (last conjunct of C09_interface_agreement).

   NOT proved here (premises that stay abstract, stated precisely):
   - WRITTEN_PARSE_law as_written w pt it ww k: the parser of kind k reads from _as_written(n) =
     ast_parse(black.format_str(to_code(Module([n])))).body[0] what it reads from the emitted node n.  There is no
     model of black / ast.unparse / ast.parse of a whole definition, so as_written is a parameter.  The stronger law
     RENDER_PARSE (ast.unparse + black then ast.parse is the identity on the tree, i.e. as_written n = n) would give it
     at once but is FALSE of the real code on docstrings (black re-indents them; that is why conformance compares with
     the written form at all); on this interpreter (3.12) the found node never equals the emitted one in cmp_ast
     (parsed nodes carry type_params, emitted ones do not), so the second disjunct is the one that holds in practice.
     For class and argparse targets the premise is reduced to a structural one (C09_written_form_class,
     C09_written_form_argparse): the written form differs from the node in the docstring constant only and both
     constants clean to the same docstring-derived IR (argparse: and no statement  return (..., ...)  follows);
   - FIX and REPLACES for the instantiated emit / cmp over an abstract tree layer remain hypotheses (FIX needs
     RENDER_PARSE-like facts about files; REPLACES is false of the Locate rewriter on FunctionDef targets,
     props/C09.v C09_REPLACES_refuted -- for those only C09_interface_agreement_settled applies);
   - the round trip of function targets at the node (RT_at KFunction): props/C03.v / C03Ext.v prove emit.function ->
     ast.unparse -> ast.parse -> parse.function for the fixed name f through C03Spec.reparse_stmt; to compose one
     needs that the emitted function is a fixed point of reparse_stmt and any function name.  The instance composes
     (C09_function_target_point: a computed point);
   - that real cmp_ast is at least as fine as equality of the modelled tree (it compares every _field, the model's
     stmt is a function of the fields): only this direction is used;
   - the tree layer is not instantiated here (node := PyAst.stmt; proofs/SyncLocate.v works on annotated nodes). *)
From Coq Require Import List Ascii Bool Arith ZArith.
From Coq Require String.
Import String.StringSyntax.
From DT Require Import PyStr Sexp PyVal PureUtils Defaults PyAst IR FS Sync SyncFacts.
From DT Require Import EmitAst ParseAst C02Spec C02Codec C02DocLinkDefs C04Spec C04Codec C09Instance C09Interface.
Import ListNotations.

(* cmp of the instance decides equality of trees: with the emitted node, or with its written form *)
Theorem C09_cmp_is_tree_equality : forall (aw : stmt -> stmt) (o n : stmt),
    cmp_inst aw o n = true -> o = n \/ o = aw n.
Proof. exact cmp_inst_true. Qed.
Print Assumptions C09_cmp_is_tree_equality.

(* emit.class_ -> parse.class_ AT THE NODE (docstring read from the node), no docstring hypothesis, at the options
   conformance uses; any class name, width, parse table, infer_type / word_wrap of the parser *)
Theorem C09_class_round_trip_node : forall (w : nat) (pt : ptable) (i : ir) (cn : str) (it ww : bool),
    guard_C09_class w i = true ->
    exists n i',
      emit_class_inst w pt i cn = Ok n
      /\ parse_class_node it ww n = Ok i'
      /\ ir_params i' = norm_params_C02 (ir_params i)
      /\ ir_returns i' = norm_returns_C02 (ir_returns i)
      /\ same_interface i i' = true.
Proof. exact class_round_trip_node. Qed.
Print Assumptions C09_class_round_trip_node.

(* emit.argparse_function -> parse.argparse_ast at the node, with word_wrap on as conformance calls it *)
Theorem C09_argparse_round_trip_node : forall (w : nat) (pt : ptable) (i : ir) (fc : ascii) (fr : str)
                                              (tc : ascii) (tr : str),
    guard_C09_argparse w pt i = true ->
    exists n i',
      emit_argparse_inst w pt i (fc :: fr) (Some (tc :: tr)) = Ok n
      /\ parse_argparse_node n = Ok i'
      /\ ir_params i' = norm_params_C04 false (ir_params i)
      /\ ir_doc i' = ir_doc i
      /\ same_interface_argparse (argparse_type_norm i) i' = true.
Proof. exact argparse_round_trip_node. Qed.
Print Assumptions C09_argparse_round_trip_node.

(* the step, any kind: stable + round trip at the truth IR + the written-form premise => the target, parsed, has the
   interface of the truth *)
Theorem C09_stable_target_same_interface :
    forall (tree : Type) (parse_file : path -> bytes -> outcome tree) (find : list str -> tree -> option stmt)
      (as_written : stmt -> stmt) (w : nat) (pt : ptable) (it ww : bool) (k : kind) (fs : fsys) (file : path)
      (search : list str) (i : ir),
    WRITTEN_PARSE_law as_written w pt it ww k ->
    RT_at w pt it ww k search i ->
    stable stmt tree ir sync_opts (emit_inst w pt) parse_file find (cmp_inst as_written) opts_inst type_ok_inst
           fs file search k i ->
    agrees_at tree parse_file find it ww fs file search k i.
Proof. exact stable_agrees_gen. Qed.
Print Assumptions C09_stable_target_same_interface.

(* class targets: the round trip is a theorem *)
Theorem C09_stable_class_target_same_interface :
    forall (tree : Type) (parse_file : path -> bytes -> outcome tree) (find : list str -> tree -> option stmt)
      (as_written : stmt -> stmt) (w : nat) (pt : ptable) (it ww : bool) (fs : fsys) (file : path)
      (search : list str) (i : ir),
    WRITTEN_PARSE_law as_written w pt it ww KClass ->
    guard_C09_class w i = true ->
    stable stmt tree ir sync_opts (emit_inst w pt) parse_file find (cmp_inst as_written) opts_inst type_ok_inst
           fs file search KClass i ->
    agrees_at tree parse_file find it ww fs file search KClass i.
Proof. exact stable_class_target_same_interface. Qed.
Print Assumptions C09_stable_class_target_same_interface.

(* argparse targets *)
Theorem C09_stable_argparse_target_same_interface :
    forall (tree : Type) (parse_file : path -> bytes -> outcome tree) (find : list str -> tree -> option stmt)
      (as_written : stmt -> stmt) (w : nat) (pt : ptable) (it ww : bool) (fs : fsys) (file : path)
      (search : list str) (i : ir),
    WRITTEN_PARSE_law as_written w pt it ww KArgparse ->
    guard_C09_argparse w pt i = true ->
    last search (default_name KArgparse) <> [] ->
    stable stmt tree ir sync_opts (emit_inst w pt) parse_file find (cmp_inst as_written) opts_inst type_ok_inst
           fs file search KArgparse i ->
    agrees_at tree parse_file find it ww fs file search KArgparse i.
Proof. exact stable_argparse_target_same_interface. Qed.
Print Assumptions C09_stable_argparse_target_same_interface.

(* the written-form premise for class targets, reduced: a node that differs in the docstring constant only, both
   constants read as the same docstring-derived IR, is parsed alike *)
Theorem C09_written_form_class : forall (as_written : stmt -> stmt) (w : nat) (pt : ptable) (it ww : bool),
    (forall a b, class_doc_equiv a b -> parse_class_node it ww a = parse_class_node it ww b)
    /\ ((forall i o n, emit_inst w pt KClass i o = Ok n -> class_doc_equiv (as_written n) n) ->
        WRITTEN_PARSE_law as_written w pt it ww KClass).
Proof. exact written_form_class. Qed.
Print Assumptions C09_written_form_class.

(* the same reduction for argparse targets: parse.argparse_ast uses the docstring constant through the docstring-derived
   IR, and through its text only at a statement  return (..., ...) *)
Theorem C09_written_form_argparse : forall (as_written : stmt -> stmt) (w : nat) (pt : ptable) (it ww : bool),
    (forall i o n, emit_inst w pt KArgparse i o = Ok n -> argparse_doc_equiv (as_written n) n) ->
    WRITTEN_PARSE_law as_written w pt it ww KArgparse.
Proof. exact written_form_argparse. Qed.
Print Assumptions C09_written_form_argparse.

(* the property's wording: under FIX and REPLACES for the instantiated layers, after a successful fault-free run, the
   truth still converts to the same IR i and, for every named target of a closed kind whose guard i meets, the file
   holds at the target's location a definition whose parse has the interface of i -- whatever the files held before *)
Theorem C09_interface_agreement :
    forall (tree : Type) (parse_file : path -> bytes -> outcome tree) (find : list str -> tree -> option stmt)
      (as_written : stmt -> stmt) (w : nat) (pt : ptable) (it ww : bool)
      (rewrite : list str -> stmt -> tree -> tree * bool)
      (render_node : stmt -> outcome bytes) (render_tree : tree -> outcome bytes)
      (parse_truth : kind -> option stmt -> list str -> outcome ir),
    FIX_law stmt tree ir sync_opts (emit_inst w pt) parse_file find rewrite (cmp_inst as_written) render_node
            render_tree opts_inst type_ok_inst ->
    REPLACES_law stmt tree find rewrite ->
    forall (fs : fsys) (a : sync_args) (truth : path) (fs1 : fsys) (eff : list (path * bool)) (pr : list str),
    sync_args_ok a truth ->
    ground_truth (emit_inst w pt) parse_file find rewrite (cmp_inst as_written) render_node render_tree opts_inst
                 type_ok_inst parse_truth fs a truth NoFaults = (fs1, Ok eff, pr) ->
    exists i : ir,
      truth_ir stmt tree ir parse_file find parse_truth fs1 a truth = Ok i
      /\ truth_ir stmt tree ir parse_file find parse_truth fs a truth = Ok i
      /\ (WRITTEN_PARSE_law as_written w pt it ww KClass ->
          guard_C09_class w i = true -> targets_agree tree parse_file find it ww fs1 a truth KClass i)
      /\ (WRITTEN_PARSE_law as_written w pt it ww KArgparse ->
          guard_C09_argparse w pt i = true -> name_ends_named a KArgparse ->
          targets_agree tree parse_file find it ww fs1 a truth KArgparse i)
      /\ (forall k : kind,
          WRITTEN_PARSE_law as_written w pt it ww k ->
          (forall nm, name_of a k = Ok nm -> RT_at w pt it ww k (strip_split [ch 46] nm) i) ->
          targets_agree tree parse_file find it ww fs1 a truth k i).
Proof. exact interface_agreement. Qed.
Print Assumptions C09_interface_agreement.

(* from FIX alone: every such target agrees, or is a found definition that differs and that the rewriter declined *)
Theorem C09_interface_agreement_settled :
    forall (tree : Type) (parse_file : path -> bytes -> outcome tree) (find : list str -> tree -> option stmt)
      (as_written : stmt -> stmt) (w : nat) (pt : ptable) (it ww : bool)
      (rewrite : list str -> stmt -> tree -> tree * bool)
      (render_node : stmt -> outcome bytes) (render_tree : tree -> outcome bytes)
      (parse_truth : kind -> option stmt -> list str -> outcome ir),
    FIX_law stmt tree ir sync_opts (emit_inst w pt) parse_file find rewrite (cmp_inst as_written) render_node
            render_tree opts_inst type_ok_inst ->
    forall (fs : fsys) (a : sync_args) (truth : path) (fs1 : fsys) (eff : list (path * bool)) (pr : list str),
    sync_args_ok a truth ->
    ground_truth (emit_inst w pt) parse_file find rewrite (cmp_inst as_written) render_node render_tree opts_inst
                 type_ok_inst parse_truth fs a truth NoFaults = (fs1, Ok eff, pr) ->
    exists i : ir,
      truth_ir stmt tree ir parse_file find parse_truth fs1 a truth = Ok i
      /\ (WRITTEN_PARSE_law as_written w pt it ww KClass ->
          guard_C09_class w i = true ->
          targets_settle tree parse_file find as_written w pt it ww rewrite fs1 a truth KClass i)
      /\ (WRITTEN_PARSE_law as_written w pt it ww KArgparse ->
          guard_C09_argparse w pt i = true -> name_ends_named a KArgparse ->
          targets_settle tree parse_file find as_written w pt it ww rewrite fs1 a truth KArgparse i)
      /\ (forall k : kind,
          WRITTEN_PARSE_law as_written w pt it ww k ->
          (forall nm, name_of a k = Ok nm -> RT_at w pt it ww k (strip_split [ch 46] nm) i) ->
          targets_settle tree parse_file find as_written w pt it ww rewrite fs1 a truth k i).
Proof. exact interface_agreement_settled. Qed.
Print Assumptions C09_interface_agreement_settled.

(* non-vacuity: a truth with three parameters, each with a default, and a class target -- inside the guard; a file
   system whose target file holds the emitted class is stable, so the theorem applies; what the parser reads *)
Theorem C09_class_target_example :
  guard_C09_class 100 ir9 = true
  /\ agrees_at (list stmt) Toy9.parse_file Toy9.find false true Toy9.fs (L "target.py") [L "Config"] KClass ir9
  /\ (exists i', parse_node_inst false true KClass node9 = Ok i'
                 /\ map fst (ir_params i') = [L "epochs"; L "name"; L "rate"]
                 /\ map (fun kv => g_default (snd kv)) (ir_params i')
                    = [Some (DV (VInt 5)); Some (DV (VStr (L "mnist"))); Some (DV (VFloat (L "0.5")))]
                 /\ same_interface ir9 i' = true).
Proof. exact class_target_example. Qed.
Print Assumptions C09_class_target_example.

(* the same truth meets the argparse guard and round-trips at the node *)
Theorem C09_argparse_target_example :
  guard_C09_argparse 100 [] ir9 = true
  /\ emit_inst 100 [] KArgparse ir9
               (opts_inst (Some (SFunc (L "set_cli_args") no_arguments [] [] None)) [L "set_cli_args"] KArgparse)
     = Ok node9a
  /\ (exists i', parse_node_inst false true KArgparse node9a = Ok i'
                 /\ map fst (ir_params i') = [L "epochs"; L "name"; L "rate"]
                 /\ same_interface_inst KArgparse ir9 i' = true).
Proof. exact argparse_target_example. Qed.
Print Assumptions C09_argparse_target_example.

(* the clause argparse_wrap_neutral is needed: inside guard_C04_ast, with word_wrap on, the round trip fails *)
Theorem C09_argparse_wrap_needed :
  guard_C04_ast ir9_long = true /\ argparse_wrap_neutral [] ir9_long = false
  /\ argparse_doc_layer_ok 100 ir9_long = true
  /\ match emit_argparse_inst 100 [] ir9_long (L "set_cli_args") (Some (L "static")) with
     | Ok n => match parse_argparse_node n with
               | Ok i' => same_interface_argparse (argparse_type_norm ir9_long) i' = false
               | Err _ => False
               end
     | Err _ => False
     end.
Proof. exact argparse_wrap_needed. Qed.
Print Assumptions C09_argparse_wrap_needed.

(* the function instance composes: a computed point of the premise RT_at KFunction *)
Theorem C09_function_target_point :
  match emit_inst 100 [] KFunction ir9
                  (opts_inst (Some (SFunc (L "train") no_arguments [] [] None)) [L "train"] KFunction) with
  | Ok n => match parse_node_inst false true KFunction n with
            | Ok i' => same_interface_inst KFunction ir9 i' = true
                       /\ map fst (ir_params i') = [L "epochs"; L "name"; L "rate"]
            | Err _ => False
            end
  | Err _ => False
  end.
Proof. exact function_target_point. Qed.
Print Assumptions C09_function_target_point.

(* ================================================================== *)
(* FOLLOW-UP: function targets, and the install phase                   *)
(* ================================================================== *)
(* Function targets are CLOSED: the premise RT_at KFunction of C09_interface_agreement is discharged, by composing
   C19_function_any_name (C03_partial for an arbitrary identifier as function name) with the docstring link of C03Ext
   (C03_doc_link) and reading the docstring from the node.  The options conformance passes for functions are INSIDE
   the proved region of C03: function_name = last component of the search path (must be an identifier),
   function_type = get_function_type(found node) in {static, self, cls} (a missing node gives None, i.e. the type of
   the truth IR -- but stability is always judged against the re-emission at the FOUND node's type), and the defaults
   word_wrap=True, emit_default_doc=False, indent_level=2, emit_separating_tab=True, inline_types=True,
   emit_as_kwonlyargs=True (C09Instance.sync_fopts); none of them blocks (emit_default_doc on, a C03 finding class, is
   not what conformance passes).
   guard_C09_function w pt i name ft = is_identifier name && guard_C03 (sync_fopts pt ft) i
     && C03DocLinkDefs.doc_link_ok w (sync_fopts pt ft) i      (guard and side condition of C03_partial_closed)
     && fn_text_unquoted w pt ft i    (set_value leaves the docstring text alone: a limit of the proof -- the text of
                                       to_docstring starts with a line break, not proved here; executable)
     && fn_reparse_fixed w pt i name ft   (the emitted FunctionDef is a fixed point of ast.parse(ast.unparse(.)), i.e.
                                       no negative number default: C03 proves the round trip THROUGH reparse_stmt, the
                                       cmp_ast(found, emitted) disjunct needs the parse of the emitted node itself.  A
                                       limit of the proof, not of the code: C09_function_negative_default_point.
                                       C09_stable_function_target_canon does without it, from two parse-transparency
                                       premises WRITTEN_REPARSE_law / EMITTED_REPARSE_law);
   guard_C09_function_found = the above for the three function types a found node can have.
   The relation proved is C03Spec.same_interface_fn (names by lookup, strict defaults, kind), which implies
   C02Spec.same_interface (positional) because guard_C03 gives distinct names.
   What remains abstract for function targets: FIX_law; WRITTEN_PARSE_law KFunction; REPLACES_law -- which is FALSE of
   the Locate rewriter on FunctionDef targets (props/C09.v C09_REPLACES_refuted, C09_function_nodes_never_replaced), so
   C09_function_targets_agree is conditional on a rewriter that replaces, and the honest result over the Locate
   rewriter is C09_function_targets_settle_install (FIX alone): every function target agrees, or is a found
   definition that differs and that the rewriter declined (the recorded finding found-definition-not-replaced); and a
   function target INSTALLED by the run (its file was missing, or parsed -- empty file included -- with nothing found
   at the location, so the definition is created / appended) agrees in full.  The install-phase statement holds for
   every kind (C09_interface_agreement_install). *)
From DT Require C06Spec C03Spec C03DocLinkDefs.

(* emit.function -> ast.unparse -> ast.parse -> parse.function at the node, docstring read from the node *)
Theorem C09_function_round_trip_canon : forall (w : nat) (pt : ptable) (i : ir) (name ft : str),
    guard_C09_function_core w pt i name ft = true ->
    exists n n' i',
      emit_function_inst w pt i name (Some ft) = Ok n
      /\ C03Spec.reparse_stmt n = Ok n'
      /\ parse_function_node n' = Ok i'
      /\ C03Spec.same_interface_fn ft i i' = true
      /\ same_interface i i' = true.
Proof. exact function_round_trip_canon. Qed.
Print Assumptions C09_function_round_trip_canon.

(* the round trip at the emitted node itself: emit_inst for KFunction then parse_node_inst *)
Theorem C09_function_round_trip_node : forall (w : nat) (pt : ptable) (i : ir) (name ft : str),
    guard_C09_function w pt i name ft = true ->
    exists n i',
      emit_function_inst w pt i name (Some ft) = Ok n
      /\ parse_function_node n = Ok i'
      /\ C03Spec.same_interface_fn ft i i' = true
      /\ same_interface i i' = true.
Proof. exact function_round_trip_node. Qed.
Print Assumptions C09_function_round_trip_node.

(* hence the premise RT_at of C09_interface_agreement / _settled holds for function targets *)
Theorem C09_RT_at_function : forall (w : nat) (pt : ptable) (it ww : bool) (search : list str) (i : ir),
    guard_C09_function_found w pt i (last search (default_name KFunction)) = true ->
    RT_at w pt it ww KFunction search i.
Proof. exact RT_at_function. Qed.
Print Assumptions C09_RT_at_function.

(* without the fixed-point clause, from two parse-transparency premises *)
Theorem C09_stable_function_target_canon :
    forall (tree : Type) (parse_file : path -> bytes -> outcome tree) (find : list str -> tree -> option stmt)
      (as_written : stmt -> stmt) (w : nat) (pt : ptable) (it ww : bool) (fs : fsys) (file : path)
      (search : list str) (i : ir),
    WRITTEN_REPARSE_law as_written w pt -> EMITTED_REPARSE_law w pt ->
    guard_C09_function_found_core w pt i (last search (default_name KFunction)) = true ->
    stable stmt tree ir sync_opts (emit_inst w pt) parse_file find (cmp_inst as_written) opts_inst type_ok_inst
           fs file search KFunction i ->
    agrees_at tree parse_file find it ww fs file search KFunction i.
Proof. exact stable_function_target_canon. Qed.
Print Assumptions C09_stable_function_target_canon.

(* one call in the install phase: under FIX the result is stable (never the declined outcome) *)
Theorem C09_conform_install_stable :
    forall (tree : Type) (parse_file : path -> bytes -> outcome tree) (find : list str -> tree -> option stmt)
      (as_written : stmt -> stmt) (w : nat) (pt : ptable)
      (rewrite : list str -> stmt -> tree -> tree * bool)
      (render_node : stmt -> outcome bytes) (render_tree : tree -> outcome bytes),
    FIX_law stmt tree ir sync_opts (emit_inst w pt) parse_file find rewrite (cmp_inst as_written) render_node
            render_tree opts_inst type_ok_inst ->
    forall (fs : fsys) (file : path) (search : list str) (k : kind) (i : ir) (fs' : fsys) (b : bool) (pr : list str),
    search <> [] -> install_pre_c tree parse_file find (fs_get file fs) file search ->
    conform (emit_inst w pt) parse_file find rewrite (cmp_inst as_written) render_node render_tree opts_inst
            type_ok_inst fs file search k i NoFault = (fs', Ok b, pr) ->
    stable stmt tree ir sync_opts (emit_inst w pt) parse_file find (cmp_inst as_written) opts_inst type_ok_inst
           fs' file search k i.
Proof. exact conform_install_stable. Qed.
Print Assumptions C09_conform_install_stable.

(* the run, any kind, from FIX alone: every target agrees or was declined, and a target installed by the run agrees *)
Theorem C09_interface_agreement_install :
    forall (tree : Type) (parse_file : path -> bytes -> outcome tree) (find : list str -> tree -> option stmt)
      (as_written : stmt -> stmt) (w : nat) (pt : ptable) (it ww : bool)
      (rewrite : list str -> stmt -> tree -> tree * bool)
      (render_node : stmt -> outcome bytes) (render_tree : tree -> outcome bytes)
      (parse_truth : kind -> option stmt -> list str -> outcome ir),
    FIX_law stmt tree ir sync_opts (emit_inst w pt) parse_file find rewrite (cmp_inst as_written) render_node
            render_tree opts_inst type_ok_inst ->
    forall (fs : fsys) (a : sync_args) (truth : path) (fs1 : fsys) (eff : list (path * bool)) (pr : list str),
    sync_args_ok a truth ->
    ground_truth (emit_inst w pt) parse_file find rewrite (cmp_inst as_written) render_node render_tree opts_inst
                 type_ok_inst parse_truth fs a truth NoFaults = (fs1, Ok eff, pr) ->
    exists i : ir,
      truth_ir stmt tree ir parse_file find parse_truth fs1 a truth = Ok i
      /\ forall k : kind,
          WRITTEN_PARSE_law as_written w pt it ww k ->
          (forall nm, name_of a k = Ok nm -> RT_at w pt it ww k (strip_split [ch 46] nm) i) ->
          targets_settle_install tree parse_file find as_written w pt it ww rewrite fs fs1 a truth k i.
Proof. exact interface_agreement_install. Qed.
Print Assumptions C09_interface_agreement_install.

(* function targets, from FIX alone *)
Theorem C09_function_targets_settle_install :
    forall (tree : Type) (parse_file : path -> bytes -> outcome tree) (find : list str -> tree -> option stmt)
      (as_written : stmt -> stmt) (w : nat) (pt : ptable) (it ww : bool)
      (rewrite : list str -> stmt -> tree -> tree * bool)
      (render_node : stmt -> outcome bytes) (render_tree : tree -> outcome bytes)
      (parse_truth : kind -> option stmt -> list str -> outcome ir),
    FIX_law stmt tree ir sync_opts (emit_inst w pt) parse_file find rewrite (cmp_inst as_written) render_node
            render_tree opts_inst type_ok_inst ->
    forall (fs : fsys) (a : sync_args) (truth : path) (fs1 : fsys) (eff : list (path * bool)) (pr : list str),
    sync_args_ok a truth ->
    ground_truth (emit_inst w pt) parse_file find rewrite (cmp_inst as_written) render_node render_tree opts_inst
                 type_ok_inst parse_truth fs a truth NoFaults = (fs1, Ok eff, pr) ->
    exists i : ir,
      truth_ir stmt tree ir parse_file find parse_truth fs1 a truth = Ok i
      /\ (WRITTEN_PARSE_law as_written w pt it ww KFunction -> function_guard_args w pt a i ->
          targets_settle_install tree parse_file find as_written w pt it ww rewrite fs fs1 a truth KFunction i).
Proof. exact function_targets_settle_install. Qed.
Print Assumptions C09_function_targets_settle_install.

(* function targets, under FIX and REPLACES (for a rewriter that replaces FunctionDef nodes; the Locate one does not) *)
Theorem C09_function_targets_agree :
    forall (tree : Type) (parse_file : path -> bytes -> outcome tree) (find : list str -> tree -> option stmt)
      (as_written : stmt -> stmt) (w : nat) (pt : ptable) (it ww : bool)
      (rewrite : list str -> stmt -> tree -> tree * bool)
      (render_node : stmt -> outcome bytes) (render_tree : tree -> outcome bytes)
      (parse_truth : kind -> option stmt -> list str -> outcome ir),
    FIX_law stmt tree ir sync_opts (emit_inst w pt) parse_file find rewrite (cmp_inst as_written) render_node
            render_tree opts_inst type_ok_inst ->
    REPLACES_law stmt tree find rewrite ->
    forall (fs : fsys) (a : sync_args) (truth : path) (fs1 : fsys) (eff : list (path * bool)) (pr : list str),
    sync_args_ok a truth ->
    ground_truth (emit_inst w pt) parse_file find rewrite (cmp_inst as_written) render_node render_tree opts_inst
                 type_ok_inst parse_truth fs a truth NoFaults = (fs1, Ok eff, pr) ->
    exists i : ir,
      truth_ir stmt tree ir parse_file find parse_truth fs1 a truth = Ok i
      /\ (WRITTEN_PARSE_law as_written w pt it ww KFunction -> function_guard_args w pt a i ->
          targets_agree tree parse_file find it ww fs1 a truth KFunction i).
Proof. exact function_targets_agree. Qed.
Print Assumptions C09_function_targets_agree.

(* non-vacuity: the truth ir9 and the function target train -- inside the guard for every function type; stable on a
   toy tree layer whose rewriter never replaces, hence agreeing, with what parse.function reads; and the install phase
   on that layer: conform creates the missing file / appends to the empty one *)
Theorem C09_function_target_example :
  guard_C09_function_found 100 [] ir9 (L "train") = true
  /\ agrees_at (list stmt) Toy9f.parse_file Toy9f.find false true Toy9f.fs (L "target.py") [L "train"] KFunction ir9
  /\ (exists i', parse_node_inst false true KFunction node9f = Ok i'
                 /\ map fst (ir_params i') = [L "epochs"; L "name"; L "rate"]
                 /\ map (fun kv => g_default (snd kv)) (ir_params i')
                    = [Some (DV (VInt 5)); Some (DV (VStr (L "mnist"))); Some (DV (VFloat (L "0.5")))]
                 /\ C03Spec.same_interface_fn (L "static") ir9 i' = true)
  /\ Toy9f.conf [] = (Toy9f.fs, Ok true, [])
  /\ (exists fs', Toy9f.conf [(L "target.py", [])] = (fs', Ok true, [])
                  /\ fs_get (L "target.py") fs' = Some (L "F9")).
Proof. exact function_target_example. Qed.
Print Assumptions C09_function_target_example.

(* fn_reparse_fixed is a limit of the proof: a negative default is outside it, inside the core guard, and the parser
   reads the same interface from the emitted node and from its re-parse *)
Theorem C09_function_negative_default_point :
  guard_C09_function_core 100 [] ir9_neg (L "train") (L "static") = true
  /\ fn_reparse_fixed 100 [] ir9_neg (L "train") (L "static") = false
  /\ match emit_function_inst 100 [] ir9_neg (L "train") (Some (L "static")) with
     | Ok n => match C03Spec.reparse_stmt n with
               | Ok n' => match parse_function_node n, parse_function_node n' with
                          | Ok a, Ok b => same_interface ir9_neg a = true /\ same_interface ir9_neg b = true
                          | _, _ => False
                          end
               | Err _ => False
               end
     | Err _ => False
     end.
Proof. exact function_negative_default_point. Qed.
Print Assumptions C09_function_negative_default_point.
