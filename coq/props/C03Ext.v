(* C03 (extension) - function / method round trip: the docstring link.
   Statements closed by `exact` only; definitions in model/C03DocLinkDefs.v, lemmas in
   proofs/C03DocLink{Clean,Emit,Lines,,Guard,Main}.v.  To be merged into props/C03.v.

   props/C03.v composes EmitAst.emit_function, C03Spec.reparse_stmt and ParseSig.parse_function and leaves the docstring
   layer to the hypothesis doc_agrees (over the text that to_docstring returned and the docstring-derived IR d).  Here
   that hypothesis is DISCHARGED from the docstring models, for all inputs (any number of parameters):
     text = to_docstring(ir, emit_default_doc, emit_types = not inline_types, indent_level, emit_separating_tab, word_wrap)
            as emit.function calls it                       (function_docstring_text over DocEmit.to_docstring, width w)
     d    = parse.docstring(inspect.cleandoc(text).replace(":cvar", ":param"), infer_type=False)
            as parse.function calls it on ast.get_docstring  (function_docstring_ir over the new model cleandoc and the
                                                              ReST scanner / parser of DocParse, reusing the C01 lemmas)
   under guard_C03 and the boolean side condition doc_link_ok.

   NOT proved here (update of the list in props/C03.v and proofs/C03Compose.v):
     - doc_agrees OUTSIDE doc_link_ok.  Clauses with a failing input inside guard_C03 (C03_doc_link_witnesses; the same
       inputs fail on the real code): no documented entry at all (the docstring is then read as numpydoc / Google), prose
       with blanks other than the plain blank, prose ending in a backslash, and - with types in the docstring - a type text
       holding a ReST token, a line break or a leading **.  Clauses that are limits of the proof only (no failing input
       known): prose starting with Optional, a summary that is not one clean tab-free line, word_wrap with a line longer
       than the width (textwrap.fill re-flowing followed by the parser's re-joining is not proved);
     - that cleandoc / reparse_stmt are what CPython does (models; cleandoc validated against inspect.cleandoc, reparse_stmt by
       the correspondence family c03);
     - the ast.unparse / ast.parse step keeps the value of the docstring constant (C03Spec.reparse_body_stmt, modelled). *)
From Coq Require Import List Bool.
From Coq Require String.
Import String.StringSyntax.
From DT Require Import PyStr PyVal PureUtils Defaults PyAst IR.
From DT Require Import C03Spec C03Compose C03DocLinkDefs.
From DT Require C03DocLinkClean C03DocLink C03DocLinkMain.
Import ListNotations.

(* the docstring link: inside the guard and doc_link_ok the emitter's docstring text exists, parse.function's reading of it
   exists, and it documents exactly the described entries - the hypothesis doc_agrees of C03_partial, C03_scalar,
   C03_return_only *)
Theorem C03_doc_link : forall w o i,
    guard_C03 o i = true -> doc_link_ok w o i = true ->
    exists text d,
      function_docstring_text w o i = Ok text
      /\ function_docstring_ir text = Ok d
      /\ doc_agrees o i d = true.
Proof. exact C03DocLinkMain.C03_doc_link_lemma. Qed.
Print Assumptions C03_doc_link.

(* C03_partial with text and d instantiated and NO docstring hypothesis: emit.function's docstring text, parse.function's
   docstring-derived IR, and the composed round trip succeeds (nothing raises) and hands back the same interface and kind *)
Theorem C03_partial_closed : forall w o i,
    guard_C03 o i = true -> doc_link_ok w o i = true ->
    exists text d,
      function_docstring_text w o i = Ok text /\ function_docstring_ir text = Ok d /\ C03_at o i text d.
Proof. exact C03DocLinkMain.C03_partial_closed_lemma. Qed.
Print Assumptions C03_partial_closed.

Theorem C03_scalar_closed : forall w o i,
    scalar_ir o i = true -> doc_link_ok w o i = true ->
    exists text d,
      function_docstring_text w o i = Ok text /\ function_docstring_ir text = Ok d /\ C03_at o i text d.
Proof. exact C03DocLinkMain.C03_scalar_closed_lemma. Qed.
Print Assumptions C03_scalar_closed.

Theorem C03_return_only_closed : forall w o i,
    return_only_ir o i = true -> doc_link_ok w o i = true ->
    exists text d,
      function_docstring_text w o i = Ok text /\ function_docstring_ir text = Ok d /\ C03_at o i text d.
Proof. exact C03DocLinkMain.C03_return_only_closed_lemma. Qed.
Print Assumptions C03_return_only_closed.

(* non-vacuous: seven / six parameters with defaults of every class, a ** parameter and a return entry meet all hypotheses,
   with types in the signature (nv3) and with types in the docstring, keyword-only, as a class method (nv4) *)
Theorem C03_doc_link_nonvacuous :
  guard_C03 nv3_opts nv3_ir = true /\ doc_link_ok 100 nv3_opts nv3_ir = true
  /\ guard_C03 C03DocLinkMain.nv4_opts C03DocLinkMain.nv4_ir = true
  /\ doc_link_ok 100 C03DocLinkMain.nv4_opts C03DocLinkMain.nv4_ir = true
  /\ List.length (ir_params nv3_ir) = 7 /\ List.length (ir_params C03DocLinkMain.nv4_ir) = 6.
Proof. exact C03DocLinkMain.C03_doc_link_nonvacuous_lemma. Qed.
Print Assumptions C03_doc_link_nonvacuous.

(* the side condition is needed: inputs inside guard_C03, outside doc_link_ok, on which the link fails in the model (and on
   the real code) - a new finding region of C03 *)
Theorem C03_doc_link_witnesses :
  forallb (fun oi => guard_C03 (fst oi) (snd oi) && negb (doc_link_ok 100 (fst oi) (snd oi))
                     && negb (C03DocLinkMain.doc_link_b 100 (fst oi) (snd oi))) C03DocLinkMain.link_witnesses = true.
Proof. exact C03DocLinkMain.C03_doc_link_witnesses_lemma. Qed.
Print Assumptions C03_doc_link_witnesses.

Theorem C03_doc_link_refuted :
  ~ (forall w o i, guard_C03 o i = true ->
       exists text d, function_docstring_text w o i = Ok text /\ function_docstring_ir text = Ok d
                      /\ doc_agrees o i d = true).
Proof. exact C03DocLinkMain.C03_doc_link_refuted_lemma. Qed.
Print Assumptions C03_doc_link_refuted.

(* building blocks, of independent use *)

(* inspect.cleandoc on a text given as lines (indentation, content): the contents come back in order, each followed by
   blanks, after leading blanks *)
Theorem C03_cleandoc_heads : forall lns : list ln,
    lns <> [] -> forallb ln_ok lns = true ->
    exists ws0 hws,
      cleandoc (text_of_lns lns) = Ok (text_of_heads ws0 hws)
      /\ map fst hws = heads_of lns
      /\ forallb isspace ws0 = true
      /\ forallb (fun hw => forallb isspace (snd hw)) hws = true.
Proof. exact C03DocLinkClean.cleandoc_heads. Qed.
Print Assumptions C03_cleandoc_heads.

(* the ReST scanner and parser on heads followed by ARBITRARY blanks (indentation, blank lines): the entries come back *)
Theorem C03_parse_heads : forall sd docs r ws0 hws,
    (forall d0, sd = Some d0 -> C01Spec.no_rest_token d0 = true) ->
    Forall C03DocLink.dent_ok docs -> NoDup (map dn docs) -> C03DocLink.rent_ok r -> (docs <> [] \/ r <> None) ->
    map fst hws = heads sd docs r -> forallb isspace ws0 = true -> C03DocLink.ws_all hws ->
    exists sdoc,
      C03DocLink.parse_cleaned (text_of_heads ws0 hws)
      = Ok (DocParse.ir_of_parts sdoc (map (fun e => (dn e, C03DocLink.dent_fin e)) docs) (C03DocLink.rent_fin r)).
Proof. exact C03DocLink.parse_heads. Qed.
Print Assumptions C03_parse_heads.
