(* C17: default values through prose.  Statements only; the lemmas live in proofs/DefaultsFacts.v. *)
From Coq Require String.
Import String.StringSyntax.
From DT Require Import PyStr PyVal TyExpr PureUtils Defaults C17Spec DefaultsFacts C17More.

(* completeness of the finding classes: in the domain and outside every class the property holds
   (in the model) *)
Theorem C17_partial : forall a d v t, guard_C17 a d v t = true -> C17_at a d v t.
Proof. exact C17_partial_lemma. Qed.
Print Assumptions C17_partial.

(* prose that announces nothing is never altered, for every flag combination *)
Theorem C17_no_announce : forall line rs typ emit, no_announce line = true ->
    extract_default line rs default_announces typ emit = Ok (line, None).
Proof. exact C17_no_announce_lemma. Qed.
Print Assumptions C17_no_announce.

Theorem C17_set_default_doc_no_default : forall name p, p_default p = None -> p_doc p <> FNone ->
    set_default_doc name p true = Ok p.
Proof. exact set_default_doc_no_default. Qed.
Print Assumptions C17_set_default_doc_no_default.

Theorem C17_set_default_doc_no_announce : forall name p doc, p_doc p = Has doc -> no_announce doc = true ->
    set_default_doc name p false = Ok p.
Proof. exact set_default_doc_no_announce. Qed.
Print Assumptions C17_set_default_doc_no_announce.

(* the statement over the whole domain is false of the faithful model: prose without terminal
   punctuation gets a full stop that removal does not take back *)
Definition C17_statement : Prop := forall a d v t, C17_domain d = true -> C17_at a d v t.
Theorem C17_refuted : ~ C17_statement.
Proof. exact C17_refuted_lemma. Qed.
Print Assumptions C17_refuted.

(* a second refutation inside the good prose shape: a str value cut at its full stop *)
Theorem C17_refuted_value_cut :
  prose_ok (L "x.") = true /\ ~ C17_at ADefaultsTo (L "x.") (VStr (L "a.b")) (Some (L "str")).
Proof. exact DefaultsFacts.C17_refuted_value_cut. Qed.
Print Assumptions C17_refuted_value_cut.

(* class-free corollaries: whole value classes are inside the guard, for all prose of the good shape *)
Theorem C17_int_untyped : forall a d z, prose_ok d = true -> C17_at a d (VInt z) None.
Proof. exact C17_int_untyped_lemma. Qed.
Print Assumptions C17_int_untyped.

Theorem C17_int_typed : forall a d z, prose_ok d = true -> C17_at a d (VInt z) (Some (L "int")).
Proof. exact C17_int_typed_lemma. Qed.
Print Assumptions C17_int_typed.

Theorem C17_bool : forall a d b, prose_ok d = true ->
    C17_at a d (VBool b) None /\ C17_at a d (VBool b) (Some (L "bool")).
Proof. exact C17_bool_lemma. Qed.
Print Assumptions C17_bool.

Theorem C17_none : forall a d, prose_ok d = true -> C17_at a d VNone None.
Proof. exact C17_none_lemma. Qed.
Print Assumptions C17_none.

Example C17_nonvacuous :
  guard_C17 ADefaultsTo (L "name of dataset.") (VStr (L "mnist")) (Some (L "str")) = true
  /\ prose_ok (L "name of dataset.") = true.
Proof. exact C17_nonvacuous_lemma. Qed.
Print Assumptions C17_nonvacuous.

(* ---- further class-free corollaries (proofs/C17More.v) ---- *)

(* declared str: any non-empty text of plain characters (printable ASCII without quote marks,
   backslash, full stop, back-tick, brackets) that contains no announcement phrase; the value is
   written quoted and read back through literal_eval *)
Theorem C17_str_typed : forall a d s, prose_ok d = true -> plain_word s = true ->
    C17_at a d (VStr s) (Some (L "str")).
Proof. exact C17_str_typed_lemma. Qed.
Print Assumptions C17_str_typed.

(* undeclared: plain words that begin with a letter or underscore, do not end with a blank and are
   not True, False or (in any case) inf, infinity, nan *)
Theorem C17_str_untyped : forall a d s, prose_ok d = true -> bare_word s = true ->
    C17_at a d (VStr s) None.
Proof. exact C17_str_untyped_lemma. Qed.
Print Assumptions C17_str_untyped.

(* floats whose repr is plain decimal text that float() maps to itself *)
Theorem C17_float_plain : forall a d r, prose_ok d = true -> canonical_plain_float r = true ->
    C17_at a d (VFloat r) None /\ C17_at a d (VFloat r) (Some (L "float")).
Proof. exact C17_float_plain_lemma. Qed.
Print Assumptions C17_float_plain.

(* a value text without announcement phrase never moves the search, whatever the phrase used *)
Theorem C17_value_announce_ok : forall a x, no_announce x = true -> value_announce_ok a x = true.
Proof. exact value_announce_ok_no_announce. Qed.
Print Assumptions C17_value_announce_ok.

Example C17_more_nonvacuous :
  plain_word (L "mnist") = true
  /\ plain_word (L "~/tensorflow datasets") = true
  /\ bare_word (L "mnist") = true
  /\ bare_word (L "tensorflow_datasets") = true
  /\ canonical_plain_float (L "0.5") = true
  /\ canonical_plain_float (L "123456.789") = true
  /\ canonical_plain_float (L "-0.001") = true.
Proof. exact C17_more_nonvacuous_lemma. Qed.
Print Assumptions C17_more_nonvacuous.
