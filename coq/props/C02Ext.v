(* C02Ext -- additions to props/C02.v (to be merged by the integrator): the docstring hypothesis doc_agrees of
   C02_partial is discharged.  Statements closed by `exact` only; lemmas in proofs/C02DocLink.v; definitions in
   model/C02DocLinkDefs.v (class_docstring_text = DocEmit.to_docstring on the folded IR with indent_level 1,
   emit_types off; class_docstring_ir = emit.class_'s :param -> :cvar rewriting (EmitAst.class_docstring),
   ast.get_docstring's inspect.cleandoc (SyncProps.cleandoc, printable ASCII), parse.class_'s :cvar -> :param
   rewriting, DocParse.parse_dot_docstring with emit_default_doc=False).

   Replaces the first bullet of the "NOT proved here" list of props/C02.v by:
   - that doc_agrees follows from the DocEmit / DocParse models for the class docstring: PROVED (C02_doc_link,
     C02_partial_closed) for every IR inside guard_C02_ast that also satisfies the boolean side condition
     doc_link_ok w emit_default_doc word_wrap i (model/C02DocLinkDefs.v): the summary and every documented prose are
     one clean printable-ASCII line without ReST field token and without announcement phrase, no prose ends in a
     backslash or starts with Optional, documented names do not end in kwargs, at least one PARAMETER is documented;
     with emit_default_doc the default sentence of a documented entry meets the guard of C17 and its value settles
     when read without a type; with word_wrap every line handed to textwrap.fill is one that fill leaves alone.
     guard_C02_ast alone is NOT enough (C02_doc_link_needs_side_condition; one computed witness per reason in
     C02_doc_link_witnesses, each confirmed on the real code).
   NOT proved here (still):
   - the link outside doc_link_ok where the real code nevertheless round-trips: names ending in kwargs, prose
     starting with Optional under an Optional[...] type, an empty summary, a documented return entry without any
     documented parameter, no documented entry at all (numpydoc reader, outside DocParse), non-ASCII prose
     (outside the cleandoc model), lines that textwrap.fill re-flows without changing the parse;
   - ast.unparse followed by ast.parse is the identity on the emitted tree (R1), and the other bullets of
     props/C02.v unchanged;
   - (the trailing-backslash failure this proof found - finding_class_C02 did not name it - was repaired in /repo,
     pure_utils.multiline; C02_trailing_backslash_regression is the regression point; the clause of doc_link_ok that
     excludes such prose is now an over-restriction). *)
From Coq Require Import List Bool.
From Coq Require String.
Import String.StringSyntax.
From DT Require Import PyStr PyVal Defaults PyAst IR TyExpr EmitAst ParseAst C02Spec C06Spec C02Codec C02DocLinkDefs.
From DT Require C02DocLink.
Import ListNotations.

(* the link: inside the guard and the side condition, the text to_docstring produces for the class is read back by
   parse.docstring (after the two rewritings and cleandoc) as an IR d that agrees; any width w, both values of
   emit_default_doc and word_wrap, any number of parameters *)
Theorem C02_doc_link : forall w edd ww i,
    guard_C02_ast i = true -> doc_link_ok w edd ww i = true ->
    exists text d, class_docstring_text w edd ww i = Ok text /\ class_docstring_ir text = Ok d
                   /\ doc_agrees i d = true.
Proof. exact C02DocLink.C02_doc_link_lemma. Qed.
Print Assumptions C02_doc_link.

(* C02_partial with the docstring text and the docstring-derived IR instantiated by the composed models:
   no docstring hypothesis *)
Theorem C02_partial_closed : forall w pt i cn bs ds edd ww it ww',
    guard_C02_ast i = true -> doc_link_ok w edd ww i = true ->
    exists text s i',
      class_docstring_text w edd ww i = Ok text
      /\ emit_class pt i false cn bs ds ww (class_docstring_text w edd ww i) = Ok (s, i)
      /\ parse_class (Some (class_docstring_ir text)) (CStmt s) None it ww' = Ok i'
      /\ ir_params i' = norm_params_C02 (ir_params i)
      /\ ir_returns i' = norm_returns_C02 (ir_returns i)
      /\ same_interface_strict (zero_default_norm i) i' = true
      /\ same_interface (zero_default_norm i) i' = true
      /\ same_interface i i' = true.
Proof. exact C02DocLink.C02_partial_closed_lemma. Qed.
Print Assumptions C02_partial_closed.

(* the structural steps, re-exported: to_docstring in closed form, emit.class_'s rewriting, cleandoc *)
Theorem C02_class_docstring_closed_form : forall S e1 ps r,
    C02DocLink.sum_fine S -> C02DocLink.all_params (e1 :: ps) ->
    (forall e, In e ((e1 :: ps) ++ C02DocLink.ret_list r) -> C02DocLink.entry_fine e) ->
    class_docstring (C02DocLink.T1 S ((e1 :: ps) ++ C02DocLink.ret_list r))
    = C02DocLink.T3 S ((e1 :: ps) ++ C02DocLink.ret_list r).
Proof. exact C02DocLink.class_docstring_T1. Qed.
Print Assumptions C02_class_docstring_closed_form.

Theorem C02_cleandoc_closed_form : forall S es,
    C02DocLink.sum_fine S -> es <> [] -> (forall e, In e es -> C02DocLink.entry_plain e) ->
    SyncProps.cleandoc (C02DocLink.T3 S es) = C02DocLink.cleaned S es.
Proof. exact C02DocLink.cleandoc_T3. Qed.
Print Assumptions C02_cleandoc_closed_form.

(* a non-trivial IR (four parameters, defaults, an undocumented parameter, a return entry) meets the guard and the side
   condition for all four option combinations, and the composed models agree there *)
Theorem C02_doc_link_nonvacuous :
  guard_C02_ast C02DocLink.w_link_ok = true
  /\ forallb (fun o => doc_link_ok 100 (fst o) (snd o) C02DocLink.w_link_ok
                       && doc_link_b 100 (fst o) (snd o) C02DocLink.w_link_ok)
             [(false, false); (false, true); (true, false); (true, true)] = true.
Proof. exact C02DocLink.C02_doc_link_nonvacuous. Qed.
Print Assumptions C02_doc_link_nonvacuous.

(* the side condition is needed: inside guard_C02_ast, outside doc_link_ok, the link fails *)
Theorem C02_doc_link_witnesses :
  C02DocLink.link_fails true C02DocLink.w_no_terminal = true
  /\ C02DocLink.link_fails false C02DocLink.w_tab = true
  /\ C02DocLink.link_fails false C02DocLink.w_token = true
  /\ C02DocLink.link_fails false C02DocLink.w_announces = true
  /\ C02DocLink.link_fails false C02DocLink.w_no_entry = true.
Proof. exact C02DocLink.C02_doc_link_refuted_outside. Qed.
Print Assumptions C02_doc_link_witnesses.

Theorem C02_doc_link_needs_side_condition :
  ~ (forall w edd ww i, guard_C02_ast i = true ->
       exists text d, class_docstring_text w edd ww i = Ok text /\ class_docstring_ir text = Ok d
                      /\ doc_agrees i d = true).
Proof. exact C02DocLink.C02_doc_link_needs_side_condition. Qed.
Print Assumptions C02_doc_link_needs_side_condition.

(* regression point of the /repo fix of pure_utils.multiline: prose ending in a backslash is inside the guard, in no
   finding class, and the docstring link holds there (it used to come back without the backslash) *)
Theorem C02_trailing_backslash_regression :
  finding_class_C02 (mkO02 false false) C02DocLink.w_backslash = None
  /\ finding_class_C02 (mkO02 true true) C02DocLink.w_backslash = None
  /\ C02_domain C02DocLink.w_backslash = true /\ guard_C02_ast C02DocLink.w_backslash = true
  /\ doc_link_b 100 false false C02DocLink.w_backslash = true.
Proof. exact C02DocLink.C02_trailing_backslash_regression. Qed.
Print Assumptions C02_trailing_backslash_regression.
