(* C02 -- config-class round trip  emit.class_ -> parse.class_  at the AST level (models EmitAst / ParseAst).
   Statements closed by `exact` only; lemmas in proofs/C02Compose.v, ParseAstFacts.v, C06Facts.v; definitions in
   model/C02Codec.v, C02Spec.v.

   The docstring layer is decoupled in the models: the emitter takes the text of to_docstring as an input, the parser
   takes the IR d that parse.docstring returned for the class docstring.  The theorems quantify over d under the named
   hypothesis doc_agrees i d (d lists the entries that have prose, return entry folded in as return_type, in order,
   with their prose, and "returns" is None) -- what the ReST round trip of C01 provides with types off; it is
   satisfiable for every IR (C02_doc_hypothesis_satisfiable).

   NOT proved here (stated honestly):
   - that doc_agrees follows from the DocEmit / DocParse models for the class docstring (the :param -> :cvar -> :param
     rewriting, indent level 1, default sentences written by emit_default_doc and removed again): hypothesis; the
     oracle runs the real code on every point and finding_class_C02 carries the docstring-level classes;
   - ast.unparse followed by ast.parse is the identity on the emitted tree (R1): run per case by the oracle;
   - outside guard_C02_ast: code-quoted defaults and return defaults (emitted through the recorded parse table),
     emit_call = True, carried bodies, types outside the canonical fragment of TyExpr, the type texts dict and
     complex, str defaults wrapped in quote marks or spelled None (names ending in kwargs are inside);
   - that finding_class_C02 is complete: it is validated by the oracle; the proof found one failure it does not
     name (C02_negative_zero_unclassified). *)
From Coq Require Import List Bool.
From Coq Require String.
Import String.StringSyntax.
From DT Require Import PyStr PyVal Defaults PyAst IR TyExpr EmitAst ParseAst C02Spec C06Spec C02Codec.
From DT Require ParseAstFacts C06Facts C02Compose.
Import ListNotations.

(* the statement at full strength is false of the faithful model (x: int = None comes back as 0) *)
Theorem C02_refuted : ~ C02_ast_statement.
Proof. exact C02Compose.C02_refuted_lemma. Qed.
Print Assumptions C02_refuted.

(* names and order, and presence of the return entry: for every IR of the domain whose undocumented parameters do
   not precede documented ones, every option combination, whenever emitter and parser succeed -- whatever the
   types, prose and defaults are; any number of parameters *)
Theorem C02_names_order : forall pt i ec cn bs ds ww tds d it ww' s i0 i',
    C02_domain i = true ->
    undocumented_precedes false (ir_params i) = false ->
    doc_agrees i d = true ->
    emit_class pt i ec cn bs ds ww tds = Ok (s, i0) ->
    parse_class (Some (Ok d)) (CStmt s) None it ww' = Ok i' ->
    map fst (ir_params i') = map fst (ir_params i)
    /\ match ir_returns i with
       | Has _ => exists r', ir_returns i' = Has r'
       | _ => ir_returns i' = FNone
       end.
Proof. exact C02Compose.C02_names_order_lemma. Qed.
Print Assumptions C02_names_order.

(* the guarded codec: inside guard_C02_ast the emitter succeeds, the parser succeeds on the emitted class and
   returns the closed form norm_C02 of the input: names, order, types, prose, defaults with their Python type, the
   return entry; the only change is the documented zero-value normalisation.  Any parse table, class name, bases,
   word_wrap on both sides, infer_type; any number of parameters *)
Theorem C02_partial : forall pt i cn bs ds ww text d it ww',
    guard_C02_ast i = true -> doc_agrees i d = true ->
    exists s i',
      emit_class pt i false cn bs ds ww (Ok text) = Ok (s, i)
      /\ parse_class (Some (Ok d)) (CStmt s) None it ww' = Ok i'
      /\ ir_params i' = norm_params_C02 (ir_params i)
      /\ ir_returns i' = norm_returns_C02 (ir_returns i)
      /\ same_interface_strict (zero_default_norm i) i' = true
      /\ same_interface (zero_default_norm i) i' = true
      /\ same_interface i i' = true.
Proof. exact C02Compose.C02_partial_lemma. Qed.
Print Assumptions C02_partial.

(* the docstring hypothesis can be met for every IR *)
Theorem C02_doc_hypothesis_satisfiable : forall i, doc_agrees i (doc_ir_of i) = true.
Proof. exact C02Compose.doc_agrees_doc_ir_of. Qed.
Print Assumptions C02_doc_hypothesis_satisfiable.

(* types: for a canonical type text of the fragment, ast.parse never consults the table and ast.unparse of the
   node is the text *)
Theorem C02_type_parse : forall pt t e, typ_ast t = Some e -> parse_expr_src pt t = Ok e.
Proof. exact C02Compose.typ_ast_parse. Qed.
Print Assumptions C02_type_parse.

Theorem C02_type_unparse : forall t e, typ_ast t = Some e -> code_of e = Ok t.
Proof. exact C02Compose.typ_ast_code. Qed.
Print Assumptions C02_type_unparse.

Theorem C02_tyexpr_roundtrip : forall t,
    ty_ok t = true ->
    exists e, ty2expr t = Some e /\ expr_ok e = true /\ show_prec PR_TEST e = show_ty t /\ forall es, e <> ETuple es.
Proof. exact C02Compose.ty_roundtrip. Qed.
Print Assumptions C02_tyexpr_roundtrip.

(* one attribute: what param2ast emits is read back as the declared type and the canonical default *)
Theorem C02_attribute_codec : forall pt n g,
    gparam_ok_C02 g = true ->
    exists x g2, param2ast pt n g = Ok (ParseAstFacts.attr_stmt x, g2)
                 /\ ParseAstFacts.at_name x = n /\ ParseAstFacts.attr_ok x
                 /\ g_typ g = Has (ParseAstFacts.at_typ x) /\ ParseAstFacts.at_def x = canon_default g.
Proof. exact C02Compose.attr_codec_guard. Qed.
Print Assumptions C02_attribute_codec.

(* one computed witness per finding class that is visible at the AST level *)
Theorem C02_witnesses : forallb C02Compose.c02_witness_ok C02Compose.c02_witnesses = true.
Proof. exact C02Compose.C02_witnesses_lemma. Qed.
Print Assumptions C02_witnesses.

(* a failure finding_class_C02 does not name: float default -0.0 comes back 0.0 *)
Theorem C02_negative_zero_unclassified :
  finding_class_C02 C02Compose.o2 C02Compose.w2_negzero = None /\ C02_domain C02Compose.w2_negzero = true
  /\ guard_C02_ast C02Compose.w2_negzero = false /\ C02Compose.fails2 C02Compose.w2_negzero = true.
Proof. exact C02Compose.C02_negative_zero_unclassified. Qed.
Print Assumptions C02_negative_zero_unclassified.

Theorem C02_nonvacuous :
  guard_C02_ast C02Compose.w2_ok = true
  /\ guard_C02 (mkO02 false false) C02Compose.w2_ok = true /\ guard_C02 (mkO02 false true) C02Compose.w2_ok = true
  /\ C02_ast_holds_b [] C02Compose.w2_ok (doc_ir_of C02Compose.w2_ok) (L "Doc.") true false true = true.
Proof. exact C02Compose.C02_nonvacuous_lemma. Qed.
Print Assumptions C02_nonvacuous.

(* ---- the strongest structural theorems of the two layers, re-exported ---- *)

(* parse side: never duplicate names *)
Theorem C02_parse_class_NoDup : forall di node cn it ww i,
    parse_class di node cn it ww = Ok i -> NoDup (map fst (ir_params i)).
Proof. exact ParseAstFacts.parse_class_NoDup. Qed.
Print Assumptions C02_parse_class_NoDup.

(* parse side: a class whose attributes are all documented, in closed form *)
Theorem C02_parse_class_documented : forall nm bases decos ds attrs i0 it ww,
    NoDup (map fst (ir_params i0)) ->
    ~ In return_type_key (map fst (ir_params i0)) ->
    Forall ParseAstFacts.attr_ok attrs ->
    incl (map ParseAstFacts.at_name attrs) (map fst (ir_params i0)) ->
    parse_class (Some (Ok i0))
                (CStmt (SClass nm bases (SExpr (EConst (VStr ds)) :: map ParseAstFacts.attr_stmt attrs) decos)) None it ww
    = (do params2 <- set_names_and_types (fold_left (fun p x => ParseAstFacts.upd x p) attrs (ir_params i0)) it ww;
       Ok (mkIR (ir_name i0) (ir_type i0) (ir_doc i0) params2 (ir_returns i0)
                (Some (mkInternal [] (Has nm) (Has (L "cls")))))).
Proof. exact ParseAstFacts.parse_class_documented. Qed.
Print Assumptions C02_parse_class_documented.

(* emit side: the annotated attributes are the parameters, return entry folded in, in order *)
Theorem C02_class_attr_names : forall pt i ec cn bs ds ww tds s i',
    emit_class pt i ec cn bs ds ww tds = Ok (s, i') ->
    map (fun x => fst (fst x)) (class_attrs_of s) = od_keys (ir_params (class_fold_returns i)).
Proof. exact C06Facts.emit_class_attr_names. Qed.
Print Assumptions C02_class_attr_names.
