(* C01 (extension) -- docstring round trip, numpydoc and Google styles: the scan link is PROVED.
   Statements closed by `exact` only; lemmas live in proofs/NGScanLink.v (which builds on proofs/DocParseNGFacts.v).

   What props/C01.v left open for these two styles: the hypothesis [scan_link_b style i = true] of
   C01_ng_partial_modulo_scan (the indent-driven scanner of DocParseNG, run on the text the specification printer
   text_of_o writes for i, returns exactly the blocks scanned_of, and the text is over the alphabet) was only
   evaluated by the harness on every generated in-guard IR.  Here it is proved for every IR inside guard_C01_ng,
   for both styles, with NO extra side condition: any number of parameters, any length of summary / type / prose /
   default text, with or without a return entry (google; numpydoc with parameters; numpydoc with only a return
   entry; numpydoc with neither).

   NOT proved here (unchanged from props/C01.v): for numpydoc/google the round trip is stated about the
   specification printer C01SpecNG.text_of_o (word_wrap off, default sentences on); that this printer equals the
   DocEmit model / the real emitter is covered by the differential correspondence check, not by a theorem
   (the ReST style has C01RestLink for this).  word_wrap=True emission is outside the statement.  Modelled, not
   verified: ast.parse/unparse on type strings, literal_eval/float on scalar text, ASCII-only text. *)
From Coq Require Import List.
From DT Require Import PyStr PyVal IR.
From DT Require DocParseNG C01SpecNG DocParseNGFacts NGScanLink.

(* the scan link itself: discharges the second hypothesis of C01.C01_ng_partial_modulo_scan *)
Theorem C01_ng_scan_link : forall style i,
    C01SpecNG.guard_C01_ng style i = true -> C01SpecNG.scan_link_b style i = true.
Proof. exact NGScanLink.scan_link_holds. Qed.
Print Assumptions C01_ng_scan_link.

(* the same, as an equation about the scanner model *)
Theorem C01_ng_scan_blocks : forall style i,
    C01SpecNG.guard_C01_ng style i = true ->
    exists text, C01SpecNG.text_of_o style i = Ok text
                 /\ forallb DocParseNG.in_alphabet text = true
                 /\ DocParseNG.scan_ng style text = Ok (C01SpecNG.scanned_of style i).
Proof. exact NGScanLink.scan_ng_guard. Qed.
Print Assumptions C01_ng_scan_blocks.

(* guard => the text is written, recognised as its own style, parsed, and the result is the same interface;
   no scan-link hypothesis any more *)
Theorem C01_ng_partial : forall style i,
    C01SpecNG.guard_C01_ng style i = true -> C01SpecNG.C01_ng_at style i.
Proof. exact NGScanLink.C01_ng_partial. Qed.
Print Assumptions C01_ng_partial.

(* not vacuous: three parameters with str / int defaults and a return entry with a default; and two parameters
   (one without prose) with a return entry, no defaults -- both inside the guard in both styles *)
Theorem C01_ng_partial_nonvacuous :
  C01SpecNG.guard_C01_ng DocParseNG.SGoogle NGScanLink.w_ng = true
  /\ C01SpecNG.guard_C01_ng DocParseNG.SNumpydoc NGScanLink.w_ng = true
  /\ C01SpecNG.guard_C01_ng DocParseNG.SGoogle NGScanLink.w_ng_plain = true
  /\ C01SpecNG.guard_C01_ng DocParseNG.SNumpydoc NGScanLink.w_ng_plain = true.
Proof. exact NGScanLink.C01_ng_partial_nonvacuous. Qed.
Print Assumptions C01_ng_partial_nonvacuous.
