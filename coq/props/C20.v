(* C20: failure safety.  (i) which commands are refused before anything runs, and that an accepted sync
   cannot fail on the shape of its arguments; (ii) under every fault no file is ever left truncated or
   partial.  Statements only; the lemmas live in proofs/FSFacts.v, SyncFacts.v, CliFacts.v. *)
From Coq Require Import List Ascii Bool Arith Relations.
From Coq Require String.
Import String.StringSyntax.
From DT Require Import PyStr Sexp PyVal PureUtils FS Sync Cli PyStrFacts FSFacts SyncFacts CliFacts.
Import ListNotations.

(* the temporary name differs from the target *)
Theorem C20_tmp_of_neq :
    forall file : path, tmp_of file <> file.
Proof. exact tmp_of_neq. Qed.
Print Assumptions C20_tmp_of_neq.

(* one write under any fault: old bytes or the complete intended bytes, nothing else changes, no temporary file left *)
Theorem C20_emit_file_io_atomic :
    forall (fs : fsys) (file : path) (m : mode) (src : bytes) (f : fault) 
      (fs' : fsys) (r : outcome unit),
    fs_get (tmp_of file) fs = None ->
    emit_file_io fs file m src f = (fs', r) ->
    (forall p : path, p <> file -> p <> tmp_of file -> fs_get p fs' = fs_get p fs) /\
    (fs_get file fs' = fs_get file fs \/ fs_get file fs' = Some (intended fs file m src)) /\
    fs_get (tmp_of file) fs' = None /\
    (r = Ok tt -> fs_get file fs' = Some (intended fs file m src)) /\
    (forall e : err, r = Err e -> fs_get file fs' = fs_get file fs).
Proof. exact emit_file_io_atomic. Qed.
Print Assumptions C20_emit_file_io_atomic.

(* the same for emit.file as a whole; a rendering error leaves the file system as it was *)
Theorem C20_emit_file_atomic :
    forall (fs : fsys) (file : path) (m : mode) (rendered : outcome bytes) 
      (f : fault) (fs' : fsys) (r : outcome unit),
    fs_get (tmp_of file) fs = None ->
    emit_file fs file m rendered f = (fs', r) ->
    (forall e : err, rendered = Err e -> fs' = fs /\ r = Err e) /\
    (forall p : path, p <> file -> p <> tmp_of file -> fs_get p fs' = fs_get p fs) /\
    (fs_get file fs' = fs_get file fs \/
     (exists src : bytes, rendered = Ok src /\ fs_get file fs' = Some (intended fs file m src))) /\
    fs_get (tmp_of file) fs' = None /\
    (r = Ok tt ->
     exists src : bytes, rendered = Ok src /\ fs_get file fs' = Some (intended fs file m src)) /\
    (forall e : err, r = Err e -> fs' = fs).
Proof. exact emit_file_atomic. Qed.
Print Assumptions C20_emit_file_atomic.

(* a conversion error or an I/O fault leaves the current file (and all but the temporary name) untouched *)
Theorem C20_conform_err_safe :
    forall (node tree irT opts : Type) (emit_k : kind -> irT -> opts -> outcome node)
      (parse_file : path -> bytes -> outcome tree) (find : list str -> tree -> option node)
      (rewrite : list str -> node -> tree -> tree * bool) (cmp : node -> node -> bool)
      (render_node : node -> outcome bytes) (render_tree : tree -> outcome bytes)
      (opts_of : option node -> list str -> kind -> opts) (type_ok : kind -> node -> bool)
      (fs : fsys) (file : path) (search : list str) (k : kind) (ir : irT) 
      (f : fault) (fs' : fsys) (e : err) (pr : list str),
    conform emit_k parse_file find rewrite cmp render_node render_tree opts_of type_ok fs file search
      k ir f = (fs', Err e, pr) ->
    fs_get file fs' = fs_get file fs /\
    (forall p : path, p <> tmp_of file -> fs_get p fs' = fs_get p fs) /\
    (fs_get (tmp_of file) fs = None -> fs' = fs).
Proof. exact conform_err_safe. Qed.
Print Assumptions C20_conform_err_safe.

(* no temporary file before, none after *)
Theorem C20_conform_tmp_clean :
    forall (node tree irT opts : Type) (emit_k : kind -> irT -> opts -> outcome node)
      (parse_file : path -> bytes -> outcome tree) (find : list str -> tree -> option node)
      (rewrite : list str -> node -> tree -> tree * bool) (cmp : node -> node -> bool)
      (render_node : node -> outcome bytes) (render_tree : tree -> outcome bytes)
      (opts_of : option node -> list str -> kind -> opts) (type_ok : kind -> node -> bool)
      (fs : fsys) (file : path) (search : list str) (k : kind) (ir : irT) 
      (f : fault) (fs' : fsys) (r : outcome bool) (pr : list str),
    fs_get (tmp_of file) fs = None ->
    conform emit_k parse_file find rewrite cmp render_node render_tree opts_of type_ok fs file search
      k ir f = (fs', r, pr) -> fs_get (tmp_of file) fs' = None.
Proof. exact conform_tmp_clean. Qed.
Print Assumptions C20_conform_tmp_clean.

(* reported modified: per branch, the complete text written *)
Theorem C20_conform_true_wrote :
    forall (node tree irT opts : Type) (emit_k : kind -> irT -> opts -> outcome node)
      (parse_file : path -> bytes -> outcome tree) (find : list str -> tree -> option node)
      (rewrite : list str -> node -> tree -> tree * bool) (cmp : node -> node -> bool)
      (render_node : node -> outcome bytes) (render_tree : tree -> outcome bytes)
      (opts_of : option node -> list str -> kind -> opts) (type_ok : kind -> node -> bool)
      (fs : fsys) (file : path) (search : list str) (k : kind) (ir : irT) 
      (f : fault) (fs' : fsys) (pr : list str),
    conform emit_k parse_file find rewrite cmp render_node render_tree opts_of type_ok fs file search
      k ir f = (fs', Ok true, pr) ->
    fs_get file fs = None /\
    (exists (n : node) (src : bytes),
       emit_k k ir (opts_of None search k) = Ok n /\
       render_node n = Ok src /\ fs' = written fs file Wt src /\ pr = []) \/
    (exists (content : bytes) (t : tree) (n : node) (src : bytes),
       fs_get file fs = Some content /\
       parse_file file content = Ok t /\
       find search t = None /\
       emit_k k ir (opts_of None search k) = Ok n /\
       render_node n = Ok src /\ fs' = written fs file Ap src /\ pr = []) \/
    (exists (content : bytes) (t : tree) (o n : node) (t' : tree) (src : bytes),
       fs_get file fs = Some content /\
       parse_file file content = Ok t /\
       find search t = Some o /\
       emit_k k ir (opts_of (Some o) search k) = Ok n /\
       search <> [] /\
       type_ok k n = true /\
       cmp o n = false /\
       rewrite search n t = (t', true) /\
       render_tree t' = Ok src /\ fs' = written fs file Wt src /\ pr = printed_line true file).
Proof. exact conform_true_wrote. Qed.
Print Assumptions C20_conform_true_wrote.

(* for every fault assignment the file system afterwards is reached by complete writes only *)
Theorem C20_ground_truth_safe_path :
    forall (node tree irT opts : Type) (emit_k : kind -> irT -> opts -> outcome node)
      (parse_file : path -> bytes -> outcome tree) (find : list str -> tree -> option node)
      (rewrite : list str -> node -> tree -> tree * bool) (cmp : node -> node -> bool)
      (render_node : node -> outcome bytes) (render_tree : tree -> outcome bytes)
      (opts_of : option node -> list str -> kind -> opts) (type_ok : kind -> node -> bool)
      (parse_truth : kind -> option node -> list str -> outcome irT) (fs : fsys) 
      (a : sync_args) (truth : path) (faults : path -> fault) (fs' : fsys)
      (r : outcome (list (path * bool))) (pr : list str),
    no_tmp_clash fs truth (targets a) ->
    ground_truth emit_k parse_file find rewrite cmp render_node render_tree opts_of type_ok
      parse_truth fs a truth faults = (fs', r, pr) ->
    safe_path fs fs' /\ no_tmp_clash fs' truth (targets a).
Proof. exact ground_truth_safe_path. Qed.
Print Assumptions C20_ground_truth_safe_path.

(* path by path: the bytes before or the complete intended text of some write *)
Theorem C20_ground_truth_never_partial :
    forall (node tree irT opts : Type) (emit_k : kind -> irT -> opts -> outcome node)
      (parse_file : path -> bytes -> outcome tree) (find : list str -> tree -> option node)
      (rewrite : list str -> node -> tree -> tree * bool) (cmp : node -> node -> bool)
      (render_node : node -> outcome bytes) (render_tree : tree -> outcome bytes)
      (opts_of : option node -> list str -> kind -> opts) (type_ok : kind -> node -> bool)
      (parse_truth : kind -> option node -> list str -> outcome irT) (fs : fsys) 
      (a : sync_args) (truth : path) (faults : path -> fault) (fs' : fsys)
      (r : outcome (list (path * bool))) (pr : list str),
    no_tmp_clash fs truth (targets a) ->
    ground_truth emit_k parse_file find rewrite cmp render_node render_tree opts_of type_ok
      parse_truth fs a truth faults = (fs', r, pr) ->
    forall p : path,
    fs_get p fs' = fs_get p fs \/
    (exists (fsm : fsys) (m : mode) (src : bytes),
       safe_path fs fsm /\ fs_get p fs' = Some (intended fsm p m src)).
Proof. exact ground_truth_never_partial. Qed.
Print Assumptions C20_ground_truth_never_partial.

(* the table is the complete enumeration: 3 * 3^6 * 2 *)
Theorem C20_table_size :
    length all_sync_shapes = 4374.
Proof. exact all_sync_shapes_length. Qed.
Print Assumptions C20_table_size.

(* exactly which sync commands are refused, for arbitrary counts *)
Theorem C20_reject_iff :
    forall s : sync_shape,
    decide_sync s = Reject <->
    ss_files s (ss_truth s) = None \/
    files_total s < 2 \/
    ss_truth_file_exists s = false \/ (exists k : kind, ss_files s k <> None /\ ss_names s k = None).
Proof. exact decide_sync_reject_iff. Qed.
Print Assumptions C20_reject_iff.

(* the same over the table, by computation *)
Theorem C20_table_reject_iff :
    forall s : sync_shape, In s all_sync_shapes -> decide_sync s = Reject <-> reject_spec s = true.
Proof. exact table_reject_iff. Qed.
Print Assumptions C20_table_reject_iff.

(* main itself never raises in the sync branch *)
Theorem C20_decide_sync_never_raises :
    forall (s : sync_shape) (e : err), decide_sync s <> Raise e.
Proof. exact decide_sync_never_raises. Qed.
Print Assumptions C20_decide_sync_never_raises.

(* an accepted sync command does not fail on the shape of its arguments (arbitrary counts, names given at least once) *)
Theorem C20_accepted_runs :
    forall s : sync_shape, names_wf s -> decide_sync s = Run -> arg_level_error s = None.
Proof. exact run_no_arg_error. Qed.
Print Assumptions C20_accepted_runs.

(* over the table, by computation alone *)
Theorem C20_table_accepted_runs :
    forall s : sync_shape,
    In s all_sync_shapes ->
    decide_sync s = Run -> names_complete s = true /\ arg_level_error s = None.
Proof. exact table_run_no_arg_error. Qed.
Print Assumptions C20_table_accepted_runs.

(* over the table, as an instance of the general theorem *)
Theorem C20_table_accepted_runs_instance :
    forall s : sync_shape, In s all_sync_shapes -> decide_sync s = Run -> arg_level_error s = None.
Proof. exact table_run_no_arg_error_instance. Qed.
Print Assumptions C20_table_accepted_runs_instance.

(* the earlier guarded form *)
Theorem C20_accepted_runs_partial :
    forall s : sync_shape,
    In s all_sync_shapes ->
    decide_sync s = Run -> names_complete s = true -> arg_level_error s = None.
Proof. exact table_run_partial. Qed.
Print Assumptions C20_accepted_runs_partial.

(* the well-formedness premise cannot be dropped *)
Theorem C20_accepted_runs_needs_wf :
    exists s : sync_shape, decide_sync s = Run /\ arg_level_error s = Some IndexError.
Proof. exact run_arg_error_needs_wf. Qed.
Print Assumptions C20_accepted_runs_needs_wf.

(* both decisions occur; a command refused only for a missing name *)
Theorem C20_table_nonvacuous :
    (exists s : sync_shape, In s all_sync_shapes /\ decide_sync s = Run) /\
    (exists s : sync_shape,
       In s all_sync_shapes /\
       decide_sync s = Reject /\
       ss_truth_file_exists s = true /\ files_total s >= 2 /\ ss_files s (ss_truth s) <> None).
Proof. exact table_nonvacuous. Qed.
Print Assumptions C20_table_nonvacuous.

(* sync_properties runs iff the parameter lists pair up and both files exist *)
Theorem C20_sync_properties_run_iff :
    forall c i o : bool, decide_sync_properties c i o = Run <-> c = true /\ i = true /\ o = true.
Proof. exact decide_sync_properties_run_iff. Qed.
Print Assumptions C20_sync_properties_run_iff.

(* and is refused (usage error, nothing touched) otherwise *)
Theorem C20_sync_properties_reject_iff :
    forall c i o : bool, decide_sync_properties c i o = Reject <-> c = false \/ i = false \/ o = false.
Proof. exact decide_sync_properties_reject_iff. Qed.
Print Assumptions C20_sync_properties_reject_iff.

(* it never ends in an exception at this stage, and an accepted invocation pairs every --input-param with an
   --output-param (regression of the /repo fix: a mismatch used to reach a bare assert and a traceback) *)
Theorem C20_sync_properties_never_raises :
    forall c i o e, decide_sync_properties c i o <> Raise e.
Proof. exact decide_sync_properties_never_raises. Qed.
Print Assumptions C20_sync_properties_never_raises.

Theorem C20_sync_properties_accepted_pairs_up :
    forall c i o : bool, decide_sync_properties c i o = Run -> c = true.
Proof. exact decide_sync_properties_run_counts. Qed.
Print Assumptions C20_sync_properties_accepted_pairs_up.

(* gen runs iff the output does not exist *)
Theorem C20_gen_run_iff :
    forall o : bool, decide_gen o = Run <-> o = false.
Proof. exact decide_gen_run_iff. Qed.
Print Assumptions C20_gen_run_iff.

(* and raises IOError otherwise *)
Theorem C20_gen_raise_iff :
    forall o : bool, decide_gen o = Raise IOError <-> o = true.
Proof. exact decide_gen_raise_iff. Qed.
Print Assumptions C20_gen_raise_iff.
