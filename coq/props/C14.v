(* C14: sync_properties changes exactly the addressed property.  Statements only; lemmas in proofs/SyncPropsFacts.v,
   proofs/C14Facts.v. *)
From Coq Require Import List ZArith.
From Coq Require String.
Import String.StringSyntax.
From DT Require Import PyStr PyVal PyAst Locate SyncProps C15Spec C14Spec SyncPropsFacts C14Facts.
Import ListNotations.

(* the full statement is false of the faithful model: an assignment that replaces a method argument writes its value
   into ANOTHER argument's default (front-indexed slot, shifted by self) *)
Theorem C14_refuted : ~ C14_statement.
Proof. exact C14_refuted_lemma. Qed.
Print Assumptions C14_refuted.

(* any number of pairs, no guard, by induction over the list of pairs: whatever is written is written once, to
   the output file, after every pair was applied; each pair found its input node and changed the output tree by
   exactly one first-match replacement at its output address (frame theorem of RewriteAtQuery) *)
Theorem C14_frame_thm : forall x, C14_frame x.
Proof. exact C14_frame_lemma. Qed.
Print Assumptions C14_frame_thm.

(* at most one write event, never of the input file *)
Theorem C14_events : forall x,
    fst (run_C14 x) = [] \/ exists tree, fst (run_C14 x) = [EvWrite FOutput tree] /\ snd (run_C14 x) = Ok tt.
Proof. exact C14_events_lemma. Qed.
Print Assumptions C14_events.

(* an error means no write *)
Theorem C14_error_no_write : forall x e, snd (run_C14 x) = Err e -> fst (run_C14 x) = [].
Proof. exact C14_error_no_write_lemma. Qed.
Print Assumptions C14_error_no_write.

(* an input address that find_in_ast does not find: AssertionError and no write *)
Theorem C14_input_not_found : forall x i0 o0,
    ci_eval x = false ->
    ast_parse [1] (ci_in x) = Ok i0 -> ast_parse [0] (ci_out x) = Ok o0 ->
    (exists ip op ev rest log,
        loop_pairs x = (ip, op, ev) :: rest /\ find_in_ast_log (dotted ip) i0 = Ok (None, log)) ->
    run_C14 x = ([], Err AssertionError).
Proof. exact C14_not_found_no_write. Qed.
Print Assumptions C14_input_not_found.

(* inside the guard (one pair, addresses in the regions C15 covers, no eval): an address
   that does not resolve gives an error and no write; a write replaces exactly the node at the RESOLVED position
   of the output address, and the input address resolves *)
Theorem C14_partial : forall x, guard_C14 x = true -> C14_holds x.
Proof. exact C14_partial_lemma. Qed.
Print Assumptions C14_partial.

(* further refutation witnesses, one per defect *)
Theorem C14_nested_input_not_applied :
  C14_domain (w_call w_in_nested [L "C.D.z"] w_out_z [L "z"] None) = true
  /\ addresses_resolve (w_call w_in_nested [L "C.D.z"] w_out_z [L "z"] None) = true
  /\ run_C14 (w_call w_in_nested [L "C.D.z"] w_out_z [L "z"] None) = ([], Err AssertionError)
  /\ finding_class_C14 (w_call w_in_nested [L "C.D.z"] w_out_z [L "z"] None) = Some K14_input_lookup.
Proof. exact C14_refuted_nested_input. Qed.
Print Assumptions C14_nested_input_not_applied.

(* regression lemmas for the defects fixed in /repo 3e792de and 6d00342 *)
Theorem C14_output_docstring_untouched :
  guard_C14 (w_call w_in [L "f.a"] w_out_doc [L "g.x"] None) = true
  /\ C14_at_b (w_call w_in [L "f.a"] w_out_doc [L "g.x"] None) = true.
Proof. exact C14_regression_docstring. Qed.
Print Assumptions C14_output_docstring_untouched.

Theorem C14_keyword_only_input_applied :
  guard_C14 (w_call w_in_kw [L "f.a"] w_out [L "g.x"] None) = true
  /\ C14_at_b (w_call w_in_kw [L "f.a"] w_out [L "g.x"] None) = true.
Proof. exact C14_regression_kwonly. Qed.
Print Assumptions C14_keyword_only_input_applied.

Theorem C14_default_written_to_wrong_argument :
  C14_domain (w_call w_in_ann [L "a"] w_out_method [L "C.m.a"] None) = true
  /\ C14_at_b (w_call w_in_ann [L "a"] w_out_method [L "C.m.a"] None) = false
  /\ option_map (fun t => match t with
                          | [SClass _ _ [SFunc _ a _ _ _] _] => ar_defaults a
                          | _ => []
                          end)
                (written_tree (run_C14 (w_call w_in_ann [L "a"] w_out_method [L "C.m.a"] None)))
     = Some [EConst (VInt 3%Z)].
Proof. exact C14_refuted_default_slot. Qed.
Print Assumptions C14_default_written_to_wrong_argument.

Example C14_nonvacuous :
  guard_C14 (w_call w_in [L "f.a"] w_out [L "g.x"] None) = true
  /\ C14_at_b (w_call w_in [L "f.a"] w_out [L "g.x"] None) = true
  /\ guard_C14 (w_call w_in [L "f.a"] w_out [L "g.x"] (Some (L "Optional[{output_param}]"))) = true
  /\ C14_at_b (w_call w_in [L "f.a"] w_out [L "g.x"] (Some (L "Optional[{output_param}]"))) = true
  /\ guard_C14 (w_call w_in [L "f.nope"] w_out [L "g.x"] None) = true
  /\ run_C14 (w_call w_in [L "f.nope"] w_out [L "g.x"] None) = ([], Err AssertionError)
  /\ guard_C14 (w_call w_in [L "f.a"] w_out [L "g.nope"] None) = true
  /\ run_C14 (w_call w_in [L "f.a"] w_out [L "g.nope"] None) = ([], Err AssertionError).
Proof. exact C14_nonvacuous_lemma. Qed.
Print Assumptions C14_nonvacuous.
