(* C06Ext: emitted code is valid Python that behaves as the IR says - VALUE-LEVEL agreement for the class and the
   argparse emitters, and well-formed annotations for the function emitter (extension of props/C06.v; to be merged
   into it).  Statements only; lemmas in proofs/C06ValuesFacts.v; specs and guards in model/C06Values.v.

   Proved here, for every parse table, any number of parameters, every option combination:
   - class: inside guard_C06_class the annotated assignments of the emitted class are EXACTLY spec_class_attrs:
     one  name: <annotation> = <value>  per parameter (return entry folded in), in order, the annotation being the
     parse of the IR's type text and the value the constant of the IR's default (None for the spellings of None; the
     neutral value of the declared type where the IR gives no default).  The guard's complement is the finding
     classes class-NoneType-annotation, class-annotation-from-default (no declared type), class-private-name-mangled,
     class-falsy-default-becomes-zero, class-str-default-parsed-as-code, class-quote-of-non-str-default,
     str-default-requoted, code-default-emitted-as-string (plus the special type spellings dict / *x / complex, types
     with unbalanced brackets, and defaults that are AST nodes or other objects: outside the property's domain).
   - argparse: inside guard_C06_argparse the add_argument calls of the emitted function are EXACTLY
     spec_argparse_table: option string, type= (the scalar of T / Optional[T] / List[T]; not written for str),
     choices= (the members of Literal['a', 'b', ...]), action= (append for List[T]), help= (the prose, wrapped when
     word_wrap is on), required=, default= (the constant).  The guard's complement is argparse-inference (a default
     whose Python type is not the declared scalar, a code / None-like / quoted str default, prose that announces a
     default or that set_value unquotes), argparse-single-literal-no-choices, and declared types of other forms
     (Union, Tuple, dotted names, nested generics), names ending in kwargs, carried bodies: NOT proved for those.
   - function: wf_python of the emitted function from conditions on the IR alone (distinct identifier names; every
     declared type a scalar name or a text of TyExpr's canonical fragment): the hypothesis
     ann_ok / wf_python of parsed annotation expressions  of C06_function_wf is discharged for that fragment.

   NOT proved here (as before): that CPython reads the artefacts as class_attrs_of / argparse_table_of /
   py_signature_of say (name mangling, evaluation of annotations, what ArgumentParser does with the keywords), that
   the text survives unparse / re-parse and emit.file with or without black: executed per case by
   harness/prop_C06.py.  The required= column of the spec is doctrans' own convention (the IR has no such field):
   never for Optional[..], always for str / int / float and for Literal, for bool only with a default; the oracle
   does not compare it.  Annotations of function parameters whose type text needs the parse table (outside
   TyExpr's canonical fragment) are still covered only by the hypothesis of C06_function_wf. *)
From Coq Require Import List Bool.
From Coq Require String.
Import String.StringSyntax.
From DT Require Import PyStr PyVal Defaults PyAst IR EmitAst ParseAst C02Codec C06Spec C06Values C06ValuesFacts.
Import ListNotations.

(* ---- class ---- *)
Theorem C06_class_partial : forall pt i ec cn bs ds ww tds s i',
    guard_C06_class i = true ->
    emit_class pt i ec cn bs ds ww tds = Ok (s, i') ->
    spec_class_attrs pt i = Ok (class_attrs_of s).
Proof. exact C06_class_partial_lemma. Qed.
Print Assumptions C06_class_partial.

(* the same read attribute by attribute *)
Theorem C06_class_attr_values : forall pt i ec cn bs ds ww tds s i',
    guard_C06_class i = true ->
    emit_class pt i ec cn bs ds ww tds = Ok (s, i') ->
    Forall2 (fun kv a =>
               fst (fst a) = fst kv
               /\ (exists t, g_typ (snd kv) = Has t /\ parse_expr_src pt t = Ok (snd (fst a)))
               /\ match g_default (snd kv) with
                  | Some (DV v) => snd a = Some (EConst (ir_value v))
                  | _ => exists c, snd a = Some (EConst c)
                  end)
            (ir_params (class_fold_returns i)) (class_attrs_of s).
Proof. exact C06_class_attr_values_lemma. Qed.
Print Assumptions C06_class_attr_values.

(* inside TyExpr's canonical fragment the annotation needs no parse table and unparses to the IR's text *)
Theorem C06_class_annotation_canonical : forall pt t e,
    typ_ast t = Some e -> parse_expr_src pt t = Ok e /\ ParseAst.code_of e = Ok t.
Proof. exact class_annotation_canonical. Qed.
Print Assumptions C06_class_annotation_canonical.

Theorem C06_class_refuted : ~ C06_class_statement.
Proof. exact C06_class_refuted_lemma. Qed.
Print Assumptions C06_class_refuted.

Theorem C06_class_witnesses :
  forallb (fun w => negb (guard_C06_class (fst w)) && negb (C06_class_holds_b (snd w) (fst w) false true (L "doc")))
          c6_class_witnesses = true.
Proof. exact C06_class_witnesses_lemma. Qed.
Print Assumptions C06_class_witnesses.

Example C06_class_nonvacuous :
  guard_C06_class c6_ir_ok = true
  /\ exists s i', emit_class [] c6_ir_ok false (L "C") [L "object"] [] true (Ok (L "doc")) = Ok (s, i')
                  /\ List.length (class_attrs_of s) = 11
                  /\ wf_python s = true.
Proof. exact C06_class_nonvacuous_lemma. Qed.
Print Assumptions C06_class_nonvacuous.

(* ---- argparse ---- *)
Theorem C06_argparse_partial : forall pt i edd fn ft wd ww ds s i2,
    guard_C06_argparse ww i = true ->
    emit_argparse pt i edd fn ft wd ww ds = Ok (s, i2) ->
    spec_argparse_table ww i = Some (argparse_table_of s).
Proof. exact C06_argparse_partial_lemma. Qed.
Print Assumptions C06_argparse_partial.

Theorem C06_argparse_refuted : ~ C06_argparse_statement.
Proof. exact C06_argparse_refuted_lemma. Qed.
Print Assumptions C06_argparse_refuted.

Theorem C06_argparse_witnesses :
  forallb (fun w => negb (guard_C06_argparse false w) && negb (C06_argparse_holds_b c6_ap_pt w false false false))
          c6_argparse_witnesses = true.
Proof. exact C06_argparse_witnesses_lemma. Qed.
Print Assumptions C06_argparse_witnesses.

Example C06_argparse_nonvacuous :
  guard_C06_argparse true c6_ap_ir_ok = true /\ guard_C06_argparse false c6_ap_ir_ok = true
  /\ exists s i2, emit_argparse [] c6_ap_ir_ok true (Some (L "f")) (Some (L "static")) true true (Ok (L "Doc.")) = Ok (s, i2)
                  /\ List.length (argparse_table_of s) = 9
                  /\ wf_python s = true.
Proof. exact C06_argparse_nonvacuous_lemma. Qed.
Print Assumptions C06_argparse_nonvacuous.

(* ---- function: annotations inside TyExpr's canonical fragment ---- *)
Theorem C06_function_wf_types : forall pt i fn ft it kw tds n a body d r i2 ftype,
    emit_function pt i fn ft it kw tds = Ok (SFunc n a body d r, i2) ->
    py_or ft (ir_type i) = Ok ftype ->
    guard_C06_function_types i = true ->
    guard_C06_function_names ftype i = true ->
    is_identifier n = true ->
    wf_python (SFunc n a body d r) = true.
Proof. exact C06_function_wf_types_lemma. Qed.
Print Assumptions C06_function_wf_types.

Example C06_function_wf_nonvacuous :
  guard_C06_function_types c6_fn_ir_ok = true
  /\ guard_C06_function_names (Some (L "self")) c6_fn_ir_ok = true
  /\ exists s i2, emit_function [] c6_fn_ir_ok (Some (L "f")) (Some (L "self")) true false (Ok []) = Ok (s, i2).
Proof. exact C06_function_wf_nonvacuous_lemma. Qed.
Print Assumptions C06_function_wf_nonvacuous.
