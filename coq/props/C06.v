(* C06: emitted code is valid Python that behaves as the IR says - the emitter's side.
   Statements only; lemmas in proofs/C06Facts.v.  Model: EmitAst; spec and read-off functions: C06Spec.
   Partial by construction: that CPython reads the artefact as py_signature_of / class_attrs_of /
   argparse_table_of say, that the text survives unparse / re-parse and emit.file with or without black,
   is CPython / black behaviour: executed on every generated case by harness/prop_C06.py. *)
From Coq Require Import List Bool.
From Coq Require String.
Import String.StringSyntax.
From DT Require Import PyStr PyVal PyAst IR EmitAst C06Spec C06Facts.
Import ListNotations.

(* "the function has exactly that signature" is false of the faithful model: a parameter without a default
   is emitted with default None (def f(x: int = None)) *)
Theorem C06_function_refuted : ~ C06_function_statement.
Proof. exact C06_function_refuted_lemma. Qed.
Print Assumptions C06_function_refuted.

(* ---- structure of the emitted function, for every IR, every option combination, any number of parameters ---- *)
(* every parameter carries a default node; names, order and kinds are those of the IR; **kwargs last *)
Theorem C06_function_signature : forall pt i fn ft it kw tds n a body d r i2,
    emit_function pt i fn ft it kw tds = Ok (SFunc n a body d r, i2) ->
    exists ftype ps,
      py_or ft (ir_type i) = Ok ftype
      /\ map_outcome (emitted_param_sig pt it kw) (filter no_kwargs (ir_params i)) = Ok ps
      /\ py_signature_of (SFunc n a body d r) = Some (first_arg ftype ++ ps ++ kwarg_sig i, r).
Proof. exact emit_function_signature. Qed.
Print Assumptions C06_function_signature.

(* len defaults <= len args, len kw_defaults = len kwonlyargs: what CPython's compiler demands *)
Theorem C06_function_default_alignment : forall pt i fn ft it kw tds n a body d r i2,
    emit_function pt i fn ft it kw tds = Ok (SFunc n a body d r, i2) ->
    List.length (ar_defaults a) <= List.length (ar_args a)
    /\ List.length (ar_kw_defaults a) = List.length (ar_kwonly a)
    /\ List.length (ar_defaults a) + List.length (ar_kw_defaults a)
       = List.length (filter no_kwargs (ir_params i)).
Proof. exact emit_function_counts. Qed.
Print Assumptions C06_function_default_alignment.

Theorem C06_function_names : forall pt i fn ft it kw tds n a body d r i2,
    emit_function pt i fn ft it kw tds = Ok (SFunc n a body d r, i2) ->
    exists ftype, py_or ft (ir_type i) = Ok ftype
      /\ map a_name (ar_args a ++ ar_kwonly a)
         = map a_name (fn_args0 ftype) ++ map fst (filter no_kwargs (ir_params i))
      /\ ar_vararg a = None /\ ar_kwarg a = fn_kwarg i.
Proof. exact emit_function_names. Qed.
Print Assumptions C06_function_names.

(* well-formedness of the emitted argument list reduces to the IR's names being distinct identifiers and no
   Name(None) annotation (typ present-but-None with inline types): the length conditions always hold *)
Theorem C06_function_wf : forall pt i fn ft it kw tds n a body d r i2,
    emit_function pt i fn ft it kw tds = Ok (SFunc n a body d r, i2) ->
    forallb (fun x => is_identifier (a_name x) && ann_ok (a_ann x)) (all_args a) = true ->
    nodupb (map a_name (all_args a)) = true ->
    wf_arguments a = true.
Proof. exact emit_function_wf. Qed.
Print Assumptions C06_function_wf.

Theorem C06_function_no_annotations : forall pt i fn ft kw tds n a body d r i2,
    emit_function pt i fn ft false kw tds = Ok (SFunc n a body d r, i2) ->
    forallb (fun x => ann_ok (a_ann x)) (all_args a) = true /\ r = None.
Proof. exact emit_function_no_annotations. Qed.
Print Assumptions C06_function_no_annotations.

(* inside the guard (every non-kwargs parameter has a scalar, non-code default that set_value writes as it
   is) the emitted function has the signature the IR describes *)
Theorem C06_function_partial : forall pt i fn ft it kw tds s i2 ftype,
    guard_C06_function i = true ->
    emit_function pt i fn ft it kw tds = Ok (s, i2) ->
    py_or ft (ir_type i) = Ok ftype ->
    exists sg, spec_signature pt i ftype it kw = Ok sg /\ option_map fst (py_signature_of s) = Some sg.
Proof. exact C06_function_partial_lemma. Qed.
Print Assumptions C06_function_partial.

(* ---- class: the annotated attributes are the parameters (return entry folded in), in order ---- *)
Theorem C06_class_attr_names : forall pt i ec cn bs ds ww tds s i',
    emit_class pt i ec cn bs ds ww tds = Ok (s, i') ->
    map (fun x => fst (fst x)) (class_attrs_of s) = od_keys (ir_params (class_fold_returns i)).
Proof. exact emit_class_attr_names. Qed.
Print Assumptions C06_class_attr_names.

(* ---- argparse: one add_argument("--name", ...) per parameter, in order, after docstring and description ---- *)
Theorem C06_argparse_options : forall pt i edd fn ft wd ww ds n a body d r i2,
    emit_argparse pt i edd fn ft wd ww ds = Ok (SFunc n a body d r, i2) ->
    exists doc desc adds tail,
      body = doc :: desc :: adds ++ tail
      /\ is_add_argument doc = None /\ is_add_argument desc = None
      /\ Forall2 (fun kv s => exists kws, is_add_argument s = Some (spec_option (fst kv), kws)) (ir_params i) adds.
Proof. exact emit_argparse_options. Qed.
Print Assumptions C06_argparse_options.

Example C06_nonvacuous :
  guard_C06_function w6_ir_ok = true
  /\ exists s i2, emit_function [] w6_ir_ok (Some (L "f")) (Some (L "self")) true true (Ok []) = Ok (s, i2)
                  /\ wf_python s = true.
Proof. exact C06_nonvacuous_lemma. Qed.
Print Assumptions C06_nonvacuous.
