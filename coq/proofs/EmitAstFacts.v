(* EmitAstFacts: induction principles for the nested inductives of PyAst, reflection of the structural
   equalities, and basic facts about the EmitAst model used by C06 / C13 / C16. *)
From Coq Require Import List Ascii Bool Arith ZArith Lia.
From Coq Require String.
Import String.StringSyntax.
From DT Require Import PyStr Sexp PyVal TyExpr PureUtils Defaults PyAst IR EmitAst PyStrFacts.
Import ListNotations.

(* ------------------------------------------------------------------ induction principles *)
Section ExprInd.
  Variable P : expr -> Prop.
  Hypothesis Hconst : forall v, P (EConst v).
  Hypothesis Hname : forall id, P (EName id).
  Hypothesis Hattr : forall e a, P e -> P (EAttr e a).
  Hypothesis Hsub : forall e s, P e -> P s -> P (ESub e s).
  Hypothesis Htuple : forall es, Forall P es -> P (ETuple es).
  Hypothesis Hlist : forall es, Forall P es -> P (EList es).
  Hypothesis Hdict : forall ks vs, Forall P ks -> Forall P vs -> P (EDict ks vs).
  Hypothesis Hcall : forall f args kws, P f -> Forall P args -> Forall (fun p => P (snd p)) kws ->
                                        P (ECall f args kws).
  Hypothesis Hunary : forall op e, P e -> P (EUnary op e).
  Hypothesis Hopaque : forall s, P (EOpaque s).

  Fixpoint expr_ind' (e : expr) : P e :=
    let go := (fix go (l : list expr) : Forall P l :=
                 match l with
                 | [] => Forall_nil P
                 | x :: r => Forall_cons x (expr_ind' x) (go r)
                 end) in
    match e with
    | EConst v => Hconst v
    | EName id => Hname id
    | EAttr b a => Hattr b a (expr_ind' b)
    | ESub b s => Hsub b s (expr_ind' b) (expr_ind' s)
    | ETuple es => Htuple es (go es)
    | EList es => Hlist es (go es)
    | EDict ks vs => Hdict ks vs (go ks) (go vs)
    | ECall f args kws =>
      Hcall f args kws (expr_ind' f) (go args)
            ((fix gok (l : list (option str * expr)) : Forall (fun p => P (snd p)) l :=
                match l with
                | [] => Forall_nil _
                | p :: r => Forall_cons p (expr_ind' (snd p)) (gok r)
                end) kws)
    | EUnary op x => Hunary op x (expr_ind' x)
    | EOpaque s => Hopaque s
    end.
End ExprInd.

Section StmtInd.
  Variable P : stmt -> Prop.
  Hypothesis Hfunc : forall n a b d r, Forall P b -> P (SFunc n a b d r).
  Hypothesis Hclass : forall n bs b d, Forall P b -> P (SClass n bs b d).
  Hypothesis Hann : forall t a v, P (SAnnAssign t a v).
  Hypothesis Hassign : forall ts v, P (SAssign ts v).
  Hypothesis Hexpr : forall e, P (SExpr e).
  Hypothesis Hreturn : forall e, P (SReturn e).
  Hypothesis Hother : forall t h bl, Forall (Forall P) bl -> P (SOther t h bl).

  Fixpoint stmt_ind' (s : stmt) : P s :=
    let go := (fix go (l : list stmt) : Forall P l :=
                 match l with
                 | [] => Forall_nil P
                 | x :: r => Forall_cons x (stmt_ind' x) (go r)
                 end) in
    match s with
    | SFunc n a b d r => Hfunc n a b d r (go b)
    | SClass n bs b d => Hclass n bs b d (go b)
    | SAnnAssign t a v => Hann t a v
    | SAssign ts v => Hassign ts v
    | SExpr e => Hexpr e
    | SReturn e => Hreturn e
    | SOther t h bl =>
      Hother t h bl ((fix gob (l : list (list stmt)) : Forall (Forall P) l :=
                        match l with
                        | [] => Forall_nil _
                        | x :: r => Forall_cons x (go x) (gob r)
                        end) bl)
    end.
End StmtInd.

(* ------------------------------------------------------------------ generic list helpers *)
Lemma map_ext_Forall : forall {A B} (f g : A -> B) l,
    Forall (fun x => f x = g x) l -> map f l = map g l.
Proof.
  intros A B f g l H. induction H as [|x r Hx Hr IH]; cbn; [reflexivity|]. now rewrite Hx, IH.
Qed.

Lemma list_eqb_eq : forall {A} (f : A -> A -> bool) (a : list A),
    Forall (fun x => forall y, f x y = true -> x = y) a ->
    forall b, list_eqb f a b = true -> a = b.
Proof.
  intros A f a H. induction H as [|x r Hx Hr IH]; intros b E; destruct b as [|y b']; cbn in E; try discriminate.
  - reflexivity.
  - apply andb_true_iff in E. destruct E as [E1 E2]. f_equal; [now apply Hx | now apply IH].
Qed.

Lemma option_eqb_eq : forall {A} (f : A -> A -> bool) (a b : option A),
    (forall x y, f x y = true -> x = y) -> option_eqb f a b = true -> a = b.
Proof.
  intros A f a b H E. destruct a as [x|], b as [y|]; cbn in E; try discriminate; [f_equal; now apply H | reflexivity].
Qed.

Lemma pyval_eqb_eq : forall a b, pyval_eqb a b = true -> a = b.
Proof.
  intros a b E. destruct a, b; cbn in E; try discriminate; try reflexivity.
  - f_equal. now apply Bool.eqb_prop.
  - f_equal. now apply Z.eqb_eq.
  - f_equal. now apply str_eqb_eq.
  - f_equal. now apply str_eqb_eq.
Qed.

Lemma pyval_eqb_refl : forall a, pyval_eqb a a = true.
Proof.
  destruct a; cbn; try reflexivity.
  - apply Bool.eqb_reflx.
  - apply Z.eqb_refl.
  - apply str_eqb_refl.
  - apply str_eqb_refl.
Qed.

(* ------------------------------------------------------------------ structural equality reflects equality *)
Lemma expr_eqb_eq : forall a b, expr_eqb a b = true -> a = b.
Proof.
  intros a. induction a as [v|id|e a IHe|e s IHe IHs|es IH|es IH|ks vs IHk IHv|f args kws IHf IHa IHk|op e IHe|s]
                             using expr_ind'; intros b E; destruct b; cbn in E; try discriminate.
  - f_equal. now apply pyval_eqb_eq.
  - f_equal. now apply str_eqb_eq.
  - apply andb_true_iff in E. destruct E as [E1 E2]. f_equal; [now apply IHe | now apply str_eqb_eq].
  - apply andb_true_iff in E. destruct E as [E1 E2]. f_equal; [now apply IHe | now apply IHs].
  - f_equal. eapply list_eqb_eq; eauto.
  - f_equal. eapply list_eqb_eq; eauto.
  - apply andb_true_iff in E. destruct E as [E1 E2]. f_equal; eapply list_eqb_eq; eauto.
  - apply andb_true_iff in E. destruct E as [E12 E3]. apply andb_true_iff in E12. destruct E12 as [E1 E2].
    f_equal; [now apply IHf | eapply list_eqb_eq; eauto |].
    eapply list_eqb_eq; [|exact E3].
    eapply Forall_impl; [|exact IHk]. intros [o1 e1] Hp [o2 e2] Ep. cbn in *.
    apply andb_true_iff in Ep. destruct Ep as [Eo Ee]. f_equal.
    + apply option_eqb_eq in Eo; [assumption|]. intros x y Hxy. now apply str_eqb_eq.
    + now apply Hp.
  - apply andb_true_iff in E. destruct E as [E1 E2]. f_equal; [now apply str_eqb_eq | now apply IHe].
  - f_equal. now apply str_eqb_eq.
Qed.

Lemma arg_eqb_eq : forall a b, arg_eqb a b = true -> a = b.
Proof.
  intros [n1 a1] [n2 a2] E. unfold arg_eqb in E. cbn in E. apply andb_true_iff in E. destruct E as [E1 E2].
  f_equal; [now apply str_eqb_eq | eapply option_eqb_eq; eauto using expr_eqb_eq].
Qed.

Lemma list_eqb_eq_simple : forall {A} (f : A -> A -> bool) (a b : list A),
    (forall x y, f x y = true -> x = y) -> list_eqb f a b = true -> a = b.
Proof.
  intros A f a b H E. eapply list_eqb_eq; [|exact E]. apply Forall_forall. intros x _ y Hxy. now apply H.
Qed.

Lemma arguments_eqb_eq : forall a b, arguments_eqb a b = true -> a = b.
Proof.
  intros [a1 d1 k1 kd1 v1 w1] [a2 d2 k2 kd2 v2 w2] E. unfold arguments_eqb in E. cbn in E.
  repeat (apply andb_true_iff in E; let E' := fresh "E" in destruct E as [E E']).
  f_equal.
  - eapply list_eqb_eq_simple; eauto using arg_eqb_eq.
  - eapply list_eqb_eq_simple; eauto using expr_eqb_eq.
  - eapply list_eqb_eq_simple; eauto using arg_eqb_eq.
  - eapply list_eqb_eq_simple; [|eassumption]. intros x y Hxy. eapply option_eqb_eq; eauto using expr_eqb_eq.
  - eapply option_eqb_eq; eauto using arg_eqb_eq.
  - eapply option_eqb_eq; eauto using arg_eqb_eq.
Qed.

Lemma stmt_eqb_eq : forall a b, stmt_eqb a b = true -> a = b.
Proof.
  intros a. induction a as [n a b d r IH|n bs b d IH|t a v|ts v|e|e|t h bl IH] using stmt_ind';
    intros s2 E; destruct s2; cbn in E; try discriminate.
  - repeat (apply andb_true_iff in E; let E' := fresh "E" in destruct E as [E E']).
    f_equal.
    + now apply str_eqb_eq.
    + now apply arguments_eqb_eq.
    + eapply list_eqb_eq; eauto.
    + eapply list_eqb_eq_simple; eauto using expr_eqb_eq.
    + eapply option_eqb_eq; eauto using expr_eqb_eq.
  - repeat (apply andb_true_iff in E; let E' := fresh "E" in destruct E as [E E']).
    f_equal.
    + now apply str_eqb_eq.
    + eapply list_eqb_eq_simple; eauto using expr_eqb_eq.
    + eapply list_eqb_eq; eauto.
    + eapply list_eqb_eq_simple; eauto using expr_eqb_eq.
  - repeat (apply andb_true_iff in E; let E' := fresh "E" in destruct E as [E E']).
    f_equal; [now apply expr_eqb_eq | now apply expr_eqb_eq | eapply option_eqb_eq; eauto using expr_eqb_eq].
  - apply andb_true_iff in E. destruct E as [E1 E2].
    f_equal; [eapply list_eqb_eq_simple; eauto using expr_eqb_eq | now apply expr_eqb_eq].
  - f_equal. now apply expr_eqb_eq.
  - f_equal. eapply option_eqb_eq; eauto using expr_eqb_eq.
  - repeat (apply andb_true_iff in E; let E' := fresh "E" in destruct E as [E E']).
    f_equal; [now apply str_eqb_eq | now apply str_eqb_eq |].
    eapply list_eqb_eq; [|eassumption].
    eapply Forall_impl; [|exact IH]. intros blk Hblk y Hy. eapply list_eqb_eq; eauto.
Qed.

(* ------------------------------------------------------------------ outcome plumbing *)
Lemma bind_Ok : forall {A B} (x : outcome A) (f : A -> outcome B) b,
    bind x f = Ok b -> exists a, x = Ok a /\ f a = Ok b.
Proof. intros A B [a|e] f b H; cbn in H; [eauto | discriminate]. Qed.

Lemma map_outcome_length : forall {A B} (f : A -> outcome B) l r,
    map_outcome f l = Ok r -> List.length r = List.length l.
Proof.
  intros A B f l. induction l as [|x l IH]; intros r H; cbn in H.
  - inversion H. reflexivity.
  - apply bind_Ok in H. destruct H as [y [Hy H]]. apply bind_Ok in H. destruct H as [ys [Hys H]].
    inversion H. subst. cbn. f_equal. now apply IH.
Qed.

Lemma map_outcome_Forall2 : forall {A B} (f : A -> outcome B) l r,
    map_outcome f l = Ok r -> Forall2 (fun x y => f x = Ok y) l r.
Proof.
  intros A B f l. induction l as [|x l IH]; intros r H; cbn in H.
  - inversion H. constructor.
  - apply bind_Ok in H. destruct H as [y [Hy H]]. apply bind_Ok in H. destruct H as [ys [Hys H]].
    inversion H. subst. constructor; [assumption | now apply IH].
Qed.

(* ------------------------------------------------------------------ last_is_return *)
Lemma last_is_return_app : forall b r, last_is_return (b ++ [r]) = is_return r.
Proof. intros b r. unfold last_is_return. rewrite rev_app_distr. reflexivity. Qed.

Lemma last_is_return_nil : last_is_return [] = false.
Proof. reflexivity. Qed.

Lemma last_is_return_true : forall b, last_is_return b = true ->
    exists b' r, b = b' ++ [r] /\ is_return r = true.
Proof.
  intros b H. unfold last_is_return in H. destruct (rev b) as [|s r'] eqn:E; [discriminate|].
  exists (rev r'), s. split; [|assumption].
  rewrite <- (rev_involutive b), E. reflexivity.
Qed.
