(* DocParseFacts: theorems about the ReST scanner and parser of DocParse.v, the style cascade,
   and the ReST part of property C01 (C01Spec.v).  Proofs only. *)
From Coq Require Import List Ascii Bool Arith ZArith Lia.
From Coq Require String.
Import String.StringSyntax.
From DT Require Import PyStr Sexp PyVal TyExpr PureUtils Defaults PyAst IR Extracted C17Spec DocParse C01Spec.
From DT Require Import PyStrFacts PureUtilsFacts DefaultsFacts.
Import ListNotations.

(* ------------------------------------------------------------------ *)
(* small list / string facts                                           *)
(* ------------------------------------------------------------------ *)

Lemma endswith_rev : forall p s, endswith p s = startswith (rev p) (rev s).
Proof. reflexivity. Qed.

Lemma contains_false_startswith : forall t s, contains t s = false -> startswith t s = false.
Proof.
  intros t s H. destruct (startswith t s) eqn:E; [|reflexivity].
  apply find_startswith in E. unfold contains in H. rewrite E in H. discriminate.
Qed.

Lemma contains_false_no_occ : forall t s a b, contains t s = false -> s <> a ++ t ++ b.
Proof.
  intros t s a b H. apply contains_false_iff in H.
  apply (proj1 (find_None_no_occurrence t s) H).
Qed.

Lemma app_eq_app_cases : forall (A : Type) (a b c d : list A),
    a ++ b = c ++ d ->
    (exists m, c = a ++ m /\ b = m ++ d) \/ (exists m, m <> [] /\ a = c ++ m /\ d = m ++ b).
Proof.
  intros A a. induction a as [|x a IHa]; intros b c d H.
  - left. exists c. split; [reflexivity|exact H].
  - destruct c as [|y c].
    + right. exists (x :: a). split; [discriminate|]. split; [reflexivity|]. symmetry. exact H.
    + cbn [app] in H. injection H as Hxy H. subst y.
      destruct (IHa b c d H) as [[m [H1 H2]]|[m [Hm [H1 H2]]]].
      * left. exists m. subst. split; reflexivity.
      * right. exists m. subst. split; [exact Hm|split; reflexivity].
Qed.

(* ------------------------------------------------------------------ *)
(* (i) the ReST scanner on text made of token-free blocks              *)
(* ------------------------------------------------------------------ *)

Definition colon : ascii := ch 58.

(* a token is a colon followed by colon-free text *)
Definition tok_shape (t : str) : bool :=
  match t with
  | c :: r => ascii_eqb c colon && negb (mem_c colon r)
  | [] => false
  end.

(* what the scanner theorem needs of the token tuple; discharged by computation for Extracted *)
Definition toks_wf (toks : list str) : bool :=
  forallb tok_shape toks
  && forallb (fun t => forallb (fun t' => negb (startswith t t') || str_eqb t t') toks) toks
  && nodup_str toks.

Lemma tok_shape_inv : forall t, tok_shape t = true -> exists r, t = colon :: r /\ ~ In colon r.
Proof.
  intros [|c r] H; [discriminate|]. cbn [tok_shape] in H.
  apply andb_true_iff in H. destruct H as [Hc Hr]. apply ascii_eqb_eq in Hc. subst c.
  exists r. split; [reflexivity|]. intros Hin. apply mem_c_In in Hin.
  rewrite Hin in Hr. discriminate.
Qed.

(* a token cannot sit properly inside the tail of another *)
Lemma tok_shape_suffix : forall t t' a,
    tok_shape t = true -> tok_shape t' = true -> t = a ++ t' -> a = [].
Proof.
  intros t t' a Ht Ht' E.
  destruct (tok_shape_inv t Ht) as [r [Er Hr]]. destruct (tok_shape_inv t' Ht') as [r' [Er' _]].
  destruct a as [|x a]; [reflexivity|]. exfalso. rewrite Er, Er' in E. cbn [app] in E.
  injection E as _ E. apply Hr. rewrite E. apply in_or_app. right. left. reflexivity.
Qed.

Definition blk (b : str * str) : str := fst b ++ snd b.

Definition nonempty_flag {A} (l : list A) : bool := match l with [] => false | _ => true end.

Section ScanRest.
  Variable toks : list str.
  Hypothesis Hwf : toks_wf toks = true.

  Lemma wf_shape : forall t, In t toks -> tok_shape t = true.
  Proof.
    intros t Hin. unfold toks_wf in Hwf. apply andb_true_iff in Hwf. destruct Hwf as [H _].
    apply andb_true_iff in H. destruct H as [H _].
    exact (proj1 (forallb_forall _ _) H t Hin).
  Qed.

  Lemma wf_prefix_free : forall t t', In t toks -> In t' toks -> startswith t t' = true -> t = t'.
  Proof.
    intros t t' Hin Hin' Hsw. unfold toks_wf in Hwf. apply andb_true_iff in Hwf. destruct Hwf as [H _].
    apply andb_true_iff in H. destruct H as [_ H].
    pose proof (proj1 (forallb_forall _ _) H t Hin) as H1. cbv beta in H1.
    pose proof (proj1 (forallb_forall _ _) H1 t' Hin') as H2. cbv beta in H2.
    rewrite Hsw in H2. cbn [negb orb] in H2. apply str_eqb_eq. exact H2.
  Qed.

  Lemma wf_nodup : nodup_str toks = true.
  Proof. unfold toks_wf in Hwf. apply andb_true_iff in Hwf. apply Hwf. Qed.

  Lemma nodup_str_split : forall l l1 (t : str) l2,
      nodup_str l = true -> l = l1 ++ t :: l2 -> ~ In t l1 /\ ~ In t l2.
  Proof.
    intros l l1. revert l. induction l1 as [|x l1 IH]; intros l t l2 Hnd E; subst l.
    - cbn [app nodup_str] in Hnd. apply andb_true_iff in Hnd. destruct Hnd as [H _].
      split; [intros []|]. intros Hin. apply negb_true_iff in H.
      assert (Ht : existsb (str_eqb t) l2 = true).
      { apply existsb_exists. exists t. split; [exact Hin|apply str_eqb_refl]. }
      congruence.
    - cbn [app nodup_str] in Hnd. apply andb_true_iff in Hnd. destruct Hnd as [Hx Hnd].
      destruct (IH _ t l2 Hnd eq_refl) as [H1 H2]. split; [|exact H2].
      intros [Hxt|Hin]; [|exact (H1 Hin)]. subst x. apply negb_true_iff in Hx.
      assert (Ht : existsb (str_eqb t) (l1 ++ t :: l2) = true).
      { apply existsb_exists. exists t. split; [|apply str_eqb_refl].
        apply in_or_app. right. left. reflexivity. }
      congruence.
  Qed.

  (* two tokens that both end the same text are the same token *)
  Lemma suffix_unique : forall t t' x,
      In t toks -> In t' toks -> endswith t x = true -> endswith t' x = true -> t = t'.
  Proof.
    intros t t' x Hin Hin' H H'.
    apply endswith_iff in H. destruct H as [u Hu]. apply endswith_iff in H'. destruct H' as [u' Hu'].
    rewrite Hu in Hu'.
    destruct (app_eq_app_cases _ _ _ _ _ Hu') as [[m [H1 H2]]|[m [Hm [H1 H2]]]].
    - pose proof (tok_shape_suffix t t' m (wf_shape t Hin) (wf_shape t' Hin') H2) as E.
      subst m. exact H2.
    - pose proof (tok_shape_suffix t' t m (wf_shape t' Hin') (wf_shape t Hin) H2) as E.
      contradiction.
  Qed.

  (* ---- the inner token loop ---- *)

  Lemma fold_nomatch : forall l rs1 st,
      (forall t, In t l -> startswith (rev t) rs1 = false) ->
      fold_left (scan_tok_step rs1) l st = st.
  Proof.
    induction l as [|t l IH]; intros rs1 st H; [reflexivity|].
    cbn [fold_left]. unfold scan_tok_step at 2. destruct st as [rstack rscanned].
    rewrite (H t (or_introl eq_refl)). apply IH. intros t' Hin. apply H. right. exact Hin.
  Qed.

  Lemma fold_match : forall tok rs1 sc,
      In tok toks -> startswith (rev tok) rs1 = true ->
      fold_left (scan_tok_step rs1) toks (rs1, sc)
      = (firstn (List.length tok) rs1, (nonempty_flag sc, rev (skipn (List.length tok) rs1)) :: sc).
  Proof.
    intros tok rs1 sc Hin Hm.
    destruct (in_split _ _ Hin) as [l1 [l2 E]].
    destruct (nodup_str_split toks l1 tok l2 wf_nodup E) as [Hn1 Hn2].
    assert (Hother : forall t, In t toks -> startswith (rev t) rs1 = true -> t = tok).
    { intros t Ht Hmt. apply (suffix_unique t tok (rev rs1) Ht Hin).
      - rewrite endswith_rev, rev_involutive. exact Hmt.
      - rewrite endswith_rev, rev_involutive. exact Hm. }
    assert (Hno : forall l, (forall t, In t l -> In t toks) -> ~ In tok l ->
                            forall t, In t l -> startswith (rev t) rs1 = false).
    { intros l Hsub Hnot t Ht. destruct (startswith (rev t) rs1) eqn:Em; [|reflexivity].
      exfalso. apply Hnot. rewrite <- (Hother t (Hsub t Ht) Em). exact Ht. }
    rewrite E at 1. rewrite fold_left_app.
    rewrite (fold_nomatch l1).
    2:{ apply Hno; [|exact Hn1]. intros t Ht. rewrite E. apply in_or_app. left. exact Ht. }
    cbn [fold_left]. unfold scan_tok_step at 2. rewrite Hm.
    assert (Hne : Nat.eqb (List.length tok) 0 = false).
    { destruct (tok_shape_inv tok (wf_shape tok Hin)) as [r [Er _]]. subst tok. reflexivity. }
    rewrite Hne.
    rewrite (fold_nomatch l2).
    2:{ apply Hno; [|exact Hn2]. intros t Ht. rewrite E. apply in_or_app. right. right. exact Ht. }
    destruct sc; reflexivity.
  Qed.

  (* ---- runs of characters ---- *)

  (* text after which no token ends: the stack just grows *)
  Lemma run_nomatch : forall x cur sc rest,
      (forall x1 x2, x = x1 ++ x2 -> x1 <> [] -> forall t, In t toks -> endswith t (cur ++ x1) = false) ->
      scan_rest_chars toks (x ++ rest) (rev cur) sc = scan_rest_chars toks rest (rev (cur ++ x)) sc.
  Proof.
    induction x as [|c x IH]; intros cur sc rest H.
    - rewrite app_nil_r. reflexivity.
    - cbn [app scan_rest_chars].
      assert (E : c :: rev cur = rev (cur ++ [c])).
      { rewrite rev_app_distr. reflexivity. }
      rewrite E. rewrite fold_nomatch.
      2:{ intros t Ht. rewrite <- endswith_rev. apply (H [c] x eq_refl); [discriminate|exact Ht]. }
      cbn [fst snd]. rewrite IH.
      + rewrite <- app_assoc. reflexivity.
      + intros x1 x2 Ex Hx1 t Ht. rewrite <- app_assoc. cbn [app].
        apply (H (c :: x1) x2); [rewrite Ex; reflexivity|discriminate|exact Ht].
  Qed.

  (* a token: the pending text is emitted, the stack becomes the token *)
  Lemma run_token : forall tok cur sc rest,
      In tok toks ->
      (forall t1 t2, tok = t1 ++ t2 -> t1 <> [] -> t2 <> [] ->
                     forall t, In t toks -> endswith t (cur ++ t1) = false) ->
      scan_rest_chars toks (tok ++ rest) (rev cur) sc
      = scan_rest_chars toks rest (rev tok) ((nonempty_flag sc, cur) :: sc).
  Proof.
    intros tok cur sc rest Hin H.
    destruct (tok_shape_inv tok (wf_shape tok Hin)) as [r0 [Er0 _]].
    assert (Hsplit : exists init c, tok = init ++ [c]).
    { destruct (exists_last (l := tok)) as [init [c Ec]]; [subst tok; discriminate|].
      exists init, c. exact Ec. }
    destruct Hsplit as [init [c Ec]].
    rewrite Ec at 1. rewrite <- app_assoc. rewrite run_nomatch.
    2:{ intros x1 x2 Ex Hx1 t Ht. apply (H x1 (x2 ++ [c])); [|exact Hx1| |exact Ht].
        - rewrite Ec, Ex, app_assoc. reflexivity.
        - destruct x2; discriminate. }
    cbn [app scan_rest_chars].
    assert (E : c :: rev (cur ++ init) = rev tok ++ rev cur).
    { rewrite Ec. rewrite !rev_app_distr. reflexivity. }
    rewrite E. rewrite (fold_match tok); [|exact Hin|apply startswith_app].
    cbn [fst snd].
    assert (Hl : List.length tok = List.length (rev tok)) by (symmetry; apply rev_length).
    rewrite Hl, firstn_app_exact, skipn_app_exact, rev_involutive. reflexivity.
  Qed.

  (* ---- the side conditions from token-freeness ---- *)

  Definition token_free (s : str) : Prop := forall t, In t toks -> contains t s = false.

  Lemma cond_doc : forall doc, token_free doc ->
      forall x1 x2, doc = x1 ++ x2 -> x1 <> [] -> forall t, In t toks -> endswith t ([] ++ x1) = false.
  Proof.
    intros doc Hfree x1 x2 E _ t Ht. cbn [app].
    destruct (endswith t x1) eqn:Ee; [|reflexivity]. exfalso.
    apply endswith_iff in Ee. destruct Ee as [u Eu].
    apply (contains_false_no_occ t doc u x2 (Hfree t Ht)). rewrite E, Eu, <- app_assoc. reflexivity.
  Qed.

  Lemma cond_body : forall tk body, In tk toks -> token_free body ->
      forall x1 x2, body = x1 ++ x2 -> x1 <> [] -> forall t, In t toks -> endswith t (tk ++ x1) = false.
  Proof.
    intros tk body Hin Hfree x1 x2 E Hx1 t Ht.
    destruct (endswith t (tk ++ x1)) eqn:Ee; [|reflexivity]. exfalso.
    apply endswith_iff in Ee. destruct Ee as [u Eu].
    destruct (app_eq_app_cases _ _ _ _ _ Eu) as [[m [H1 H2]]|[m [Hm [H1 H2]]]].
    - (* t lies inside x1 *)
      apply (contains_false_no_occ t body m x2 (Hfree t Ht)). rewrite E, H2, <- app_assoc. reflexivity.
    - (* t = m ++ x1 with m a non-empty suffix of tk *)
      destruct (tok_shape_inv tk (wf_shape tk Hin)) as [rk [Erk Hrk]].
      destruct (tok_shape_inv t (wf_shape t Ht)) as [rt [Ert Hrt]].
      destruct u as [|y u].
      + (* m = tk : tk is a proper prefix of t *)
        cbn [app] in H1. subst m.
        assert (Hsw : startswith tk t = true) by (rewrite H2; apply startswith_app).
        pose proof (wf_prefix_free tk t Hin Ht Hsw) as Et. rewrite <- Et in H2.
        apply (f_equal (@List.length ascii)) in H2. rewrite app_length in H2.
        destruct x1; [contradiction|cbn [List.length] in H2; lia].
      + (* m sits in the tail of tk and begins with a colon *)
        destruct m as [|z m]; [contradiction|].
        rewrite Ert in H2. cbn [app] in H2. injection H2 as Hz _. subst z.
        rewrite Erk in H1. cbn [app] in H1. injection H1 as _ H1.
        apply Hrk. rewrite H1. apply in_or_app. right. left. reflexivity.
  Qed.

  Lemma cond_tok : forall tok cur, In tok toks ->
      forall t1 t2, tok = t1 ++ t2 -> t1 <> [] -> t2 <> [] ->
                    forall t, In t toks -> endswith t (cur ++ t1) = false.
  Proof.
    intros tok cur Hin t1 t2 E Ht1 Ht2 t Ht.
    destruct (endswith t (cur ++ t1)) eqn:Ee; [|reflexivity]. exfalso.
    apply endswith_iff in Ee. destruct Ee as [u Eu].
    destruct (tok_shape_inv tok (wf_shape tok Hin)) as [rk [Erk Hrk]].
    destruct (tok_shape_inv t (wf_shape t Ht)) as [rt [Ert Hrt]].
    destruct t1 as [|a t1]; [contradiction|].
    assert (Ea : a = colon). { rewrite Erk in E. cbn [app] in E. injection E as E _. symmetry. exact E. }
    subst a.
    destruct (app_eq_app_cases _ _ _ _ _ Eu) as [[m [H1 H2]]|[m [Hm [H1 H2]]]].
    - (* t is a suffix of t1 = colon :: ... *)
      destruct m as [|z m].
      + (* t = t1 : a proper prefix of tok *)
        cbn [app] in H2.
        assert (Hsw : startswith t tok = true) by (rewrite E, H2; apply startswith_app).
        pose proof (wf_prefix_free t tok Ht Hin Hsw) as Et.
        rewrite <- Et, H2 in E. apply (f_equal (@List.length ascii)) in E. rewrite app_length in E.
        destruct t2; [contradiction|cbn [List.length] in E; lia].
      + (* t begins inside the tail of t1, hence of tok *)
        cbn [app] in H2. injection H2 as _ H2.
        apply Hrk. rewrite Erk in E. cbn [app] in E. injection E as E. rewrite E, H2, Ert.
        apply in_or_app. left. apply in_or_app. right. left. reflexivity.
    - (* t = m ++ t1 with m non-empty: a colon inside the tail of t *)
      destruct m as [|z m]; [contradiction|].
      rewrite Ert in H2. cbn [app] in H2. injection H2 as _ H2.
      apply Hrt. rewrite H2. apply in_or_app. right. left. reflexivity.
  Qed.

  (* ---- blocks ---- *)

  Fixpoint scan_blocks_spec (blocks : list (str * str)) (cur : str) (sc : list (bool * str))
    : str * list (bool * str) :=
    match blocks with
    | [] => (rev cur, sc)
    | b :: r => scan_blocks_spec r (blk b) ((nonempty_flag sc, cur) :: sc)
    end.

  Definition block_ok (b : str * str) : Prop := In (fst b) toks /\ token_free (snd b).

  Lemma run_blocks : forall blocks cur sc,
      (forall b, In b blocks -> block_ok b) ->
      (cur = [] -> blocks = []) ->
      scan_rest_chars toks (concat (map blk blocks)) (rev cur) sc = scan_blocks_spec blocks cur sc.
  Proof.
    induction blocks as [|b blocks IH]; intros cur sc Hok Hcur; [reflexivity|].
    destruct (Hok b (or_introl eq_refl)) as [Hin Hfree].
    cbn [map concat scan_blocks_spec]. unfold blk at 1. rewrite <- app_assoc.
    rewrite run_token; [|exact Hin|apply cond_tok; exact Hin].
    rewrite run_nomatch; [|apply (cond_body (fst b) (snd b) Hin Hfree)].
    apply IH.
    - intros b' Hb'. apply Hok. right. exact Hb'.
    - intros E. exfalso. destruct (tok_shape_inv _ (wf_shape _ Hin)) as [r [Er _]].
      unfold blk in E. rewrite Er in E. discriminate.
  Qed.

  Lemma spec_closed : forall blocks cur sc,
      blocks <> [] ->
      exists lc, fst (scan_blocks_spec blocks cur sc) = rev lc
                 /\ (exists b, In b blocks /\ lc = blk b)
                 /\ rev (snd (scan_blocks_spec blocks cur sc)) ++ [(true, lc)]
                    = rev sc ++ (nonempty_flag sc, cur) :: map (fun b => (true, blk b)) blocks.
  Proof.
    induction blocks as [|b blocks IH]; intros cur sc Hne; [contradiction|].
    cbn [scan_blocks_spec]. destruct blocks as [|b' blocks].
    - exists (blk b). cbn [scan_blocks_spec fst snd map]. split; [reflexivity|]. split.
      + exists b. split; [left; reflexivity|reflexivity].
      + cbn [rev]. rewrite <- app_assoc. reflexivity.
    - destruct (IH (blk b) ((nonempty_flag sc, cur) :: sc)) as [lc [H1 [[b0 [Hb0 Elc]] H3]]]; [discriminate|].
      exists lc. split; [exact H1|]. split.
      + exists b0. split; [right; exact Hb0|exact Elc].
      + rewrite H3. cbn [rev nonempty_flag]. rewrite <- app_assoc. reflexivity.
  Qed.

  (* (i) the scanner on  doc ++ tok_1 ++ body_1 ++ ... ++ tok_k ++ body_k *)
  Theorem scan_rest_with_blocks : forall doc blocks,
      token_free doc ->
      (forall b, In b blocks -> block_ok b) ->
      blocks <> [] \/ doc <> [] ->
      scan_rest_with toks (doc ++ concat (map blk blocks))
      = (false, doc) :: map (fun b => (true, blk b)) blocks.
  Proof.
    intros doc blocks Hdoc Hok Hne.
    unfold scan_rest_with. cbv zeta.
    assert (Hstart : forall rest, scan_rest_chars toks (doc ++ rest) [] []
                                  = scan_rest_chars toks rest (rev doc) []).
    { intros rest. apply (run_nomatch doc [] [] rest (cond_doc doc Hdoc)). }
    rewrite !Hstart.
    destruct blocks as [|b blocks].
    - cbn [map concat scan_rest_chars fst snd].
      destruct Hne as [Hne|Hne]; [contradiction|].
      destruct (rev doc) as [|c rd] eqn:Erd.
      + exfalso. apply Hne. rewrite <- (rev_involutive doc), Erd. reflexivity.
      + rewrite <- Erd, rev_involutive. cbn [orb rev app].
        assert (Hno : existsb (fun t => startswith t doc) toks = false).
        { destruct (existsb (fun t => startswith t doc) toks) eqn:Ex; [|reflexivity].
          apply existsb_exists in Ex. destruct Ex as [t [Ht Hs]].
          rewrite (contains_false_startswith t doc (Hdoc t Ht)) in Hs. discriminate. }
        rewrite Hno. reflexivity.
    - assert (Hrun : scan_rest_chars toks (concat (map blk (b :: blocks))) (rev doc) []
                     = scan_blocks_spec (b :: blocks) doc []).
      { destruct doc as [|d0 doc'].
        - (* empty doc: the first token is read against the empty stack *)
          destruct (Hok b (or_introl eq_refl)) as [Hin Hfree].
          cbn [map concat scan_blocks_spec]. unfold blk at 1. rewrite <- app_assoc.
          rewrite run_token; [|exact Hin|apply cond_tok; exact Hin].
          rewrite run_nomatch; [|apply (cond_body (fst b) (snd b) Hin Hfree)].
          apply run_blocks.
          + intros b' Hb'. apply Hok. right. exact Hb'.
          + intros E. exfalso. destruct (tok_shape_inv _ (wf_shape _ Hin)) as [r [Er _]].
            unfold blk in E. rewrite Er in E. discriminate.
        - apply run_blocks; [exact Hok|discriminate]. }
      rewrite Hrun.
      destruct (spec_closed (b :: blocks) doc []) as [lc [H1 [[b0 [Hb0 Elc]] H3]]]; [discriminate|].
      rewrite H1.
      destruct (rev lc) as [|c rl] eqn:Erl.
      + exfalso. destruct (Hok b0 Hb0) as [Hin _].
        destruct (tok_shape_inv _ (wf_shape _ Hin)) as [r [Er _]].
        assert (El : lc = []) by (rewrite <- (rev_involutive lc), Erl; reflexivity).
        rewrite Elc in El. unfold blk in El. rewrite Er in El. discriminate.
      + rewrite <- Erl, rev_involutive.
        assert (Hflag : existsb (fun t => startswith t lc) toks = true).
        { destruct (Hok b0 Hb0) as [Hin _]. apply existsb_exists. exists (fst b0).
          split; [exact Hin|]. rewrite Elc. apply startswith_app. }
        rewrite Hflag, orb_true_r. cbn [rev]. exact H3.
  Qed.
End ScanRest.

Lemma rest_scan_tokens_wf : toks_wf rest_scan_tokens = true.
Proof. vm_compute. reflexivity. Qed.

(* the statement for the scanner as the code calls it *)
Theorem scan_rest_blocks : forall doc blocks,
    no_rest_token doc = true ->
    (forall b, In b blocks -> In (fst b) rest_scan_tokens /\ no_rest_token (snd b) = true) ->
    blocks <> [] \/ doc <> [] ->
    scan_rest (doc ++ concat (map blk blocks))
    = (false, doc) :: map (fun b => (true, blk b)) blocks.
Proof.
  intros doc blocks Hdoc Hok Hne. unfold scan_rest.
  assert (Hfree : forall s, no_rest_token s = true -> token_free rest_scan_tokens s).
  { intros s Hs t Ht. unfold no_rest_token in Hs.
    assert (Hin : In t Extracted.rest_tokens).
    { revert Ht. vm_compute. intros H. repeat (destruct H as [H|H]; [subst t; auto 10|]). contradiction. }
    pose proof (proj1 (forallb_forall _ _) Hs t Hin) as H. cbv beta in H.
    apply negb_true_iff in H. exact H. }
  apply (scan_rest_with_blocks rest_scan_tokens rest_scan_tokens_wf).
  - apply Hfree. exact Hdoc.
  - intros b Hb. destruct (Hok b Hb) as [H1 H2]. split; [exact H1|apply Hfree; exact H2].
  - exact Hne.
Qed.

(* ------------------------------------------------------------------ *)
(* (ii) style exclusivity                                              *)
(* ------------------------------------------------------------------ *)

Lemma existsb_contains_true : forall (toks : list str) d t,
    In t toks -> contains t d = true -> existsb (fun t => contains t d) toks = true.
Proof. intros toks d t Hin Hc. apply existsb_exists. exists t. split; assumption. Qed.

Lemma existsb_contains_false : forall (toks : list str) d,
    (forall t, In t toks -> contains t d = false) -> existsb (fun t => contains t d) toks = false.
Proof.
  intros toks d H. destruct (existsb (fun t => contains t d) toks) eqn:E; [|reflexivity].
  apply existsb_exists in E. destruct E as [t [Hin Hc]]. rewrite (H t Hin) in Hc. discriminate.
Qed.

(* a text containing a ReST token is read as ReST *)
Theorem detect_style_rest : forall d t,
    In t Extracted.rest_tokens -> contains t d = true -> detect_style (Some d) = Rest.
Proof.
  intros d t Hin Hc. unfold detect_style. rewrite (existsb_contains_true _ d t Hin Hc). reflexivity.
Qed.

(* no ReST token but a Google token: Google *)
Theorem detect_style_google : forall d t,
    no_rest_token d = true -> In t Extracted.google_tokens -> contains t d = true ->
    detect_style (Some d) = Google.
Proof.
  intros d t Hno Hin Hc. unfold detect_style.
  rewrite existsb_contains_false.
  - rewrite (existsb_contains_true _ d t Hin Hc). reflexivity.
  - intros t' Ht'. unfold no_rest_token in Hno.
    pose proof (proj1 (forallb_forall _ _) Hno t' Ht') as H. cbv beta in H.
    apply negb_true_iff in H. exact H.
Qed.

(* neither: numpydoc *)
Theorem detect_style_numpydoc : forall d,
    no_rest_token d = true ->
    (forall t, In t Extracted.google_tokens -> contains t d = false) ->
    detect_style (Some d) = Numpydoc.
Proof.
  intros d Hno Hg. unfold detect_style.
  rewrite existsb_contains_false.
  - rewrite (existsb_contains_false _ d Hg). reflexivity.
  - intros t' Ht'. unfold no_rest_token in Hno.
    pose proof (proj1 (forallb_forall _ _) Hno t' Ht') as H. cbv beta in H.
    apply negb_true_iff in H. exact H.
Qed.

Theorem detect_style_None : detect_style None = Rest.
Proof. reflexivity. Qed.

(* the section tokens of one style contain no token of a style tested earlier in the cascade
   (computed from the live token tuples) *)
Definition tokens_disjoint : bool :=
  forallb no_rest_token (Extracted.google_tokens ++ Extracted.numpydoc_tokens)
  && forallb (fun n => forallb (fun g => negb (contains g n)) Extracted.google_tokens) Extracted.numpydoc_tokens
  && forallb (fun r => forallb (fun g => negb (contains g r))
                               (Extracted.google_tokens ++ Extracted.numpydoc_tokens)) Extracted.rest_tokens
  && forallb (fun g => forallb (fun n => negb (contains n g)) Extracted.numpydoc_tokens) Extracted.google_tokens.

Theorem style_tokens_disjoint : tokens_disjoint = true.
Proof. vm_compute. reflexivity. Qed.

(* every ReST token is a colon followed by lower-case letters, so a token cannot straddle a
   junction whose right side does not begin with a lower-case letter, nor one whose left side
   ends in something that is neither a colon nor a lower-case letter *)
Definition tok_lower (t : str) : bool :=
  match t with
  | c :: r => ascii_eqb c colon && forallb islower_c r
  | [] => false
  end.

Lemma rest_tokens_lower : forallb tok_lower Extracted.rest_tokens = true.
Proof. vm_compute. reflexivity. Qed.

Lemma contains_straddle : forall t a b,
    contains t a = false -> contains t b = false -> contains t (a ++ b) = true ->
    exists m m', m <> [] /\ m' <> [] /\ t = m ++ m' /\ endswith m a = true /\ startswith m' b = true.
Proof.
  intros t a b Ha Hb Hab. apply contains_true_iff in Hab. destruct Hab as [u [w E]].
  destruct (app_eq_app_cases _ _ _ _ _ E) as [[m [H1 H2]]|[m [Hm [H1 H2]]]].
  - exfalso. exact (contains_false_no_occ t b m w Hb H2).
  - symmetry in H2. destruct (app_eq_app_cases _ _ _ _ _ H2) as [[m' [H3 H4]]|[m' [Hm' [H3 H4]]]].
    + destruct m' as [|y m'].
      * exfalso. apply (contains_false_no_occ t a u [] Ha).
        rewrite H1, H3, !app_nil_r. reflexivity.
      * exists m, (y :: m'). split; [exact Hm|]. split; [discriminate|]. split; [exact H3|]. split.
        -- apply endswith_iff. exists u. exact H1.
        -- apply startswith_iff. exists w. exact H4.
    + exfalso. apply (contains_false_no_occ t a u m' Ha). rewrite H1, H3. reflexivity.
Qed.

Lemma no_rest_token_spec : forall x, no_rest_token x = true <->
    forall t, In t Extracted.rest_tokens -> contains t x = false.
Proof.
  intros x. unfold no_rest_token. rewrite forallb_forall. split; intros H t Ht.
  - apply negb_true_iff. apply H. exact Ht.
  - apply negb_true_iff. apply H. exact Ht.
Qed.

(* junction lemma, right side: b does not begin with a lower-case letter *)
Theorem no_rest_token_app_r : forall a b,
    no_rest_token a = true -> no_rest_token b = true ->
    (forall c, head_c b = Some c -> islower_c c = false) ->
    no_rest_token (a ++ b) = true.
Proof.
  intros a b Ha Hb Hhead. apply no_rest_token_spec. intros t Ht.
  destruct (contains t (a ++ b)) eqn:E; [|reflexivity]. exfalso.
  pose proof (proj1 (no_rest_token_spec a) Ha t Ht) as Ha'.
  pose proof (proj1 (no_rest_token_spec b) Hb t Ht) as Hb'.
  destruct (contains_straddle t a b Ha' Hb' E) as [m [m' [Hm [Hm' [Et [_ Hsw]]]]]].
  pose proof (proj1 (forallb_forall _ _) rest_tokens_lower t Ht) as Hl.
  destruct m as [|x m]; [contradiction|]. destruct m' as [|y m']; [contradiction|].
  rewrite Et in Hl. cbn [app tok_lower] in Hl. apply andb_true_iff in Hl. destruct Hl as [_ Hl].
  rewrite forallb_app in Hl. apply andb_true_iff in Hl. destruct Hl as [_ Hl].
  cbn [forallb] in Hl. apply andb_true_iff in Hl. destruct Hl as [Hy _].
  destruct b as [|c b]; [discriminate|]. cbn [startswith] in Hsw.
  apply andb_true_iff in Hsw. destruct Hsw as [Hyc _]. apply ascii_eqb_eq in Hyc. subst c.
  rewrite (Hhead y eq_refl) in Hy. discriminate.
Qed.

(* junction lemma, left side: a does not end in a colon or a lower-case letter *)
Theorem no_rest_token_app_l : forall a b,
    no_rest_token a = true -> no_rest_token b = true ->
    (forall c, last_c a = Some c -> islower_c c = false /\ c <> colon) ->
    no_rest_token (a ++ b) = true.
Proof.
  intros a b Ha Hb Hlast. apply no_rest_token_spec. intros t Ht.
  destruct (contains t (a ++ b)) eqn:E; [|reflexivity]. exfalso.
  pose proof (proj1 (no_rest_token_spec a) Ha t Ht) as Ha'.
  pose proof (proj1 (no_rest_token_spec b) Hb t Ht) as Hb'.
  destruct (contains_straddle t a b Ha' Hb' E) as [m [m' [Hm [Hm' [Et [Hew _]]]]]].
  pose proof (proj1 (forallb_forall _ _) rest_tokens_lower t Ht) as Hl.
  destruct (exists_last Hm) as [mi [c Em]].
  assert (Hlc : last_c a = Some c).
  { apply endswith_iff in Hew. destruct Hew as [u Eu]. apply last_c_spec.
    exists (u ++ mi). rewrite Eu, Em, app_assoc. reflexivity. }
  destruct (Hlast c Hlc) as [Hnl Hnc].
  rewrite Et, Em in Hl. destruct mi as [|x mi].
  - cbn [app tok_lower] in Hl. apply andb_true_iff in Hl. destruct Hl as [Hc _].
    apply ascii_eqb_eq in Hc. contradiction.
  - cbn [app tok_lower] in Hl. apply andb_true_iff in Hl. destruct Hl as [_ Hl].
    rewrite <- app_assoc in Hl. rewrite forallb_app in Hl. apply andb_true_iff in Hl. destruct Hl as [_ Hl].
    cbn [app forallb] in Hl. apply andb_true_iff in Hl. destruct Hl as [Hc _]. congruence.
Qed.

(* a text built from blocks contains the token of each block *)
Lemma contains_block_token : forall doc blocks b,
    In b blocks -> contains (fst b) (doc ++ concat (map blk blocks)) = true.
Proof.
  intros doc blocks b Hin. apply in_split in Hin. destruct Hin as [l1 [l2 E]]. subst blocks.
  rewrite map_app, concat_app. cbn [map concat]. unfold blk at 2.
  apply contains_true_iff. exists (doc ++ concat (map blk l1)), (snd b ++ concat (map blk l2)).
  rewrite <- !app_assoc. reflexivity.
Qed.

(* ------------------------------------------------------------------ *)
(* line-level string facts                                             *)
(* ------------------------------------------------------------------ *)

Lemma find_char_first : forall c p r, mem_c c p = false -> find [c] (p ++ c :: r) = Some (List.length p).
Proof.
  intros c p r. induction p as [|x p IH]; intros H.
  - cbn [app List.length]. apply find_startswith. cbn [startswith]. rewrite ascii_eqb_refl. reflexivity.
  - rewrite mem_c_cons in H. apply orb_false_iff in H. destruct H as [Hx Hp].
    cbn [app]. rewrite find_cons. cbn [startswith]. rewrite Hx. cbn [andb].
    rewrite (IH Hp). reflexivity.
Qed.

Lemma norm_idx_nat : forall len k, norm_idx len (Z.of_nat k) = Nat.min k len.
Proof.
  intros len k. unfold norm_idx. destruct (Z.ltb_spec (Z.of_nat k) 0) as [H|H]; [lia|].
  rewrite Nat2Z.id. reflexivity.
Qed.

Lemma find_z_skip : forall sub s k,
    find_z sub s k = match find sub (skipn k s) with Some i => Z.of_nat (k + i) | None => (-1)%Z end.
Proof.
  intros sub s k. unfold find_z. rewrite find_from_shift. unfold find.
  destruct (find_from sub (skipn k s) 0); reflexivity.
Qed.

(* the fields of a  :key name: value  line *)
Lemma key_line_fields : forall tokn n rest,
    mem_c sp tokn = false -> mem_c colon n = false ->
    let line := tokn ++ sp :: n ++ colon :: rest in
    let fst_space := py_find [sp] line 0 in
    let nxt_colon := py_find [colon] line fst_space in
    py_slice line (fst_space + 1) nxt_colon = n
    /\ py_slice_from line (nxt_colon + 1) = rest.
Proof.
  intros tokn n rest Htok Hn line fst_space nxt_colon.
  assert (Hlen : List.length line = List.length tokn + 1 + List.length n + 1 + List.length rest).
  { unfold line. rewrite app_length. cbn [List.length]. rewrite app_length. cbn [List.length]. lia. }
  assert (Hfs : fst_space = Z.of_nat (List.length tokn)).
  { unfold fst_space, py_find. change 0%Z with (Z.of_nat 0). rewrite norm_idx_nat.
    cbn [Nat.min]. rewrite find_z_skip. cbn [skipn]. unfold line.
    rewrite (find_char_first sp tokn _ Htok). reflexivity. }
  assert (Hnc : nxt_colon = Z.of_nat (List.length tokn + 1 + List.length n)).
  { unfold nxt_colon, py_find. rewrite Hfs, norm_idx_nat.
    rewrite Nat.min_l by lia. rewrite find_z_skip. unfold line. rewrite skipn_app_exact.
    change (sp :: n ++ colon :: rest) with ((sp :: n) ++ colon :: rest).
    rewrite find_char_first.
    - cbn [List.length]. f_equal. lia.
    - rewrite mem_c_cons. rewrite Hn. reflexivity. }
  split.
  - unfold py_slice. rewrite Hfs, Hnc.
    replace (Z.of_nat (List.length tokn) + 1)%Z with (Z.of_nat (List.length tokn + 1)) by lia.
    rewrite !norm_idx_nat. rewrite !Nat.min_l by lia. unfold slice, line.
    replace (List.length tokn + 1) with (List.length (tokn ++ [sp])) by (rewrite app_length; reflexivity).
    change (tokn ++ sp :: n ++ colon :: rest) with (tokn ++ [sp] ++ n ++ colon :: rest).
    rewrite app_assoc. rewrite skipn_app_exact.
    replace (List.length (tokn ++ [sp]) + List.length n - List.length (tokn ++ [sp])) with (List.length n) by lia.
    apply firstn_app_exact.
  - unfold py_slice_from. rewrite Hnc.
    replace (Z.of_nat (List.length tokn + 1 + List.length n) + 1)%Z
      with (Z.of_nat (List.length tokn + 1 + List.length n + 1)) by lia.
    rewrite norm_idx_nat, Nat.min_l by lia. unfold line.
    change (tokn ++ sp :: n ++ colon :: rest) with (tokn ++ [sp] ++ n ++ [colon] ++ rest).
    rewrite !app_assoc.
    replace (List.length tokn + 1 + List.length n + 1) with (List.length (((tokn ++ [sp]) ++ n) ++ [colon])).
    + apply skipn_app_exact.
    + rewrite !app_length. reflexivity.
Qed.

(* the value of a  :returns: value  /  :rtype: value  line *)
Lemma ret_line_value : forall key rest,
    mem_c colon key = false ->
    let line := colon :: key ++ colon :: rest in
    py_slice_from line (py_find [colon] line 1 + 1) = rest.
Proof.
  intros key rest Hk line.
  assert (Hlen : List.length line = 1 + List.length key + 1 + List.length rest).
  { unfold line. cbn [List.length]. rewrite app_length. cbn [List.length]. lia. }
  unfold py_find. change 1%Z with (Z.of_nat 1). rewrite norm_idx_nat, Nat.min_l by lia.
  rewrite find_z_skip.
  assert (Hf : find [colon] (skipn 1 line) = Some (List.length key)).
  { unfold line. cbn [skipn]. apply find_char_first. exact Hk. }
  rewrite Hf. unfold py_slice_from.
  replace (Z.of_nat (1 + List.length key) + Z.of_nat 1)%Z with (Z.of_nat (1 + List.length key + 1)) by lia.
  rewrite norm_idx_nat, Nat.min_l by lia. unfold line.
  replace (key ++ colon :: rest) with ((key ++ [colon]) ++ rest) by (rewrite <- app_assoc; reflexivity).
  change (colon :: (key ++ [colon]) ++ rest) with ((colon :: key ++ [colon]) ++ rest).
  replace (1 + List.length key + 1) with (List.length (colon :: key ++ [colon])).
  - apply skipn_app_exact.
  - cbn [List.length]. rewrite app_length. cbn [List.length]. lia.
Qed.

(* ---- strip ---- *)

Lemma dropwhile_app_all : forall (p : ascii -> bool) a s, forallb p a = true -> dropwhile p (a ++ s) = dropwhile p s.
Proof.
  intros p a s. induction a as [|x a IH]; intros H; [reflexivity|].
  cbn [forallb] in H. apply andb_true_iff in H. destruct H as [Hx Ha].
  cbn [app dropwhile]. rewrite Hx. apply IH. exact Ha.
Qed.

Lemma lstrip_pad : forall a s, forallb isspace a = true -> lstrip (a ++ s) = lstrip s.
Proof. intros a s H. unfold lstrip, lstrip_by. apply dropwhile_app_all. exact H. Qed.

Lemma rstrip_pad : forall s b, forallb isspace b = true -> rstrip (s ++ b) = rstrip s.
Proof.
  intros s b H. unfold rstrip, rstrip_by. rewrite rev_app_distr. rewrite dropwhile_app_all; [reflexivity|].
  rewrite forallb_forall in *. intros c Hc. apply H. apply in_rev. exact Hc.
Qed.

Definition edge_ok (x : str) : Prop :=
  (exists c r, x = c :: r /\ isspace c = false) /\ (exists c, last_c x = Some c /\ isspace c = false).

Lemma strip_edge_ok : forall x, edge_ok x -> strip x = x.
Proof.
  intros x [[c [r [E Hc]]] [l [Hl Hls]]]. unfold strip. apply strip_by_id.
  - intros c' Hc'. rewrite E in Hc'. injection Hc' as Hc'. subst c'. exact Hc.
  - intros c' Hc'. rewrite Hl in Hc'. injection Hc' as Hc'. subst c'. exact Hls.
Qed.

Lemma strip_pad : forall a x b,
    forallb isspace a = true -> forallb isspace b = true -> edge_ok x -> strip (a ++ x ++ b) = x.
Proof.
  intros a x b Ha Hb Hx. pose proof Hx as [[c [r [E Hc]]] [l [Hl Hls]]].
  unfold strip, strip_by. change (lstrip_by isspace) with lstrip. change (rstrip_by isspace) with rstrip.
  rewrite lstrip_pad by exact Ha.
  assert (El : lstrip (x ++ b) = x ++ b).
  { unfold lstrip. apply lstrip_by_id. intros c' Hc'. rewrite E in Hc'. injection Hc' as Hc'. subst c'. exact Hc. }
  rewrite El, rstrip_pad by exact Hb.
  unfold rstrip. apply rstrip_by_id. intros c' Hc'. rewrite Hl in Hc'. injection Hc' as Hc'. subst c'. exact Hls.
Qed.

Lemma dropwhile_length : forall (p : ascii -> bool) s, List.length (dropwhile p s) <= List.length s.
Proof.
  intros p s. induction s as [|c s IH]; [reflexivity|]. cbn [dropwhile].
  destruct (p c); cbn [List.length]; lia.
Qed.

(* a non-empty string equal to its own strip has non-blank ends *)
Lemma strip_fix_edge_ok : forall x, x <> [] -> strip x = x -> edge_ok x.
Proof.
  intros x Hne H. unfold strip, strip_by, lstrip_by, rstrip_by in H.
  assert (Hl : dropwhile isspace x = x).
  { destruct x as [|c r]; [contradiction|]. cbn [dropwhile] in *.
    destruct (isspace c) eqn:Ec; [|reflexivity]. exfalso.
    pose proof (dropwhile_length isspace r) as H1.
    pose proof (dropwhile_length isspace (rev (dropwhile isspace r))) as H2.
    rewrite rev_length in H2.
    apply (f_equal (@List.length ascii)) in H. rewrite rev_length in H.
    cbn [List.length] in H. lia. }
  rewrite Hl in H. split.
  - destruct x as [|c r]; [contradiction|]. exists c, r. split; [reflexivity|].
    cbn [dropwhile] in Hl. destruct (isspace c) eqn:Ec; [|reflexivity].
    pose proof (dropwhile_length isspace r) as H1. apply (f_equal (@List.length ascii)) in Hl.
    cbn [List.length] in Hl. lia.
  - destruct (last_c x) as [l|] eqn:El.
    + exists l. split; [reflexivity|]. apply last_c_spec in El. destruct El as [r Er].
      rewrite Er in H. rewrite rev_app_distr in H. cbn [rev app dropwhile] in H.
      destruct (isspace l) eqn:Ec; [|reflexivity].
      apply (f_equal (@List.length ascii)) in H. rewrite rev_length in H.
      pose proof (dropwhile_length isspace (rev r)) as H1. rewrite rev_length in H1.
      rewrite app_length in H. cbn [List.length] in H. lia.
    + apply last_c_nil_iff in El. contradiction.
Qed.

(* ---- split on newline, word-wrap join ---- *)

Lemma split_aux_no_sep : forall fuel s cur,
    mem_c nl s = false -> List.length s < fuel -> split_aux fuel [nl] s cur = [rev cur ++ s].
Proof.
  induction fuel as [|f IH]; intros s cur Hs Hf; [lia|].
  destruct s as [|c r]; cbn [split_aux].
  - rewrite app_nil_r. reflexivity.
  - rewrite mem_c_cons in Hs. apply orb_false_iff in Hs. destruct Hs as [Hc Hr].
    cbn [startswith]. rewrite Hc. cbn [andb]. rewrite IH.
    + cbn [rev]. rewrite <- app_assoc. reflexivity.
    + exact Hr.
    + cbn [List.length] in Hf. lia.
Qed.

Lemma split_nl_single : forall s, mem_c nl s = false -> split_nl s = [s].
Proof. intros s H. unfold split_nl, split. rewrite split_aux_no_sep; [reflexivity|exact H|lia]. Qed.

(* the doc normalisation of _set_name_and_type is the identity on a clean line *)
Lemma doc_norm_id : forall ww d, mem_c nl d = false -> edge_ok d ->
    rstrip (if ww : bool then join [sp] (map strip (split_nl d)) else d) = d.
Proof.
  intros ww d Hnl He.
  assert (Hr : rstrip d = d).
  { destruct He as [_ [l [Hl Hls]]]. unfold rstrip. apply rstrip_by_id.
    intros c' Hc'. rewrite Hl in Hc'. injection Hc' as Hc'. subst c'. exact Hls. }
  destruct ww; [|exact Hr].
  rewrite split_nl_single by exact Hnl. cbn [map join]. rewrite (strip_edge_ok d He). exact Hr.
Qed.

(* ---- the back-tick wrapper of :type lines ---- *)

Lemma replace_aux_no_bt : forall fuel t,
    mem_c bt t = false -> List.length t < fuel -> replace_aux fuel (L "```") [] t = t.
Proof.
  induction fuel as [|f IH]; intros t Ht Hf; [lia|].
  destruct t as [|c r]; [reflexivity|]. cbn [replace_aux].
  rewrite mem_c_cons in Ht. apply orb_false_iff in Ht. destruct Ht as [Hc Hr].
  assert (Hsw : startswith (L "```") (c :: r) = false).
  { change (L "```") with [bt; bt; bt]. cbn [startswith]. rewrite Hc. reflexivity. }
  rewrite Hsw. f_equal. apply IH; [exact Hr|cbn [List.length] in Hf; lia].
Qed.

Lemma replace_aux_bt_tail : forall fuel t,
    mem_c bt t = false -> List.length t + 3 < fuel ->
    replace_aux fuel (L "```") [] (t ++ L "```") = t.
Proof.
  induction fuel as [|f IH]; intros t Ht Hf; [lia|].
  destruct t as [|c r].
  - cbn [app]. destruct f as [|f]; [cbn in Hf; lia|]. reflexivity.
  - cbn [app replace_aux].
    rewrite mem_c_cons in Ht. apply orb_false_iff in Ht. destruct Ht as [Hc Hr].
    assert (Hsw : startswith (L "```") (c :: r ++ L "```") = false).
    { change (L "```") with [bt; bt; bt]. cbn [startswith]. rewrite Hc. reflexivity. }
    rewrite Hsw. f_equal. apply IH; [exact Hr|cbn [List.length] in Hf; lia].
Qed.

Lemma replace_aux_step_match : forall f a b c r,
    startswith a (c :: r) = true ->
    replace_aux (S f) a b (c :: r) = b ++ replace_aux f a b (skipn (List.length a) (c :: r)).
Proof. intros f a b c r H. cbn [replace_aux]. rewrite H. reflexivity. Qed.

Lemma replace_bt_wrapped : forall t, mem_c bt t = false ->
    replace (L "```") [] (L "```" ++ t ++ L "```") = t.
Proof.
  intros t Ht. unfold replace.
  change (L "```" ++ t ++ L "```") with (bt :: (bt :: bt :: t ++ L "```")).
  rewrite replace_aux_step_match by reflexivity.
  change (skipn (List.length (L "```")) (bt :: bt :: bt :: t ++ L "```")) with (t ++ L "```").
  cbn [app]. apply replace_aux_bt_tail; [exact Ht|].
  cbn [List.length]. rewrite app_length. change (List.length (L "```")) with 3. lia.
Qed.

(* ------------------------------------------------------------------ *)
(* interpolate_defaults                                                *)
(* ------------------------------------------------------------------ *)

Lemma I_nodoc : forall t v ann edd,
    interpolate_defaults (mkParam Missing t v) ann false edd = Ok (mkParam Missing t v).
Proof. reflexivity. Qed.

Lemma I_extract : forall doc t v0 ann edd doc' w,
    extract_default doc true ann (fget t) edd = Ok (doc', w) ->
    interpolate_defaults (mkParam (Has doc) t v0) ann false edd
    = Ok (mkParam (Has doc') t (match w with None | Some VNone => v0 | Some v => Some (unquote_val v) end)).
Proof.
  intros doc t v0 ann edd doc' w H. unfold interpolate_defaults.
  cbn [p_doc p_typ p_default extract_default_fld]. rewrite H. reflexivity.
Qed.

Lemma I_noannounce : forall d t v edd,
    no_announce d = true ->
    interpolate_defaults (mkParam (Has d) t v) default_announces false edd = Ok (mkParam (Has d) t v).
Proof.
  intros d t v edd H.
  rewrite (I_extract d t v default_announces edd d None); [reflexivity|].
  apply extract_default_no_announce. exact H.
Qed.

Lemma coerce_not_none : forall t v, coerce t v <> Ok VNone.
Proof.
  intros t v. unfold coerce.
  destruct (str_eqb t (L "bool")); [discriminate|].
  destruct (str_eqb t (L "str")); [discriminate|].
  destruct (str_eqb t (L "int")).
  { destruct v; try discriminate.
    - destruct (int_of_float_repr r); discriminate.
    - destruct (Z_of_dec_signed (strip s)); discriminate. }
  destruct (str_eqb t (L "float")); [|discriminate].
  destruct v; try discriminate.
  - destruct (float_of_Z z); discriminate.
  - destruct (float_of_str s); discriminate.
Qed.

Lemma coerce_default_not_none : forall t s, coerce_default t s <> Ok VNone.
Proof.
  intros t s. unfold coerce_default.
  destruct (match t with Some t0 => in_simple_types t0 && negb (in_none_types (VStr s)) | None => false end).
  - destruct t as [t0|]; [|discriminate].
    destruct (literal_eval_scalar s) as [lit|e]; [|discriminate]. cbn [bind]. apply coerce_not_none.
  - destruct (isdecimal s); [discriminate|].
    destruct (signed_decimal s). { destruct (Z_of_dec_signed s); discriminate. }
    destruct (str_eqb s (L "True")); [discriminate|].
    destruct (str_eqb s (L "False")); [discriminate|].
    destruct (float_of_str s) as [r|e]; [discriminate|]. destruct e; discriminate.
Qed.

(* ------------------------------------------------------------------ *)
(* _infer_default / _set_name_and_type                                 *)
(* ------------------------------------------------------------------ *)

(* the prose is passed through *)
Lemma infer_default_of_res : forall d t w t' w',
    infer_res t w = Ok (t', w') ->
    infer_default (mkParam d t (Some w)) false = Ok (mkParam d t' (Some w')).
Proof.
  intros d t w t' w' H. unfold infer_res, infer_default in *.
  cbn [p_default p_typ p_doc andb] in *.
  destruct (needs_quoting (fget t)) as [nq|e]; cbn [bind] in *; [|discriminate].
  set (d1 := if in_none_types w then VStr NoneStr else w) in *.
  set (d2 := if nq || is_str_val d1 then unquote_val d1 else d1) in *.
  set (t2 := if fld_is_none t && negb (pyval_eqb d2 (VStr NoneStr)) then Has (type_name d2) else t) in *.
  destruct (negb (pyval_eqb d2 (VStr NoneStr)) && code_quoted_val d2).
  - destruct t2 as [| |tt]; try discriminate.
    destruct (contains [ch 91] tt); cbn [p_default p_typ] in H; injection H as H1 H2; subst; reflexivity.
  - cbn [p_default p_typ] in H. injection H as H1 H2. subst. reflexivity.
Qed.

Definition doc_fine (d : str) : Prop :=
  d <> [] /\ mem_c nl d = false /\ edge_ok d /\ starts_optional d = false.

Definition typ_fine (t : fld str) : Prop :=
  match t with Has t0 => endswith google_opt t0 = false | Missing => True | FNone => False end.

Definition plain_name (n : str) : Prop :=
  endswith (L "kwargs") n = false /\ startswith (L "**") n = false.

(* the tail of _set_name_and_type, after the kwargs / _infer_default stage *)
Lemma S_plain : forall n p p1 ww,
    plain_name n ->
    (match p_default p with Some _ => infer_default p false | None => Ok p end) = Ok p1 ->
    typ_fine (p_typ p1) ->
    (match p_doc p1 with Has d => doc_fine d | Missing => True | FNone => False end) ->
    set_name_and_type (Some n) p false ww = Ok (n, p1).
Proof.
  intros n p p1 ww [Hk Hs] Hstage Htyp Hdoc. unfold set_name_and_type.
  rewrite Hk, Hs. cbn [orb].
  assert (E : (match p_default p with
               | Some _ => do p' <- infer_default p false; Ok (n, p')
               | None => Ok (n, p)
               end) = Ok (n, p1)).
  { destruct (p_default p); [rewrite Hstage; reflexivity|injection Hstage as Hstage; subst; reflexivity]. }
  rewrite E. cbn [bind fst snd].
  destruct p1 as [doc typ dflt]. cbn [p_doc p_typ p_default] in *.
  destruct typ as [| |t]; [|contradiction|]; cbn [typ_fine] in Htyp; try rewrite Htyp.
  - destruct doc as [| |d]; [reflexivity|contradiction|].
    destruct Hdoc as [Hne [Hnl [He Hopt]]].
    destruct d as [|c dr]; [contradiction|].
    rewrite (doc_norm_id ww (c :: dr) Hnl He).
    unfold starts_optional in Hopt. rewrite Hopt. reflexivity.
  - destruct doc as [| |d]; [reflexivity|contradiction|].
    destruct Hdoc as [Hne [Hnl [He Hopt]]].
    destruct d as [|c dr]; [contradiction|].
    rewrite (doc_norm_id ww (c :: dr) Hnl He).
    unfold starts_optional in Hopt. rewrite Hopt. reflexivity.
Qed.

(* ------------------------------------------------------------------ *)
(* one scanned line through _parse_phase_rest                          *)
(* ------------------------------------------------------------------ *)

Definition key_line (tokn n val ws : str) : str := tokn ++ sp :: n ++ colon :: sp :: val ++ ws.

(* the flush of the running pair when the name changes *)
Definition flush_for (name : str) (st : rstate) : outcome (list (str * param) * (option str * param)) :=
  match fst (rs_cur st) with
  | Some n =>
    if negb (str_eqb n name) then
      match n with
      | [] => Err IndexError
      | c :: _ =>
        if ascii_eqb c (ch 42) then Ok (rs_params st, (None, empty_param))
        else Ok (od_set n (snd (rs_cur st)) (rs_params st), (None, empty_param))
      end
    else Ok (rs_params st, rs_cur st)
  | None => Ok (rs_params st, rs_cur st)
  end.

Lemma step_param_line : forall ww edd st n val ws,
    mem_c colon n = false -> edge_ok val -> forallb isspace ws = true ->
    parse_rest_line false ww true edd st (true, key_line (L ":param") n val ws)
    = (do fl <- flush_for n st;
       do p2 <- interpolate_defaults (mkParam (Has val) (p_typ (snd (snd fl))) (p_default (snd (snd fl))))
                                     default_announces false edd;
       do np <- set_name_and_type (Some n) p2 false ww;
       Ok (mkRS (rs_doc st) (fst fl) (rs_returns st) (Some (fst np), snd np))).
Proof.
  intros ww edd st n val ws Hn Hval Hws. unfold parse_rest_line, key_line.
  assert (Hret : existsb (fun t => startswith t (L ":param" ++ sp :: n ++ colon :: sp :: val ++ ws))
                         Extracted.return_tokens_rest = false) by reflexivity.
  rewrite Hret.
  destruct (key_line_fields (L ":param") n (sp :: val ++ ws) eq_refl Hn) as [Hname Hval'].
  cbv zeta in Hname, Hval'. change (ch 58) with colon. rewrite Hname, Hval'.
  change (sp :: val ++ ws) with ([sp] ++ val ++ ws). rewrite (strip_pad [sp] val ws eq_refl Hws Hval).
  fold (flush_for n st).
  destruct (flush_for n st) as [fl|e]; [|reflexivity]. cbn [bind].
  assert (Hkv : set_param_values (L ":param" ++ [sp] ++ n ++ colon :: [sp] ++ val ++ ws) val (L ":type") = (false, val))
    by reflexivity.
  change (L ":param" ++ sp :: n ++ colon :: [sp] ++ val ++ ws)
    with (L ":param" ++ [sp] ++ n ++ colon :: [sp] ++ val ++ ws).
  rewrite Hkv. unfold set_kv. cbn [fst snd].
  destruct (interpolate_defaults _ default_announces false edd) as [p2|e]; [|reflexivity]. cbn [bind].
  destruct (set_name_and_type (Some n) p2 false ww) as [np|e]; [|reflexivity]. cbn [bind].
  unfold maybe_remove. rewrite andb_false_r. reflexivity.
Qed.

Lemma step_type_line : forall ww edd st n t ws,
    mem_c colon n = false -> mem_c bt t = false -> t <> [] -> startswith (L "**") t = false ->
    forallb isspace ws = true ->
    parse_rest_line false ww true edd st (true, key_line (L ":type") n (L "```" ++ t ++ L "```") ws)
    = (do fl <- flush_for n st;
       do p2 <- interpolate_defaults (mkParam (p_doc (snd (snd fl))) (Has t) (p_default (snd (snd fl))))
                                     default_announces false edd;
       do np <- set_name_and_type (Some n) p2 false ww;
       Ok (mkRS (rs_doc st) (fst fl) (rs_returns st) (Some (fst np), snd np))).
Proof.
  intros ww edd st n t ws Hn Hbt Hne Hstar Hws. unfold parse_rest_line, key_line.
  assert (Hret : existsb (fun t0 => startswith t0 (L ":type" ++ sp :: n ++ colon :: sp :: (L "```" ++ t ++ L "```") ++ ws))
                         Extracted.return_tokens_rest = false) by reflexivity.
  rewrite Hret.
  destruct (key_line_fields (L ":type") n (sp :: (L "```" ++ t ++ L "```") ++ ws) eq_refl Hn) as [Hname Hval'].
  cbv zeta in Hname, Hval'. change (ch 58) with colon. rewrite Hname, Hval'.
  assert (Hedge : edge_ok (L "```" ++ t ++ L "```")).
  { split.
    - exists bt, (bt :: bt :: t ++ L "```"). split; reflexivity.
    - exists bt. split; [|reflexivity]. apply last_c_spec. exists (L "```" ++ t ++ L "``").
      rewrite <- !app_assoc. reflexivity. }
  change (sp :: (L "```" ++ t ++ L "```") ++ ws) with ([sp] ++ (L "```" ++ t ++ L "```") ++ ws).
  rewrite (strip_pad [sp] _ ws eq_refl Hws Hedge).
  fold (flush_for n st).
  destruct (flush_for n st) as [fl|e]; [|reflexivity]. cbn [bind].
  assert (Hkv : set_param_values (L ":type" ++ [sp] ++ n ++ colon :: [sp] ++ (L "```" ++ t ++ L "```") ++ ws)
                                 (L "```" ++ t ++ L "```") (L ":type") = (true, t)).
  { unfold set_param_values.
    change (startswith (L ":type") (L ":type" ++ [sp] ++ n ++ colon :: [sp] ++ (L "```" ++ t ++ L "```") ++ ws)) with true.
    cbv iota. rewrite (replace_bt_wrapped t Hbt), Hstar. reflexivity. }
  change (L ":type" ++ sp :: n ++ colon :: [sp] ++ (L "```" ++ t ++ L "```") ++ ws)
    with (L ":type" ++ [sp] ++ n ++ colon :: [sp] ++ (L "```" ++ t ++ L "```") ++ ws).
  rewrite Hkv. unfold set_kv. cbn [fst snd].
  destruct (interpolate_defaults _ default_announces false edd) as [p2|e]; [|reflexivity]. cbn [bind].
  destruct (set_name_and_type (Some n) p2 false ww) as [np|e]; [|reflexivity]. cbn [bind].
  unfold maybe_remove. rewrite andb_false_r. reflexivity.
Qed.

(* ---- the two return lines ---- *)

Definition ret_line (key val ws : str) : str := colon :: key ++ colon :: sp :: val ++ ws.

Lemma step_returns_line : forall ww edd st d ws,
    edge_ok d -> no_announce d = true -> forallb isspace ws = true ->
    parse_rest_line false ww true edd st (true, ret_line (L "returns") d ws)
    = Ok (mkRS (rs_doc st) (rs_params st)
               (Some (update_param (match rs_returns st with None => empty_param | Some r => r end)
                                   (mkParam (Has d) Missing None)))
               (rs_cur st)).
Proof.
  intros ww edd st d ws Hd Hno Hws. unfold parse_rest_line, ret_line.
  assert (Hret : existsb (fun t => startswith t (colon :: L "returns" ++ colon :: sp :: d ++ ws))
                         Extracted.return_tokens_rest = true) by reflexivity.
  rewrite Hret. change (ch 58) with colon.
  pose proof (ret_line_value (L "returns") (sp :: d ++ ws) eq_refl) as Hv. cbv zeta in Hv. rewrite Hv.
  change (sp :: d ++ ws) with ([sp] ++ d ++ ws). rewrite (strip_pad [sp] d ws eq_refl Hws Hd).
  assert (Hkv : set_param_values (colon :: L "returns" ++ colon :: [sp] ++ d ++ ws) d
                                 (last_str Extracted.return_tokens_rest) = (false, d)) by reflexivity.
  rewrite Hkv. unfold set_kv, empty_param. cbn [fst snd p_doc p_typ p_default].
  rewrite (I_noannounce d Missing None edd Hno). reflexivity.
Qed.

Lemma step_rtype_line : forall ww edd st t ws,
    mem_c bt t = false -> startswith (L "**") t = false -> forallb isspace ws = true ->
    parse_rest_line false ww true edd st (true, ret_line (L "rtype") (L "```" ++ t ++ L "```") ws)
    = Ok (mkRS (rs_doc st) (rs_params st)
               (Some (update_param (match rs_returns st with None => empty_param | Some r => r end)
                                   (mkParam Missing (Has t) None)))
               (rs_cur st)).
Proof.
  intros ww edd st t ws Hbt Hstar Hws. unfold parse_rest_line, ret_line.
  assert (Hret : existsb (fun t0 => startswith t0 (colon :: L "rtype" ++ colon :: sp :: (L "```" ++ t ++ L "```") ++ ws))
                         Extracted.return_tokens_rest = true) by reflexivity.
  rewrite Hret. change (ch 58) with colon.
  pose proof (ret_line_value (L "rtype") (sp :: (L "```" ++ t ++ L "```") ++ ws) eq_refl) as Hv.
  cbv zeta in Hv. rewrite Hv.
  assert (Hedge : edge_ok (L "```" ++ t ++ L "```")).
  { split.
    - exists bt, (bt :: bt :: t ++ L "```"). split; reflexivity.
    - exists bt. split; [|reflexivity]. apply last_c_spec. exists (L "```" ++ t ++ L "``").
      rewrite <- !app_assoc. reflexivity. }
  change (sp :: (L "```" ++ t ++ L "```") ++ ws) with ([sp] ++ (L "```" ++ t ++ L "```") ++ ws).
  rewrite (strip_pad [sp] _ ws eq_refl Hws Hedge).
  assert (Hkv : set_param_values (colon :: L "rtype" ++ colon :: [sp] ++ (L "```" ++ t ++ L "```") ++ ws)
                                 (L "```" ++ t ++ L "```") (last_str Extracted.return_tokens_rest) = (true, t)).
  { unfold set_param_values.
    change (startswith (last_str Extracted.return_tokens_rest)
                       (colon :: L "rtype" ++ colon :: [sp] ++ (L "```" ++ t ++ L "```") ++ ws)) with true.
    cbv iota. rewrite (replace_bt_wrapped t Hbt), Hstar. reflexivity. }
  rewrite Hkv. unfold set_kv, empty_param. cbn [fst snd p_doc p_typ p_default].
  rewrite I_nodoc. reflexivity.
Qed.

(* ---- token-freeness of the pieces of a line ---- *)

Lemma no_colon_no_token : forall x, mem_c colon x = false -> no_rest_token x = true.
Proof.
  intros x Hx. apply no_rest_token_spec. intros t Ht.
  destruct (contains t x) eqn:E; [|reflexivity]. exfalso.
  apply contains_true_iff in E. destruct E as [a [b E]].
  pose proof (proj1 (forallb_forall _ _) rest_tokens_lower t Ht) as Hl.
  destruct t as [|c r]; [discriminate|]. cbn [tok_lower] in Hl.
  apply andb_true_iff in Hl. destruct Hl as [Hc _]. apply ascii_eqb_eq in Hc. subst c.
  assert (Hin : mem_c colon x = true).
  { apply mem_c_In. rewrite E. apply in_or_app. right. left. reflexivity. }
  congruence.
Qed.

Lemma isspace_not_lower : forall c, isspace c = true -> islower_c c = false /\ c <> colon.
Proof.
  intros c H. unfold isspace, islower_c in *. split.
  - destruct (Nat.leb 97 (code c)) eqn:E1; [|reflexivity]. apply Nat.leb_le in E1.
    apply orb_true_iff in H. destruct H as [H|H]; apply andb_true_iff in H; destruct H as [_ H];
      apply Nat.leb_le in H; lia.
  - intros E. subst c. vm_compute in H. discriminate.
Qed.

(* blank-separated: a token-free, then a blank, then b token-free *)
Lemma no_rest_token_sp : forall a b, no_rest_token a = true -> no_rest_token b = true ->
    no_rest_token (a ++ sp :: b) = true.
Proof.
  intros a b Ha Hb. apply no_rest_token_app_r; [exact Ha| |].
  - change (sp :: b) with ([sp] ++ b). apply no_rest_token_app_l; [reflexivity|exact Hb|].
    intros c Hc. injection Hc as Hc. subst c. split; [reflexivity|discriminate].
  - intros c Hc. injection Hc as Hc. subst c. reflexivity.
Qed.

Lemma no_rest_token_ws : forall a ws, no_rest_token a = true -> forallb isspace ws = true ->
    no_rest_token (a ++ ws) = true.
Proof.
  intros a ws Ha. revert a Ha. induction ws as [|c ws IH]; intros a Ha Hws.
  - rewrite app_nil_r. exact Ha.
  - cbn [forallb] in Hws. apply andb_true_iff in Hws. destruct Hws as [Hc Hws].
    change (a ++ c :: ws) with (a ++ [c] ++ ws). rewrite app_assoc. apply IH; [|exact Hws].
    apply no_rest_token_app_r; [exact Ha| |].
    + apply no_colon_no_token. rewrite mem_c_cons. cbn [mem_c existsb]. rewrite orb_false_r.
      destruct (isspace_not_lower c Hc) as [_ Hn]. apply ascii_eqb_neq. intros E. apply Hn. symmetry. exact E.
    + intros c' Hc'. injection Hc' as Hc'. subst c'. apply (isspace_not_lower c Hc).
Qed.

(* the body of a  :key name: value  block *)
Lemma key_body_token_free : forall n val ws,
    mem_c colon n = false -> no_rest_token val = true -> forallb isspace ws = true ->
    no_rest_token (sp :: n ++ colon :: sp :: val ++ ws) = true.
Proof.
  intros n val ws Hn Hval Hws.
  change (sp :: n ++ colon :: sp :: val ++ ws) with ([] ++ sp :: (n ++ colon :: sp :: val ++ ws)).
  apply no_rest_token_sp; [reflexivity|].
  apply no_rest_token_app_r; [apply no_colon_no_token; exact Hn| |].
  - change (colon :: sp :: val ++ ws) with ([colon] ++ sp :: (val ++ ws)).
    apply no_rest_token_sp; [reflexivity|]. apply no_rest_token_ws; assumption.
  - intros c Hc. injection Hc as Hc. subst c. reflexivity.
Qed.

Lemma bt_wrapped_token_free : forall t, no_rest_token t = true -> no_rest_token (L "```" ++ t ++ L "```") = true.
Proof.
  intros t Ht. apply no_rest_token_app_l; [reflexivity| |].
  - apply no_rest_token_app_r; [exact Ht|reflexivity|].
    intros c Hc. injection Hc as Hc. subst c. reflexivity.
  - intros c Hc. injection Hc as Hc. subst c. split; [reflexivity|discriminate].
Qed.

(* ------------------------------------------------------------------ *)
(* (iii) the default sentence of one parameter                         *)
(* ------------------------------------------------------------------ *)

Definition sentence (d s : str) : str := d ++ L " Defaults to " ++ s.

(* what the guard of C17 gives about the sentence  d. Defaults to s : whatever type the reader
   assumes, the value text s is found and read; with removal exactly d is left *)
Lemma sentence_extract : forall d v typ s,
    guard_C17 ADefaultsTo d v typ = true -> shown_value v typ = Ok s ->
    forall t' w, coerce_default t' s = Ok w ->
      extract_default (sentence d s) true default_announces t' true = Ok (sentence d s, Some w)
      /\ extract_default (sentence d s) true default_announces t' false = Ok (d, Some w).
Proof.
  intros d v typ s Hg Hs t' w Hco.
  apply guard_C17_split in Hg. destruct Hg as [Hp Hv].
  destruct (prose_ok_inv d Hp) as [Hne [Hno [[l [Hl Hterm]] Hdef]]].
  unfold value_ok in Hv. rewrite Hs in Hv.
  apply andb_true_iff in Hv. destruct Hv as [Hv _].
  apply andb_true_iff in Hv. destruct Hv as [Hv Hparen].
  apply andb_true_iff in Hv. destruct Hv as [Hv Hstrip].
  apply andb_true_iff in Hv. destruct Hv as [Hann Hscan].
  apply str_eqb_eq in Hscan. apply str_eqb_eq in Hstrip. apply negb_true_iff in Hparen.
  destruct (value_announce_ok_inv ADefaultsTo s Hann) as [e Hloc].
  exact (extract_default_sentence d l (announce_text ADefaultsTo) s t' e w true
           Hl (terminal_sep_ok l Hterm) Hno Hloc Hscan Hstrip Hparen Hco).
Qed.

(* the sentence is what set_default_doc writes *)
Lemma sentence_written : forall name d v typ s,
    guard_C17 ADefaultsTo d v typ = true -> shown_value v typ = Ok s ->
    endswith (L "kwargs") name = false ->
    exists v', set_default_doc name (mkParam (Has d) (fld_of_opt typ) (Some v)) true
               = Ok (mkParam (Has (sentence d s)) (fld_of_opt typ) (Some v')).
Proof.
  intros name d v typ s Hg Hs Hk.
  apply guard_C17_split in Hg. destruct Hg as [Hp _].
  destruct (prose_ok_inv d Hp) as [Hne [Hno [[l [Hl Hterm]] Hdef]]].
  destruct (shown_value_inv v typ s Hs) as [sv [Hsv Es]]. subst s.
  exists (if pyval_eqb v (VStr NoneStr) then VNone else v).
  rewrite (set_default_doc_writes name d l typ v sv Hl Hdef).
  - rewrite Hterm. reflexivity.
  - cbv zeta. split; [|exact Hsv]. rewrite Hk. cbn [negb]. apply orb_true_r.
Qed.

Lemma startswith_app_nospace : forall p d x,
    mem_c sp p = false -> startswith p (d ++ sp :: x) = startswith p d.
Proof.
  intros p d x Hp. destruct (startswith p d) eqn:E.
  - apply startswith_app_r. exact E.
  - destruct (startswith p (d ++ sp :: x)) eqn:E2; [|reflexivity]. exfalso.
    apply startswith_app_cases in E2. destruct E2 as [E2|[q [Hq1 [Hq2 Hq3]]]]; [congruence|].
    destruct q as [|c q]; [contradiction|]. cbn [startswith] in Hq3.
    apply andb_true_iff in Hq3. destruct Hq3 as [Hc _]. apply ascii_eqb_eq in Hc. subst c.
    rewrite Hq1, mem_c_app, mem_c_cons, ascii_eqb_refl in Hp. rewrite orb_true_r in Hp. discriminate.
Qed.

Lemma edge_ok_app : forall a b, edge_ok a -> edge_ok b -> edge_ok (a ++ b).
Proof.
  intros a b [[c [r [Ea Hc]]] _] [[c' [r' [Eb Hc']]] [l [Hl Hls]]]. split.
  - exists c, (r ++ b). rewrite Ea. split; [reflexivity|exact Hc].
  - exists l. split; [|exact Hls]. rewrite last_c_app_nonnil; [exact Hl|]. rewrite Eb. discriminate.
Qed.

Lemma value_text_clean_inv : forall s, value_text_clean s = true ->
    mem_c nl s = false /\ no_rest_token s = true /\ exists l, last_c s = Some l /\ isspace l = false.
Proof.
  intros s H. unfold value_text_clean in H.
  apply andb_true_iff in H. destruct H as [H Hl]. apply andb_true_iff in H. destruct H as [Hn Ht].
  apply negb_true_iff in Hn. split; [exact Hn|]. split; [exact Ht|].
  destruct (last_c s) as [l|]; [|discriminate]. exists l. split; [reflexivity|].
  apply negb_true_iff in Hl. exact Hl.
Qed.

(* the sentence is as clean a line as its prose *)
Lemma sentence_fine : forall d s,
    doc_fine d -> value_text_clean s = true -> no_rest_token d = true ->
    doc_fine (sentence d s) /\ no_rest_token (sentence d s) = true.
Proof.
  intros d s [Hne [Hnl [He Hopt]]] Hs Htok.
  destruct (value_text_clean_inv s Hs) as [Hsnl [Hstok [l [Hl Hls]]]].
  unfold sentence. split; [split; [|split; [|split]]|].
  - destruct d; [contradiction|discriminate].
  - rewrite !mem_c_app, Hnl, Hsnl. reflexivity.
  - destruct He as [[c [r [Ed Hc]]] _]. split.
    + exists c, (r ++ L " Defaults to " ++ s). rewrite Ed. split; [reflexivity|exact Hc].
    + exists l. split; [|exact Hls]. rewrite app_assoc. rewrite last_c_app_nonnil; [exact Hl|].
      intros E. rewrite E in Hl. discriminate.
  - unfold starts_optional in *. change (L " Defaults to " ++ s) with (sp :: (L "Defaults to " ++ s)).
    rewrite !startswith_app_nospace by reflexivity. exact Hopt.
  - change (L " Defaults to " ++ s) with (sp :: (L "Defaults to" ++ sp :: s)).
    apply no_rest_token_sp; [exact Htok|]. apply no_rest_token_sp; [reflexivity|exact Hstok].
Qed.

(* ------------------------------------------------------------------ *)
(* the running pair                                                    *)
(* ------------------------------------------------------------------ *)

Definition good_name (n : str) : Prop :=
  mem_c colon n = false /\ plain_name n /\ exists c r, n = c :: r /\ c <> ch 42.

(* the running pair before an entry named n is read *)
Definition cur_ok (cur : option str * param) (n : str) : Prop :=
  match fst cur with
  | None => snd cur = empty_param
  | Some m => m <> n /\ exists c r, m = c :: r /\ c <> ch 42
  end.

Definition flushed (done : list (str * param)) (cur : option str * param) : list (str * param) :=
  match fst cur with None => done | Some m => od_set m (snd cur) done end.

Lemma flush_for_other : forall n sdoc done rets cur,
    cur_ok cur n ->
    flush_for n (mkRS sdoc done rets cur) = Ok (flushed done cur, (None, empty_param)).
Proof.
  intros n sdoc done rets [[m|] pm] H; unfold cur_ok in H; cbn [fst snd] in H;
    unfold flush_for, flushed; cbn [rs_cur rs_params fst snd].
  - destruct H as [Hne [c [r [Em Hc]]]].
    assert (E : str_eqb m n = false) by (apply str_eqb_neq; exact Hne).
    rewrite E. cbn [negb]. rewrite Em.
    assert (Ec : ascii_eqb c (ch 42) = false) by (apply ascii_eqb_neq; exact Hc).
    rewrite Ec. reflexivity.
  - rewrite H. reflexivity.
Qed.

Lemma flush_for_same : forall n sdoc done rets pn,
    flush_for n (mkRS sdoc done rets (Some n, pn)) = Ok (done, (Some n, pn)).
Proof.
  intros n sdoc done rets pn. unfold flush_for. cbn [rs_cur rs_params fst snd].
  rewrite str_eqb_refl. reflexivity.
Qed.

(* ------------------------------------------------------------------ *)
(* entries without a default                                           *)
(* ------------------------------------------------------------------ *)

Definition typ_facts (t : str) : Prop :=
  mem_c bt t = false /\ t <> [] /\ startswith (L "**") t = false /\ endswith google_opt t = false.

Definition prose_facts (d : str) : Prop := doc_fine d /\ no_announce d = true.

Definition step (ww edd : bool) := parse_rest_line false ww true edd.

(* I then S leave a settled dict without default alone *)
Lemma IS_nodefault : forall ww edd n odoc otyp,
    plain_name n ->
    (forall d, odoc = Some d -> prose_facts d) -> (forall t, otyp = Some t -> typ_facts t) ->
    interpolate_defaults (mkParam (fld_of_opt odoc) (fld_of_opt otyp) None) default_announces false edd
    = Ok (mkParam (fld_of_opt odoc) (fld_of_opt otyp) None)
    /\ set_name_and_type (Some n) (mkParam (fld_of_opt odoc) (fld_of_opt otyp) None) false ww
       = Ok (n, mkParam (fld_of_opt odoc) (fld_of_opt otyp) None).
Proof.
  intros ww edd n odoc otyp Hn Hd Ht. split.
  - destruct odoc as [d|]; cbn [fld_of_opt]; [|apply I_nodoc].
    apply I_noannounce. apply (Hd d eq_refl).
  - apply S_plain; [exact Hn|reflexivity| |]; cbn [p_typ p_doc].
    + destruct otyp as [t|]; cbn [fld_of_opt typ_fine]; [|exact I]. apply (Ht t eq_refl).
    + destruct odoc as [d|]; cbn [fld_of_opt]; [|exact I]. apply (Hd d eq_refl).
Qed.

Definition dline (n val ws : str) : bool * str := (true, key_line (L ":param") n val ws).
Definition tline (n t ws : str) : bool * str := (true, key_line (L ":type") n (L "```" ++ t ++ L "```") ws).

Lemma doc_fine_edge : forall d, doc_fine d -> edge_ok d.
Proof. intros d H. apply H. Qed.

Lemma run_doc_line_nodefault : forall ww edd n d ws sdoc done rets cur,
    good_name n -> cur_ok cur n -> prose_facts d -> forallb isspace ws = true ->
    step ww edd (mkRS sdoc done rets cur) (dline n d ws)
    = Ok (mkRS sdoc (flushed done cur) rets (Some n, mkParam (Has d) Missing None)).
Proof.
  intros ww edd n d ws sdoc done rets cur [Hc [Hp _]] Hcur Hd Hws. unfold step, dline.
  rewrite step_param_line; [|exact Hc|apply doc_fine_edge; apply Hd|exact Hws].
  rewrite (flush_for_other n sdoc done rets cur Hcur). cbn [bind fst snd empty_param p_typ p_default].
  destruct (IS_nodefault ww edd n (Some d) None Hp) as [HI HS].
  { intros d' E. injection E as E. subst d'. exact Hd. }
  { intros t E. discriminate. }
  cbn [fld_of_opt] in HI, HS. rewrite HI. cbn [bind]. rewrite HS. reflexivity.
Qed.

Lemma run_typ_line_nodefault_first : forall ww edd n t ws sdoc done rets cur,
    good_name n -> cur_ok cur n -> typ_facts t -> forallb isspace ws = true ->
    step ww edd (mkRS sdoc done rets cur) (tline n t ws)
    = Ok (mkRS sdoc (flushed done cur) rets (Some n, mkParam Missing (Has t) None)).
Proof.
  intros ww edd n t ws sdoc done rets cur [Hc [Hp _]] Hcur Ht Hws. unfold step, tline.
  pose proof Ht as [Hbt [Hne [Hstar Hopt]]].
  rewrite step_type_line; [|exact Hc|exact Hbt|exact Hne|exact Hstar|exact Hws].
  rewrite (flush_for_other n sdoc done rets cur Hcur). cbn [bind fst snd empty_param p_doc p_default].
  destruct (IS_nodefault ww edd n None (Some t) Hp) as [HI HS].
  { intros d' E. discriminate. }
  { intros t' E. injection E as E. subst t'. exact Ht. }
  cbn [fld_of_opt] in HI, HS. rewrite HI. cbn [bind]. rewrite HS. reflexivity.
Qed.

Lemma run_typ_line_nodefault_second : forall ww edd n d t ws sdoc done rets,
    good_name n -> prose_facts d -> typ_facts t -> forallb isspace ws = true ->
    step ww edd (mkRS sdoc done rets (Some n, mkParam (Has d) Missing None)) (tline n t ws)
    = Ok (mkRS sdoc done rets (Some n, mkParam (Has d) (Has t) None)).
Proof.
  intros ww edd n d t ws sdoc done rets [Hc [Hp _]] Hd Ht Hws. unfold step, tline.
  pose proof Ht as [Hbt [Hne [Hstar Hopt]]].
  rewrite step_type_line; [|exact Hc|exact Hbt|exact Hne|exact Hstar|exact Hws].
  rewrite flush_for_same. cbn [bind fst snd p_doc p_default].
  destruct (IS_nodefault ww edd n (Some d) (Some t) Hp) as [HI HS].
  { intros d' E. injection E as E. subst d'. exact Hd. }
  { intros t' E. injection E as E. subst t'. exact Ht. }
  cbn [fld_of_opt] in HI, HS. rewrite HI. cbn [bind]. rewrite HS. reflexivity.
Qed.

(* ------------------------------------------------------------------ *)
(* what one entry does to the parser state                             *)
(* ------------------------------------------------------------------ *)

(* [lines] read from a state whose running pair belongs to another name leave the pair (n, mid);
   mid is a fixed point of the flush passes; the final interpolate_defaults pass turns it into fin *)
Definition entry_spec (ww edd : bool) (n : str) (lines : list (bool * str)) (mid fin : param) : Prop :=
  (forall sdoc done rets cur, cur_ok cur n ->
      fold_outcome (step ww edd) lines (mkRS sdoc done rets cur)
      = Ok (mkRS sdoc (flushed done cur) rets (Some n, mid)))
  /\ (exists mi, interpolate_defaults mid default_announces false edd = Ok mi
                 /\ set_name_and_type (Some n) mi false ww = Ok (n, mid))
  /\ interpolate_defaults mid default_announces false edd = Ok fin.

Definition nl1 : str := [nl].
Definition nl2 : str := [nl; nl].

(* ---- no default ---- *)

Lemma entry_nodefault_doc_typ : forall ww edd n d t,
    good_name n -> prose_facts d -> typ_facts t ->
    entry_spec ww edd n [dline n d nl1; tline n t nl2]
               (mkParam (Has d) (Has t) None) (mkParam (Has d) (Has t) None).
Proof.
  intros ww edd n d t Hn Hd Ht.
  destruct (IS_nodefault ww edd n (Some d) (Some t) (proj1 (proj2 Hn))) as [HI HS].
  { intros d' E. injection E as E. subst d'. exact Hd. }
  { intros t' E. injection E as E. subst t'. exact Ht. }
  cbn [fld_of_opt] in HI, HS.
  split; [|split].
  - intros sdoc done rets cur Hcur. cbn [fold_outcome].
    rewrite (run_doc_line_nodefault ww edd n d nl1 sdoc done rets cur Hn Hcur Hd eq_refl). cbn [bind].
    rewrite (run_typ_line_nodefault_second ww edd n d t nl2 sdoc _ rets Hn Hd Ht eq_refl). reflexivity.
  - eexists. split; [exact HI|exact HS].
  - exact HI.
Qed.

Lemma entry_nodefault_doc : forall ww edd n d,
    good_name n -> prose_facts d ->
    entry_spec ww edd n [dline n d nl2] (mkParam (Has d) Missing None) (mkParam (Has d) Missing None).
Proof.
  intros ww edd n d Hn Hd.
  destruct (IS_nodefault ww edd n (Some d) None (proj1 (proj2 Hn))) as [HI HS].
  { intros d' E. injection E as E. subst d'. exact Hd. }
  { intros t' E. discriminate. }
  cbn [fld_of_opt] in HI, HS.
  split; [|split].
  - intros sdoc done rets cur Hcur. cbn [fold_outcome].
    rewrite (run_doc_line_nodefault ww edd n d nl2 sdoc done rets cur Hn Hcur Hd eq_refl). reflexivity.
  - eexists. split; [exact HI|exact HS].
  - exact HI.
Qed.

Lemma entry_nodefault_typ : forall ww edd n t,
    good_name n -> typ_facts t ->
    entry_spec ww edd n [tline n t nl2] (mkParam Missing (Has t) None) (mkParam Missing (Has t) None).
Proof.
  intros ww edd n t Hn Ht.
  destruct (IS_nodefault ww edd n None (Some t) (proj1 (proj2 Hn))) as [HI HS].
  { intros d' E. discriminate. }
  { intros t' E. injection E as E. subst t'. exact Ht. }
  cbn [fld_of_opt] in HI, HS.
  split; [|split].
  - intros sdoc done rets cur Hcur. cbn [fold_outcome].
    rewrite (run_typ_line_nodefault_first ww edd n t nl2 sdoc done rets cur Hn Hcur Ht eq_refl). reflexivity.
  - eexists. split; [exact HI|exact HS].
  - exact HI.
Qed.

(* ---- with a default ---- *)

Lemma fld_eqb_eq : forall a b, fld_eqb a b = true -> a = b.
Proof.
  intros [| |x] [| |y] H; try discriminate; try reflexivity.
  cbn [fld_eqb] in H. apply str_eqb_eq in H. subst. reflexivity.
Qed.

Lemma settled_inv : forall T w, settled T w = true -> infer_res T w = Ok (T, w).
Proof.
  intros T w H. unfold settled in H. destruct (infer_res T w) as [[T' w']|e]; [|discriminate].
  apply andb_true_iff in H. destruct H as [H1 H2].
  apply fld_eqb_eq in H1. apply pyval_eqb_eq in H2. subst. reflexivity.
Qed.

Lemma type_name_fine : forall v, typ_fine (Has (type_name v)).
Proof. intros [|[|]|z|r|s]; reflexivity. Qed.

(* the type inferred when none is declared is a plain type name *)
Lemma infer_res_missing_fine : forall w t' w', infer_res Missing w = Ok (t', w') -> typ_fine t'.
Proof.
  intros w t' w' H. unfold infer_res, infer_default in H.
  cbn [p_default p_typ p_doc andb fld_is_none fget] in H.
  change (needs_quoting None) with (Ok false : outcome bool) in H. cbn [bind orb] in H.
  set (d1 := if in_none_types w then VStr NoneStr else w) in *.
  set (d2 := if is_str_val d1 then unquote_val d1 else d1) in *.
  destruct (negb (pyval_eqb d2 (VStr NoneStr))) eqn:En; cbn [andb] in H.
  - destruct (code_quoted_val d2).
    + destruct (contains [ch 91] (type_name d2)); cbn [p_default p_typ] in H; injection H as H1 H2; subst;
        [apply type_name_fine|exact I].
    + cbn [p_default p_typ] in H. injection H as H1 H2. subst. apply type_name_fine.
  - cbn [p_default p_typ] in H. injection H as H1 H2. subst. exact I.
Qed.

Lemma coerce_ok_not_none : forall t s w, coerce_default t s = Ok w -> w <> VNone.
Proof. intros t s w H E. subst w. exact (coerce_default_not_none t s H). Qed.

Section DefaultEntry.
  Variables (ww edd : bool) (n d s : str) (v : pyval) (typ : option str).
  Hypothesis Hn : good_name n.
  Hypothesis Hd : prose_facts d.
  Hypothesis Hdtok : no_rest_token d = true.
  Hypothesis Hg : guard_C17 ADefaultsTo d v typ = true.
  Hypothesis Hs : shown_value v typ = Ok s.
  Hypothesis Hclean : value_text_clean s = true.

  Let Dw := sentence d s.
  Let Dk := if edd then Dw else d.

  Lemma Dk_fine : doc_fine Dk.
  Proof.
    unfold Dk. destruct edd; [|apply Hd].
    apply (sentence_fine d s (proj1 Hd) Hclean Hdtok).
  Qed.

  Lemma extract_Dw : forall t' w, coerce_default t' s = Ok w ->
      extract_default Dw true default_announces t' edd = Ok (Dk, Some w).
  Proof.
    intros t' w Hco. destruct (sentence_extract d v typ s Hg Hs t' w Hco) as [E1 E2].
    unfold Dk, Dw. destruct edd; assumption.
  Qed.

  (* first line: the sentence is read without a declared type *)
  Lemma run_doc_line_default : forall v1 typ1 w1 ws sdoc done rets cur,
      coerce_default None s = Ok v1 -> infer_res Missing (unquote_val v1) = Ok (typ1, w1) ->
      cur_ok cur n -> forallb isspace ws = true ->
      step ww edd (mkRS sdoc done rets cur) (dline n Dw ws)
      = Ok (mkRS sdoc (flushed done cur) rets (Some n, mkParam (Has Dk) typ1 (Some w1))).
  Proof.
    intros v1 typ1 w1 ws sdoc done rets cur Hv1 Hr1 Hcur Hws. unfold step, dline.
    destruct Hn as [Hc [Hp _]].
    assert (HDw : doc_fine Dw /\ no_rest_token Dw = true) by apply (sentence_fine d s (proj1 Hd) Hclean Hdtok).
    rewrite step_param_line; [|exact Hc|apply doc_fine_edge; apply HDw|exact Hws].
    rewrite (flush_for_other n sdoc done rets cur Hcur). cbn [bind fst snd empty_param p_typ p_default].
    rewrite (I_extract Dw Missing None default_announces edd Dk (Some v1) (extract_Dw None v1 Hv1)).
    assert (Em : (match Some v1 with None | Some VNone => None | Some v0 => Some (unquote_val v0) end)
                 = Some (unquote_val v1)).
    { destruct v1; try reflexivity. exfalso. exact (coerce_default_not_none None s Hv1). }
    rewrite Em. cbn [bind].
    rewrite (S_plain n _ (mkParam (Has Dk) typ1 (Some w1)) ww Hp).
    - reflexivity.
    - cbn [p_default]. apply infer_default_of_res. exact Hr1.
    - cbn [p_typ]. apply (infer_res_missing_fine _ _ _ Hr1).
    - cbn [p_doc]. apply Dk_fine.
  Qed.

  (* no type line: the running pair is already settled *)
  Lemma entry_default_notyp : forall v1 w1,
      typ = None ->
      coerce_default None s = Ok v1 -> infer_res Missing (unquote_val v1) = Ok (Missing, w1) ->
      (edd = false -> settled Missing w1 = true) ->
      entry_spec ww edd n [dline n Dw nl2]
                 (mkParam (Has Dk) Missing (Some w1))
                 (mkParam (Has Dk) Missing (Some (if edd then unquote_val v1 else w1))).
  Proof.
    intros v1 w1 Et Hv1 Hr1 Hset. pose proof Hn as [Hc [Hp _]].
    assert (HI : interpolate_defaults (mkParam (Has Dk) Missing (Some w1)) default_announces false edd
                 = Ok (mkParam (Has Dk) Missing (Some (if edd then unquote_val v1 else w1)))).
    { unfold Dk. destruct edd.
      - rewrite (I_extract Dw Missing (Some w1) default_announces true Dw (Some v1)).
        + destruct v1; try reflexivity. exfalso. exact (coerce_default_not_none None s Hv1).
        + destruct (sentence_extract d v typ s Hg Hs None v1 Hv1) as [E1 _]. exact E1.
      - apply I_noannounce. apply Hd. }
    split; [|split].
    - intros sdoc done rets cur Hcur. cbn [fold_outcome].
      rewrite (run_doc_line_default v1 Missing w1 nl2 sdoc done rets cur Hv1 Hr1 Hcur eq_refl). reflexivity.
    - eexists. split; [exact HI|].
      apply S_plain; [exact Hp| |exact I|apply Dk_fine].
      cbn [p_default]. apply infer_default_of_res.
      destruct edd; [exact Hr1|]. apply settled_inv. apply Hset. reflexivity.
    - exact HI.
  Qed.

  (* a type line follows *)
  Lemma entry_default_typ : forall t v1 typ1 w1 w2 vfin,
      typ = Some t -> typ_facts t ->
      coerce_default None s = Ok v1 -> infer_res Missing (unquote_val v1) = Ok (typ1, w1) ->
      (if edd
       then exists v2, coerce_default (Some t) s = Ok v2 /\ infer_res (Has t) (unquote_val v2) = Ok (Has t, w2)
                       /\ vfin = unquote_val v2
       else infer_res (Has t) w1 = Ok (Has t, w2) /\ settled (Has t) w2 = true /\ vfin = w2) ->
      entry_spec ww edd n [dline n Dw nl1; tline n t nl2]
                 (mkParam (Has Dk) (Has t) (Some w2)) (mkParam (Has Dk) (Has t) (Some vfin)).
  Proof.
    intros t v1 typ1 w1 w2 vfin Et Ht Hv1 Hr1 Hj. pose proof Hn as [Hc [Hp _]].
    pose proof Ht as [Hbt [Hne [Hstar Hopt]]].
    (* the interpolate pass on a dict that has the type, whatever default it holds *)
    assert (HI : forall w0, interpolate_defaults (mkParam (Has Dk) (Has t) (Some w0)) default_announces false edd
                 = Ok (mkParam (Has Dk) (Has t) (Some (if edd then vfin else w0)))).
    { intros w0. unfold Dk. destruct edd.
      - destruct Hj as [v2 [Hv2 [_ Evf]]]. subst vfin.
        rewrite (I_extract Dw (Has t) (Some w0) default_announces true Dw (Some v2)).
        + destruct v2; try reflexivity. exfalso. exact (coerce_default_not_none (Some t) s Hv2).
        + destruct (sentence_extract d v typ s Hg Hs (Some t) v2 Hv2) as [E1 _]. exact E1.
      - apply I_noannounce. apply Hd. }
    (* the _set_name_and_type pass after it *)
    assert (HS : forall w0, (if edd then w0 = vfin else w0 = w1 \/ w0 = w2) ->
                 set_name_and_type (Some n) (mkParam (Has Dk) (Has t) (Some w0)) false ww
                 = Ok (n, mkParam (Has Dk) (Has t) (Some w2))).
    { intros w0 Hw0. apply S_plain; [exact Hp| |exact Hopt|apply Dk_fine].
      cbn [p_default]. apply infer_default_of_res. destruct edd.
      - destruct Hj as [v2 [_ [Hr2 Evf]]]. subst w0 vfin. exact Hr2.
      - destruct Hj as [Hr2 [Hset _]]. destruct Hw0 as [E|E]; subst w0; [exact Hr2|].
        apply settled_inv. exact Hset. }
    split; [|split].
    - intros sdoc done rets cur Hcur. cbn [fold_outcome].
      rewrite (run_doc_line_default v1 typ1 w1 nl1 sdoc done rets cur Hv1 Hr1 Hcur eq_refl). cbn [bind].
      unfold step, tline.
      rewrite step_type_line; [|exact Hc|exact Hbt|exact Hne|exact Hstar|reflexivity].
      rewrite flush_for_same. cbn [bind fst snd p_doc p_default].
      rewrite (HI w1). cbn [bind]. rewrite HS; [reflexivity|].
      destruct edd; [reflexivity|left; reflexivity].
    - eexists. split; [apply HI|]. apply HS. destruct edd; [reflexivity|right; reflexivity].
    - rewrite (HI w2). f_equal. f_equal. f_equal. destruct edd; [reflexivity|].
      destruct Hj as [_ [_ E]]. symmetry. exact E.
  Qed.
End DefaultEntry.

(* ------------------------------------------------------------------ *)
(* reading the guard                                                   *)
(* ------------------------------------------------------------------ *)

Lemma id_chars_exclude : forall c n, is_id_char c = false -> forallb is_id_char n = true -> mem_c c n = false.
Proof.
  intros c n Hc Hn. destruct (mem_c c n) eqn:E; [|reflexivity]. exfalso.
  apply mem_c_In in E. rewrite forallb_forall in Hn. rewrite (Hn c E) in Hc. discriminate.
Qed.

Lemma is_ident_good : forall n, is_ident n = true -> endswith (L "kwargs") n = false ->
    good_name n /\ mem_c nl n = false.
Proof.
  intros n Hi Hk. unfold is_ident in Hi. destruct n as [|c r]; [discriminate|].
  apply andb_true_iff in Hi. destruct Hi as [Hs Hall].
  split; [split; [|split; [split|]]|].
  - apply (id_chars_exclude colon); [reflexivity|exact Hall].
  - exact Hk.
  - change (L "**") with [ch 42; ch 42]. cbn [startswith].
    destruct (ascii_eqb (ch 42) c) eqn:E; [|reflexivity].
    apply ascii_eqb_eq in E. subst c. discriminate.
  - exists c, r. split; [reflexivity|]. intros E. subst c. discriminate.
  - apply (id_chars_exclude nl); [reflexivity|exact Hall].
Qed.

Lemma type_in_domain_inv : forall t, type_in_domain t = true ->
    typ_facts t /\ mem_c nl t = false /\ no_rest_token t = true
    /\ exists nq, needs_quoting (Some t) = Ok nq.
Proof.
  intros t H. unfold type_in_domain in H.
  repeat (apply andb_true_iff in H; let H' := fresh "Hc" in destruct H as [H H']).
  apply negb_true_iff in Hc, Hc0, Hc3, Hc4.
  assert (Hne : t <> []). { intros E. subst t. discriminate. }
  split; [split; [exact Hc4|split; [exact Hne|split; [exact Hc|exact Hc0]]]|].
  split; [exact Hc3|]. split; [exact Hc1|].
  destruct (needs_quoting (Some t)) as [nq|e]; [exists nq; reflexivity|discriminate].
Qed.

Lemma clean_line_facts : forall d, d <> [] -> clean_line d = true -> starts_optional d = false -> doc_fine d.
Proof.
  intros d Hne Hc Ho. unfold clean_line in Hc. apply andb_true_iff in Hc. destruct Hc as [Hs Hn].
  apply str_eqb_eq in Hs. apply negb_true_iff in Hn.
  split; [exact Hne|]. split; [exact Hn|]. split; [|exact Ho]. apply strip_fix_edge_ok; assumption.
Qed.

Lemma journey_inv : forall edd typ s v, default_journey edd typ s v = None ->
  exists v1 typ1 w1,
    coerce_default None s = Ok v1 /\ infer_res Missing (unquote_val v1) = Ok (typ1, w1)
    /\ match typ with
       | None => typ1 = Missing
                 /\ (if edd then same_val v (unquote_val v1) = true
                     else settled Missing w1 = true /\ same_val v w1 = true)
       | Some t =>
         if edd then exists v2 w2, coerce_default (Some t) s = Ok v2
                                  /\ infer_res (Has t) (unquote_val v2) = Ok (Has t, w2)
                                  /\ same_val v (unquote_val v2) = true
         else exists w2, infer_res (Has t) w1 = Ok (Has t, w2) /\ settled (Has t) w2 = true
                         /\ same_val v w2 = true
       end.
Proof.
  intros edd typ s v H. unfold default_journey in H.
  destruct (coerce_default None s) as [v1|e] eqn:Ev1; [|destruct e; discriminate].
  destruct (infer_res Missing (unquote_val v1)) as [[typ1 w1]|e] eqn:Er1; [|destruct e; discriminate].
  exists v1, typ1, w1. split; [reflexivity|]. split; [exact Er1|].
  destruct typ as [t|].
  - destruct edd.
    + destruct (coerce_default (Some t) s) as [v2|e] eqn:Ev2; [|destruct e; discriminate].
      destruct (infer_res (Has t) (unquote_val v2)) as [[typ2 w2]|e] eqn:Er2; [|destruct e; discriminate].
      destruct (fld_eqb typ2 (Has t)) eqn:Et; cbn [negb] in H; [|discriminate].
      apply fld_eqb_eq in Et. subst typ2.
      destruct (same_val v (unquote_val v2)) eqn:Es; [|discriminate].
      exists v2, w2. split; [reflexivity|]. split; [exact Er2|exact Es].
    + destruct (infer_res (Has t) w1) as [[typ2 w2]|e] eqn:Er2; [|destruct e; discriminate].
      destruct (fld_eqb typ2 (Has t)) eqn:Et; cbn [negb orb] in H; [|discriminate].
      apply fld_eqb_eq in Et. subst typ2.
      destruct (settled (Has t) w2) eqn:Eset; cbn [negb] in H; [|discriminate].
      destruct (same_val v w2) eqn:Es; [|discriminate].
      exists w2. split; [reflexivity|]. split; [exact Eset|exact Es].
  - destruct (fld_eqb typ1 Missing) eqn:Et; cbn [negb] in H; [|discriminate].
    apply fld_eqb_eq in Et. split; [exact Et|]. destruct edd.
    + destruct (same_val v (unquote_val v1)) eqn:Es; [reflexivity|discriminate].
    + destruct (settled Missing w1) eqn:Eset; cbn [negb] in H; [|discriminate].
      destruct (same_val v w1) eqn:Es; [split; reflexivity|discriminate].
Qed.

(* the shapes of a parameter entry outside every finding class *)
Lemma param_class_inv : forall edd n g,
    endswith (L "kwargs") n = false -> entry_in_domain g = true -> param_class edd n g = None ->
    (fld_str (g_doc g) = None /\ exists t, g_typ g = Has t /\ type_in_domain t = true /\ g_default g = None)
    \/ (exists d typ,
           g_doc g = Has d /\ doc_fine d /\ no_announce d = true /\ no_rest_token d = true
           /\ g_typ g = fld_of_opt typ /\ (forall t, typ = Some t -> type_in_domain t = true)
           /\ (g_default g = None
               \/ exists v s, g_default g = Some (DV v) /\ guard_C17 ADefaultsTo d v typ = true
                              /\ shown_value v typ = Ok s /\ value_text_clean s = true
                              /\ default_journey edd typ s v = None)).
Proof.
  intros edd n g Hk Hdom Hc. unfold entry_in_domain in Hdom.
  apply andb_true_iff in Hdom. destruct Hdom as [Hdom Hdd].
  apply andb_true_iff in Hdom. destruct Hdom as [Hdoc Htyp].
  (* the declared type, as the emitters see it *)
  assert (Ht : exists typ, g_typ g = fld_of_opt typ /\ fld_str (g_typ g) = typ
                           /\ forall t, typ = Some t -> type_in_domain t = true).
  { destruct (g_typ g) as [| |t]; [exists None; repeat split; intros t E; discriminate|discriminate|].
    exists (Some t). destruct (type_in_domain_inv t Htyp) as [[_ [Hne _]] _].
    destruct t as [|c r]; [contradiction|]. repeat split. intros t' E. injection E as E. subst t'. exact Htyp. }
  destruct Ht as [typ [Etyp [Efs Htd]]].
  unfold param_class in Hc. rewrite Efs, Hk in Hc.
  destruct (fld_str (g_doc g)) as [d|] eqn:Ed.
  - right.
    assert (Edoc : g_doc g = Has d).
    { destruct (g_doc g) as [| |[|c r]]; try discriminate. cbn [fld_str] in Ed. injection Ed as Ed. subst d. reflexivity. }
    assert (Hne : d <> []). { destruct (g_doc g) as [| |[|c r]]; try discriminate. cbn [fld_str] in Ed. injection Ed as Ed. subst d. discriminate. }
    rewrite Edoc in Hdoc.
    destruct (clean_line d) eqn:Ecl; cbn [negb] in Hc; [|discriminate].
    destruct (starts_optional d) eqn:Eop; [discriminate|].
    destruct (no_announce d) eqn:Ena; cbn [negb] in Hc; [|discriminate].
    exists d, typ. split; [exact Edoc|]. split; [apply clean_line_facts; assumption|].
    split; [exact Ena|]. split; [exact Hdoc|]. split; [exact Etyp|]. split; [exact Htd|].
    destruct (g_default g) as [[v|e|r]|]; [|discriminate|discriminate|left; reflexivity].
    right.
    destruct (finding_class_C17 ADefaultsTo d v typ) as [k|] eqn:Ek; [destruct k; discriminate|].
    destruct (shown_value v typ) as [s|e] eqn:Es; [|discriminate].
    destruct (value_text_clean s) eqn:Ev; cbn [negb] in Hc; [|discriminate].
    exists v, s. split; [reflexivity|]. split.
    { unfold guard_C17, C17_domain. rewrite Ek, Ena. destruct d; [contradiction|reflexivity]. }
    split; [exact Es|]. split; [exact Ev|exact Hc].
  - left. split; [reflexivity|].
    destruct typ as [t|]; [|discriminate].
    destruct (g_default g); [discriminate|].
    exists t. split; [|split; [apply Htd; reflexivity|reflexivity]].
    rewrite Etyp. reflexivity.
Qed.

(* ------------------------------------------------------------------ *)
(* entries as blocks of text                                           *)
(* ------------------------------------------------------------------ *)

Definition dblock (n val ws : str) : str * str := (L ":param", sp :: n ++ colon :: sp :: val ++ ws).
Definition tblock (n t ws : str) : str * str :=
  (L ":type", sp :: n ++ colon :: sp :: (L "```" ++ t ++ L "```") ++ ws).
Definition as_line (b : str * str) : bool * str := (true, blk b).

Record entry : Type := mkE {
  e_name : str;
  e_blocks : list (str * str);
  e_mid : param;
  e_fin : param
}.

Definition block_good (b : str * str) : Prop := In (fst b) rest_scan_tokens /\ no_rest_token (snd b) = true.

Definition name_basic (n : str) : Prop := mem_c colon n = false /\ exists c r, n = c :: r /\ c <> ch 42.

Lemma good_name_basic : forall n, good_name n -> name_basic n.
Proof. intros n [H1 [_ H3]]. split; assumption. Qed.

Definition entry_ok (ww edd : bool) (e : entry) : Prop :=
  name_basic (e_name e)
  /\ entry_spec ww edd (e_name e) (map as_line (e_blocks e)) (e_mid e) (e_fin e)
  /\ (forall b, In b (e_blocks e) -> block_good b)
  /\ e_blocks e <> [].

Lemma dblock_good : forall n val ws,
    mem_c colon n = false -> no_rest_token val = true -> forallb isspace ws = true -> block_good (dblock n val ws).
Proof.
  intros n val ws Hn Hv Hws. split.
  - left. reflexivity.
  - apply key_body_token_free; assumption.
Qed.

Lemma tblock_good : forall n t ws,
    mem_c colon n = false -> no_rest_token t = true -> forallb isspace ws = true -> block_good (tblock n t ws).
Proof.
  intros n t ws Hn Ht Hws. split.
  - right. right. right. right. left. reflexivity.
  - apply key_body_token_free; [exact Hn|apply bt_wrapped_token_free; exact Ht|exact Hws].
Qed.

(* ---- the text of one entry ---- *)

Lemma iabf_single : forall c r, isspace c = false -> mem_c nl (c :: r) = false ->
    indent_all_but_first (c :: r) 1 false = c :: r.
Proof.
  intros c r Hc Hnl. unfold indent_all_but_first, indent.
  rewrite (split_nl_single (c :: r) Hnl). cbn [indent_lines forallb]. rewrite Hc. cbn [andb join].
  assert (Et : repeat_str tab 1 = tab) by (unfold repeat_str; cbn [repeat concat]; apply app_nil_r).
  rewrite Et.
  assert (Hnl' : mem_c nl (tab ++ c :: r) = false).
  { rewrite mem_c_app, Hnl. reflexivity. }
  rewrite (split_nl_single _ Hnl'). cbn [join].
  rewrite (lstrip_pad tab (c :: r) eq_refl).
  unfold lstrip. apply lstrip_by_id. intros c' Hc'. injection Hc' as Hc'. subst c'. exact Hc.
Qed.

Lemma doc_line_text : forall n val ws,
    (L ":" ++ (L "param " ++ n) ++ L ": " ++ val) ++ ws = blk (dblock n val ws).
Proof. intros n val ws. unfold blk, dblock. cbn [fst snd]. rewrite <- !app_assoc. reflexivity. Qed.

Lemma typ_line_text : forall n t ws,
    (L ":" ++ (L "type " ++ n) ++ L ": ```" ++ t ++ L "```") ++ ws = blk (tblock n t ws).
Proof. intros n t ws. unfold blk, tblock. cbn [fst snd]. rewrite <- !app_assoc. reflexivity. Qed.

Lemma line_no_nl_doc : forall n val, mem_c nl n = false -> mem_c nl val = false ->
    mem_c nl (L ":" ++ (L "param " ++ n) ++ L ": " ++ val) = false.
Proof. intros n val Hn Hv. rewrite !mem_c_app, Hn, Hv. reflexivity. Qed.

Lemma line_no_nl_typ : forall n t, mem_c nl n = false -> mem_c nl t = false ->
    mem_c nl (L ":" ++ (L "type " ++ n) ++ L ": ```" ++ t ++ L "```") = false.
Proof. intros n t Hn Ht. rewrite !mem_c_app, Hn, Ht. reflexivity. Qed.

Lemma iabf_colon_line : forall x, mem_c nl (L ":" ++ x) = false -> indent_all_but_first (L ":" ++ x) 1 false = L ":" ++ x.
Proof. intros x H. apply (iabf_single colon x); [reflexivity|exact H]. Qed.

(* the text of a parameter from its two optional lines *)
Lemma rest_param_text_of_lines : forall n g odoc otyp,
    rest_param_lines n g
    = Ok ((match odoc with Some D => [L ":" ++ (L "param " ++ n) ++ L ": " ++ D] | None => [] end)
          ++ (match otyp with Some t => [L ":" ++ (L "type " ++ n) ++ L ": ```" ++ t ++ L "```"] | None => [] end)) ->
    mem_c nl n = false ->
    (forall D, odoc = Some D -> mem_c nl D = false) -> (forall t, otyp = Some t -> mem_c nl t = false) ->
    odoc <> None \/ otyp <> None ->
    exists txt, rest_param_text n g = Ok txt
      /\ txt ++ nl2 = concat (map blk ((match odoc with
                                        | Some D => [dblock n D (match otyp with Some _ => nl1 | None => nl2 end)]
                                        | None => [] end)
                                       ++ (match otyp with Some t => [tblock n t nl2] | None => [] end))).
Proof.
  intros n g odoc otyp Hl Hn HD Ht Hsome. unfold rest_param_text. rewrite Hl. cbn [bind].
  destruct odoc as [D|]; destruct otyp as [t|]; cbn [app map join concat].
  - pose proof (line_no_nl_doc n D Hn (HD D eq_refl)) as H1.
    pose proof (line_no_nl_typ n t Hn (Ht t eq_refl)) as H2.
    rewrite (iabf_colon_line _ H1), (iabf_colon_line _ H2).
    eexists. split; [reflexivity|]. rewrite app_nil_r.
    rewrite <- doc_line_text, <- typ_line_text. unfold nl1, nl2.
    change (?a :: ?x) with ([a] ++ x) at 1. rewrite <- !app_assoc. reflexivity.
  - pose proof (line_no_nl_doc n D Hn (HD D eq_refl)) as H1.
    rewrite (iabf_colon_line _ H1).
    eexists. split; [reflexivity|]. rewrite app_nil_r. rewrite <- doc_line_text. reflexivity.
  - pose proof (line_no_nl_typ n t Hn (Ht t eq_refl)) as H2.
    rewrite (iabf_colon_line _ H2).
    eexists. split; [reflexivity|]. rewrite app_nil_r. rewrite <- typ_line_text. reflexivity.
  - exfalso. destruct Hsome as [H|H]; apply H; reflexivity.
Qed.

(* ------------------------------------------------------------------ *)
(* one parameter of the guard as an entry                              *)
(* ------------------------------------------------------------------ *)

Lemma rest_param_lines_eq : forall n gd T gdf odoc typ,
    str_eqb n (L "return_type") = false ->
    T = fld_of_opt typ -> (forall t, typ = Some t -> t <> []) ->
    (match odoc with
     | None => truthy_fld gd = false
     | Some D => exists d p p', gd = Has d /\ d <> [] /\ param_of_gparam (mkG gd T gdf) = Some p
                               /\ set_default_doc n p true = Ok p' /\ p_doc p' = Has D
     end) ->
    rest_param_lines n (mkG gd T gdf)
    = Ok ((match odoc with Some D => [L ":" ++ (L "param " ++ n) ++ L ": " ++ D] | None => [] end)
          ++ (match typ with Some t => [L ":" ++ (L "type " ++ n) ++ L ": ```" ++ t ++ L "```"] | None => [] end)).
Proof.
  intros n gd T gdf odoc typ Hrt ET Hne Hdoc. unfold rest_param_lines. cbv zeta. rewrite Hrt.
  cbn [g_doc g_typ].
  assert (Etl : (match T with
                 | Has (c :: t) => [L ":" ++ (L "type " ++ n) ++ L ": ```" ++ (c :: t) ++ L "```"]
                 | _ => [] end)
                = match typ with Some t => [L ":" ++ (L "type " ++ n) ++ L ": ```" ++ t ++ L "```"] | None => [] end).
  { subst T. destruct typ as [t|]; [|reflexivity]. cbn [fld_of_opt].
    destruct t as [|c t]; [exfalso; apply (Hne [] eq_refl); reflexivity|reflexivity]. }
  destruct odoc as [D|].
  - destruct Hdoc as [d [p [p' [Egd [Hd [Hp [Hs HD]]]]]]].
    assert (Etr : truthy_fld gd = true). { subst gd. destruct d; [contradiction|reflexivity]. }
    rewrite Etr, Hp, Hs. cbn [bind]. rewrite HD. cbn [bind]. do 2 f_equal. exact Etl.
  - rewrite Hdoc. cbn [bind]. do 2 f_equal. exact Etl.
Qed.

Lemma same_entry_intro : forall (edd : bool) n g g',
    same_typ g g' = true ->
    (if edd then same_prose_dflt n g g' else same_prose g g') = true ->
    same_default_ir (g_default g) (g_default g') = true ->
    same_entry edd n g g' = true.
Proof. intros edd n g g' H1 H2 H3. unfold same_entry. rewrite H1, H2, H3. reflexivity. Qed.

Lemma same_prose_dflt_of_same : forall n g g', same_prose g g' = true -> same_prose_dflt n g g' = true.
Proof. intros n g g' H. unfold same_prose_dflt. rewrite H. reflexivity. Qed.

Lemma opt_eqb_str_refl : forall o : option str, opt_eqb str_eqb o o = true.
Proof. intros [x|]; [apply str_eqb_refl|reflexivity]. Qed.

Lemma fld_str_nonempty : forall x, x <> [] -> fld_str (Has x) = Some x.
Proof. intros [|c r] H; [contradiction|reflexivity]. Qed.

Theorem param_entry : forall ww edd n g,
    is_ident n = true -> endswith (L "kwargs") n = false -> str_eqb n (L "return_type") = false ->
    entry_in_domain g = true -> param_class edd n g = None ->
    exists e, e_name e = n /\ entry_ok ww edd e
              /\ (exists txt, rest_param_text n g = Ok txt /\ txt ++ nl2 = concat (map blk (e_blocks e)))
              /\ same_entry edd n g (gparam_of_param (e_fin e)) = true.
Proof.
  intros ww edd n g Hid Hk Hrt Hdom Hc.
  destruct (is_ident_good n Hid Hk) as [Hgood Hnnl].
  pose proof Hgood as [Hcolon [Hplain _]].
  destruct (param_class_inv edd n g Hk Hdom Hc) as
      [[Hnodoc [t [Et [Htd Edf]]]] | [d [typ [Ed [Hdf [Hna [Hdtok [Et [Htd Hdflt]]]]]]]]].
  - (* type only *)
    destruct (type_in_domain_inv t Htd) as [Htf [Htnl [Httok _]]].
    destruct g as [gd gt gdf]. cbn [g_doc g_typ g_default] in *. subst gt gdf.
    exists (mkE n [tblock n t nl2] (mkParam Missing (Has t) None) (mkParam Missing (Has t) None)).
    split; [reflexivity|]. split; [|split].
    + split; [exact (good_name_basic n Hgood)|]. split; [apply entry_nodefault_typ; assumption|]. split; [|discriminate].
      intros b [Hb|[]]. subst b. apply tblock_good; [exact Hcolon|exact Httok|reflexivity].
    + apply (rest_param_text_of_lines n _ None (Some t)).
      * apply (rest_param_lines_eq n gd (Has t) None None (Some t) Hrt eq_refl).
        -- intros t' E. injection E as E. subst t'. apply Htf.
        -- destruct gd as [| |[|c r]]; try reflexivity. discriminate.
      * exact Hnnl.
      * intros D E. discriminate.
      * intros t' E. injection E as E. subst t'. exact Htnl.
      * right. discriminate.
    + cbn [e_fin]. apply same_entry_intro.
      * unfold same_typ. cbn [g_typ gparam_of_param p_typ]. apply opt_eqb_str_refl.
      * assert (Hsp : same_prose (mkG gd (Has t) None) (gparam_of_param (mkParam Missing (Has t) None)) = true).
        { unfold same_prose. cbn [g_doc gparam_of_param p_doc]. rewrite Hnodoc. reflexivity. }
        destruct edd; [apply same_prose_dflt_of_same|]; exact Hsp.
      * reflexivity.
  - (* prose, with or without type *)
    assert (Htfacts : forall t, typ = Some t -> typ_facts t /\ mem_c nl t = false /\ no_rest_token t = true).
    { intros t E. destruct (type_in_domain_inv t (Htd t E)) as [H1 [H2 [H3 _]]]. split; [exact H1|split; [exact H2|exact H3]]. }
    assert (Htne : forall t, typ = Some t -> t <> []).
    { intros t E. destruct (Htfacts t E) as [[_ [H _]] _]. exact H. }
    assert (Hprose : prose_facts d) by (split; assumption).
    assert (Hdne : d <> []) by apply Hdf.
    assert (Hdnl : mem_c nl d = false) by apply Hdf.
    destruct g as [gd gt gdf]. cbn [g_doc g_typ g_default] in *. subst gd gt.
    assert (Htyp_same : forall p, p_typ p = fld_of_opt typ ->
               same_typ (mkG (Has d) (fld_of_opt typ) gdf) (gparam_of_param p) = true).
    { intros p Ep. unfold same_typ. cbn [g_typ gparam_of_param]. rewrite Ep.
      apply opt_eqb_str_refl. }
    destruct Hdflt as [Edf | [v [s [Edf [Hg [Hs [Hclean Hj]]]]]]].
    + (* no default *)
      subst gdf.
      assert (Hlines : rest_param_lines n (mkG (Has d) (fld_of_opt typ) None)
                = Ok ([L ":" ++ (L "param " ++ n) ++ L ": " ++ d]
                      ++ match typ with Some t => [L ":" ++ (L "type " ++ n) ++ L ": ```" ++ t ++ L "```"] | None => [] end)).
      { apply (rest_param_lines_eq n (Has d) (fld_of_opt typ) None (Some d) typ Hrt eq_refl Htne).
        exists d, (mkParam (Has d) (fld_of_opt typ) None), (mkParam (Has d) (fld_of_opt typ) None).
        split; [reflexivity|]. split; [exact Hdne|]. split; [reflexivity|]. split; [|reflexivity].
        apply set_default_doc_no_default; [reflexivity|discriminate]. }
      assert (Hsame : forall T : unit, same_entry edd n (mkG (Has d) (fld_of_opt typ) None)
                                (gparam_of_param (mkParam (Has d) (fld_of_opt typ) None)) = true).
      { intros _. apply same_entry_intro; [apply Htyp_same; reflexivity| |reflexivity].
        assert (Hsp : same_prose (mkG (Has d) (fld_of_opt typ) None)
                                 (gparam_of_param (mkParam (Has d) (fld_of_opt typ) None)) = true).
        { unfold same_prose. cbn [g_doc gparam_of_param p_doc]. apply opt_eqb_str_refl. }
        destruct edd; [apply same_prose_dflt_of_same|]; exact Hsp. }
      destruct typ as [t|].
      * destruct (Htfacts t eq_refl) as [Htf [Htnl Httok]].
        exists (mkE n [dblock n d nl1; tblock n t nl2] (mkParam (Has d) (Has t) None) (mkParam (Has d) (Has t) None)).
        split; [reflexivity|]. split; [|split].
        -- split; [exact (good_name_basic n Hgood)|]. split; [apply entry_nodefault_doc_typ; assumption|]. split; [|discriminate].
           intros b [Hb|[Hb|[]]]; subst b;
             [apply dblock_good|apply tblock_good]; try assumption; reflexivity.
        -- apply (rest_param_text_of_lines n _ (Some d) (Some t) Hlines Hnnl).
           ++ intros D E. injection E as E. subst D. exact Hdnl.
           ++ intros t' E. injection E as E. subst t'. exact Htnl.
           ++ left. discriminate.
        -- cbn [e_fin]. apply (Hsame tt).
      * exists (mkE n [dblock n d nl2] (mkParam (Has d) Missing None) (mkParam (Has d) Missing None)).
        split; [reflexivity|]. split; [|split].
        -- split; [exact (good_name_basic n Hgood)|]. split; [apply entry_nodefault_doc; assumption|]. split; [|discriminate].
           intros b [Hb|[]]; subst b. apply dblock_good; try assumption; reflexivity.
        -- apply (rest_param_text_of_lines n _ (Some d) None Hlines Hnnl).
           ++ intros D E. injection E as E. subst D. exact Hdnl.
           ++ intros t' E. discriminate.
           ++ left. discriminate.
        -- cbn [e_fin]. apply (Hsame tt).
    + (* a default: the sentence *)
      subst gdf.
      destruct (sentence_written n d v typ s Hg Hs Hk) as [v' Hw].
      destruct (sentence_fine d s Hdf Hclean Hdtok) as [HDwf HDwtok].
      assert (HDwnl : mem_c nl (sentence d s) = false) by apply HDwf.
      assert (Hlines : rest_param_lines n (mkG (Has d) (fld_of_opt typ) (Some (DV v)))
                = Ok ([L ":" ++ (L "param " ++ n) ++ L ": " ++ sentence d s]
                      ++ match typ with Some t => [L ":" ++ (L "type " ++ n) ++ L ": ```" ++ t ++ L "```"] | None => [] end)).
      { apply (rest_param_lines_eq n (Has d) (fld_of_opt typ) (Some (DV v)) (Some (sentence d s)) typ Hrt eq_refl Htne).
        exists d, (mkParam (Has d) (fld_of_opt typ) (Some v)), (mkParam (Has (sentence d s)) (fld_of_opt typ) (Some v')).
        split; [reflexivity|]. split; [exact Hdne|]. split; [reflexivity|]. split; [exact Hw|reflexivity]. }
      (* what the comparison needs of the final dict *)
      assert (Hsame : forall vfin, same_val v vfin = true ->
                 same_entry edd n (mkG (Has d) (fld_of_opt typ) (Some (DV v)))
                            (gparam_of_param (mkParam (Has (if edd then sentence d s else d)) (fld_of_opt typ) (Some vfin))) = true).
      { intros vfin Hv. apply same_entry_intro; [apply Htyp_same; reflexivity| |].
        - destruct edd.
          + unfold same_prose_dflt, sentence_doc. cbn [param_of_gparam g_default g_doc g_typ].
            rewrite Hw. cbn [p_doc gparam_of_param g_doc].
            assert (Hne' : sentence d s <> []) by apply HDwf.
            destruct (sentence d s) as [|c0 r0]; [contradiction|].
            cbn [fld_str]. rewrite str_eqb_refl. apply orb_true_r.
          + unfold same_prose. cbn [g_doc gparam_of_param p_doc]. apply opt_eqb_str_refl.
        - cbn [g_default gparam_of_param p_default option_map same_default_ir dval_eqb none_like_d]. exact Hv. }
      destruct (journey_inv edd typ s v Hj) as [v1 [typ1 [w1 [Hv1 [Hr1 Hcase]]]]].
      destruct typ as [t|].
      * destruct (Htfacts t eq_refl) as [Htf [Htnl Httok]].
        assert (Hex : exists w2 vfin,
                   (if edd
                    then exists v2, coerce_default (Some t) s = Ok v2
                                    /\ infer_res (Has t) (unquote_val v2) = Ok (Has t, w2) /\ vfin = unquote_val v2
                    else infer_res (Has t) w1 = Ok (Has t, w2) /\ settled (Has t) w2 = true /\ vfin = w2)
                   /\ same_val v vfin = true).
        { destruct edd.
          - destruct Hcase as [v2 [w2 [H1 [H2 H3]]]]. exists w2, (unquote_val v2). split; [|exact H3].
            exists v2. repeat split; assumption.
          - destruct Hcase as [w2 [H1 [H2 H3]]]. exists w2, w2. split; [|exact H3]. repeat split; assumption. }
        destruct Hex as [w2 [vfin [Hjj Hsv]]].
        exists (mkE n [dblock n (sentence d s) nl1; tblock n t nl2]
                    (mkParam (Has (if edd then sentence d s else d)) (Has t) (Some w2))
                    (mkParam (Has (if edd then sentence d s else d)) (Has t) (Some vfin))).
        split; [reflexivity|]. split; [|split].
        -- split; [exact (good_name_basic n Hgood)|]. split.
           { apply (entry_default_typ ww edd n d s v (Some t) Hgood Hprose Hdtok Hg Hs Hclean
                                      t v1 typ1 w1 w2 vfin eq_refl Htf Hv1 Hr1 Hjj). }
           split; [|discriminate].
           intros b [Hb|[Hb|[]]]; subst b;
             [apply dblock_good|apply tblock_good]; try assumption; reflexivity.
        -- apply (rest_param_text_of_lines n _ (Some (sentence d s)) (Some t) Hlines Hnnl).
           ++ intros D E. injection E as E. subst D. exact HDwnl.
           ++ intros t' E. injection E as E. subst t'. exact Htnl.
           ++ left. discriminate.
        -- cbn [e_fin]. apply (Hsame vfin Hsv).
      * destruct Hcase as [Etyp1 Hcase]. subst typ1.
        exists (mkE n [dblock n (sentence d s) nl2]
                    (mkParam (Has (if edd then sentence d s else d)) Missing (Some w1))
                    (mkParam (Has (if edd then sentence d s else d)) Missing (Some (if edd then unquote_val v1 else w1)))).
        split; [reflexivity|]. split; [|split].
        -- split; [exact (good_name_basic n Hgood)|]. split.
           { apply (entry_default_notyp ww edd n d s v None Hgood Hprose Hdtok Hg Hs Hclean v1 w1 eq_refl Hv1 Hr1).
             intros E. subst edd. apply Hcase. }
           split; [|discriminate].
           intros b [Hb|[]]; subst b. apply dblock_good; try assumption; reflexivity.
        -- apply (rest_param_text_of_lines n _ (Some (sentence d s)) None Hlines Hnnl).
           ++ intros D E. injection E as E. subst D. exact HDwnl.
           ++ intros t' E. discriminate.
           ++ left. discriminate.
        -- cbn [e_fin]. apply (Hsame (if edd then unquote_val v1 else w1)). destruct edd; [exact Hcase|apply Hcase].
Qed.

(* ------------------------------------------------------------------ *)
(* the kwargs-named parameter in its canonical shape                   *)
(* ------------------------------------------------------------------ *)

Definition kwargs_typ (T : fld str) : fld str :=
  match T with
  | Missing => Has (L "Optional[dict]")
  | Has t => if str_eqb t (L "dict") then Has (L "Optional[dict]") else Has t
  | FNone => FNone
  end.

Lemma S_kwargs : forall n d T dflt ww,
    endswith (L "kwargs") n = true -> (exists c r, n = c :: r /\ c <> ch 42) ->
    typ_fine (kwargs_typ T) -> doc_fine d ->
    set_name_and_type (Some n) (mkParam (Has d) T dflt) false ww
    = Ok (n, mkParam (Has d) (kwargs_typ T) (match dflt with None => Some (VStr NoneStr) | x => x end)).
Proof.
  intros n d T dflt ww Hk [c [r [En Hc]]] Htyp [Hne [Hnl [He Hopt]]]. unfold set_name_and_type.
  rewrite Hk. cbn [orb bind fst snd p_typ p_doc p_default].
  assert (Els : lstrip_chars [ch 42] n = n).
  { unfold lstrip_chars. apply lstrip_by_id. intros c' Hc'. rewrite En in Hc'. injection Hc' as Hc'. subst c'.
    cbn [mem_c existsb]. rewrite orb_false_r. apply ascii_eqb_neq. exact Hc. }
  rewrite Els. fold (kwargs_typ T).
  destruct (kwargs_typ T) as [| |t]; [|contradiction|]; cbn [typ_fine] in Htyp; try rewrite Htyp.
  - destruct d as [|c0 dr]; [contradiction|].
    rewrite (doc_norm_id ww (c0 :: dr) Hnl He). unfold starts_optional in Hopt. rewrite Hopt. destruct dflt; reflexivity.
  - destruct d as [|c0 dr]; [contradiction|].
    rewrite (doc_norm_id ww (c0 :: dr) Hnl He). unfold starts_optional in Hopt. rewrite Hopt. destruct dflt; reflexivity.
Qed.

Lemma entry_kwargs : forall ww edd n d t,
    mem_c colon n = false -> endswith (L "kwargs") n = true -> (exists c r, n = c :: r /\ c <> ch 42) ->
    prose_facts d -> typ_facts t -> str_eqb t (L "dict") = false ->
    entry_spec ww edd n [dline n d nl1; tline n t nl2]
               (mkParam (Has d) (Has t) (Some (VStr NoneStr))) (mkParam (Has d) (Has t) (Some (VStr NoneStr))).
Proof.
  intros ww edd n d t Hc Hk Hstar Hd Ht Hnd.
  pose proof Ht as [Hbt [Hne [Hstar' Hopt]]].
  assert (HI : forall T v0, interpolate_defaults (mkParam (Has d) T v0) default_announces false edd
                            = Ok (mkParam (Has d) T v0)).
  { intros T v0. apply I_noannounce. apply Hd. }
  assert (HS2 : forall v0, v0 = None \/ v0 = Some (VStr NoneStr) ->
             set_name_and_type (Some n) (mkParam (Has d) (Has t) v0) false ww
             = Ok (n, mkParam (Has d) (Has t) (Some (VStr NoneStr)))).
  { intros v0 Hv0. rewrite (S_kwargs n d (Has t) v0 ww Hk Hstar).
    - cbn [kwargs_typ]. rewrite Hnd. destruct Hv0 as [E|E]; subst v0; reflexivity.
    - cbn [kwargs_typ]. rewrite Hnd. exact Hopt.
    - apply Hd. }
  split; [|split].
  - intros sdoc done rets cur Hcur. cbn [fold_outcome]. unfold step, dline.
    rewrite step_param_line; [|exact Hc|apply doc_fine_edge; apply Hd|reflexivity].
    rewrite (flush_for_other n sdoc done rets cur Hcur). cbn [bind fst snd empty_param p_typ p_default].
    rewrite HI. cbn [bind].
    rewrite (S_kwargs n d Missing None ww Hk Hstar); [|reflexivity|apply Hd]. cbn [bind fst snd kwargs_typ].
    unfold tline. rewrite step_type_line; [|exact Hc|exact Hbt|exact Hne|exact Hstar'|reflexivity].
    rewrite flush_for_same. cbn [bind fst snd p_doc p_default].
    rewrite HI. cbn [bind]. rewrite HS2; [reflexivity|right; reflexivity].
  - eexists. split; [apply HI|]. apply HS2. right. reflexivity.
  - apply HI.
Qed.

Lemma set_default_doc_kwargs_none : forall n d T v,
    endswith (L "kwargs") n = true -> (v = VNone \/ v = VStr NoneStr) ->
    exists p', set_default_doc n (mkParam (Has d) T (Some v)) true = Ok p' /\ p_doc p' = Has d.
Proof.
  intros n d T v Hk Hv. unfold set_default_doc. cbn [p_doc p_typ p_default].
  destruct (contains (L "Defaults") d || contains (L "defaults") d); cbn [negb andb].
  - eexists. split; reflexivity.
  - assert (E : (if pyval_eqb v (VStr NoneStr) then VNone else v) = VNone).
    { destruct Hv as [Hv|Hv]; subst v; reflexivity. }
    rewrite E. change (pyval_eqb VNone VNone) with true. rewrite Hk. cbn [negb orb].
    eexists. split; reflexivity.
Qed.

Lemma param_class_inv_kwargs : forall edd n g,
    endswith (L "kwargs") n = true -> entry_in_domain g = true -> param_class edd n g = None ->
    exists d t v, g_doc g = Has d /\ doc_fine d /\ no_announce d = true /\ no_rest_token d = true
                  /\ g_typ g = Has t /\ type_in_domain t = true /\ str_eqb t (L "dict") = false
                  /\ g_default g = Some (DV v) /\ (v = VNone \/ v = VStr NoneStr).
Proof.
  intros edd n g Hk Hdom Hc. unfold entry_in_domain in Hdom.
  apply andb_true_iff in Hdom. destruct Hdom as [Hdom Hdd].
  apply andb_true_iff in Hdom. destruct Hdom as [Hdoc Htyp].
  unfold param_class in Hc. rewrite Hk in Hc.
  destruct (fld_str (g_doc g)) as [d|] eqn:Ed.
  - assert (Edoc : g_doc g = Has d).
    { destruct (g_doc g) as [| |[|c r]]; try discriminate. cbn [fld_str] in Ed. injection Ed as Ed. subst d. reflexivity. }
    assert (Hne : d <> []). { destruct (g_doc g) as [| |[|c r]]; try discriminate. cbn [fld_str] in Ed. injection Ed as Ed. subst d. discriminate. }
    rewrite Edoc in Hdoc.
    destruct (clean_line d) eqn:Ecl; cbn [negb] in Hc; [|discriminate].
    destruct (starts_optional d) eqn:Eop; [discriminate|].
    destruct (no_announce d) eqn:Ena; cbn [negb] in Hc; [|discriminate].
    destruct (g_typ g) as [| |t] eqn:Et; [discriminate|discriminate|].
    destruct (type_in_domain_inv t Htyp) as [[_ [Htne _]] _].
    destruct t as [|c r]; [contradiction|]. cbn [fld_str] in Hc.
    destruct (g_default g) as [[v|e|rr]|]; try discriminate.
    destruct (pyval_eqb v VNone || pyval_eqb v (VStr NoneStr)) eqn:Ev; cbn [andb] in Hc; [|discriminate].
    destruct (str_eqb (c :: r) (L "dict")) eqn:Edict; cbn [negb] in Hc; [discriminate|].
    exists d, (c :: r), v. split; [exact Edoc|]. split; [apply clean_line_facts; assumption|].
    split; [exact Ena|]. split; [exact Hdoc|]. split; [reflexivity|]. split; [exact Htyp|].
    split; [exact Edict|]. split; [reflexivity|].
    apply orb_true_iff in Ev. destruct Ev as [Ev|Ev]; apply pyval_eqb_eq in Ev; [left|right]; exact Ev.
  - destruct (fld_str (g_typ g)); discriminate.
Qed.

(* every parameter of the guard is an entry *)
Theorem param_entry_all : forall ww edd n g,
    is_ident n = true -> str_eqb n (L "return_type") = false ->
    entry_in_domain g = true -> param_class edd n g = None ->
    exists e, e_name e = n /\ entry_ok ww edd e
              /\ (exists txt, rest_param_text n g = Ok txt /\ txt ++ nl2 = concat (map blk (e_blocks e)))
              /\ same_entry edd n g (gparam_of_param (e_fin e)) = true.
Proof.
  intros ww edd n g Hid Hrt Hdom Hc.
  destruct (endswith (L "kwargs") n) eqn:Hk; [|apply param_entry; assumption].
  destruct (param_class_inv_kwargs edd n g Hk Hdom Hc) as
      [d [t [v [Ed [Hdf [Hna [Hdtok [Et [Htd [Hnd [Edf Hv]]]]]]]]]]].
  destruct (type_in_domain_inv t Htd) as [Htf [Htnl [Httok _]]].
  assert (Hbasic : name_basic n /\ mem_c nl n = false).
  { unfold is_ident in Hid. destruct n as [|c r]; [discriminate|].
    apply andb_true_iff in Hid. destruct Hid as [Hs Hall]. split; [split|].
    - apply (id_chars_exclude colon); [reflexivity|exact Hall].
    - exists c, r. split; [reflexivity|]. intros E. subst c. discriminate.
    - apply (id_chars_exclude nl); [reflexivity|exact Hall]. }
  destruct Hbasic as [[Hcolon Hstar] Hnnl].
  assert (Hprose : prose_facts d) by (split; assumption).
  assert (Hdne : d <> []) by apply Hdf.
  assert (Hdnl : mem_c nl d = false) by apply Hdf.
  destruct g as [gd gt gdf]. cbn [g_doc g_typ g_default] in *. subst gd gt gdf.
  exists (mkE n [dblock n d nl1; tblock n t nl2]
              (mkParam (Has d) (Has t) (Some (VStr NoneStr))) (mkParam (Has d) (Has t) (Some (VStr NoneStr)))).
  split; [reflexivity|]. split; [|split].
  - split; [split; assumption|]. split; [apply entry_kwargs; assumption|]. split; [|discriminate].
    intros b [Hb|[Hb|[]]]; subst b; [apply dblock_good|apply tblock_good]; try assumption; reflexivity.
  - destruct (set_default_doc_kwargs_none n d (Has t) v Hk Hv) as [p' [Hw Hp']].
    apply (rest_param_text_of_lines n _ (Some d) (Some t)).
    + apply (rest_param_lines_eq n (Has d) (Has t) (Some (DV v)) (Some d) (Some t) Hrt eq_refl).
      * intros t' E. injection E as E. subst t'. apply Htf.
      * exists d, (mkParam (Has d) (Has t) (Some v)), p'.
        split; [reflexivity|]. split; [exact Hdne|]. split; [reflexivity|]. split; [exact Hw|exact Hp'].
    + exact Hnnl.
    + intros D E. injection E as E. subst D. exact Hdnl.
    + intros t' E. injection E as E. subst t'. exact Htnl.
    + left. discriminate.
  - cbn [e_fin]. apply same_entry_intro.
    + unfold same_typ. cbn [g_typ gparam_of_param p_typ]. apply opt_eqb_str_refl.
    + assert (Hsp : same_prose (mkG (Has d) (Has t) (Some (DV v)))
                               (gparam_of_param (mkParam (Has d) (Has t) (Some (VStr NoneStr)))) = true).
      { unfold same_prose. cbn [g_doc gparam_of_param p_doc]. apply opt_eqb_str_refl. }
      destruct edd; [apply same_prose_dflt_of_same|]; exact Hsp.
    + cbn [g_default gparam_of_param p_default option_map same_default_ir dval_eqb none_like_d].
      destruct Hv as [Hv|Hv]; subst v; reflexivity.
Qed.

(* ------------------------------------------------------------------ *)
(* all parameters: induction carrying the running pair                 *)
(* ------------------------------------------------------------------ *)

Lemma fold_outcome_app : forall {A B} (f : A -> B -> outcome A) l1 l2 a,
    fold_outcome f (l1 ++ l2) a = (do a' <- fold_outcome f l1 a; fold_outcome f l2 a').
Proof.
  intros A B f l1. induction l1 as [|x l1 IH]; intros l2 a; [reflexivity|].
  cbn [app fold_outcome]. destruct (f a x) as [a'|e]; [|reflexivity]. cbn [bind]. apply IH.
Qed.

Fixpoint run_spec (es : list entry) (done : list (str * param)) (cur : option str * param)
  : list (str * param) * (option str * param) :=
  match es with
  | [] => (done, cur)
  | e :: r => run_spec r (flushed done cur) (Some (e_name e), e_mid e)
  end.

Definition entry_lines (e : entry) : list (bool * str) := map as_line (e_blocks e).
Definition all_lines (es : list entry) : list (bool * str) := concat (map entry_lines es).

Fixpoint names_ok (cur : option str * param) (es : list entry) : Prop :=
  match es with
  | [] => True
  | e :: r => cur_ok cur (e_name e) /\ names_ok (Some (e_name e), e_mid e) r
  end.

Lemma run_entries : forall ww edd es sdoc done rets cur,
    (forall e, In e es -> entry_ok ww edd e) -> names_ok cur es ->
    fold_outcome (step ww edd) (all_lines es) (mkRS sdoc done rets cur)
    = Ok (mkRS sdoc (fst (run_spec es done cur)) rets (snd (run_spec es done cur))).
Proof.
  intros ww edd es. induction es as [|e es IH]; intros sdoc done rets cur Hok Hnames.
  - destruct cur. reflexivity.
  - unfold all_lines. cbn [map concat]. rewrite fold_outcome_app.
    destruct (Hok e (or_introl eq_refl)) as [_ [[Hrun _] _]].
    destruct Hnames as [Hcur Hnames].
    unfold entry_lines at 1. rewrite (Hrun sdoc done rets cur Hcur). cbn [bind run_spec].
    apply IH; [|exact Hnames]. intros e' He'. apply Hok. right. exact He'.
Qed.

Lemma od_set_fresh : forall {A} k (v : A) d, ~ In k (map fst d) -> od_set k v d = d ++ [(k, v)].
Proof.
  intros A k v d. induction d as [|[k' v'] d IH]; intros H; [reflexivity|].
  cbn [od_set map fst In] in *.
  assert (E : str_eqb k k' = false).
  { apply str_eqb_neq. intros E. apply H. left. symmetry. exact E. }
  rewrite E. cbn [app]. f_equal. apply IH. intros Hin. apply H. right. exact Hin.
Qed.

Lemma names_ok_of_nodup : forall ww edd es m pm,
    (forall e, In e es -> entry_ok ww edd e) ->
    (exists c r, m = c :: r /\ c <> ch 42) ->
    NoDup (m :: map e_name es) -> names_ok (Some m, pm) es.
Proof.
  intros ww edd es. induction es as [|e es IH]; intros m pm Hok Hm Hnd; [exact I|].
  cbn [names_ok]. split.
  - unfold cur_ok. cbn [fst]. split; [|exact Hm].
    intros E. inversion Hnd as [|x l Hnotin Hnd']. apply Hnotin. left. symmetry. exact E.
  - apply IH.
    + intros e' He'. apply Hok. right. exact He'.
    + destruct (Hok e (or_introl eq_refl)) as [[_ Hb] _]. exact Hb.
    + inversion Hnd as [|x l Hnotin Hnd']. exact Hnd'.
Qed.

(* after the last entry the final flush stores the running pair: all entries, in order *)
Lemma final_params : forall es done m pm,
    NoDup (map fst done ++ m :: map e_name es) ->
    exists nl pl, snd (run_spec es done (Some m, pm)) = (Some nl, pl)
      /\ od_set nl pl (fst (run_spec es done (Some m, pm)))
         = done ++ (m, pm) :: map (fun e => (e_name e, e_mid e)) es
      /\ ((es = [] /\ nl = m /\ pl = pm)
          \/ exists e, In e es /\ nl = e_name e /\ pl = e_mid e).
Proof.
  induction es as [|e es IH]; intros done m pm Hnd.
  - exists m, pm. cbn [run_spec fst snd map]. split; [reflexivity|]. split.
    + apply od_set_fresh. intros Hin. apply NoDup_remove_2 in Hnd. apply Hnd.
      apply in_or_app. left. exact Hin.
    + left. repeat split.
  - cbn [run_spec]. unfold flushed. cbn [fst snd].
    assert (Ef : od_set m pm done = done ++ [(m, pm)]).
    { apply od_set_fresh. intros Hin. apply NoDup_remove_2 in Hnd. apply Hnd. apply in_or_app. left. exact Hin. }
    rewrite Ef.
    destruct (IH (done ++ [(m, pm)]) (e_name e) (e_mid e)) as [nl [pl [H1 [H2 H3]]]].
    { rewrite map_app. cbn [map fst]. rewrite <- app_assoc. exact Hnd. }
    exists nl, pl. split; [exact H1|]. split.
    + rewrite H2. rewrite <- app_assoc. reflexivity.
    + right. destruct H3 as [[E1 [E2 E3]]|[e' [He' [E2 E3]]]].
      * exists e. split; [left; reflexivity|]. split; assumption.
      * exists e'. split; [right; exact He'|]. split; assumption.
Qed.

Lemma nodup_str_NoDup : forall l, nodup_str l = true -> NoDup l.
Proof.
  induction l as [|x l IH]; intros H; [constructor|].
  cbn [nodup_str] in H. apply andb_true_iff in H. destruct H as [Hx Hl]. constructor; [|apply IH; exact Hl].
  intros Hin. apply negb_true_iff in Hx.
  assert (E : existsb (str_eqb x) l = true).
  { apply existsb_exists. exists x. split; [exact Hin|apply str_eqb_refl]. }
  congruence.
Qed.

(* ---- the parameters of an IR as entries ---- *)

Inductive entries_of (ww edd : bool) : list (str * gparam) -> list entry -> Prop :=
| eo_nil : entries_of ww edd [] []
| eo_cons : forall n g ps e es,
    e_name e = n -> entry_ok ww edd e ->
    (exists txt, rest_param_text n g = Ok txt /\ txt ++ nl2 = concat (map blk (e_blocks e))) ->
    same_entry edd n g (gparam_of_param (e_fin e)) = true ->
    entries_of ww edd ps es -> entries_of ww edd ((n, g) :: ps) (e :: es).

Definition param_in_domain (kv : str * gparam) : bool :=
  is_ident (fst kv) && negb (str_eqb (fst kv) (L "return_type")) && entry_in_domain (snd kv).

Lemma entries_exist : forall ww edd ps,
    forallb param_in_domain ps = true ->
    first_class (fun kv => param_class edd (fst kv) (snd kv)) ps = None ->
    exists es, entries_of ww edd ps es.
Proof.
  intros ww edd ps. induction ps as [|[n g] ps IH]; intros Hdom Hc.
  - exists []. constructor.
  - cbn [forallb] in Hdom. apply andb_true_iff in Hdom. destruct Hdom as [Hd Hdom].
    unfold param_in_domain in Hd. cbn [fst snd] in Hd.
    apply andb_true_iff in Hd. destruct Hd as [Hd Hed]. apply andb_true_iff in Hd. destruct Hd as [Hid Hrt].
    apply negb_true_iff in Hrt.
    cbn [first_class fst snd] in Hc.
    destruct (param_class edd n g) as [k|] eqn:Ek; [discriminate|].
    destruct (IH Hdom Hc) as [es Hes].
    destruct (param_entry_all ww edd n g Hid Hrt Hed Ek) as [e [En [Hok [Htxt Hsame]]]].
    exists (e :: es). constructor; assumption.
Qed.

Lemma entries_names : forall ww edd ps es, entries_of ww edd ps es -> map e_name es = map fst ps.
Proof. intros ww edd ps es H. induction H; [reflexivity|]. cbn [map fst]. rewrite IHentries_of. f_equal. assumption. Qed.

Lemma entries_ok : forall ww edd ps es, entries_of ww edd ps es -> forall e, In e es -> entry_ok ww edd e.
Proof.
  intros ww edd ps es H. induction H; intros e' He'; [destruct He'|].
  destruct He' as [E|He']; [subst e'; assumption|apply IHentries_of; exact He'].
Qed.

Definition all_blocks (es : list entry) : list (str * str) := concat (map e_blocks es).

Lemma all_lines_blocks : forall es, all_lines es = map as_line (all_blocks es).
Proof.
  induction es as [|e es IH]; [reflexivity|].
  unfold all_lines, all_blocks in *. cbn [map concat]. rewrite map_app, IH. reflexivity.
Qed.

Lemma entries_text : forall ww edd ps es, entries_of ww edd ps es ->
    exists txts, map_outcome (fun kv => rest_param_text (fst kv) (snd kv)) ps = Ok txts
                 /\ concat (map (fun t => t ++ nl2) txts) = concat (map blk (all_blocks es))
                 /\ List.length txts = List.length ps.
Proof.
  intros ww edd ps es H. induction H as [|n g ps e es En Hok [txt [Ht Htxt]] Hsame Hes [txts [IH1 [IH2 IH3]]]].
  - exists []. repeat split.
  - exists (txt :: txts). cbn [map_outcome fst snd]. rewrite Ht. cbn [bind]. rewrite IH1. cbn [bind].
    split; [reflexivity|]. split.
    + unfold all_blocks. cbn [map concat]. rewrite map_app, concat_app, Htxt.
      unfold all_blocks in IH2. rewrite IH2. reflexivity.
    + cbn [List.length]. rewrite IH3. reflexivity.
Qed.

Lemma entries_same : forall ww edd ps es, entries_of ww edd ps es ->
    same_params edd ps (map (fun e => (e_name e, gparam_of_param (e_fin e))) es) = true.
Proof.
  intros ww edd ps es H. induction H; [reflexivity|].
  cbn [map same_params]. rewrite H, str_eqb_refl, H2, IHentries_of. reflexivity.
Qed.

Lemma entries_blocks_good : forall ww edd ps es, entries_of ww edd ps es ->
    forall b, In b (all_blocks es) -> block_good b.
Proof.
  intros ww edd ps es H b Hb. unfold all_blocks in Hb. apply in_concat in Hb.
  destruct Hb as [bl [Hbl Hb]]. apply in_map_iff in Hbl. destruct Hbl as [e [Ee He]]. subst bl.
  destruct (entries_ok ww edd ps es H e He) as [_ [_ [Hg _]]]. apply Hg. exact Hb.
Qed.

(* ------------------------------------------------------------------ *)
(* the return entry                                                    *)
(* ------------------------------------------------------------------ *)

Definition rblock (d ws : str) : str * str := (L ":return", L "s" ++ colon :: sp :: d ++ ws).
Definition rtblock (t ws : str) : str * str := (L ":rtype", colon :: sp :: (L "```" ++ t ++ L "```") ++ ws).

Lemma rblock_line : forall d ws, as_line (rblock d ws) = (true, ret_line (L "returns") d ws).
Proof. reflexivity. Qed.

Lemma rtblock_line : forall t ws, as_line (rtblock t ws) = (true, ret_line (L "rtype") (L "```" ++ t ++ L "```") ws).
Proof. reflexivity. Qed.

Lemma rblock_good : forall d ws, no_rest_token d = true -> forallb isspace ws = true -> block_good (rblock d ws).
Proof.
  intros d ws Hd Hws. split.
  - right. right. right. right. right. left. reflexivity.
  - cbn [snd rblock]. apply no_rest_token_app_r; [reflexivity| |].
    + change (colon :: sp :: d ++ ws) with ([colon] ++ sp :: (d ++ ws)).
      apply no_rest_token_sp; [reflexivity|]. apply no_rest_token_ws; assumption.
    + intros c Hc. injection Hc as Hc. subst c. reflexivity.
Qed.

Lemma rtblock_good : forall t ws, no_rest_token t = true -> forallb isspace ws = true -> block_good (rtblock t ws).
Proof.
  intros t ws Ht Hws. split.
  - right. right. right. right. right. right. left. reflexivity.
  - cbn [snd rtblock]. change (colon :: sp :: (L "```" ++ t ++ L "```") ++ ws)
      with ([colon] ++ sp :: ((L "```" ++ t ++ L "```") ++ ws)).
    apply no_rest_token_sp; [reflexivity|]. apply no_rest_token_ws; [|exact Hws].
    apply bt_wrapped_token_free. exact Ht.
Qed.

Lemma ret_doc_line_text : forall d ws, (L ":" ++ L "returns" ++ L ": " ++ d) ++ ws = blk (rblock d ws).
Proof. intros d ws. unfold blk, rblock. cbn [fst snd]. rewrite <- !app_assoc. reflexivity. Qed.

Lemma ret_typ_line_text : forall t ws, (L ":" ++ L "rtype" ++ L ": ```" ++ t ++ L "```") ++ ws = blk (rtblock t ws).
Proof. intros t ws. unfold blk, rtblock. cbn [fst snd]. rewrite <- !app_assoc. reflexivity. Qed.

Definition ret_spec (edd : bool) (g : gparam) (rblocks : list (str * str)) (rp : param) : Prop :=
  (forall ww st, rs_returns st = None ->
      fold_outcome (step ww edd) (map as_line rblocks) st
      = Ok (mkRS (rs_doc st) (rs_params st) (Some rp) (rs_cur st)))
  /\ interpolate_defaults rp default_announces false edd = Ok rp
  /\ (exists txt, rest_param_text (L "return_type") g = Ok txt /\ txt ++ nl1 = concat (map blk rblocks))
  /\ (forall b, In b rblocks -> block_good b)
  /\ same_entry edd (L "return_type") g (gparam_of_param rp) = true.

Lemma return_entry : forall edd g,
    entry_in_domain g = true -> return_class g = None ->
    exists rblocks rp, ret_spec edd g rblocks rp.
Proof.
  intros edd g Hdom Hc. unfold entry_in_domain in Hdom.
  apply andb_true_iff in Hdom. destruct Hdom as [Hdom Hdd].
  apply andb_true_iff in Hdom. destruct Hdom as [Hdoc Htyp].
  destruct g as [gd gt gdf]. cbn [g_doc g_typ g_default] in *.
  unfold return_class in Hc. cbn [g_doc g_typ g_default] in Hc.
  (* the type *)
  assert (Ht : exists typ, gt = fld_of_opt typ /\ fld_str gt = typ
                           /\ forall t, typ = Some t -> type_in_domain t = true).
  { destruct gt as [| |t]; [exists None; repeat split; intros t E; discriminate|discriminate|].
    exists (Some t). destruct (type_in_domain_inv t Htyp) as [[_ [Hne _]] _].
    destruct t as [|c r]; [contradiction|]. repeat split. intros t' E. injection E as E. subst t'. exact Htyp. }
  destruct Ht as [typ [Etyp [Efs Htd]]]. rewrite Efs in Hc. subst gt.
  assert (Hdf : gdf = None).
  { destruct (fld_str gd); destruct typ; destruct gdf; try discriminate; reflexivity. }
  subst gdf.
  (* the prose *)
  assert (Hd : exists odoc, fld_str gd = odoc
                 /\ (forall d, odoc = Some d -> gd = Has d /\ d <> [] /\ edge_ok d /\ mem_c nl d = false
                                                /\ no_announce d = true /\ no_rest_token d = true)
                 /\ (odoc = None -> truthy_fld gd = false)).
  { exists (fld_str gd). split; [reflexivity|]. split.
    - intros d E. rewrite E in Hc.
      assert (Egd : gd = Has d /\ d <> []).
      { destruct gd as [| |[|c r]]; try discriminate. cbn [fld_str] in E. injection E as E. subst d.
        split; [reflexivity|discriminate]. }
      destruct Egd as [Egd Hne]. subst gd.
      destruct (clean_line d) eqn:Ecl; cbn [negb] in Hc; [|destruct typ; discriminate].
      destruct (no_announce d) eqn:Ena; cbn [negb] in Hc; [|destruct typ; discriminate].
      unfold clean_line in Ecl. apply andb_true_iff in Ecl. destruct Ecl as [Es En].
      apply str_eqb_eq in Es. apply negb_true_iff in En.
      split; [reflexivity|]. split; [exact Hne|]. split; [apply strip_fix_edge_ok; assumption|].
      split; [exact En|]. split; [reflexivity|exact Hdoc].
    - intros E. destruct gd as [| |[|c r]]; try reflexivity. discriminate. }
  destruct Hd as [odoc [Eod [Hdfacts Hnod]]]. rewrite Eod in Hc.
  assert (Hsome : odoc <> None \/ typ <> None).
  { destruct odoc; [left; discriminate|]. destruct typ; [right; discriminate|discriminate]. }
  (* the emitted lines *)
  assert (Hlines : rest_param_lines (L "return_type") (mkG gd (fld_of_opt typ) None)
            = Ok ((match odoc with Some d => [L ":" ++ L "returns" ++ L ": " ++ d] | None => [] end)
                  ++ (match typ with Some t => [L ":" ++ L "rtype" ++ L ": ```" ++ t ++ L "```"] | None => [] end))).
  { unfold rest_param_lines. cbv zeta. change (str_eqb (L "return_type") (L "return_type")) with true.
    cbn [g_doc g_typ].
    assert (Etl : (match fld_of_opt typ with
                   | Has (c :: t) => [L ":" ++ L "rtype" ++ L ": ```" ++ (c :: t) ++ L "```"]
                   | _ => [] end)
                  = match typ with Some t => [L ":" ++ L "rtype" ++ L ": ```" ++ t ++ L "```"] | None => [] end).
    { destruct typ as [t|]; [|reflexivity]. cbn [fld_of_opt].
      destruct (type_in_domain_inv t (Htd t eq_refl)) as [[_ [Hne _]] _].
      destruct t as [|c t]; [contradiction|reflexivity]. }
    destruct odoc as [d|].
    - destruct (Hdfacts d eq_refl) as [Egd [Hne _]]. subst gd.
      assert (Etr : truthy_fld (Has d) = true) by (destruct d; [contradiction|reflexivity]).
      rewrite Etr. cbn [param_of_gparam g_default g_doc g_typ].
      rewrite set_default_doc_no_default; [|reflexivity|discriminate]. cbn [bind p_doc].
      do 2 f_equal. exact Etl.
    - rewrite (Hnod eq_refl). cbn [bind]. do 2 f_equal. exact Etl. }
  (* the two optional blocks and the resulting dict *)
  exists ((match odoc with Some d => [rblock d nl1] | None => [] end)
          ++ (match typ with Some t => [rtblock t nl1] | None => [] end)),
         (mkParam (fld_of_opt odoc) (fld_of_opt typ) None).
  split; [|split; [|split; [|split]]].
  - intros ww st Hst. destruct st as [sdoc ps rets cur]. cbn [rs_returns rs_doc rs_params rs_cur] in *. subst rets.
    destruct odoc as [d|]; destruct typ as [t|]; cbn [app map fold_outcome fld_of_opt].
    + destruct (Hdfacts d eq_refl) as [_ [_ [He [_ [Hna _]]]]].
      destruct (type_in_domain_inv t (Htd t eq_refl)) as [[Hbt [_ [Hstar _]]] _].
      rewrite rblock_line. unfold step. rewrite step_returns_line; [|exact He|exact Hna|reflexivity]. cbn [bind].
      rewrite rtblock_line. rewrite step_rtype_line; [|exact Hbt|exact Hstar|reflexivity]. reflexivity.
    + destruct (Hdfacts d eq_refl) as [_ [_ [He [_ [Hna _]]]]].
      rewrite rblock_line. unfold step. rewrite step_returns_line; [|exact He|exact Hna|reflexivity]. reflexivity.
    + destruct (type_in_domain_inv t (Htd t eq_refl)) as [[Hbt [_ [Hstar _]]] _].
      rewrite rtblock_line. unfold step. rewrite step_rtype_line; [|exact Hbt|exact Hstar|reflexivity]. reflexivity.
    + exfalso. destruct Hsome as [H|H]; apply H; reflexivity.
  - destruct odoc as [d|]; cbn [fld_of_opt]; [|apply I_nodoc].
    apply I_noannounce. apply (Hdfacts d eq_refl).
  - unfold rest_param_text. rewrite Hlines. cbn [bind].
    destruct odoc as [d|]; destruct typ as [t|]; cbn [app map join concat].
    + destruct (Hdfacts d eq_refl) as [_ [_ [_ [Hnl _]]]].
      destruct (type_in_domain_inv t (Htd t eq_refl)) as [_ [Htnl _]].
      assert (H1 : mem_c nl (L ":" ++ L "returns" ++ L ": " ++ d) = false) by (rewrite !mem_c_app, Hnl; reflexivity).
      assert (H2 : mem_c nl (L ":" ++ L "rtype" ++ L ": ```" ++ t ++ L "```") = false) by (rewrite !mem_c_app, Htnl; reflexivity).
      rewrite (iabf_colon_line _ H1), (iabf_colon_line _ H2).
      eexists. split; [reflexivity|]. rewrite app_nil_r.
      rewrite <- ret_doc_line_text, <- ret_typ_line_text. unfold nl1.
      change (?a :: ?x) with ([a] ++ x) at 1. rewrite <- !app_assoc. reflexivity.
    + destruct (Hdfacts d eq_refl) as [_ [_ [_ [Hnl _]]]].
      assert (H1 : mem_c nl (L ":" ++ L "returns" ++ L ": " ++ d) = false) by (rewrite !mem_c_app, Hnl; reflexivity).
      rewrite (iabf_colon_line _ H1).
      eexists. split; [reflexivity|]. rewrite app_nil_r. rewrite <- ret_doc_line_text. reflexivity.
    + destruct (type_in_domain_inv t (Htd t eq_refl)) as [_ [Htnl _]].
      assert (H2 : mem_c nl (L ":" ++ L "rtype" ++ L ": ```" ++ t ++ L "```") = false) by (rewrite !mem_c_app, Htnl; reflexivity).
      rewrite (iabf_colon_line _ H2).
      eexists. split; [reflexivity|]. rewrite app_nil_r. rewrite <- ret_typ_line_text. reflexivity.
    + exfalso. destruct Hsome as [H|H]; apply H; reflexivity.
  - intros b Hb. apply in_app_or in Hb. destruct Hb as [Hb|Hb].
    + destruct odoc as [d|]; [|destruct Hb]. destruct Hb as [Hb|[]]. subst b.
      apply rblock_good; [apply (Hdfacts d eq_refl)|reflexivity].
    + destruct typ as [t|]; [|destruct Hb]. destruct Hb as [Hb|[]]. subst b.
      destruct (type_in_domain_inv t (Htd t eq_refl)) as [_ [_ [Httok _]]].
      apply rtblock_good; [exact Httok|reflexivity].
  - apply same_entry_intro.
    + unfold same_typ. cbn [g_typ gparam_of_param p_typ]. apply opt_eqb_str_refl.
    + assert (Hsp : same_prose (mkG gd (fld_of_opt typ) None)
                               (gparam_of_param (mkParam (fld_of_opt odoc) (fld_of_opt typ) None)) = true).
      { unfold same_prose. cbn [g_doc gparam_of_param p_doc]. rewrite Eod.
        destruct odoc as [d|]; cbn [fld_of_opt].
        - destruct (Hdfacts d eq_refl) as [_ [Hne _]]. destruct d; [contradiction|]. cbn [fld_str opt_eqb]. apply str_eqb_refl.
        - reflexivity. }
      destruct edd; [apply same_prose_dflt_of_same|]; exact Hsp.
    + reflexivity.
Qed.

(* ------------------------------------------------------------------ *)
(* C01, ReST: emit, recognise, parse, compare                          *)
(* ------------------------------------------------------------------ *)

Lemma join_sep_concat : forall sep (l : list str), l <> [] ->
    join sep l ++ sep = concat (map (fun x => x ++ sep) l).
Proof.
  intros sep l. induction l as [|x l IH]; intros Hne; [contradiction|].
  destruct l as [|y l].
  - cbn [join map concat]. rewrite app_nil_r. reflexivity.
  - change (join sep (x :: y :: l)) with (x ++ sep ++ join sep (y :: l)).
    rewrite <- !app_assoc. rewrite IH by discriminate. cbn [map concat]. rewrite <- !app_assoc. reflexivity.
Qed.

Lemma map_params_entries : forall edd es,
    (forall e, In e es -> interpolate_defaults (e_mid e) default_announces false edd = Ok (e_fin e)) ->
    map_params (fun p => interpolate_defaults p default_announces false edd)
               (map (fun e => (e_name e, e_mid e)) es)
    = Ok (map (fun e => (e_name e, e_fin e)) es).
Proof.
  intros edd es. induction es as [|e es IH]; intros H; [reflexivity|].
  unfold map_params in *. cbn [map map_outcome fst snd].
  rewrite (H e (or_introl eq_refl)). cbn [bind]. rewrite IH; [reflexivity|].
  intros e' He'. apply H. right. exact He'.
Qed.

Lemma docpart_facts : forall sdoc ws, no_rest_token sdoc = true -> strip sdoc = sdoc ->
    forallb isspace ws = true ->
    no_rest_token ([nl] ++ sdoc ++ ws) = true /\ strip ([nl] ++ sdoc ++ ws) = sdoc.
Proof.
  intros sdoc ws Htok Hs Hws. split.
  - apply no_rest_token_app_l; [reflexivity| |].
    + apply no_rest_token_ws; [exact Htok|exact Hws].
    + intros c Hc. injection Hc as Hc. subst c. split; [reflexivity|discriminate].
  - destruct sdoc as [|c r].
    + cbn [app]. change (nl :: ws) with ([nl] ++ ws).
      assert (Hall : forallb isspace ([nl] ++ ws) = true) by (cbn [app forallb]; rewrite Hws; reflexivity).
      unfold strip, strip_by. change (lstrip_by isspace) with lstrip.
      rewrite <- (app_nil_r ([nl] ++ ws)). rewrite (lstrip_pad _ [] Hall). reflexivity.
    + apply strip_pad; [reflexivity|exact Hws|]. apply strip_fix_edge_ok; [discriminate|exact Hs].
Qed.

Lemma rest_scan_tokens_eq : rest_scan_tokens = Extracted.rest_tokens.
Proof. reflexivity. Qed.

Lemma parse_dot_rest : forall ng (text : str) it prop edd,
    text <> [] -> detect_style (Some text) = Rest ->
    parse_dot_docstring ng text it prop edd = parse_rest text it true prop edd.
Proof.
  intros ng text it prop edd Hne Hs. unfold parse_dot_docstring, parse_docstring.
  destruct text as [|c r]; [contradiction|]. rewrite Hs. reflexivity.
Qed.

(* the optional return entry: its blocks, the dict it leaves, its text after the parameters *)
Lemma returns_part : forall edd irets,
    (match irets with Has g => entry_in_domain g | _ => true end) = true ->
    match fld_opt irets with Some g => return_class g | None => None end = None ->
    exists rblocks orp,
      (forall ww st, rs_returns st = None ->
          fold_outcome (step ww edd) (map as_line rblocks) st
          = Ok (mkRS (rs_doc st) (rs_params st) orp (rs_cur st)))
      /\ map_returns (fun p => interpolate_defaults p default_announces false edd) orp = Ok orp
      /\ (exists rtxt, (match irets with
                        | Has g => do t <- rest_param_text (L "return_type") g; Ok (nl :: t)
                        | _ => Ok [] end) = Ok rtxt
                       /\ [nl] ++ rtxt ++ [nl] = nl2 ++ concat (map blk rblocks))
      /\ (forall b, In b rblocks -> block_good b)
      /\ same_returns edd irets (match orp with None => FNone | Some r => Has (gparam_of_param r) end) = true
      /\ (fld_opt irets <> None -> rblocks <> []).
Proof.
  intros edd irets Hret_dom Hretc.
  destruct irets as [| |g]; cbn [fld_opt] in Hretc.
  - exists [], None. split; [intros ww st Hst; destruct st; cbn in *; subst; reflexivity|].
    split; [reflexivity|]. split; [exists []; split; reflexivity|]. split; [intros b []|].
    split; [reflexivity|]. intros H. exfalso. apply H. reflexivity.
  - exists [], None. split; [intros ww st Hst; destruct st; cbn in *; subst; reflexivity|].
    split; [reflexivity|]. split; [exists []; split; reflexivity|]. split; [intros b []|].
    split; [reflexivity|]. intros H. exfalso. apply H. reflexivity.
  - destruct (return_entry edd g Hret_dom Hretc) as [rblocks [rp [H1 [H2 [[rtxt [H3 H3']] [H4 H5]]]]]].
    exists rblocks, (Some rp). split; [exact H1|]. split; [cbn [map_returns]; rewrite H2; reflexivity|].
    split; [|split; [exact H4|split]].
    + exists (nl :: rtxt). rewrite H3. split; [reflexivity|]. rewrite <- H3'. unfold nl1, nl2.
      cbn [app]. reflexivity.
    + unfold same_returns. cbn [fld_opt opt_eqb]. exact H5.
    + intros _ E. subst rblocks. cbn [map concat] in H3'. destruct rtxt; discriminate.
Qed.

(* reading the guard *)
Lemma guard_C01_rest_inv : forall edd i, guard_C01_rest edd i = true ->
    exists sdoc,
      ir_doc i = Has sdoc /\ no_rest_token sdoc = true /\ strip sdoc = sdoc
      /\ forallb param_in_domain (ir_params i) = true
      /\ nodup_str (map fst (ir_params i)) = true
      /\ (match ir_returns i with Has g => entry_in_domain g | _ => true end) = true
      /\ first_class (fun kv => param_class edd (fst kv) (snd kv)) (ir_params i) = None
      /\ match fld_opt (ir_returns i) with Some g => return_class g | None => None end = None
      /\ (ir_params i = [] -> fld_opt (ir_returns i) <> None).
Proof.
  intros edd i Hg. unfold guard_C01_rest in Hg. apply andb_true_iff in Hg. destruct Hg as [Hdom Hcls].
  destruct (finding_class_C01_rest false edd i) as [k|] eqn:Hc; [discriminate|]. clear Hcls.
  unfold in_domain_C01 in Hdom.
  apply andb_true_iff in Hdom. destruct Hdom as [Hdom Hret_dom].
  apply andb_true_iff in Hdom. destruct Hdom as [Hdom Hnodup].
  apply andb_true_iff in Hdom. destruct Hdom as [Hsum Hparams].
  destruct (ir_doc i) as [| |sdoc] eqn:Edoc; try discriminate.
  exists sdoc. split; [reflexivity|]. split; [exact Hsum|].
  unfold finding_class_C01_rest in Hc. cbn [andb] in Hc. rewrite Edoc in Hc.
  assert (Hc' : str_eqb (strip sdoc) sdoc = true
                /\ first_class (fun kv => param_class edd (fst kv) (snd kv)) (ir_params i) = None
                /\ match fld_opt (ir_returns i) with Some g => return_class g | None => None end = None
                /\ (ir_params i = [] -> fld_opt (ir_returns i) <> None)).
  { destruct (ir_params i) as [|p0 ps0]; destruct (fld_opt (ir_returns i)) as [g|]; try discriminate.
    - destruct (str_eqb (strip sdoc) sdoc); cbn [negb] in Hc; [|discriminate].
      cbn [first_class] in Hc. repeat split; try exact Hc. intros _. discriminate.
    - destruct (str_eqb (strip sdoc) sdoc); cbn [negb] in Hc; [|discriminate].
      destruct (first_class (fun kv => param_class edd (fst kv) (snd kv)) (p0 :: ps0)); [discriminate|].
      repeat split; try exact Hc. intros E. discriminate.
    - destruct (str_eqb (strip sdoc) sdoc); cbn [negb] in Hc; [|discriminate].
      destruct (first_class (fun kv => param_class edd (fst kv) (snd kv)) (p0 :: ps0)); [discriminate|].
      repeat split. intros E. discriminate. }
  destruct Hc' as [Hstrip [Hfirst [Hretc Hne]]]. apply str_eqb_eq in Hstrip.
  repeat (split; [assumption|]). assumption.
Qed.

Theorem C01_rest_partial_lemma : forall edd i, guard_C01_rest edd i = true -> C01_rest_at edd i.
Proof.
  intros edd i Hg.
  destruct (guard_C01_rest_inv edd i Hg) as
      [sdoc [Edoc [Hsum [Hstrip [Hparams [Hnodup [Hret_dom [Hfirst [Hretc Hsome]]]]]]]]].
  destruct i as [iname itype idoc ps irets iint]. cbn [ir_doc ir_params ir_returns] in *. subst idoc.
  (* the parameters as entries *)
  destruct (entries_exist true edd ps Hparams Hfirst) as [es Hes].
  pose proof (entries_names _ _ _ _ Hes) as Hnames.
  pose proof (entries_ok _ _ _ _ Hes) as Hoks.
  destruct (entries_text _ _ _ _ Hes) as [txts [Htxts [Htext Hlen]]].
  (* the return entry *)
  destruct (returns_part edd irets Hret_dom Hretc)
    as [rblocks [orp [Hrrun [Hrpost [[rtxt [Hrtxt Hrtext]] [Hrgood [Hrsame Hrne]]]]]]].
  (* the text: after the summary come two line breaks, and two more when there is no parameter *)
  set (sep := match ps with [] => nl2 ++ nl2 | _ => nl2 end).
  set (docpart := [nl] ++ sdoc ++ sep).
  set (blocks := all_blocks es ++ rblocks).
  assert (Htext_eq : rest_text_of (mkIR iname itype (Has sdoc) ps irets iint)
                     = Ok (docpart ++ concat (map blk blocks))).
  { unfold rest_text_of. cbn [ir_doc ir_params ir_returns bind]. rewrite Htxts. cbn [bind].
    rewrite Hrtxt. cbn [bind]. f_equal. unfold docpart, blocks, sep.
    rewrite map_app, concat_app, <- Htext.
    destruct ps as [|p0 ps0].
    - destruct txts; [|discriminate]. cbn [join map concat]. unfold nl2 in *.
      cbn [app] in *. rewrite <- !app_assoc. cbn [app]. f_equal. f_equal. f_equal. f_equal.
      cbn [app] in Hrtext. exact Hrtext.
    - assert (Htxts_ne : txts <> []) by (intros E; subst txts; discriminate).
      rewrite <- (join_sep_concat nl2 txts Htxts_ne).
      unfold nl2 in *. rewrite <- !app_assoc. f_equal. f_equal. f_equal. f_equal. exact Hrtext. }
  assert (Hsepws : forallb isspace sep = true) by (unfold sep; destruct ps; reflexivity).
  destruct (docpart_facts sdoc sep Hsum Hstrip Hsepws) as [Hdoctok Hdocstrip]. fold docpart in Hdoctok, Hdocstrip.
  assert (Hblocks_good : forall b, In b blocks -> block_good b).
  { intros b Hb. unfold blocks in Hb. apply in_app_or in Hb. destruct Hb as [Hb|Hb].
    - apply (entries_blocks_good _ _ _ _ Hes b Hb).
    - apply Hrgood. exact Hb. }
  assert (Hblocks_ne : exists b0, In b0 blocks).
  { destruct es as [|e1 es1].
    - assert (Eps : ps = []) by (inversion Hes; reflexivity).
      destruct rblocks as [|b0 rb]; [exfalso; apply (Hrne (Hsome Eps)); reflexivity|].
      exists b0. unfold blocks. cbn [all_blocks map concat app]. left. reflexivity.
    - destruct (Hoks e1) as [_ [_ [_ Hne]]]; [left; reflexivity|].
      destruct (e_blocks e1) as [|b0 bl] eqn:Eb; [contradiction|].
      exists b0. unfold blocks, all_blocks. cbn [map concat]. rewrite Eb. left. reflexivity. }
  (* the scanner *)
  assert (Hscan : scan_rest (docpart ++ concat (map blk blocks)) = (false, docpart) :: map as_line blocks).
  { apply scan_rest_blocks; [exact Hdoctok|exact Hblocks_good|].
    left. destruct Hblocks_ne as [b0 Hb0]. intros E. rewrite E in Hb0. destruct Hb0. }
  (* the parse phase *)
  assert (Hnd : NoDup (map e_name es)).
  { rewrite Hnames. apply nodup_str_NoDup. exact Hnodup. }
  assert (Hphase : exists cur', parse_phase_rest ((false, docpart) :: map as_line blocks) false true true edd
                   = Ok (mkRS sdoc (map (fun e => (e_name e, e_mid e)) es) orp cur')).
  { unfold parse_phase_rest. cbn [fold_outcome]. unfold parse_rest_line at 1. cbn [init_rstate rs_doc].
    rewrite Hdocstrip. unfold init_rstate. cbn [bind rs_params rs_returns rs_cur rs_doc].
    unfold blocks. rewrite map_app, fold_outcome_app, <- all_lines_blocks.
    fold (step true edd).
    destruct es as [|e1 es1].
    - (* no parameter: the running pair never gets a name, nothing is flushed *)
      cbn [all_lines map concat fold_outcome bind].
      rewrite Hrrun by reflexivity. cbn [bind rs_doc rs_params rs_returns rs_cur fst].
      eexists. reflexivity.
    - rewrite (run_entries true edd (e1 :: es1) sdoc [] None (None, empty_param) Hoks).
      2:{ cbn [names_ok]. split; [reflexivity|].
          apply (names_ok_of_nodup true edd).
          - intros e He. apply Hoks. right. exact He.
          - destruct (Hoks e1) as [[_ Hb] _]; [left; reflexivity|exact Hb].
          - exact Hnd. }
      cbn [bind]. rewrite Hrrun by reflexivity. cbn [bind rs_doc rs_params rs_returns rs_cur].
      (* the final flush *)
      cbn [run_spec]. change (flushed [] (None, empty_param)) with (@nil (str * param)).
      destruct (final_params es1 [] (e_name e1) (e_mid e1)) as [nl' [pl [H1 [H2 H3]]]].
      { cbn [map app]. exact Hnd. }
      rewrite H1. cbn [fst snd].
      assert (Hlast : exists e, In e (e1 :: es1) /\ nl' = e_name e /\ pl = e_mid e).
      { destruct H3 as [[E1 [E2 E3]]|[e [He [E2 E3]]]].
        - exists e1. split; [left; reflexivity|]. split; assumption.
        - exists e. split; [right; exact He|]. split; assumption. }
      destruct Hlast as [el [Hel [Enl Epl]]]. subst nl' pl.
      destruct (Hoks el Hel) as [_ [[_ [[mi [HI HS]] _]] _]].
      rewrite HI. cbn [bind]. rewrite HS. cbn [bind fst snd]. unfold maybe_remove. rewrite andb_false_r. cbn [bind].
      rewrite H2. eexists. reflexivity. }
  destruct Hphase as [cur' Hphase].
  (* the whole parse *)
  assert (Hparse : parse_rest (docpart ++ concat (map blk blocks)) false true true edd
                   = Ok (ir_of_parts sdoc (map (fun e => (e_name e, e_fin e)) es) orp)).
  { unfold parse_rest. rewrite Hscan, Hphase. cbn [bind rs_params rs_returns rs_doc].
    rewrite (map_params_entries edd es).
    2:{ intros e He. destruct (Hoks e He) as [_ [[_ [_ H]] _]]. exact H. }
    cbn [bind]. rewrite Hrpost. cbn [bind post_remove fst snd]. reflexivity. }
  exists (docpart ++ concat (map blk blocks)), (ir_of_parts sdoc (map (fun e => (e_name e, e_fin e)) es) orp).
  split; [exact Htext_eq|].
  assert (Hstyle : detect_style (Some (docpart ++ concat (map blk blocks))) = Rest).
  { destruct Hblocks_ne as [b0 Hb0].
    apply (detect_style_rest _ (fst b0)).
    - rewrite <- rest_scan_tokens_eq. apply (Hblocks_good b0 Hb0).
    - apply contains_block_token. exact Hb0. }
  split; [exact Hstyle|]. split.
  - rewrite parse_dot_rest; [exact Hparse|unfold docpart; discriminate|exact Hstyle].
  - unfold same_interface, same_summary, ir_of_parts. cbn [ir_doc ir_params ir_returns fld_opt opt_eqb].
    rewrite str_eqb_refl. cbn [andb]. rewrite map_map. cbn [fst snd].
    rewrite (entries_same _ _ _ _ Hes). cbn [andb]. exact Hrsame.
Qed.

(* ------------------------------------------------------------------ *)
(* the executable form, refutation of the full statement, witnesses    *)
(* ------------------------------------------------------------------ *)

Lemma C01_rest_at_b_complete : forall edd i, C01_rest_at edd i -> C01_rest_at_b edd i = true.
Proof.
  intros edd i [text [i' [H1 [H2 [H3 H4]]]]]. unfold C01_rest_at_b. rewrite H1, H2, H3, H4. reflexivity.
Qed.

Lemma C01_rest_at_b_sound : forall edd i, C01_rest_at_b edd i = true -> C01_rest_at edd i.
Proof.
  intros edd i H. unfold C01_rest_at_b in H.
  destruct (rest_text_of i) as [text|e] eqn:E1; [|discriminate].
  apply andb_true_iff in H. destruct H as [H2 H3].
  destruct (detect_style (Some text)) eqn:E2; try discriminate.
  destruct (parse_dot_docstring ng_unmodelled text false true edd) as [i'|e] eqn:E3; [|discriminate].
  exists text, i'. repeat split; assumption.
Qed.

(* the property over the whole domain, ReST style *)
Definition C01_rest_statement : Prop :=
  forall edd i, in_domain_C01 i = true -> C01_rest_at edd i.

Definition mk_ir (doc : str) (ps : list (str * gparam)) (r : fld gparam) : ir :=
  mkIR FNone (Has (L "static")) (Has doc) ps r None.

Definition gp (doc typ : option str) (dflt : option pyval) : gparam :=
  mkG (fld_of_opt doc) (fld_of_opt typ) (option_map DV dflt).

(* a docstring that documents only a return value: since the parser only flushes a named pending
   parameter it round-trips, and is inside the guard *)
Definition w_return_only : ir :=
  mk_ir (L "Summary.") [] (Has (gp (Some (L "the result.")) (Some (L "int")) None)).

Lemma w_return_only_round_trips :
  guard_C01_rest true w_return_only = true /\ guard_C01_rest false w_return_only = true
  /\ C01_rest_at_b true w_return_only = true /\ C01_rest_at_b false w_return_only = true.
Proof. repeat split; vm_compute; reflexivity. Qed.

(* a parameter with a type and a default but no prose: the default is only ever written into prose *)
Definition w_type_only_default : ir :=
  mk_ir (L "Summary.") [(L "lr", gp None (Some (L "float")) (Some (VFloat (L "0.5"))))] FNone.

Theorem C01_rest_refuted_lemma : ~ C01_rest_statement.
Proof.
  intros H.
  assert (Hd : in_domain_C01 w_type_only_default = true) by (vm_compute; reflexivity).
  specialize (H true w_type_only_default Hd).
  apply C01_rest_at_b_complete in H. vm_compute in H. discriminate.
Qed.

(* one witness per finding class: in the domain, in the class, and the property fails in the model *)
Definition witness_ok (edd : bool) (k : c01_class) (i : ir) : bool :=
  in_domain_C01 i
  && (match finding_class_C01_rest false edd i with
      | Some k' => str_eqb (c01_class_name k') (c01_class_name k)
      | None => false end)
  && negb (C01_rest_at_b edd i).

Definition one (n : str) (g : gparam) : ir := mk_ir (L "Summary.") [(n, g)] FNone.

Definition class_witnesses : list (bool * c01_class * ir) :=
  [ (true, K01_no_entries, mk_ir (L "Summary.") [] FNone);
    (true, K01_entry_vanishes,
     mk_ir (L "Summary.") [(L "a", gp (Some (L "first.")) (Some (L "int")) None); (L "b", gp None None None)] FNone);
    (true, K01_type_only_default_lost, w_type_only_default);
    (true, K01_prose_only_type_invented, one (L "n") (gp (Some (L "count.")) None (Some (VInt 5))));
    (true, K01_summary_shape, mk_ir (L " Summary.") [(L "a", gp (Some (L "first.")) (Some (L "int")) None)] FNone);
    (true, K01_prose_shape, one (L "a") (gp (Some (L "first line." ++ [nl] ++ L "second line.")) (Some (L "int")) None));
    (true, K01_prose_optional, one (L "a") (gp (Some (L "Optional count.")) (Some (L "int")) None));
    (true, K01_prose_announces, one (L "a") (gp (Some (L "count; default: 5 items.")) (Some (L "int")) None));
    (false, K01_default K_prose_no_terminal, one (L "a") (gp (Some (L "count")) (Some (L "int")) (Some (VInt 5))));
    (true, K01_default K_prose_mentions_defaults, one (L "a") (gp (Some (L "the defaults.")) (Some (L "int")) (Some (VInt 5))));
    (true, K01_default K_scan_cut, one (L "a") (gp (Some (L "name.")) (Some (L "str")) (Some (VStr (L "a.b")))));
    (true, K01_default K_strip_changes,
     one (L "a") (gp (Some (L "items.")) (Some (L "List[int]")) (Some (VStr (L "```[1, 2]```")))));
    (true, K01_default K_typed_literal, one (L "a") (gp (Some (L "rate.")) (Some (L "float")) (Some (VFloat (L "inf")))));
    (true, K01_default K_str_reads_as_other, one (L "a") (gp (Some (L "x.")) None (Some (VStr (L "5")))));
    (true, K01_default_text, one (L "a") (gp (Some (L "x.")) (Some (L "Optional[str]")) (Some (VStr []))));
    (true, K01_default_settle, one (L "a") (gp (Some (L "x.")) (Some (L "str")) (Some (VStr (L "```x```")))));
    (true, K01_kwargs_shape, one (L "kwargs") (gp (Some (L "extra.")) (Some (L "dict")) None));
    (true, K01_return_default,
     mk_ir (L "Summary.") [(L "a", gp (Some (L "first.")) (Some (L "int")) None)]
           (Has (gp (Some (L "the result.")) (Some (L "int")) (Some (VStr (L "```5```"))))))
  ].

Lemma class_witnesses_ok :
  forallb (fun w => witness_ok (fst (fst w)) (snd (fst w)) (snd w)) class_witnesses = true.
Proof. vm_compute. reflexivity. Qed.

(* non-vacuity: two parameters with defaults and a return entry, inside the guard, both parse modes *)
Definition w_in_guard : ir :=
  mk_ir (L "Summary.")
        [(L "a", gp (Some (L "first.")) (Some (L "int")) (Some (VInt 5)));
         (L "b", gp (Some (L "name.")) (Some (L "str")) (Some (VStr (L "adam"))));
         (L "c", gp (Some (L "maybe.")) (Some (L "Optional[int]")) (Some VNone));
         (L "kwargs", gp (Some (L "extra.")) (Some (L "Optional[dict]")) (Some VNone))]
        (Has (gp (Some (L "ok.")) (Some (L "bool")) None)).

Lemma C01_rest_nonvacuous_lemma :
  guard_C01_rest true w_in_guard = true /\ guard_C01_rest false w_in_guard = true.
Proof. split; vm_compute; reflexivity. Qed.

(* ------------------------------------------------------------------ *)
(* (iii) the per-parameter lemma, stated on the two lines              *)
(* ------------------------------------------------------------------ *)

(* :param n: d Defaults to s  +  :type n: ```t```  with d, v, t in the guard of C17: the parsed entry has
   prose d (d with its sentence when the parse keeps it), type t, and a default equal to v *)
Lemma param_line_form : forall n val ws,
    L ":param " ++ n ++ L ": " ++ val ++ ws = key_line (L ":param") n val ws.
Proof. reflexivity. Qed.

Lemma type_line_form : forall n t ws,
    L ":type " ++ n ++ L ": ```" ++ t ++ L "```" ++ ws = key_line (L ":type") n (L "```" ++ t ++ L "```") ws.
Proof. intros n t ws. unfold key_line. rewrite <- !app_assoc. reflexivity. Qed.

Theorem param_pair_parse_lemma : forall ww edd n d t v s sdoc,
    is_ident n = true -> endswith (L "kwargs") n = false ->
    doc_fine d -> no_rest_token d = true -> type_in_domain t = true ->
    guard_C17 ADefaultsTo d v (Some t) = true -> shown_value v (Some t) = Ok s ->
    value_text_clean s = true -> default_journey edd (Some t) s v = None ->
    exists w vfin,
      fold_outcome (parse_rest_line false ww true edd)
                   [(true, L ":param " ++ n ++ L ": " ++ sentence d s ++ [nl]);
                    (true, L ":type " ++ n ++ L ": ```" ++ t ++ L "```" ++ [nl; nl])]
                   (mkRS sdoc [] None (None, empty_param))
      = Ok (mkRS sdoc [] None
                 (Some n, mkParam (Has (if edd then sentence d s else d)) (Has t) (Some w)))
      /\ interpolate_defaults (mkParam (Has (if edd then sentence d s else d)) (Has t) (Some w))
                              default_announces false edd
         = Ok (mkParam (Has (if edd then sentence d s else d)) (Has t) (Some vfin))
      /\ same_val v vfin = true.
Proof.
  intros ww edd n d t v s sdoc Hid Hk Hdf Hdtok Htd Hg Hs Hclean Hj.
  destruct (is_ident_good n Hid Hk) as [Hgood _].
  destruct (type_in_domain_inv t Htd) as [Htf _].
  assert (Hna : no_announce d = true).
  { unfold guard_C17, C17_domain in Hg. apply andb_true_iff in Hg. destruct Hg as [Hg _].
    apply andb_true_iff in Hg. apply Hg. }
  destruct (journey_inv edd (Some t) s v Hj) as [v1 [typ1 [w1 [Hv1 [Hr1 Hcase]]]]].
  assert (Hex : exists w2 vfin,
             (if edd
              then exists v2, coerce_default (Some t) s = Ok v2
                              /\ infer_res (Has t) (unquote_val v2) = Ok (Has t, w2) /\ vfin = unquote_val v2
              else infer_res (Has t) w1 = Ok (Has t, w2) /\ settled (Has t) w2 = true /\ vfin = w2)
             /\ same_val v vfin = true).
  { destruct edd.
    - destruct Hcase as [v2 [w2 [H1 [H2 H3]]]]. exists w2, (unquote_val v2). split; [|exact H3].
      exists v2. repeat split; assumption.
    - destruct Hcase as [w2 [H1 [H2 H3]]]. exists w2, w2. split; [|exact H3]. repeat split; assumption. }
  destruct Hex as [w2 [vfin [Hjj Hsv]]].
  destruct (entry_default_typ ww edd n d s v (Some t) Hgood (conj Hdf Hna) Hdtok Hg Hs Hclean
                              t v1 typ1 w1 w2 vfin eq_refl Htf Hv1 Hr1 Hjj) as [Hrun [_ Hfin]].
  exists w2, vfin. split; [|split; [exact Hfin|exact Hsv]].
  rewrite param_line_form, type_line_form.
  exact (Hrun sdoc [] None (None, empty_param) eq_refl).
Qed.

(* ------------------------------------------------------------------ *)
(* class-free corollaries                                              *)
(* ------------------------------------------------------------------ *)

(* prose the proved region accepts, whatever follows it *)
Definition plain_prose (d : str) : bool :=
  negb (match d with [] => true | _ => false end)
  && clean_line d && negb (starts_optional d) && no_announce d && no_rest_token d.

(* a parameter with prose and a declared type, no default *)
Definition simple_param (kv : str * gparam) : bool :=
  is_ident (fst kv) && negb (endswith (L "kwargs") (fst kv)) && negb (str_eqb (fst kv) (L "return_type"))
  && match g_doc (snd kv), g_typ (snd kv), g_default (snd kv) with
     | Has d, Has t, None => plain_prose d && type_in_domain t
     | _, _, _ => false
     end.

Definition simple_ir (i : ir) : bool :=
  (match ir_doc i with Has d => no_rest_token d && str_eqb (strip d) d | _ => false end)
  && (match ir_params i with [] => false | _ => true end)
  && forallb simple_param (ir_params i)
  && nodup_str (map fst (ir_params i))
  && (match ir_returns i with Has _ => false | _ => true end).

Lemma simple_param_facts : forall edd n g, simple_param (n, g) = true ->
    param_in_domain (n, g) = true /\ param_class edd n g = None.
Proof.
  intros edd n g H. unfold simple_param in H. cbn [fst snd] in H.
  apply andb_true_iff in H. destruct H as [H Hg].
  apply andb_true_iff in H. destruct H as [H Hrt].
  apply andb_true_iff in H. destruct H as [Hid Hk]. apply negb_true_iff in Hk.
  destruct g as [gd gt gdf]. cbn [g_doc g_typ g_default] in Hg.
  destruct gd as [| |d]; try discriminate. destruct gt as [| |t]; try discriminate.
  destruct gdf; [discriminate|].
  apply andb_true_iff in Hg. destruct Hg as [Hp Htd].
  unfold plain_prose in Hp.
  apply andb_true_iff in Hp. destruct Hp as [Hp Htok].
  apply andb_true_iff in Hp. destruct Hp as [Hp Hna].
  apply andb_true_iff in Hp. destruct Hp as [Hp Hop].
  apply andb_true_iff in Hp. destruct Hp as [Hne Hcl]. apply negb_true_iff in Hop.
  destruct d as [|c r]; [discriminate|].
  destruct (type_in_domain_inv t Htd) as [[_ [Htne _]] _]. destruct t as [|ct rt]; [contradiction|].
  split.
  - unfold param_in_domain, entry_in_domain. cbn [fst snd g_doc g_typ g_default].
    rewrite Hid, Hrt, Htok, Htd. reflexivity.
  - unfold param_class. cbn [g_doc g_typ g_default fld_str]. rewrite Hcl, Hop, Hna, Hk. reflexivity.
Qed.

Lemma simple_ir_guard : forall edd i, simple_ir i = true -> guard_C01_rest edd i = true.
Proof.
  intros edd i H. unfold simple_ir in H.
  apply andb_true_iff in H. destruct H as [H Hret].
  apply andb_true_iff in H. destruct H as [H Hnd].
  apply andb_true_iff in H. destruct H as [H Hps].
  apply andb_true_iff in H. destruct H as [Hdoc Hne].
  destruct i as [iname itype idoc ps irets iint]. cbn [ir_doc ir_params ir_returns] in *.
  destruct idoc as [| |sdoc]; try discriminate.
  apply andb_true_iff in Hdoc. destruct Hdoc as [Htok Hstrip].
  assert (Hall : forallb param_in_domain ps = true
                 /\ first_class (fun kv => param_class edd (fst kv) (snd kv)) ps = None).
  { clear Hne Hnd. induction ps as [|[n g] ps IH]; [split; reflexivity|].
    cbn [forallb] in Hps. apply andb_true_iff in Hps. destruct Hps as [Hp Hps].
    destruct (simple_param_facts edd n g Hp) as [H1 H2]. destruct (IH Hps) as [H3 H4].
    split.
    - cbn [forallb]. rewrite H1, H3. reflexivity.
    - cbn [first_class fst snd]. rewrite H2. exact H4. }
  destruct Hall as [Hdom Hfirst].
  unfold guard_C01_rest, in_domain_C01, finding_class_C01_rest.
  cbn [ir_doc ir_params ir_returns andb].
  fold param_in_domain.
  change (fun kv : str * gparam => is_ident (fst kv) && negb (str_eqb (fst kv) (L "return_type"))
                                   && entry_in_domain (snd kv)) with param_in_domain.
  rewrite Htok, Hdom, Hnd. cbn [andb].
  destruct irets as [| |g]; try discriminate; cbn [fld_opt andb].
  - destruct ps as [|p0 ps0]; [discriminate|]. rewrite Hstrip. cbn [negb]. rewrite Hfirst. reflexivity.
  - destruct ps as [|p0 ps0]; [discriminate|]. rewrite Hstrip. cbn [negb]. rewrite Hfirst. reflexivity.
Qed.

(* every interface whose parameters all have clean prose and a declared type, without defaults and
   without a return entry, round-trips through ReST, for both parse modes *)
Theorem C01_rest_no_defaults_lemma : forall edd i, simple_ir i = true -> C01_rest_at edd i.
Proof. intros edd i H. apply C01_rest_partial_lemma. apply simple_ir_guard. exact H. Qed.

(* an int default under the declared type int is inside the guard, for every clean prose that ends
   in a full stop or comma *)
Lemma intchar_facts : forall z,
    mem_c nl (dec_of_Z z) = false /\ mem_c colon (dec_of_Z z) = false
    /\ exists l, last_c (dec_of_Z z) = Some l /\ isspace l = false.
Proof.
  intros z. pose proof (dec_of_Z_intchars z) as H. rewrite forallb_forall in H.
  assert (Hno : forall c, intchar c = false -> mem_c c (dec_of_Z z) = false).
  { intros c Hc. destruct (mem_c c (dec_of_Z z)) eqn:E; [|reflexivity].
    apply mem_c_In in E. rewrite (H c E) in Hc. discriminate. }
  split; [apply Hno; reflexivity|]. split; [apply Hno; reflexivity|].
  destruct (last_c (dec_of_Z z)) as [l|] eqn:El.
  - exists l. split; [reflexivity|]. apply last_c_In in El. pose proof (H l El) as Hl.
    unfold intchar in Hl. unfold isspace.
    apply orb_true_iff in Hl. destruct Hl as [Hl|Hl].
    + unfold isdigit in Hl. apply andb_true_iff in Hl. destruct Hl as [Ha Hb].
      apply Nat.leb_le in Ha. apply Nat.leb_le in Hb.
      destruct (Nat.leb 9 (code l) && Nat.leb (code l) 13) eqn:E1.
      { apply andb_true_iff in E1. destruct E1 as [_ E1]. apply Nat.leb_le in E1. lia. }
      destruct (Nat.leb 28 (code l) && Nat.leb (code l) 32) eqn:E2; [|reflexivity].
      apply andb_true_iff in E2. destruct E2 as [_ E2]. apply Nat.leb_le in E2. lia.
    + apply ascii_eqb_eq in Hl. subst l. reflexivity.
  - apply last_c_nil_iff in El. exfalso. exact (dec_of_Z_nonnil z El).
Qed.

Theorem param_class_int_default_lemma : forall edd n d z,
    endswith (L "kwargs") n = false ->
    prose_ok d = true -> clean_line d = true -> starts_optional d = false ->
    param_class edd n (mkG (Has d) (Has (L "int")) (Some (DV (VInt z)))) = None.
Proof.
  intros edd n d z Hk Hp Hcl Hop.
  destruct (prose_ok_inv d Hp) as [Hne [Hna _]].
  assert (Hg : guard_C17 ADefaultsTo d (VInt z) (Some (L "int")) = true).
  { apply guard_C17_split. split; [exact Hp|apply value_ok_int_typed]. }
  assert (Efs : fld_str (Has (L "int")) = Some (L "int")) by reflexivity.
  unfold param_class. cbn [g_doc g_typ g_default]. rewrite Efs. destruct d as [|c r]; [contradiction|].
  change (fld_str (Has (c :: r))) with (Some (c :: r)). cbv iota.
  rewrite Hcl, Hop, Hna, Hk. cbn [negb].
  unfold guard_C17 in Hg. apply andb_true_iff in Hg. destruct Hg as [_ Hg].
  destruct (finding_class_C17 ADefaultsTo (c :: r) (VInt z) (Some (L "int"))); [discriminate|].
  rewrite shown_value_int.
  destruct (intchar_facts z) as [Hnl [Hcolon [l [Hl Hls]]]].
  assert (Hvc : value_text_clean (dec_of_Z z) = true).
  { unfold value_text_clean. rewrite Hnl, (no_colon_no_token _ Hcolon), Hl, Hls. reflexivity. }
  rewrite Hvc. cbn [negb].
  unfold default_journey. rewrite coerce_default_int_untyped.
  change (infer_res Missing (unquote_val (VInt z))) with (Ok (Has (L "int"), VInt z) : outcome (fld str * pyval)).
  rewrite coerce_default_int_typed.
  assert (Hir : infer_res (Has (L "int")) (VInt z) = Ok (Has (L "int"), VInt z)) by (vm_compute; reflexivity).
  cbn [unquote_val]. rewrite Hir.
  assert (Hset : settled (Has (L "int")) (VInt z) = true).
  { unfold settled. rewrite Hir. cbn [fld_eqb]. rewrite str_eqb_refl. unfold pyval_eqb. rewrite Z.eqb_refl. reflexivity. }
  rewrite Hset.
  assert (Hsv : same_val (VInt z) (VInt z) = true).
  { unfold same_val, pyval_eqb. rewrite Z.eqb_refl. reflexivity. }
  rewrite Hsv. cbn [fld_eqb]. rewrite str_eqb_refl. destruct edd; reflexivity.
Qed.
