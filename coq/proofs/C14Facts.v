(* C14Facts: refutation of the full C14 statement by witnesses, non-vacuity of the guard, corollaries. *)
From Coq Require Import List Ascii Bool Arith ZArith Lia.
From Coq Require String.
Import String.StringSyntax.
From DT Require Import PyStr Sexp PyVal PureUtils PyAst Locate SyncProps C15Spec C14Spec PyStrFacts LocateFacts
     RewriteFacts C15Facts SyncPropsFacts.
Import ListNotations.

Definition w_env : sp_env := mkEnv [(EName (L "int"), L "int")] [(L "Optional[int]", Ok (ESub (EName (L "Optional")) (EName (L "int"))))].

Definition w_arg (n : str) (ann : option str) : arg := mkArg n (option_map EName ann).
Definition w_fn (name : str) (args : list arg) (defaults : list expr) (kw : list arg) (kwd : list (option expr)) : stmt :=
  SFunc name (mkArguments args defaults kw kwd None None) [w_pass] [] None.

(* input:  def f(a: int = 1): pass *)
Definition w_in : module := [w_fn (L "f") [w_arg (L "a") (Some (L "int"))] [EConst (VInt 1)] [] []].
(* output: def g(x, y=2): pass *)
Definition w_out : module := [w_fn (L "g") [w_arg (L "x") None; w_arg (L "y") None] [EConst (VInt 2)] [] []].

Definition w_call (im : module) (ips : list str) (om : module) (ops : list str) (w : option str) : c14_input :=
  mkC14 w_env false im ips om ops w [].

(* regressions of /repo 3e792de and 6d00342 (they were refutation witnesses before): a module docstring in the
   output file is left alone, and a keyword-only input parameter is found *)
Definition w_out_doc : module := SExpr (EConst (VStr (L "Doc."))) :: w_out.
Definition w_in_kw : module := [w_fn (L "f") [] [] [w_arg (L "a") (Some (L "int"))] [Some (EConst (VInt 1))]].

Lemma C14_regression_docstring :
  guard_C14 (w_call w_in [L "f.a"] w_out_doc [L "g.x"] None) = true
  /\ C14_at_b (w_call w_in [L "f.a"] w_out_doc [L "g.x"] None) = true.
Proof. split; vm_compute; reflexivity. Qed.

Lemma C14_regression_kwonly :
  guard_C14 (w_call w_in_kw [L "f.a"] w_out [L "g.x"] None) = true
  /\ C14_at_b (w_call w_in_kw [L "f.a"] w_out [L "g.x"] None) = true.
Proof. split; vm_compute; reflexivity. Qed.

(* 1. an assignment replaces a method argument: its value is written into the default slot counted from the
      front and shifted by self, i.e. into ANOTHER argument's default *)
Definition w_in_ann : module := [SAnnAssign (EName (L "a")) (EName (L "int")) (Some (EConst (VInt 3)))].
Definition w_out_method : module :=
  [SClass (L "C") [] [w_fn (L "m") [w_arg (L "self") None; w_arg (L "a") None; w_arg (L "b") None] [EConst (VInt 4)] [] []] []].

Lemma C14_refuted_lemma : ~ C14_statement.
Proof.
  intros H. specialize (H (w_call w_in_ann [L "a"] w_out_method [L "C.m.a"] None) ltac:(vm_compute; reflexivity)).
  unfold C14_at in H. vm_compute in H. discriminate.
Qed.

Lemma C14_refuted_default_slot :
  C14_domain (w_call w_in_ann [L "a"] w_out_method [L "C.m.a"] None) = true
  /\ C14_at_b (w_call w_in_ann [L "a"] w_out_method [L "C.m.a"] None) = false
  /\ option_map (fun t => match t with
                          | [SClass _ _ [SFunc _ a _ _ _] _] => ar_defaults a
                          | _ => []
                          end)
                (written_tree (run_C14 (w_call w_in_ann [L "a"] w_out_method [L "C.m.a"] None)))
     = Some [EConst (VInt 3)].
Proof. repeat split; vm_compute; reflexivity. Qed.

(* 2. the same input parameter used for two outputs with a template: the shared node is wrapped twice *)
Definition w_env2 : sp_env :=
  mkEnv [(EName (L "int"), L "int"); (ESub (EName (L "Optional")) (EName (L "int")), L "Optional[int]")]
        [(L "Optional[int]", Ok (ESub (EName (L "Optional")) (EName (L "int"))));
         (L "Optional[Optional[int]]", Ok (ESub (EName (L "Optional")) (ESub (EName (L "Optional")) (EName (L "int")))))].

Lemma C14_refuted_double_wrap :
  option_map (fun t => match t with
                       | [SFunc _ a _ _ _] => map a_ann (ar_args a)
                       | _ => []
                       end)
             (written_tree (run_C14 (mkC14 w_env2 false w_in [L "f.a"; L "f.a"] w_out [L "g.x"; L "g.y"]
                                           (Some (L "Optional[{output_param}]")) [])))
  = Some [Some (ESub (EName (L "Optional")) (ESub (EName (L "Optional")) (EName (L "int"))));
          Some (ESub (EName (L "Optional")) (ESub (EName (L "Optional")) (EName (L "int"))))].
Proof. vm_compute. reflexivity. Qed.

(* 3. an input address through a nested class exists but is not found: the pair is not applied *)
Definition w_in_nested : module :=
  [SClass (L "C") [] [SClass (L "D") [] [SAssign [EName (L "z")] (EConst (VInt 1))] []] []].
Definition w_out_z : module := [SAssign [EName (L "z")] (EConst (VInt 0))].

Lemma C14_refuted_nested_input :
  C14_domain (w_call w_in_nested [L "C.D.z"] w_out_z [L "z"] None) = true
  /\ addresses_resolve (w_call w_in_nested [L "C.D.z"] w_out_z [L "z"] None) = true
  /\ run_C14 (w_call w_in_nested [L "C.D.z"] w_out_z [L "z"] None) = ([], Err AssertionError)
  /\ finding_class_C14 (w_call w_in_nested [L "C.D.z"] w_out_z [L "z"] None) = Some K14_input_lookup.
Proof. repeat split; vm_compute; reflexivity. Qed.

(* ------------------------------------------------------------------ non-vacuity *)
Lemma C14_nonvacuous_lemma :
  guard_C14 (w_call w_in [L "f.a"] w_out [L "g.x"] None) = true
  /\ C14_at_b (w_call w_in [L "f.a"] w_out [L "g.x"] None) = true
  /\ guard_C14 (w_call w_in [L "f.a"] w_out [L "g.x"] (Some (L "Optional[{output_param}]"))) = true
  /\ C14_at_b (w_call w_in [L "f.a"] w_out [L "g.x"] (Some (L "Optional[{output_param}]"))) = true
  /\ guard_C14 (w_call w_in [L "f.nope"] w_out [L "g.x"] None) = true
  /\ run_C14 (w_call w_in [L "f.nope"] w_out [L "g.x"] None) = ([], Err AssertionError)
  /\ guard_C14 (w_call w_in [L "f.a"] w_out [L "g.nope"] None) = true
  /\ run_C14 (w_call w_in [L "f.a"] w_out [L "g.nope"] None) = ([], Err AssertionError).
Proof. repeat split; vm_compute; reflexivity. Qed.

(* ------------------------------------------------------------------ corollaries, no guard *)
(* an error anywhere - in particular an address that the code does not find - leaves both files alone *)
Theorem C14_not_found_no_write : forall x i0 o0,
    ci_eval x = false ->
    ast_parse [1] (ci_in x) = Ok i0 -> ast_parse [0] (ci_out x) = Ok o0 ->
    (exists ip op ev rest log,
        loop_pairs x = (ip, op, ev) :: rest /\ find_in_ast_log (dotted ip) i0 = Ok (None, log)) ->
    run_C14 x = ([], Err AssertionError).
Proof.
  intros x i0 o0 Hev Hi Ho [ip [op [ev [rest [log [Hp Hf]]]]]].
  unfold run_C14, sync_properties. rewrite Hi, Ho. simpl.
  destruct (Nat.eqb (List.length (ci_ips x)) (List.length (ci_ops x))); simpl; [|reflexivity].
  fold (loop_pairs x). rewrite Hp. simpl. unfold sync_property. rewrite Hev.
  fold (dotted ip). rewrite Hf. reflexivity.
Qed.
