(* C19ComposeFacts: gen composed with the converter models (model/C19Compose.v).

   Part 1  per entry, per kind: inside entry_guard the emitter gen calls returns a definition carrying the templated
           name, and that definition, read back by the parser of the kind, describes the interface it was generated
           from.  class: C02DocLink.C02_partial_closed_lemma; function: the C03 composition replayed for an arbitrary
           identifier as function name (props/C03.v fixes the name f) + C03DocLinkMain.C03_doc_link_lemma; argparse:
           C04Compose.C04_ast_partial_lemma (stated for word_wrap off) + a proof that emit.argparse_function with
           word_wrap on (its default, which gen uses) builds the same tree when textwrap.fill leaves every help text
           alone.
   Part 2  the module: GenFacts.entries_defs / gen_in_guard re-proved with the definitions exposed (which text sits
           under which name), then the lift over the mapping by induction.
   Part 3  a two-entry mapping of class type inside all hypotheses. *)
From Coq Require Import List Ascii Bool Arith ZArith Lia Permutation.
From Coq Require String.
Import String.StringSyntax.
From DT Require Import PyStr Sexp PyVal TyExpr Extracted PureUtils Defaults PyAst IR EmitAst ParseAst.
From DT Require Import C17Spec C02Spec C02Codec C04Spec C04Codec Gen C19Spec C19Compose.
From DT Require DocEmit C06Spec C18Spec C02DocLinkDefs C03Spec C03DocLinkDefs.
From DT Require Merge ParseSig C12Spec C07Spec PyStrFacts MergeFacts C12Facts ParseSigFacts C07Facts.
From DT Require DefaultsFacts FillFacts C06Facts C02DocLink C03Compose C03DocLinkMain C04Compose GenFacts.
Import ListNotations.

(* ================================================================== Part 1: one entry *)
(* ---------------- class *)
Lemma emit_class_shape : forall pt i ec cn bs ds ww tds s i2,
  emit_class pt i ec cn bs ds ww tds = Ok (s, i2) -> exists b body d, s = SClass cn b body d.
Proof.
  intros pt i ec cn bs ds ww tds s i2 H. unfold emit_class in H.
  repeat match type of H with
  | bind ?x _ = Ok _ => destruct x; cbn [bind] in H; [|discriminate H]
  end.
  inversion H. eexists; eexists; eexists; reflexivity.
Qed.

(* ---------------- class *)
Lemma emit_class_call_irrelevant : forall pt i cn bs ds ww tds,
  no_carried_body i = true -> no_return_entry i = true ->
  emit_class pt i true cn bs ds ww tds = emit_class pt i false cn bs ds ww tds.
Proof.
  intros pt i cn bs ds ww tds Hb Hr. unfold no_return_entry in Hr. unfold emit_class.
  assert (E0 : match ir_internal i with Some it => in_body it | None => [] end = []).
  { unfold no_carried_body in Hb. destruct (ir_internal i) as [it|]; [|reflexivity].
    destruct (in_body it); [reflexivity|discriminate Hb]. }
  rewrite E0.
  destruct (ir_returns i) as [| |p]; [| |discriminate Hr];
    destruct (od_keys (ir_params i)); cbn [bind]; destruct tds; cbn [bind]; reflexivity.
Qed.

Lemma entry_class_ok : forall o pt nm i di,
  entry_guard GClass o pt nm i = true ->
  exists s i', entry_def GClass o pt nm i = Ok s /\ def_name s = Some nm /\ def_is_class s = true
               /\ parse_back GClass o pt i di s = Ok i' /\ describes GClass i i' = true.
Proof.
  intros o pt nm i di G. cbn [entry_guard] in G.
  apply andb_true_iff in G. destruct G as [G Hl]. apply andb_true_iff in G. destruct G as [Hec Hg].
  destruct (C02DocLink.C02_partial_closed_lemma gen_width pt i nm [L "object"] (decos_of o) (o_emit_default_doc o)
              true false true Hg Hl) as (text & s & i' & Ht & He & Hp & _ & _ & _ & _ & Hsame).
  assert (He' : emit_class pt i (o_emit_call o) nm [L "object"] (decos_of o) true
                           (C02DocLinkDefs.class_docstring_text gen_width (o_emit_default_doc o) true i) = Ok (s, i)).
  { destruct (o_emit_call o); [|exact He]. cbn [negb orb] in Hec.
    rewrite emit_class_call_irrelevant; [exact He| |exact Hec].
    unfold guard_C02_ast in Hg. apply andb_true_iff in Hg. apply Hg. }
  destruct (emit_class_shape _ _ _ _ _ _ _ _ _ _ He) as (b & body & d & Es).
  exists s, i'. cbn [entry_def entry_docstring]. rewrite He'. cbn [bind fst].
  split; [reflexivity|]. subst s. cbn [def_name def_is_class].
  split; [reflexivity|]. split; [reflexivity|].
  cbn [parse_back reparse_def bind entry_docstring]. rewrite Ht. cbn [bind]. split; [exact Hp|exact Hsame].
Qed.

(* ---------------- function: the C03 composition for an arbitrary identifier as function name *)
Module FnPart.
Import Merge ParseSig C12Spec C07Spec PyStrFacts MergeFacts C12Facts ParseSigFacts C07Facts.
Import C03Spec C03Compose.

Lemma emit_function_shape_named : forall nm c r o i text rv ann,
  nm = c :: r ->
  kind_in_domain (fo_kind o) = true -> ir_internal i = None ->
  (forall kv, In kv (nkp i) -> typ_fits o (snd kv) /\ default_scalar (snd kv)) ->
  EmitAst.function_return_val (fo_pt o) i = Ok rv ->
  ret_ann_o o i = Ok ann ->
  EmitAst.emit_function (fo_pt o) i (Some nm) (Some (fo_kind o)) (fo_inline o) (fo_kwonly o) (Ok text)
  = Ok (SFunc nm (emitted_arguments o i) (emitted_body text rv) [] ann, i).
Proof.
  intros nm c r o i text rv ann Enm Hk Hint Hps Hrv Hann.
  unfold EmitAst.emit_function.
  assert (Hf : EmitAst.py_or (Some nm) (ir_name i) = Ok (Some nm)) by (subst nm; reflexivity).
  rewrite Hf. cbn [bind].
  assert (Hkd : EmitAst.py_or (Some (fo_kind o)) (ir_type i) = Ok (Some (fo_kind o))).
  { destruct (kind_cases _ Hk) as [E|[E|E]]; rewrite E; reflexivity. }
  rewrite Hkd. cbn [bind].
  fold (nkp i).
  rewrite (map_outcome_map_ok (EmitAst.arg_of_param (fo_pt o) (fo_inline o))
                              (fun kv => mkArg (fst kv) (ann_of o (snd kv))) (nkp i)).
  2:{ intros [n g] Hin. cbn [fst snd]. apply arg_of_param_fits. apply (Hps _ Hin). }
  cbn [bind].
  rewrite (map_outcome_map_ok EmitAst.default_of_param (fun kv => dflt_of (snd kv)) (nkp i)).
  2:{ intros [n g] Hin. cbn [fst snd]. apply default_of_param_scalar. apply (Hps _ Hin). }
  cbn [bind].
  unfold EmitAst.get_internal_body. rewrite Hint. cbn [bind].
  rewrite Hrv. cbn [bind].
  unfold ret_ann_o in Hann. rewrite Hann. cbn [bind fst].
  unfold emitted_arguments, afp_of, dfp_of, kwarg_of, kwp, args0, emitted_body, EmitAst.set_arg.
  assert (Hbody : EmitAst.function_body_splice [] rv = opt_list rv).
  { unfold EmitAst.function_body_splice. destruct rv; reflexivity. }
  rewrite Hbody.
  destruct (fo_kwonly o); reflexivity.
Qed.

Lemma reparse_emitted_named : forall nm o i text rv rv' ann ann',
  C06Spec.is_identifier nm = true ->
  (forall kv, In kv (nkp i) -> ann_stable o (snd kv) /\ dflt_reparses (snd kv)) ->
  mapM reparse_body_stmt (opt_list rv) = Ok (opt_list rv') ->
  reparse_opt ann = Ok ann' ->
  reparse_stmt (SFunc nm (emitted_arguments o i) (emitted_body text rv) [] ann)
  = Ok (SFunc nm (reparsed_arguments o i) (emitted_body text rv') [] ann').
Proof.
  intros nm o i text rv rv' ann ann' Hid Hps Hrv Hann. unfold reparse_stmt. rewrite Hid. cbn [negb].
  rewrite (reparse_emitted_arguments o i Hps). cbn [bind].
  unfold emitted_body. cbn [mapM]. unfold EmitAst.set_value at 1. cbn [reparse_body_stmt bind].
  rewrite Hrv. cbn [bind mapM]. rewrite Hann. cbn [bind]. reflexivity.
Qed.

Lemma C03_partial_named : forall nm o i text d,
  C06Spec.is_identifier nm = true ->
  guard_C03 o i = true -> doc_agrees o i d = true ->
  exists s s' r,
    EmitAst.emit_function (fo_pt o) i (Some nm) (Some (fo_kind o)) (fo_inline o) (fo_kwonly o) (Ok text) = Ok (s, i)
    /\ def_name s = Some nm
    /\ reparse_stmt s = Ok s' /\ parse_fn (Some d) s' = Ok r /\ same_interface_fn (fo_kind o) i r = true.
Proof.
  intros nm o i text d Hid G DA. pose proof (guard_inv o i G) as GF.
  unfold doc_agrees in DA. apply andb_true_iff in DA. destruct DA as [DAp DAr].
  destruct (returns_round_trip o i d GF DAr)
    as (rv & rv' & ann & ann' & Hrv & Hann & Hrvre & Hannre & rets & rets' & Hir & Hfin & Hsame_r).
  assert (Hps : forall kv, In kv (nkp i) -> emitted_param_facts o (snd kv)).
  { intros [n g] Hin. cbn [snd]. apply nkp_In in Hin. destruct Hin as [HinP Hnk].
    pose proof (gf_entries _ _ GF n g HinP) as Hdom.
    destruct (param_class_inv o n g Hnk Hdom (gf_params _ _ GF n g HinP)) as [v F].
    apply (param_emitted_facts o g v Hdom F). }
  assert (Hne : exists c r, nm = c :: r).
  { destruct nm as [|c r]; [discriminate Hid|]. exists c, r. reflexivity. }
  destruct Hne as (c0 & r0 & Enm).
  assert (Hemit : EmitAst.emit_function (fo_pt o) i (Some nm) (Some (fo_kind o)) (fo_inline o) (fo_kwonly o) (Ok text)
                  = Ok (SFunc nm (emitted_arguments o i) (emitted_body text rv) [] ann, i)).
  { apply (emit_function_shape_named nm c0 r0); [exact Enm|exact (gf_kind _ _ GF)|exact (gf_internal _ _ GF)| |exact Hrv|exact Hann].
    intros kv Hkv. split; [apply (epf_fits _ _ (Hps kv Hkv))|apply (epf_scalar _ _ (Hps kv Hkv))]. }
  assert (Hre : reparse_stmt (SFunc nm (emitted_arguments o i) (emitted_body text rv) [] ann)
                = Ok (SFunc nm (reparsed_arguments o i) (emitted_body text rv') [] ann')).
  { apply reparse_emitted_named; [exact Hid| |exact Hrvre|exact Hannre].
    intros kv Hkv. split; [apply (epf_stable _ _ (Hps kv Hkv))|apply (epf_reparses _ _ (Hps kv Hkv))]. }
  destruct (params_round_trip o i d GF DAp) as (T & app & m & params2 & Hkw & HmT & HmO & Hm & Hsnt & Hsame_p).
  pose proof (reparsed_exprs_ok o i Hps) as Hok.
  destruct (parse_fn_eq d nm (reparsed_arguments o i) (EmitAst.set_value_str text) (opt_list rv') ann'
                        T app m params2 rets rets' Hok Hkw HmT HmO Hm Hsnt Hir Hfin) as [it Hparse].
  eexists. eexists. eexists. split; [exact Hemit|]. split; [reflexivity|]. split; [exact Hre|].
  unfold emitted_body, EmitAst.set_value. split; [exact Hparse|].
  unfold same_interface_fn. cbn [ir_params ir_returns]. rewrite Hsame_p, Hsame_r. cbn [andb].
  unfold kind_preserved. cbn [ir_type].
  assert (HinS : forallb not_self_cls (nk_names i) = true).
  { apply forallb_forall. intros n Hn. unfold nk_names in Hn. apply in_map_iff in Hn. destruct Hn as [[n' g] [E Hin]].
    cbn [fst] in E. subst n'. apply nkp_In in Hin. destruct Hin as [Hin _].
    apply (name_facts n). apply (gf_names _ _ GF). apply in_map_iff. exists (n, g). auto. }
  rewrite (found_type_kind o i (gf_kind _ _ GF) HinS). apply str_eqb_refl.
Qed.

End FnPart.

(* ---------------- argparse: word_wrap on *)
Lemma resolve_arg_doc : forall a c n g r t x1 x2 x3 x4 g',
  resolve_arg a c n g r t = Ok (x1, x2, x3, x4, g') -> g_doc g' = g_doc g /\ g_default g' = g_default g.
Proof.
  intros a c n g r t x1 x2 x3 x4 g' H. unfold resolve_arg in H.
  destruct (g_typ g) as [| |tt] eqn:Et; [discriminate H| |].
  - cbn [bind] in H. inversion H. subst. split; reflexivity.
  - match type of H with bind ?X _ = _ => destruct X as [[s rq]|]; cbn [bind] in H; [|discriminate H] end.
    inversion H. subst. split; reflexivity.
Qed.

Lemma p2ap_ww : forall pt edd n g,
  match g_doc g with
  | Has (c :: r) => no_announce (c :: r) = true /\ fill_if true (c :: r) = Ok (c :: r)
  | _ => True
  end ->
  param2argparse_param pt true edd n g = param2argparse_param pt false edd n g.
Proof.
  intros pt edd n g Hd. unfold param2argparse_param.
  match goal with |- bind ?X _ = _ => destruct X as [[[[[action choices] required] typ] g2]|] eqn:ER; cbn [bind]; [|reflexivity] end.
  apply resolve_arg_doc in ER. destruct ER as [Ed Edf].
  assert (Ed' : g_doc g2 = g_doc g). { rewrite Ed. destruct (g_typ g); reflexivity. }
  clear Ed.
  set (g3 := match g_doc g2 with Missing => mkG (Has []) (g_typ g2) (g_default g2) | _ => g2 end).
  assert (Hg3 : g_doc g3 = match g_doc g with Missing => Has [] | x => x end).
  { unfold g3. rewrite <- Ed'. destruct (g_doc g2) eqn:E; cbn [g_doc]; try rewrite E; reflexivity. }
  clearbody g3. rewrite Hg3.
  destruct (g_doc g) as [| |[|c r]].
  - cbn [extract_default_fld]. rewrite (DefaultsFacts.extract_default_no_announce [] true None edd C04Compose.no_announce_nil).
    reflexivity.
  - reflexivity.
  - cbn [extract_default_fld]. rewrite (DefaultsFacts.extract_default_no_announce [] true None edd C04Compose.no_announce_nil).
    reflexivity.
  - destruct Hd as [Hna Hf].
    cbn [extract_default_fld]. rewrite (DefaultsFacts.extract_default_no_announce (c :: r) true None edd Hna).
    cbn [bind fst snd]. rewrite Hf. reflexivity.
Qed.

Lemma emit_argparse_name : forall pt i edd c r ft wd ww ds s i0,
  emit_argparse pt i edd (Some (c :: r)) ft wd ww ds = Ok (s, i0) -> def_name s = Some (c :: r) /\ def_is_class s = false.
Proof.
  intros pt i edd c r ft wd ww ds s i0 H. unfold emit_argparse in H. cbn [py_or bind] in H.
  repeat match type of H with
  | bind ?x _ = Ok _ => destruct x; cbn [bind] in H; [|discriminate H]
  end.
  inversion H. split; reflexivity.
Qed.

Lemma emit_argparse_ww : forall pt i edd fn ft wd ds,
  (forall kv, In kv (ir_params i) ->
     match g_doc (snd kv) with
     | Has (c :: r) => no_announce (c :: r) = true /\ fill_if true (c :: r) = Ok (c :: r)
     | _ => True
     end) ->
  emit_argparse pt i edd fn ft wd true ds = emit_argparse pt i edd fn ft wd false ds.
Proof.
  intros pt i edd fn ft wd ds H. unfold emit_argparse.
  assert (E : map_outcome (fun kv => param2argparse_param pt true edd (fst kv) (snd kv)) (ir_params i)
              = map_outcome (fun kv => param2argparse_param pt false edd (fst kv) (snd kv)) (ir_params i)).
  { apply C06Facts.map_outcome_ext_in. intros kv Hin. apply p2ap_ww. apply (H kv Hin). }
  rewrite E. reflexivity.
Qed.

Lemma argparse_guard_ww : forall i,
  guard_C04_ast i = true -> argparse_help_nowrap i = true ->
  forall kv, In kv (ir_params i) ->
     match g_doc (snd kv) with
     | Has (c :: r) => no_announce (c :: r) = true /\ fill_if true (c :: r) = Ok (c :: r)
     | _ => True
     end.
Proof.
  intros i G W kv Hin. unfold guard_C04_ast in G.
  repeat (apply andb_true_iff in G; destruct G as [G ?]).
  match goal with Hp : forallb param_ok_C04 _ = true |- _ => rewrite forallb_forall in Hp; pose proof (Hp kv Hin) as Hk end.
  unfold argparse_help_nowrap in W. apply andb_true_iff in W. destruct W as [Hw W].
  rewrite forallb_forall in W. pose proof (W kv Hin) as Hn.
  unfold param_ok_C04 in Hk. apply andb_true_iff in Hk. destruct Hk as [_ Hg].
  assert (Hh : help_ok_C04 (snd kv) = true).
  { unfold gparam_ok_C04 in Hg. destruct (g_typ (snd kv)) as [| |t]; try discriminate Hg.
    destruct (shape_of_typ t); [apply andb_true_iff in Hg; apply Hg|].
    destruct (literal_of_typ t); [apply andb_true_iff in Hg; apply Hg|discriminate Hg]. }
  unfold help_ok_C04, prose_of in Hh. unfold prose_of in Hn.
  destruct (g_doc (snd kv)) as [| |[|c r]]; try exact I.
  apply andb_true_iff in Hh. destruct Hh as [Hna _]. split; [exact Hna|].
  unfold fill_if. apply FillFacts.nowrap_line_fill; [apply Nat.ltb_lt; exact Hw|exact Hn].
Qed.

(* ---------------- the three kinds *)
Lemma entry_function_ok : forall o pt nm i di,
  entry_guard GFunction o pt nm i = true ->
  exists s i', entry_def GFunction o pt nm i = Ok s /\ def_name s = Some nm /\ def_is_class s = false
               /\ parse_back GFunction o pt i di s = Ok i' /\ describes GFunction i i' = true.
Proof.
  intros o pt nm i di G. cbn [entry_guard] in G.
  apply andb_true_iff in G. destruct G as [G Hl]. apply andb_true_iff in G. destruct G as [Hid Hg].
  set (fo := gen_fopts pt (o_emit_default_doc o)) in *.
  destruct (C03DocLinkMain.C03_doc_link_lemma gen_width fo i Hg Hl) as (text & d & Ht & Hd & Ha).
  destruct (FnPart.C03_partial_named nm fo i text d Hid Hg Ha) as (s & s' & r & He & Hn & Hre & Hp & Hsame).
  change (C03Spec.fo_pt fo) with pt in He. change (C03Spec.fo_kind fo) with (L "static") in He, Hsame.
  change (C03Spec.fo_inline fo) with true in He. change (C03Spec.fo_kwonly fo) with true in He.
  exists s, r. cbn [entry_def entry_docstring]. fold fo. rewrite Ht, He. cbn [bind fst].
  split; [reflexivity|]. split; [exact Hn|].
  split.
  { destruct s; try reflexivity. cbn [C03Spec.reparse_stmt] in Hre. discriminate Hre. }
  unfold parse_back, reparse_def, entry_docstring. fold fo. rewrite Hre. cbn [bind]. rewrite Ht. cbn [bind]. rewrite Hd. cbn [bind].
  split; [exact Hp|exact Hsame].
Qed.

Lemma entry_argparse_ok : forall o pt nm i di,
  entry_guard GArgparse o pt nm i = true ->
  exists s i', entry_def GArgparse o pt nm i = Ok s /\ def_name s = Some nm /\ def_is_class s = false
               /\ parse_back GArgparse o pt i di s = Ok i' /\ describes GArgparse i i' = true.
Proof.
  intros o pt nm i di G. cbn [entry_guard] in G.
  apply andb_true_iff in G. destruct G as [G Hds]. apply andb_true_iff in G. destruct G as [G Hw].
  apply andb_true_iff in G. destruct G as [Hne Hg].
  destruct nm as [|c r]; [discriminate Hne|].
  destruct (argparse_docstring_text gen_width i) as [ds|] eqn:Eds; [|discriminate Hds].
  destruct (C04Compose.C04_ast_partial_lemma pt i (o_emit_default_doc o) c r (ch 115) (L "tatic") ds di None None Hg)
    as (s & i' & He & Hp & _ & _ & _ & Hsame).
  assert (He' : emit_argparse pt i (o_emit_default_doc o) (Some (c :: r)) (Some (L "static")) false true (Ok ds) = Ok (s, i)).
  { rewrite (emit_argparse_ww pt i (o_emit_default_doc o) (Some (c :: r)) (Some (L "static")) false (Ok ds)
                              (argparse_guard_ww i Hg Hw)). exact He. }
  clear He. rename He' into He.
  destruct (emit_argparse_name _ _ _ _ _ _ _ _ _ _ _ He) as [Hn Hc].
  exists s, i'. cbn [entry_def entry_docstring]. rewrite Eds.
  match goal with |- (bind ?X _ = _) /\ _ => assert (HX : X = Ok (s, i)) by (exact He); rewrite HX end. cbn [bind fst].
  split; [reflexivity|]. split; [exact Hn|]. split; [exact Hc|].
  cbn [parse_back reparse_def bind]. split; [exact Hp|exact Hsame].
Qed.

(* C19_entry_describes_interface *)
Theorem entry_describes_interface : forall k o pt nm i di,
  entry_guard k o pt nm i = true ->
  exists s i', entry_def k o pt nm i = Ok s /\ def_name s = Some nm
               /\ def_is_class s = (match k with GClass => true | _ => false end)
               /\ parse_back k o pt i di s = Ok i' /\ describes k i i' = true.
Proof.
  intros [| |] o pt nm i di G.
  - apply entry_class_ok; exact G.
  - apply entry_function_ok; exact G.
  - apply entry_argparse_ok; exact G.
Qed.

Corollary entry_round_trip : forall k o pt nm i di,
  entry_guard k o pt nm i = true -> entry_round_trip_b k o pt nm i di = true.
Proof.
  intros k o pt nm i di G. destruct (entry_describes_interface k o pt nm i di G) as (s & i' & He & Hn & _ & Hp & Hd).
  unfold entry_round_trip_b. rewrite He, Hn, Hp, Hd, PyStrFacts.str_eqb_refl. reflexivity.
Qed.

(* ================================================================== Part 2: the module *)
(* GenFacts.entries_defs with the definitions exposed: which text sits under which name *)
Definition entry_top (tpl : str) (e : entry) (d : top) : Prop :=
  exists c nm t, format_name tpl (e_name e) = GOk nm /\ e_res e = Emitted t /\ d = TDef c nm t.

Lemma entries_defs_exposed : forall ps tpl es names,
    forallb (entry_wf ps tpl) es = true -> forallb is_emitted es = true ->
    names_of tpl es = GOk names ->
    exists defs, Forall2 (fun t d => ps t = Some [d]) (texts_of es) defs
                 /\ Forall2 is_def_named names defs
                 /\ forallb plain_stmt defs = true
                 /\ Forall2 (entry_top tpl) es defs.
Proof.
  intros ps tpl es. induction es as [|e r IH]; intros names HW HE HN.
  - cbn in HN. inversion HN. exists []. repeat split; constructor.
  - destruct (GenFacts.names_of_cons tpl e r names HN) as [n [ns [E [Hn Hns]]]]. subst names.
    cbn in HW, HE. apply andb_true_iff in HW. destruct HW as [Hw Hwr].
    apply andb_true_iff in HE. destruct HE as [He Her].
    destruct (IH ns Hwr Her Hns) as [defs [H1 [H2 [H3 H4]]]].
    unfold is_emitted in He. unfold entry_wf in Hw.
    destruct (e_res e) as [k| |k|text] eqn:ER; try discriminate He.
    rewrite Hn in Hw.
    destruct (ps text) as [[|[b s d|m s|c nm t'|nsx s|s] [|u us]]|] eqn:EP; try discriminate Hw.
    apply andb_true_iff in Hw. destruct Hw as [Hnm Ht]. apply PyStrFacts.str_eqb_eq in Hnm. apply PyStrFacts.str_eqb_eq in Ht. subst nm t'.
    exists (TDef c n text :: defs). split; [|split; [|split]].
    + unfold texts_of. cbn [map]. rewrite ER. constructor; [exact EP|exact H1].
    + constructor; [exists c, text; reflexivity|exact H2].
    + cbn. exact H3.
    + constructor; [|exact H4]. exists c, n, text. repeat split; assumption.
Qed.

(* GenFacts.gen_in_guard with the definitions exposed, and the non-import statements of the written module *)
Lemma gen_in_guard_exposed : forall ps, python_like ps -> forall gi es names header,
    GenFacts.gen_conditions ps gi es names header ->
    exists g defs,
      snd (gen ps gi) = GOk g
      /\ g_all g = names
      /\ g_hoisted g = hoist header ++ defs ++ [TAll names (all_text names)]
      /\ g_written g = unparse_module (g_hoisted g)
      /\ ps (g_written g) = Some (g_hoisted g)
      /\ filter nonimp (g_hoisted g) = filter nonimp header ++ defs ++ [TAll names (all_text names)]
      /\ Forall2 is_def_named names defs
      /\ Forall2 (entry_top (gi_name_tpl gi)) es defs.
Proof.
  intros ps PL gi es names header [HT [HD [HP1 [HH [HM [HN [HS [HW HE]]]]]]]].
  destruct (entries_defs_exposed ps _ es names HW HE HN) as [defs [Hdefs [Hnamed [Hplain Htops]]]].
  pose proof (GenFacts.header_parses ps PL gi header HH) as HPh.
  pose proof (GenFacts.content_parses ps PL _ header (texts_of es) defs names HPh Hdefs HS) as HC.
  exists (mkGenOk (assemble (gi_prepend gi) (imports_text ps gi) (texts_of es) names)
                  (hoist (header ++ defs ++ [TAll names (all_text names)])) names
                  (unparse_module (hoist (header ++ defs ++ [TAll names (all_text names)])))), defs.
  assert (HCA : ps (assemble (gi_prepend gi) (imports_text ps gi) (texts_of es) names)
                = Some (header ++ defs ++ [TAll names (all_text names)])).
  { unfold assemble. rewrite app_assoc. exact HC. }
  assert (Hpl : forallb plain_stmt (defs ++ [TAll names (all_text names)]) = true).
  { rewrite forallb_app, Hplain. reflexivity. }
  assert (Hhoist : hoist (header ++ defs ++ [TAll names (all_text names)])
                   = hoist header ++ defs ++ [TAll names (all_text names)]).
  { apply GenFacts.hoist_app_plain. exact Hpl. }
  assert (Hwf : Forall (wf_top ps) (hoist (header ++ defs ++ [TAll names (all_text names)]))).
  { pose proof (P_canon _ PL _ _ HCA) as Hall. apply Forall_forall. intros t Ht.
    rewrite Forall_forall in Hall. apply Hall. eapply Permutation_in; [apply GenFacts.hoist_perm|exact Ht]. }
  cbn [g_all g_hoisted g_written g_content].
  split; [|split; [reflexivity|split; [exact Hhoist|split; [reflexivity|split; [|split; [|split; [exact Hnamed|exact Htops]]]]]]].
  - unfold gen. rewrite HT. cbn [negb].
    pose proof (GenFacts.imports_phase_ok ps gi HP1) as HIP.
    destruct (imports_phase ps gi) as [tr1 imp]. cbn [snd] in HIP. subst imp.
    rewrite HD. cbn [negb]. rewrite HM.
    pose proof (GenFacts.run_entries_ok (gi_name_tpl gi) (gi_type gi) (gi_opts gi) es names HT HE HN) as HR.
    destruct (run_entries (gi_name_tpl gi) (gi_type gi) (gi_opts gi) es) as [tr2 r2]. cbn [snd] in HR. subst r2.
    rewrite HS. cbn [negb]. rewrite HCA. reflexivity.
  - apply GenFacts.unparse_module_parses; [exact PL|exact Hwf].
  - rewrite GenFacts.hoist_keeps_nonimports. rewrite filter_app. f_equal.
    apply GenFacts.filter_all. intros t Ht. rewrite forallb_forall in Hpl.
    destruct (GenFacts.plain_stmt_nonimp t (Hpl t Ht)) as [Hi _]. unfold nonimp. rewrite Hi. reflexivity.
Qed.

(* the written definitions of a composed mapping: by induction over the mapping *)
Lemma composed_defs : forall to_code k o tpl ces defs,
    forallb (centry_guard k o tpl) ces = true ->
    Forall2 (entry_top tpl) (map (entry_of to_code (Some k) o tpl) ces) defs ->
    Forall2 (def_describes to_code k o tpl) ces defs.
Proof.
  intros to_code k o tpl ces. induction ces as [|ce r IH]; intros defs HG HT.
  - inversion HT. constructor.
  - cbn [map] in HT. inversion HT as [|e d es ds Hd Hr]; subst.
    cbn [forallb] in HG. apply andb_true_iff in HG. destruct HG as [Hg Hgr].
    constructor; [|apply IH; assumption].
    unfold centry_guard in Hg.
    destruct (ce_parsed ce) as [i|xk] eqn:EP; [|discriminate Hg].
    destruct (format_name tpl (ce_name ce)) as [nm|xk] eqn:EN; [|discriminate Hg].
    destruct Hd as (c & nm' & t & Hn & Hres & Ed).
    cbn [entry_of e_name e_res] in Hn, Hres. rewrite EN in Hn. inversion Hn. subst nm'.
    unfold entry_res_of in Hres. rewrite EP, EN in Hres.
    destruct (entry_def k o (ce_pt ce) nm i) as [s|er] eqn:ED; [|discriminate Hres].
    destruct (to_code s) as [text|xk] eqn:ET; [|discriminate Hres].
    inversion Hres. subst t.
    exists nm, i, s, c, text.
    assert (Hall : forall di, exists i', def_name s = Some nm /\ parse_back k o (ce_pt ce) i di s = Ok i' /\ describes k i i' = true).
    { intros di. destruct (entry_describes_interface k o (ce_pt ce) nm i di Hg) as (s0 & i' & He & Hnm & _ & Hp & Hdd).
      rewrite ED in He. inversion He. subst s0. exists i'. repeat split; assumption. }
    destruct (Hall i) as (_ & Hnm & _).
    repeat split; try assumption; try reflexivity.
    intros di. destruct (Hall di) as (i' & _ & Hp & Hdd). exists i'. split; assumption.
Qed.

Lemma composed_names : forall to_code k o tpl ces names,
    names_of tpl (map (entry_of to_code k o tpl) ces) = GOk names ->
    Forall2 (fun ce n => format_name tpl (ce_name ce) = GOk n) ces names.
Proof.
  intros to_code k o tpl ces names H. apply GenFacts.names_of_spec in H.
  remember (map (entry_of to_code k o tpl) ces) as es eqn:E. revert ces E.
  induction H as [|e n es' ns' Hn _ IH]; intros ces E.
  - destruct ces; [constructor|discriminate E].
  - destruct ces as [|ce r]; [discriminate E|]. cbn [map] in E. inversion E. subst e es'.
    constructor; [exact Hn|apply IH; reflexivity].
Qed.

(* through the CLI with consistent options, gen is called on the very gen_in the entries were computed for *)
Lemma cli_of_run_same : forall x,
    ci_via x = ViaCli -> known_type (gi_type (ci_gen x)) = true -> prepend_consistent x = true ->
    route_opts_ok x = true ->
    exists c0, cli_gen (cli_of x) false = CliRun c0 /\ gen_in_of_call c0 (ci_gen x) = ci_gen x.
Proof.
  intros x HV HK HP HR. unfold prepend_consistent in HP. rewrite HV in HP.
  unfold route_opts_ok in HR. rewrite HV in HR. apply andb_true_iff in HR. destruct HR as [Hedd Hdl].
  unfold cli_gen, cli_of. cbn [ca_name_tpl ca_input_mapping ca_type ca_output_filename ca_prepend
                                ca_imports_from_file ca_emit_call ca_decorators].
  rewrite HK. cbn [negb].
  destruct (ci_gen x) as [tpl im mp ty pre imf pev [ec edd dl]] eqn:EG.
  cbn [gi_prepend gi_opts o_emit_default_doc o_decorator_list gi_name_tpl gi_input_mapping gi_type
       gi_imports_from_file o_emit_call] in *. subst edd.
  assert (Hd : match match dl with Some l => l | None => [] end with [] => None | a :: l => Some (a :: l) end = dl).
  { destruct dl as [[|a l]|]; [discriminate Hdl|reflexivity|reflexivity]. }
  destruct (ci_prepend_raw x) as [raw|]; destruct pre as [p|]; try discriminate HP.
  - destruct (decode_escape raw) as [p'|k]; [|discriminate HP]. apply PyStrFacts.str_eqb_eq in HP. subst p'.
    eexists. split; [reflexivity|]. unfold gen_in_of_call. cbn. rewrite Hd. reflexivity.
  - eexists. split; [reflexivity|]. unfold gen_in_of_call. cbn. rewrite Hd. reflexivity.
Qed.

(* C19_module_describes_interfaces *)
Theorem module_describes_interfaces : forall ps, python_like ps -> forall to_code c k x,
    ci_gen x = gen_in_of to_code c -> ci_existing x = None -> route_opts_ok x = true ->
    guard_C19 ps x = true ->
    kind_of (cg_type c) = Some k ->
    forallb (centry_guard k (cg_opts c) (cg_name_tpl c)) (centries_of c) = true ->
    exists g names header defs,
      fst (run_c19 ps x) = GOk g
      /\ snd (run_c19 ps x) = Some (g_written g)
      /\ Forall2 (fun ce n => format_name (cg_name_tpl c) (ce_name ce) = GOk n) (centries_of c) names
      /\ g_all g = names
      /\ header_of ps (ci_gen x) = Some header
      /\ ps (g_written g) = Some (hoist header ++ defs ++ [TAll names (all_text names)])
      /\ filter nonimp (hoist header ++ defs ++ [TAll names (all_text names)])
         = filter nonimp header ++ defs ++ [TAll names (all_text names)]
      /\ Forall2 (def_describes to_code k (cg_opts c) (cg_name_tpl c)) (centries_of c) defs
      /\ Forall2 is_def_named names defs.
Proof.
  intros ps PL to_code c k x EG EX HR G HK HCG. unfold guard_C19 in G.
  apply andb_true_iff in G. destruct G as [G GE]. apply andb_true_iff in G. destruct G as [GD _].
  destruct (GenFacts.domain_parts ps x GD) as [HKt [HD [HPC [[header HH] [HEv [HS [es [names [HM [HN [HSafe HW]]]]]]]]]]].
  rewrite EX in GE. cbn [is_some orb] in GE. unfold entries_of in GE. rewrite HM in GE.
  assert (HC : GenFacts.gen_conditions ps (ci_gen x) es names header).
  { unfold GenFacts.gen_conditions. repeat split; try assumption. exists header. exact HH. }
  destruct (gen_in_guard_exposed ps PL (ci_gen x) es names header HC)
    as (g & defs & Hg & Ha & Hh & Hw & Hp & Hni & Hnamed & Htops).
  assert (Hrun : fst (run_c19 ps x) = snd (gen ps (ci_gen x))
                 /\ snd (run_c19 ps x) = file_after None (snd (gen ps (ci_gen x)))).
  { unfold run_c19. destruct (ci_via x) eqn:EV.
    - rewrite EX. split; reflexivity.
    - destruct (cli_of_run_same x EV HKt HPC HR) as [c0 [Hc0 Hsame]].
      rewrite EX. cbn [is_some]. rewrite Hc0, Hsame. split; reflexivity. }
  destruct Hrun as [Hr1 Hr2]. rewrite Hg in Hr1, Hr2. cbn [file_after app] in Hr2.
  (* the mapping of x is the composed one *)
  rewrite EG in HM, HN, Htops. cbn [gen_in_of gi_mapping gi_name_tpl] in HM, HN, Htops.
  destruct (cg_mapping c) as [ces|xk] eqn:EM; [|discriminate HM]. inversion HM. subst es. clear HM.
  rewrite HK in HN, Htops.
  assert (Ecs : centries_of c = ces) by (unfold centries_of; rewrite EM; reflexivity).
  rewrite Ecs in *.
  exists g, names, header, defs.
  split; [exact Hr1|]. split; [exact Hr2|].
  split; [apply (composed_names to_code (Some k) (cg_opts c)); exact HN|].
  split; [exact Ha|]. split; [exact HH|].
  split; [rewrite Hp, Hh; reflexivity|].
  split; [rewrite <- Hh; exact Hni|].
  split; [apply composed_defs; assumption|exact Hnamed].
Qed.

(* ================================================================== Part 3: the hypotheses can be met *)
(* a rendering of definitions for the examples (to_code is an input of the theorems: any function will do) *)
Definition ex_to_code (s : stmt) : gout str :=
  match s with
  | SClass n _ _ _ => GOk (L "class " ++ n)
  | SFunc n _ _ _ _ => GOk (L "def " ++ n)
  | _ => GErr xTypeError
  end.

Definition ex_ir2 : ir :=
  mkIR FNone (Has (L "static")) (Has (L "Second class."))
       [(L "lr", mkG (Has (L "learning rate.")) (Has (L "float")) (Some (DV (VFloat (L "0.5")))));
        (L "name", mkG (Has (L "its name")) (Has (L "str")) None)]
       FNone None.

(* a function description inside the guard for the options gen passes (keyword-only arguments: every parameter has
   a default; default sentences on: the documented entries are the ** parameter and the return entry) *)
Definition ex_fir : ir :=
  mkIR (Has (L "f")) (Has (L "static")) (Has (L "Summary."))
       [(L "dataset_name", mkG Missing (Has (L "str")) (Some (DV (VStr (L "mnist")))));
        (L "lr", mkG Missing (Has (L "Optional[float]")) (Some (DV VNone)));
        (L "n", mkG Missing (Has (L "int")) (Some (DV (VInt (-5)%Z))));
        (L "flag", mkG Missing (Has (L "bool")) (Some (DV (VBool true))));
        (L "data_loader_kwargs", mkG (Has (L "passed on.")) (Has (L "Optional[dict]")) (Some (DV (VStr NoneStr))))]
       (Has (mkG (Has (L "the pair.")) (Has (L "Tuple[int, int]")) None)) None.

Definition ex_c (ty : str) (i1 i2 : ir) : cgen_in :=
  mkCGen (L "{name}Config") (L "m.M")
         (GOk [mkCE (L "Alpha") false (GOk i1) []; mkCE (L "Beta") false (GOk i2) []])
         ty None None None (mkOpts false true None).

Definition ex_tab : parse_table :=
  [(L "class AlphaConfig", Some [TDef true (L "AlphaConfig") (L "class AlphaConfig")]);
   (L "class BetaConfig", Some [TDef true (L "BetaConfig") (L "class BetaConfig")]);
   (L "def AlphaConfig", Some [TDef false (L "AlphaConfig") (L "def AlphaConfig")]);
   (L "def BetaConfig", Some [TDef false (L "BetaConfig") (L "def BetaConfig")])].

Definition ex_feat : entry_feat := mkFeat false true 2 1 true false false.

Definition ex_x (c : cgen_in) (via : route) : c19_in :=
  mkC19 via (gen_in_of ex_to_code c) None [ex_feat; ex_feat] None.

Definition ex_class : cgen_in := ex_c (L "class") C02DocLink.w_link_ok ex_ir2.
Definition ex_function : cgen_in := ex_c (L "function") ex_fir ex_fir.
Definition ex_argparse : cgen_in := ex_c (L "argparse") C04Compose.w4_ok C04Compose.w4_ok.

(* a two-entry mapping of class type (four and two attributes, defaults, an undocumented attribute, a return entry)
   meets every boolean hypothesis of module_describes_interfaces, by either route; its two generated classes round-trip *)
Lemma module_nonvacuous_class :
  guard_C19 (table_parse ex_tab) (ex_x ex_class ViaApi) = true
  /\ guard_C19 (table_parse ex_tab) (ex_x ex_class ViaCli) = true
  /\ route_opts_ok (ex_x ex_class ViaCli) = true
  /\ kind_of (cg_type ex_class) = Some GClass
  /\ forallb (centry_guard GClass (cg_opts ex_class) (cg_name_tpl ex_class)) (centries_of ex_class) = true
  /\ List.length (centries_of ex_class) = 2
  /\ map (fun ce => match ce_parsed ce with
                    | GOk i => entry_round_trip_b GClass (cg_opts ex_class) (ce_pt ce) (L "XConfig") i i
                    | GErr _ => false
                    end) (centries_of ex_class) = [true; true].
Proof. vm_compute. repeat split; reflexivity. Qed.

(* the same for the other two output types *)
Lemma module_nonvacuous_function_argparse :
  guard_C19 (table_parse ex_tab) (ex_x ex_function ViaApi) = true
  /\ kind_of (cg_type ex_function) = Some GFunction
  /\ forallb (centry_guard GFunction (cg_opts ex_function) (cg_name_tpl ex_function)) (centries_of ex_function) = true
  /\ guard_C19 (table_parse ex_tab) (ex_x ex_argparse ViaApi) = true
  /\ kind_of (cg_type ex_argparse) = Some GArgparse
  /\ forallb (centry_guard GArgparse (cg_opts ex_argparse) (cg_name_tpl ex_argparse)) (centries_of ex_argparse) = true
  /\ List.length (ir_params ex_fir) = 5 /\ List.length (ir_params C04Compose.w4_ok) = 11.
Proof. vm_compute. repeat split; reflexivity. Qed.

(* ---------------- a Python-like parser that knows definitions: all hypotheses at once ----------------
   GenFacts.toy_parse (imports and __all__ only) extended by lines  class <word>  and  def <word>: one definition
   named <word>.  It has every property listed in python_like, so module_describes_interfaces applies to the
   two-entry mapping above outright, and its conclusion is about a real run of the model. *)
Import PyStrFacts GenFacts.

Definition toy2_line (l : str) : option (list top) :=
  match l with
  | [] => Some []
  | _ =>
    if startswith (L "import ") l then
      (if no_space (skipn 7 l) then Some [TImport None l] else None)
    else if startswith (L "class ") l then
      (if no_space (skipn 6 l) then Some [TDef true (skipn 6 l) l] else None)
    else if startswith (L "def ") l then
      (if no_space (skipn 4 l) then Some [TDef false (skipn 4 l) l] else None)
    else if startswith (L "__all__ = [") l then Some [TAll (segs l false []) l]
    else None
  end.

Fixpoint toy2_lines (ls : list str) : option (list top) :=
  match ls with
  | [] => Some []
  | l :: r =>
    match toy2_line l, toy2_lines r with
    | Some a, Some b => Some (a ++ b)
    | _, _ => None
    end
  end.

Definition toy2_parse (s : str) : option (list top) := toy2_lines (lines s).

Lemma toy2_lines_app : forall x y,
    toy2_lines (x ++ y) = match toy2_lines x, toy2_lines y with
                          | Some a, Some b => Some (a ++ b)
                          | _, _ => None
                          end.
Proof.
  induction x as [|l r IH]; intros y.
  - cbn. destruct (toy2_lines y); reflexivity.
  - cbn [app toy2_lines]. rewrite IH. destruct (toy2_line l) as [a|]; [|reflexivity].
    destruct (toy2_lines r) as [b|]; [|reflexivity]. destruct (toy2_lines y) as [c|]; [|reflexivity].
    rewrite app_assoc. reflexivity.
Qed.

Lemma toy2_parse_single : forall l, no_nl l = true ->
    toy2_parse l = match toy2_line l with Some a => Some (a ++ []) | None => None end.
Proof.
  intros l H. unfold toy2_parse, lines. rewrite (lines_aux_no_nl l [] H). cbn [app toy2_lines].
  destruct (toy2_line l); reflexivity.
Qed.

Lemma toy2_line_wf : forall l tops, no_nl l = true -> toy2_line l = Some tops -> Forall (wf_top toy2_parse) tops.
Proof.
  intros l tops Hl H.
  assert (HP : toy2_parse l = Some (tops ++ [])) by (rewrite (toy2_parse_single l Hl), H; reflexivity).
  rewrite app_nil_r in HP.
  unfold toy2_line in H. destruct l as [|c r]; [inversion H; constructor|].
  destruct (startswith (L "import ") (c :: r)).
  { destruct (no_space (skipn 7 (c :: r))); [|discriminate H]. inversion H. subst tops.
    constructor; [split; exact HP|constructor]. }
  destruct (startswith (L "class ") (c :: r)).
  { destruct (no_space (skipn 6 (c :: r))); [|discriminate H]. inversion H. subst tops.
    constructor; [split; exact HP|constructor]. }
  destruct (startswith (L "def ") (c :: r)).
  { destruct (no_space (skipn 4 (c :: r))); [|discriminate H]. inversion H. subst tops.
    constructor; [split; exact HP|constructor]. }
  destruct (startswith (L "__all__ = [") (c :: r)); [|discriminate H]. inversion H. subst tops.
  constructor; [split; exact HP|constructor].
Qed.

Lemma toy2_lines_wf : forall ls tops, Forall (fun l => no_nl l = true) ls -> toy2_lines ls = Some tops ->
    Forall (wf_top toy2_parse) tops.
Proof.
  induction ls as [|l r IH]; intros tops Hn H.
  - inversion H. constructor.
  - inversion Hn as [|x y Hl Hr]; subst. cbn [toy2_lines] in H.
    destruct (toy2_line l) as [a|] eqn:Ea; [|discriminate H].
    destruct (toy2_lines r) as [b|] eqn:Eb; [|discriminate H]. inversion H. subst tops.
    apply Forall_app. split; [apply (toy2_line_wf l a Hl Ea)|apply (IH b Hr eq_refl)].
Qed.

Lemma toy2_line_all : forall l, startswith (L "__all__ = [") l = true ->
    toy2_line l = Some [TAll (segs l false []) l].
Proof.
  intros l H. apply startswith_iff in H. destruct H as [r Hr]. subst l. reflexivity.
Qed.

Lemma toy2_all : forall names, forallb safe_name names = true ->
    toy2_parse (all_text names) = Some [TAll names (all_text names)].
Proof.
  intros names H.
  assert (HQ : forallb quote_free names = true /\ forallb no_nl names = true).
  { induction names as [|n r IH]; [split; reflexivity|].
    cbn in H. apply andb_true_iff in H. destruct H as [Hn Hr]. destruct (IH Hr) as [A B].
    destruct (safe_name_facts n Hn) as [C D]. cbn. rewrite A, B, C, D. split; reflexivity. }
  destruct HQ as [HQ HN].
  assert (Hnl : no_nl (all_text names) = true).
  { unfold all_text. rewrite !no_nl_app, (no_nl_items names HN). reflexivity. }
  rewrite (toy2_parse_single _ Hnl).
  assert (HS : segs (all_text names) false [] = names).
  { unfold all_text. rewrite (segs_outside_quote_free (L "__all__ = [") eq_refl).
    apply segs_items; [exact HQ|reflexivity]. }
  rewrite (toy2_line_all (all_text names)) by (unfold all_text; apply startswith_app).
  rewrite HS. reflexivity.
Qed.

Theorem python_like_toy2 : python_like toy2_parse.
Proof.
  constructor.
  - reflexivity.
  - intros a b ta tb Ha Hb. unfold toy2_parse, lines in *.
    rewrite lines_aux_app_nl, toy2_lines_app, Ha, Hb. reflexivity.
  - intros b. unfold toy2_parse, lines. cbn [lines_aux]. rewrite ascii_eqb_refl. cbn [toy2_lines toy2_line].
    destruct (toy2_lines (lines_aux b [])); reflexivity.
  - intros a. unfold toy2_parse, lines. rewrite lines_aux_app_nl, toy2_lines_app. cbn.
    destruct (toy2_lines (lines_aux a [])) as [t|]; [rewrite app_nil_r|]; reflexivity.
  - intros s tops H. unfold toy2_parse in H. apply (toy2_lines_wf (lines s)); [|exact H].
    apply lines_aux_elems. reflexivity.
  - exact toy2_all.
Qed.

(* all hypotheses of module_describes_interfaces hold together, a prepended import included *)
Definition ex_class_imp : cgen_in :=
  mkCGen (L "{name}Config") (L "m.M")
         (GOk [mkCE (L "Alpha") false (GOk C02DocLink.w_link_ok) []; mkCE (L "Beta") false (GOk ex_ir2) []])
         (L "class") (Some (L "import os")) None None (mkOpts false true None).

Lemma module_all_hypotheses :
  python_like toy2_parse
  /\ guard_C19 toy2_parse (ex_x ex_class_imp ViaApi) = true
  /\ route_opts_ok (ex_x ex_class_imp ViaApi) = true
  /\ kind_of (cg_type ex_class_imp) = Some GClass
  /\ forallb (centry_guard GClass (cg_opts ex_class_imp) (cg_name_tpl ex_class_imp)) (centries_of ex_class_imp) = true.
Proof. split; [exact python_like_toy2|]. vm_compute. repeat split; reflexivity. Qed.

(* ... and the run the theorem speaks about, computed: import first, the two classes in mapping order, __all__ *)
Lemma module_example_run :
  option_map g_written (match fst (run_c19 toy2_parse (ex_x ex_class_imp ViaApi)) with GOk g => Some g | GErr _ => None end)
  = Some (L "import os" ++ [nl; nl] ++ L "class AlphaConfig" ++ [nl; nl] ++ L "class BetaConfig" ++ [nl]
            ++ L "__all__ = ['AlphaConfig', 'BetaConfig']").
Proof. vm_compute. reflexivity. Qed.

(* the theorem applies to it *)
Lemma module_example_conclusion :
  let x := ex_x ex_class_imp ViaApi in
  let c := ex_class_imp in
  exists g names header defs,
    fst (run_c19 toy2_parse x) = GOk g
    /\ snd (run_c19 toy2_parse x) = Some (g_written g)
    /\ names = [L "AlphaConfig"; L "BetaConfig"]
    /\ g_all g = names
    /\ header = [TImport None (L "import os")]
    /\ toy2_parse (g_written g) = Some (hoist header ++ defs ++ [TAll names (all_text names)])
    /\ Forall2 (def_describes ex_to_code GClass (cg_opts c) (cg_name_tpl c)) (centries_of c) defs.
Proof.
  intros x c.
  destruct module_all_hypotheses as (PL & HG & HR & HK & HC).
  destruct (module_describes_interfaces toy2_parse PL ex_to_code c GClass x eq_refl eq_refl HR HG HK HC)
    as (g & names & header & defs & H1 & H2 & H3 & H4 & H5 & H6 & _ & H8 & _).
  exists g, names, header, defs.
  assert (En : names = [L "AlphaConfig"; L "BetaConfig"]).
  { unfold c, ex_class_imp, centries_of in H3. cbn [cg_mapping cg_name_tpl] in H3.
    inversion H3 as [|a b l l' Ha Hl]; subst. inversion Hl as [|a2 b2 l2 l2' Ha2 Hl2]; subst. inversion Hl2; subst.
    cbn [ce_name] in Ha, Ha2. vm_compute in Ha, Ha2. inversion Ha. inversion Ha2. reflexivity. }
  assert (Eh : header = [TImport None (L "import os")]).
  { vm_compute in H5. inversion H5. reflexivity. }
  repeat split; assumption.
Qed.

(* ---------------- the side conditions of the argparse kind are needed ---------------- *)
(* a help text longer than the wrapping width: emit.argparse_function (word_wrap=True, its default, which gen
   uses) re-flows it, parse.argparse_ast reads the line break back.  Inside guard_C04_ast, outside
   argparse_help_nowrap; the generated function does not describe the same interface (the prose differs).
   Confirmed on the real code. *)
Definition long_help : str :=
  L "aaaaaaaaaaaaaaaaaaaaaaaaaaaaaaaaaaaaaaaaaaaaaaaaaaaaaaaaaaaaaaaaaaaaaaaaaaaaaaaaaaaaaaaaaaaaaaaaaa bbbbbbbbbbbbbbbbbbbbbbbbbbbbbbbbbbbbbbbbbbbbbbbbbbbbbbbbbbbbbbbbbbbbbbbbbbbbbbbb".

Definition w_wrap : ir :=
  mkIR (Has (L "f")) (Has (L "static")) (Has (L "Summary."))
       [(L "n", mkG (Has long_help) (Has (L "int")) (Some (DV (VInt 5))))] FNone None.

Lemma argparse_wrap_witness :
  guard_C04_ast w_wrap = true /\ argparse_help_nowrap w_wrap = false
  /\ is_Ok (argparse_docstring_text gen_width w_wrap) = true
  /\ entry_round_trip_b GArgparse (mkOpts false true None) [] (L "set_cli_args") w_wrap w_wrap = false
  /\ match entry_def GArgparse (mkOpts false true None) [] (L "set_cli_args") w_wrap with
     | Ok s => match parse_back GArgparse (mkOpts false true None) [] w_wrap w_wrap s with
               | Ok i' => option_map (fun g => negb (mem_c nl long_help) && match g_doc g with Has d => mem_c nl d | _ => false end)
                                     (od_get (L "n") (ir_params i')) = Some true
               | Err _ => False
               end
     | Err _ => False
     end.
Proof. vm_compute. repeat split; reflexivity. Qed.

(* an empty generated name: emit.argparse_function falls back on the name inside the IR *)
Lemma argparse_empty_name_witness :
  entry_guard GArgparse (mkOpts false true None) [] (L "x") C04Compose.w4_ok = true
  /\ entry_round_trip_b GArgparse (mkOpts false true None) [] [] C04Compose.w4_ok C04Compose.w4_ok = false.
Proof. vm_compute. split; reflexivity. Qed.

(* ---------------- ... and of the class kind ---------------- *)
(* emit_call with a return entry that has no default: emit.class_ raises KeyError (confirmed on the real code);
   the description is inside guard_C02_ast and doc_link_ok *)
Lemma class_emit_call_witness :
  guard_C02_ast C02DocLink.w_link_ok = true
  /\ C02DocLinkDefs.doc_link_ok gen_width true true C02DocLink.w_link_ok = true
  /\ entry_guard GClass (mkOpts false true None) [] (L "XConfig") C02DocLink.w_link_ok = true
  /\ entry_guard GClass (mkOpts true true None) [] (L "XConfig") C02DocLink.w_link_ok = false
  /\ entry_def GClass (mkOpts true true None) [] (L "XConfig") C02DocLink.w_link_ok = Err KeyError
  /\ entry_guard GClass (mkOpts true true None) [] (L "XConfig") ex_ir2 = true.
Proof. vm_compute. repeat split; reflexivity. Qed.

(* emit.argparse_function at its default word_wrap=True builds the tree of word_wrap=False inside guard_C04_ast when
   no help text is re-flowed: C04_partial (stated for word_wrap off) covers the default *)
Lemma argparse_word_wrap_default : forall pt i edd fn ft wd ds,
  guard_C04_ast i = true -> argparse_help_nowrap i = true ->
  emit_argparse pt i edd fn ft wd true ds = emit_argparse pt i edd fn ft wd false ds.
Proof. intros pt i edd fn ft wd ds Hg Hw. apply emit_argparse_ww. apply argparse_guard_ww; assumption. Qed.
