(* Facts about the refined C14 classifier (model/C14Spec2.v). *)
From Coq Require Import List Ascii Bool Arith ZArith.
From Coq Require String.
Import String.StringSyntax.
From DT Require Import PyStr PyVal PyAst Locate SyncProps C14Spec C14Spec2.
Import ListNotations.

(* the refinement only ever adds the one new class: an old class is kept as it is *)
Lemma finding_class_C14_r_adds : forall x after c,
    finding_class_C14_r x after = Some c ->
    (exists k, finding_class_C14 x = Some k /\ c = K14r_old k)
    \/ (finding_class_C14 x = None /\ c = K14r_other_docstring_reformatted).
Proof.
  intros x after c H. unfold finding_class_C14_r in H.
  destruct (finding_class_C14 x) as [k|].
  - left. exists k. injection H as H. split; [reflexivity|symmetry; exact H].
  - right. split; [reflexivity|]. unfold new_class_C14 in H.
    destruct after as [t|]; [|discriminate H].
    destruct (addresses_resolve x && docstrings_only_differ x t); [|discriminate H].
    injection H as H. symmetry. exact H.
Qed.

Lemma finding_class_C14_r_old : forall x after k,
    finding_class_C14 x = Some k -> finding_class_C14_r x after = Some (K14r_old k).
Proof. intros x after k H. unfold finding_class_C14_r. rewrite H. reflexivity. Qed.

(* the name of a kept class is the old name: KNOWN_FINDINGS lines of the old classes stay valid *)
Lemma class_name_C14_r_old : forall k, class_name_C14_r (K14r_old k) = class_name_C14 k.
Proof. reflexivity. Qed.

(* without the written file the refined classifier is the old one *)
Lemma finding_class_C14_r_no_file : forall x,
    finding_class_C14_r x None = option_map K14r_old (finding_class_C14 x).
Proof. intros x. unfold finding_class_C14_r. destruct (finding_class_C14 x); reflexivity. Qed.

(* the new class is given only when the written file differs from the original output module outside the addressed
   positions, and only in docstrings that have one normal form: the two masked modules are equal after norm_module *)
Lemma new_class_C14_only_docstrings : forall x t,
    finding_class_C14_r x (Some t) = Some K14r_other_docstring_reformatted ->
    addresses_resolve x = true
    /\ list_eqb stmt_eqb (mask_module (somes (out_positions x)) (ci_out x)) (mask_module (somes (out_positions x)) t) = false
    /\ list_eqb stmt_eqb (norm_module (mask_module (somes (out_positions x)) (ci_out x)))
                         (norm_module (mask_module (somes (out_positions x)) t)) = true.
Proof.
  intros x t H. unfold finding_class_C14_r in H.
  destruct (finding_class_C14 x) as [k|]; [discriminate H|].
  unfold new_class_C14 in H.
  destruct (addresses_resolve x) eqn:Ha; cbn [andb] in H; [|discriminate H].
  destruct (docstrings_only_differ x t) eqn:Hd; [|discriminate H].
  unfold docstrings_only_differ in Hd. apply andb_true_iff in Hd. destruct Hd as [H1 H2].
  apply negb_true_iff in H1. repeat split; assumption.
Qed.

(* a written file that equals the original outside the addressed positions is in no new class *)
Lemma new_class_C14_needs_difference : forall x t,
    list_eqb stmt_eqb (mask_module (somes (out_positions x)) (ci_out x)) (mask_module (somes (out_positions x)) t) = true ->
    new_class_C14 x (Some t) = None.
Proof.
  intros x t H. unfold new_class_C14, docstrings_only_differ. rewrite H. cbn [negb andb].
  rewrite andb_false_r. reflexivity.
Qed.

(* the refined guard is inside the old one: every theorem stated under guard_C14 holds under guard_C14_r *)
Lemma guard_C14_r_inside : forall x after, guard_C14_r x after = true -> guard_C14 x = true.
Proof.
  intros x after H. unfold guard_C14_r in H. unfold guard_C14.
  apply andb_true_iff in H. destruct H as [Hd Hc]. rewrite Hd. cbn [andb].
  unfold finding_class_C14_r in Hc. destruct (finding_class_C14 x) as [k|]; [discriminate Hc|reflexivity].
Qed.

(* ------------------------------------------------------------------ witnesses (each replayed on /repo) *)
(* input file `a: str = 1`, pair a -> x, no template *)
Definition wd_in : module := [SAnnAssign (EName (L "a")) (EName (L "str")) (Some (EConst (VInt 1)))].
Definition wd_x : stmt := SAnnAssign (EName (L "x")) (EName (L "int")) (Some (EConst (VInt 0))).
Definition wd_a : stmt := SAnnAssign (EName (L "a")) (EName (L "str")) (Some (EConst (VInt 1))).
Definition wd_env : sp_env := mkEnv [(EName (L "str"), L "str")] [].

Definition wd_g (doc : str) : stmt :=
  SFunc (L "g") (mkArguments [mkArg (L "c") (Some (EName (L "int")))] [] [] [] None None)
        [SExpr (EConst (VStr doc)); SReturn (Some (EName (L "c")))] [] None.

Definition wd_D (doc : str) : stmt := SClass (L "D") [] [SExpr (EConst (VStr doc)); wd_x] [].

Definition wd_call (out : module) : c14_input := mkC14 wd_env false wd_in [L "a"] out [L "x"] None [].

Definition nl1 : str := [nl].

(* blanks that end a line of a function docstring:  def g(c: int): <g doc___ / more>  comes back <g doc / more> *)
Definition wd1_out : module := [wd_g (L "g doc   " ++ nl1 ++ L "    more"); wd_x].
Definition wd1_after : module := [wd_g (L "g doc" ++ nl1 ++ L "    more"); wd_a].

Lemma trailing_blanks_classified :
  C14_domain (wd_call wd1_out) = true
  /\ finding_class_C14 (wd_call wd1_out) = None
  /\ C14_at_b (wd_call wd1_out) = true
  /\ finding_class_C14_r (wd_call wd1_out) (Some wd1_after) = Some K14r_other_docstring_reformatted.
Proof. vm_compute. repeat split; reflexivity. Qed.

(* a line of blanks only inside a function docstring comes back empty *)
Definition wd2_out : module := [wd_g (L "g doc" ++ nl1 ++ L "      " ++ nl1 ++ L "    more"); wd_x].
Definition wd2_after : module := [wd_g (L "g doc" ++ nl1 ++ nl1 ++ L "    more"); wd_a].

Lemma blank_only_line_classified :
  C14_domain (wd_call wd2_out) = true
  /\ finding_class_C14 (wd_call wd2_out) = None
  /\ C14_at_b (wd_call wd2_out) = true
  /\ finding_class_C14_r (wd_call wd2_out) (Some wd2_after) = Some K14r_other_docstring_reformatted.
Proof. vm_compute. repeat split; reflexivity. Qed.

(* an over-indented continuation line of a class docstring is moved to the indentation of the block *)
Definition wd3_out : module := [wd_D (L "Doc" ++ nl1 ++ L "      indented" ++ nl1 ++ L "    "); wd_x].
Definition wd3_after : module := [wd_D (L "Doc" ++ nl1 ++ L "    indented" ++ nl1 ++ L "    "); wd_a].

Lemma over_indented_line_classified :
  C14_domain (wd_call wd3_out) = true
  /\ finding_class_C14 (wd_call wd3_out) = None
  /\ C14_at_b (wd_call wd3_out) = true
  /\ finding_class_C14_r (wd_call wd3_out) (Some wd3_after) = Some K14r_other_docstring_reformatted.
Proof. vm_compute. repeat split; reflexivity. Qed.

(* not in the class: a docstring whose WORDS change; a string constant that is not a docstring (the BANNER of seeded
   change C14-10) although the same blanks are lost; a changed statement next to a reformatted docstring *)
Lemma changed_words_unclassified :
  finding_class_C14_r (wd_call wd1_out) (Some [wd_g (L "g doc" ++ nl1 ++ L "    less"); wd_a]) = None.
Proof. vm_compute. reflexivity. Qed.

Definition wd_banner (s : str) : stmt := SAssign [EName (L "BANNER")] (EConst (VStr s)).

Lemma text_constant_unclassified :
  finding_class_C14_r (wd_call [wd_banner (L "Usage:" ++ nl1 ++ L "    " ++ nl1 ++ L "  run"); wd_x])
                      (Some [wd_banner (L "Usage:" ++ nl1 ++ nl1 ++ L "  run"); wd_a]) = None.
Proof. vm_compute. reflexivity. Qed.

Lemma docstring_and_statement_unclassified :
  finding_class_C14_r (wd_call (wd_banner (L "v") :: wd1_out)) (Some (wd_banner (L "w") :: wd1_after)) = None.
Proof. vm_compute. reflexivity. Qed.

(* the same call when black has nothing to reformat: the files agree outside the addressed position, no class *)
Lemma stable_docstring_unclassified :
  finding_class_C14_r (wd_call [wd_g (L "g doc" ++ nl1 ++ L "    more"); wd_x])
                      (Some [wd_g (L "g doc" ++ nl1 ++ L "    more"); wd_a]) = None.
Proof. vm_compute. reflexivity. Qed.
