(* Facts about the refined C03 classifier (model/C03Spec2.v). *)
From Coq Require Import List Ascii Bool Arith ZArith.
From Coq Require String.
Import String.StringSyntax.
From DT Require Import PyStr PyVal Defaults IR C03Spec C02Spec2 C03Spec2 C03DocLinkDefs C03DocLinkMain.
From DT Require EmitAst C02Spec.
Import ListNotations.

Definition is_new3 (c : c03_class_r) : Prop :=
  c = K3r_prose_exotic_blank \/ c = K3r_type_text_unsafe \/ c = K3r_summary_section.

(* the list of all new classes that apply holds only new classes *)
Lemma new_classes_C03_new : forall o i c, In c (new_classes_C03 o i) -> is_new3 c.
Proof.
  intros o i c H. unfold new_classes_C03 in H.
  apply in_app_or in H. destruct H as [H|H].
  - destruct (_ || _); cbn [In] in H; [|contradiction]. destruct H as [H|[]]. left. symmetry. exact H.
  - apply in_app_or in H. destruct H as [H|H].
    + destruct (_ || _); cbn [In] in H; [|contradiction]. destruct H as [H|[]]. right. left. symmetry. exact H.
    + destruct (_ && _); cbn [In] in H; [|contradiction]. destruct H as [H|[]]. right. right. symmetry. exact H.
Qed.

(* the refinement only ever adds the three new classes: an old class is kept as it is *)
Lemma finding_class_C03_r_adds : forall o i c,
    finding_class_C03_r o i = Some c ->
    (exists k, finding_class_C03 o i = Some k /\ c = K3r_old k)
    \/ (finding_class_C03 o i = None /\ is_new3 c).
Proof.
  intros o i c H. unfold finding_class_C03_r in H.
  destruct (finding_class_C03 o i) as [k|].
  - left. exists k. injection H as H. split; [reflexivity|symmetry; exact H].
  - right. split; [reflexivity|]. unfold new_class_C03 in H.
    apply (new_classes_C03_new o i). destruct (new_classes_C03 o i) as [|c0 l]; [discriminate H|].
    cbn [hd_error] in H. injection H as H. left. exact H.
Qed.

Lemma finding_class_C03_r_old : forall o i k,
    finding_class_C03 o i = Some k -> finding_class_C03_r o i = Some (K3r_old k).
Proof. intros o i k H. unfold finding_class_C03_r. rewrite H. reflexivity. Qed.

(* the name of a kept class is the old name: KNOWN_FINDINGS lines of the old classes stay valid *)
Lemma c03_class_r_name_old : forall k, c03_class_r_name (K3r_old k) = c03_class_name k.
Proof. reflexivity. Qed.

(* the refined guard is inside the old one: every theorem stated under guard_C03 holds under guard_C03_r *)
Lemma guard_C03_r_inside : forall o i, guard_C03_r o i = true -> guard_C03 o i = true.
Proof.
  intros o i H. unfold guard_C03_r in H. unfold guard_C03.
  apply andb_true_iff in H. destruct H as [Hd Hc]. rewrite Hd. cbn [andb].
  unfold finding_class_C03_r in Hc. destruct (finding_class_C03 o i) as [k|]; [discriminate Hc|reflexivity].
Qed.

(* nothing_documented is the negation of the clause has_documented of doc_link_ok *)
Lemma nothing_documented_spec : forall i, nothing_documented i = negb (has_documented i).
Proof. intros i. reflexivity. Qed.

(* inside the refined guard the clauses of doc_link_ok that have a failing input hold, except the trailing backslash
   (which is being repaired in /repo): prose has no line boundary other than the line feed ... *)
Lemma guard_C03_r_no_exotic_prose : forall o i n g,
    guard_C03_r o i = true -> In (n, g) (ir_params i) -> exotic_prose3 g = false.
Proof.
  intros o i n g H Hin. unfold guard_C03_r in H. apply andb_true_iff in H. destruct H as [_ Hc].
  unfold finding_class_C03_r in Hc. destruct (finding_class_C03 o i) as [k|]; [discriminate Hc|].
  unfold new_class_C03, new_classes_C03 in Hc.
  destruct (existsb (fun kv => exotic_prose3 (snd kv)) (ir_params i)) eqn:E.
  - cbn [orb app hd_error] in Hc. discriminate Hc.
  - destruct (exotic_prose3 g) eqn:Eg; [|reflexivity].
    assert (Hex : existsb (fun kv => exotic_prose3 (snd kv)) (ir_params i) = true).
    { apply existsb_exists. exists (n, g). split; [exact Hin|exact Eg]. }
    rewrite Hex in E. discriminate E.
Qed.

(* ---- one witness per hole: unnamed by the old classifier, named by the refined one, inside the domain, and the
        docstring link fails on it in the model (the same inputs fail on the real code) ---- *)

(* prose with a form feed: the second witness of C03DocLinkMain.link_witnesses *)
Definition w3_formfeed : ir := lw_ir (mkG (Has (L "a" ++ [ch 12] ++ L "b")) (Has (L "str")) (Some (DV (VStr (L "x"))))).

Lemma exotic_blank_classified :
  finding_class_C03 lw_inline w3_formfeed = None
  /\ finding_class_C03_r lw_inline w3_formfeed = Some K3r_prose_exotic_blank
  /\ C03_domain lw_inline w3_formfeed = true
  /\ doc_link_b 100 lw_inline w3_formfeed = false.
Proof. vm_compute. repeat split; reflexivity. Qed.

(* a ReST field token inside a type written into the docstring: the third witness of link_witnesses *)
Definition w3_typ_token : ir := lw_ir (mkG (Has (L "the a.")) (Has (L "Literal[':type']")) (Some (DV VNone))).

Lemma typ_token_classified :
  finding_class_C03 lw_doctyp w3_typ_token = None
  /\ finding_class_C03_r lw_doctyp w3_typ_token = Some K3r_type_text_unsafe
  /\ C03_domain lw_doctyp w3_typ_token = true
  /\ doc_link_b 100 lw_doctyp w3_typ_token = false
  (* with the type in the signature the text is never written into the docstring: not in the class *)
  /\ finding_class_C03_r lw_inline w3_typ_token = None.
Proof. vm_compute. repeat split; reflexivity. Qed.

(* a line break inside such a type text; a leading ** *)
Definition w3_typ_newline : ir :=
  lw_ir (mkG (Has (L "the a.")) (Has (L "List[" ++ [nl] ++ L "int]")) (Some (DV (VStr (L "```[1]```"))))).
Definition w3_typ_kwargs : ir := lw_ir (mkG (Has (L "the a.")) (Has (L "**int")) (Some (DV VNone))).

Lemma typ_newline_classified :
  finding_class_C03 lw_doctyp w3_typ_newline = None
  /\ finding_class_C03_r lw_doctyp w3_typ_newline = Some K3r_type_text_unsafe
  /\ C03_domain lw_doctyp w3_typ_newline = true.
Proof. vm_compute. repeat split; reflexivity. Qed.

Lemma typ_kwargs_classified :
  finding_class_C03 lw_doctyp w3_typ_kwargs = None
  /\ finding_class_C03_r lw_doctyp w3_typ_kwargs = Some K3r_type_text_unsafe
  /\ C03_domain lw_doctyp w3_typ_kwargs = true.
Proof. vm_compute. repeat split; reflexivity. Qed.

(* no documented entry and a summary that is a Google section *)
Definition w3_summary_section : ir :=
  mkIR FNone (Has (L "static")) (Has (L "Returns:" ++ [nl] ++ L "  int"))
       [(L "a", mkG Missing (Has (L "int")) (Some (DV (VInt 5))))] FNone None.

Lemma summary_section_classified :
  finding_class_C03 lw_inline w3_summary_section = None
  /\ finding_class_C03_r lw_inline w3_summary_section = Some K3r_summary_section
  /\ C03_domain lw_inline w3_summary_section = true.
Proof. vm_compute. repeat split; reflexivity. Qed.

(* the same summary above a documented parameter is read as ReST: not in the class; and no documented entry under a
   plain summary (the fourth witness of link_witnesses: the link fails, the round trip does not) is not in it either *)
Lemma summary_section_needs_both :
  finding_class_C03_r lw_inline
    (mkIR FNone (Has (L "static")) (Has (L "Returns:" ++ [nl] ++ L "  int"))
          [(L "a", mkG (Has (L "the a.")) (Has (L "int")) (Some (DV (VInt 5))))] FNone None) = None
  /\ finding_class_C03_r lw_inline (lw_ir (mkG Missing (Has (L "int")) (Some (DV (VInt 5))))) = None.
Proof. vm_compute. repeat split; reflexivity. Qed.
