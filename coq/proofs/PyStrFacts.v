(* PyStrFacts: reusable lemmas about the PyStr model (equality tests, startswith/endswith, find,
   casefold, strip, firstn/skipn/slice, decimal printing).  Proofs only. *)
From Coq Require Import List Ascii Bool Arith ZArith NArith Lia.
From Coq Require String.
Import String.StringSyntax.
From DT Require Import PyStr.
Import ListNotations.

(* ------------------------------------------------------------------ *)
(* character and string equality                                       *)
(* ------------------------------------------------------------------ *)

Lemma ascii_eqb_eq : forall a b, ascii_eqb a b = true <-> a = b.
Proof. intros a b. unfold ascii_eqb. apply Ascii.eqb_eq. Qed.

Lemma ascii_eqb_refl : forall a, ascii_eqb a a = true.
Proof. intros a. apply ascii_eqb_eq. reflexivity. Qed.

Lemma ascii_eqb_neq : forall a b, ascii_eqb a b = false <-> a <> b.
Proof. intros a b. unfold ascii_eqb. apply Ascii.eqb_neq. Qed.

Lemma ascii_eqb_sym : forall a b, ascii_eqb a b = ascii_eqb b a.
Proof. intros a b. unfold ascii_eqb. apply Ascii.eqb_sym. Qed.

Lemma str_eqb_eq : forall a b, str_eqb a b = true <-> a = b.
Proof.
  induction a as [|x a IHa]; intros [|y b]; cbn [str_eqb]; split; intros H;
    try reflexivity; try discriminate.
  - apply andb_true_iff in H. destruct H as [Hxy Hab].
    apply ascii_eqb_eq in Hxy. apply IHa in Hab. subst. reflexivity.
  - injection H as Hxy Hab. apply andb_true_iff. split.
    + apply ascii_eqb_eq. exact Hxy.
    + apply IHa. exact Hab.
Qed.

Lemma str_eqb_refl : forall a, str_eqb a a = true.
Proof. intros a. apply str_eqb_eq. reflexivity. Qed.

Lemma str_eqb_neq : forall a b, str_eqb a b = false <-> a <> b.
Proof.
  intros a b. split.
  - intros H E. apply str_eqb_eq in E. rewrite E in H. discriminate.
  - intros H. destruct (str_eqb a b) eqn:E; [|reflexivity].
    apply str_eqb_eq in E. contradiction.
Qed.

Lemma str_eqb_sym : forall a b, str_eqb a b = str_eqb b a.
Proof.
  intros a b. destruct (str_eqb a b) eqn:E.
  - apply str_eqb_eq in E. subst. symmetry. apply str_eqb_refl.
  - apply str_eqb_neq in E. symmetry. apply str_eqb_neq. congruence.
Qed.

(* a string all of whose characters satisfy P differs from one that has a character outside P *)
Lemma str_eqb_forallb_false : forall (P : ascii -> bool) s x,
    forallb P s = true -> forallb P x = false -> str_eqb s x = false.
Proof.
  intros P s x Hs Hx. apply str_eqb_neq. intros E. subst. congruence.
Qed.

(* ------------------------------------------------------------------ *)
(* membership                                                           *)
(* ------------------------------------------------------------------ *)

Lemma mem_c_In : forall c cs, mem_c c cs = true <-> In c cs.
Proof.
  intros c cs. unfold mem_c. rewrite existsb_exists. split.
  - intros [x [Hin Hx]]. apply ascii_eqb_eq in Hx. subst. exact Hin.
  - intros Hin. exists c. split; [exact Hin|apply ascii_eqb_refl].
Qed.

Lemma mem_c_app : forall c a b, mem_c c (a ++ b) = mem_c c a || mem_c c b.
Proof. intros c a b. unfold mem_c. apply existsb_app. Qed.

Lemma mem_c_cons : forall c x r, mem_c c (x :: r) = ascii_eqb c x || mem_c c r.
Proof. reflexivity. Qed.

(* ------------------------------------------------------------------ *)
(* head and last characters                                             *)
(* ------------------------------------------------------------------ *)

Lemma last_c_app_single : forall s c, last_c (s ++ [c]) = Some c.
Proof. intros s c. unfold last_c. rewrite rev_app_distr. reflexivity. Qed.

Lemma last_c_spec : forall s c, last_c s = Some c <-> exists r, s = r ++ [c].
Proof.
  intros s c. split.
  - unfold last_c. intros H. destruct (rev s) as [|x r] eqn:E; [discriminate|].
    injection H as Hx. subst x. exists (rev r).
    rewrite <- (rev_involutive s). rewrite E. reflexivity.
  - intros [r Hr]. subst. apply last_c_app_single.
Qed.

Lemma last_c_nil_iff : forall s, last_c s = None <-> s = [].
Proof.
  intros s. split.
  - unfold last_c. intros H. destruct (rev s) as [|x r] eqn:E; [|discriminate].
    rewrite <- (rev_involutive s). rewrite E. reflexivity.
  - intros H. subst. reflexivity.
Qed.

Lemma last_c_cons_cons : forall a b r, last_c (a :: b :: r) = last_c (b :: r).
Proof.
  intros a b r. destruct (last_c (b :: r)) as [c|] eqn:E.
  - apply last_c_spec in E. destruct E as [q Hq]. rewrite Hq.
    change (a :: q ++ [c]) with ((a :: q) ++ [c]). apply last_c_app_single.
  - apply last_c_nil_iff in E. discriminate.
Qed.

Lemma last_c_In : forall s c, last_c s = Some c -> In c s.
Proof.
  intros s c H. apply last_c_spec in H. destruct H as [r Hr]. subst.
  apply in_or_app. right. left. reflexivity.
Qed.

Lemma last_c_app_nonnil : forall a b, b <> [] -> last_c (a ++ b) = last_c b.
Proof.
  intros a b Hb. destruct (last_c b) as [c|] eqn:E.
  - apply last_c_spec in E. destruct E as [r Hr]. subst b.
    rewrite app_assoc. apply last_c_app_single.
  - apply last_c_nil_iff in E. contradiction.
Qed.

(* ------------------------------------------------------------------ *)
(* firstn / skipn / slice                                               *)
(* ------------------------------------------------------------------ *)

Lemma firstn_app_exact : forall (a b : str), firstn (List.length a) (a ++ b) = a.
Proof. induction a as [|x a IHa]; intros b; cbn; [reflexivity|]. rewrite IHa. reflexivity. Qed.

Lemma skipn_app_exact : forall (a b : str), skipn (List.length a) (a ++ b) = b.
Proof. induction a as [|x a IHa]; intros b; cbn; [reflexivity|]. apply IHa. Qed.

Lemma skipn_app_exact_plus : forall (a b : str) n,
    skipn (List.length a + n) (a ++ b) = skipn n b.
Proof. induction a as [|x a IHa]; intros b n; cbn; [reflexivity|]. apply IHa. Qed.

Lemma firstn_app_exact_plus : forall (a b : str) n,
    firstn (List.length a + n) (a ++ b) = a ++ firstn n b.
Proof. induction a as [|x a IHa]; intros b n; cbn; [reflexivity|]. rewrite IHa. reflexivity. Qed.

Lemma skipn_length_all : forall (s : str), skipn (List.length s) s = [].
Proof. intros s. apply skipn_all. Qed.

Lemma slice_0 : forall s n, slice s 0 n = firstn n s.
Proof. intros s n. unfold slice. rewrite Nat.sub_0_r. reflexivity. Qed.

Lemma slice_app_mid : forall a b c : str,
    slice (a ++ b ++ c) (List.length a) (List.length a + List.length b) = b.
Proof.
  intros a b c. unfold slice. rewrite skipn_app_exact.
  replace (List.length a + List.length b - List.length a) with (List.length b) by lia.
  apply firstn_app_exact.
Qed.

Lemma slice_length_le : forall s a b, List.length (slice s a b) <= b - a.
Proof. intros s a b. unfold slice. apply firstn_le_length. Qed.

Lemma skipn_add : forall (s : str) i n, skipn n (skipn i s) = skipn (i + n) s.
Proof.
  intros s i. revert s. induction i as [|i IHi]; intros s n; [reflexivity|].
  destruct s as [|c s]; cbn [skipn Nat.add]; [apply skipn_nil|apply IHi].
Qed.

Lemma firstn_skipn_mid : forall (s : str) i n,
    s = firstn i s ++ firstn n (skipn i s) ++ skipn (i + n) s.
Proof.
  intros s i n.
  rewrite <- (firstn_skipn i s) at 1. f_equal.
  rewrite <- (firstn_skipn n (skipn i s)) at 1. f_equal.
  apply skipn_add.
Qed.

(* ------------------------------------------------------------------ *)
(* startswith / endswith                                                *)
(* ------------------------------------------------------------------ *)

Lemma startswith_nil : forall s, startswith [] s = true.
Proof. intros [|c s]; reflexivity. Qed.

Lemma startswith_app : forall p r, startswith p (p ++ r) = true.
Proof.
  induction p as [|x p IHp]; intros r; cbn [startswith app].
  - reflexivity.
  - rewrite ascii_eqb_refl. cbn [andb]. apply IHp.
Qed.

Lemma startswith_refl : forall p, startswith p p = true.
Proof. intros p. rewrite <- (app_nil_r p) at 2. apply startswith_app. Qed.

Lemma startswith_iff : forall p s, startswith p s = true <-> exists r, s = p ++ r.
Proof.
  intros p s. split.
  - revert s. induction p as [|x p IHp]; intros s H.
    + exists s. reflexivity.
    + destruct s as [|y s]; cbn [startswith] in H; [discriminate|].
      apply andb_true_iff in H. destruct H as [Hxy Hps].
      apply ascii_eqb_eq in Hxy. subst y.
      destruct (IHp s Hps) as [r Hr]. exists r. subst s. reflexivity.
  - intros [r Hr]. subst. apply startswith_app.
Qed.

Lemma startswith_length : forall p s, startswith p s = true -> List.length p <= List.length s.
Proof.
  intros p s H. apply startswith_iff in H. destruct H as [r Hr]. subst.
  rewrite app_length. lia.
Qed.

Lemma startswith_firstn : forall p s, startswith p s = true -> firstn (List.length p) s = p.
Proof.
  intros p s H. apply startswith_iff in H. destruct H as [r Hr]. subst.
  apply firstn_app_exact.
Qed.

Lemma startswith_app_r : forall p s x, startswith p s = true -> startswith p (s ++ x) = true.
Proof.
  intros p s x H. apply startswith_iff in H. destruct H as [r Hr]. subst.
  rewrite <- app_assoc. apply startswith_app.
Qed.

(* a prefix of s ++ x is a prefix of s or runs over the end of s *)
Lemma startswith_app_cases : forall p s x,
    startswith p (s ++ x) = true ->
    startswith p s = true \/ exists q, p = s ++ q /\ q <> [] /\ startswith q x = true.
Proof.
  induction p as [|a p IHp]; intros s x H.
  - left. apply startswith_nil.
  - destruct s as [|b s].
    + right. exists (a :: p). split; [reflexivity|]. split; [discriminate|exact H].
    + cbn [app startswith] in H. apply andb_true_iff in H. destruct H as [Hab Hp].
      destruct (IHp s x Hp) as [Hl | [q [Hq1 [Hq2 Hq3]]]].
      * left. cbn [startswith]. rewrite Hab, Hl. reflexivity.
      * right. exists q. apply ascii_eqb_eq in Hab. subst. repeat split; assumption.
Qed.

Lemma startswith_cons_cons : forall x p y s,
    startswith (x :: p) (y :: s) = ascii_eqb x y && startswith p s.
Proof. reflexivity. Qed.

Lemma startswith_single : forall c s, startswith [c] s = true <-> head_c s = Some c.
Proof.
  intros c [|y s]; cbn [startswith head_c]; split; intros H; try discriminate.
  - rewrite andb_true_r in H. apply ascii_eqb_eq in H. subst. reflexivity.
  - injection H as H. subst. rewrite ascii_eqb_refl. reflexivity.
Qed.

Lemma endswith_iff : forall p s, endswith p s = true <-> exists r, s = r ++ p.
Proof.
  intros p s. unfold endswith. rewrite startswith_iff. split.
  - intros [r Hr]. exists (rev r).
    rewrite <- (rev_involutive s). rewrite Hr. rewrite rev_app_distr.
    rewrite rev_involutive. reflexivity.
  - intros [r Hr]. exists (rev r). subst. apply rev_app_distr.
Qed.

Lemma endswith_app : forall r p, endswith p (r ++ p) = true.
Proof. intros r p. apply endswith_iff. exists r. reflexivity. Qed.

Lemma endswith_single : forall c s, endswith [c] s = true <-> last_c s = Some c.
Proof. intros c s. rewrite endswith_iff. symmetry. apply last_c_spec. Qed.

(* if every character of s satisfies P and p ends s, every character of p satisfies P *)
Lemma endswith_forallb : forall (P : ascii -> bool) p s,
    forallb P s = true -> endswith p s = true -> forallb P p = true.
Proof.
  intros P p s Hs He. apply endswith_iff in He. destruct He as [r Hr]. subst.
  rewrite forallb_app in Hs. apply andb_true_iff in Hs. apply Hs.
Qed.

Lemma startswith_forallb : forall (P : ascii -> bool) p s,
    forallb P s = true -> startswith p s = true -> forallb P p = true.
Proof.
  intros P p s Hs He. apply startswith_iff in He. destruct He as [r Hr]. subst.
  rewrite forallb_app in Hs. apply andb_true_iff in Hs. apply Hs.
Qed.

(* ------------------------------------------------------------------ *)
(* find                                                                 *)
(* ------------------------------------------------------------------ *)

Lemma find_from_shift : forall sub s i,
    find_from sub s i = option_map (fun k => i + k) (find_from sub s 0).
Proof.
  intros sub s. induction s as [|c r IHr]; intros i; cbn [find_from].
  - destruct (startswith sub []); cbn; [f_equal; lia|reflexivity].
  - destruct (startswith sub (c :: r)); cbn [option_map]; [f_equal; lia|].
    rewrite (IHr (S i)), (IHr 1).
    destruct (find_from sub r 0) as [k|]; cbn [option_map]; [f_equal; lia|reflexivity].
Qed.

Lemma find_nil_r : forall sub, find sub [] = match sub with [] => Some 0 | _ => None end.
Proof. intros [|x sub]; reflexivity. Qed.

Lemma find_cons : forall sub c r,
    find sub (c :: r) = if startswith sub (c :: r) then Some 0 else option_map S (find sub r).
Proof.
  intros sub c r. unfold find. cbn [find_from].
  destruct (startswith sub (c :: r)); [reflexivity|].
  rewrite (find_from_shift sub r 1). reflexivity.
Qed.

Lemma find_startswith : forall sub s, startswith sub s = true -> find sub s = Some 0.
Proof.
  intros sub s H. unfold find. destruct s as [|c r]; cbn [find_from]; rewrite H; reflexivity.
Qed.

Lemma find_app_here : forall sub r, find sub (sub ++ r) = Some 0.
Proof. intros sub r. apply find_startswith. apply startswith_app. Qed.

(* full characterisation of a successful search *)
Lemma find_Some_iff : forall sub s i,
    find sub s = Some i <->
    (i <= List.length s /\ startswith sub (skipn i s) = true
     /\ forall j, j < i -> startswith sub (skipn j s) = false).
Proof.
  intros sub s. induction s as [|c r IHr]; intros i.
  - rewrite find_nil_r. split.
    + intros H. destruct sub as [|x sub]; [|discriminate]. injection H as H. subst i.
      split; [cbn; lia|]. split; [reflexivity|]. intros j Hj. lia.
    + intros [Hi [Hs Hmin]]. cbn in Hi. assert (i = 0) by lia. subst i.
      cbn [skipn] in Hs. destruct sub as [|x sub]; [reflexivity|discriminate].
  - rewrite find_cons. destruct (startswith sub (c :: r)) eqn:Hsw.
    + split.
      * intros H. injection H as H. subst i. split; [cbn; lia|]. split; [exact Hsw|].
        intros j Hj. lia.
      * intros [Hi [Hs Hmin]]. destruct i as [|i]; [reflexivity|].
        specialize (Hmin 0 (Nat.lt_0_succ i)). cbn [skipn] in Hmin. congruence.
    + split.
      * intros H. destruct (find sub r) as [k|] eqn:Hk; [|discriminate].
        cbn [option_map] in H. injection H as H. subst i.
        destruct (proj1 (IHr k) eq_refl) as [Hi [Hs Hmin]].
        split; [cbn; lia|]. split; [exact Hs|].
        intros j Hj. destruct j as [|j]; [exact Hsw|]. cbn [skipn]. apply Hmin. lia.
      * intros [Hi [Hs Hmin]]. destruct i as [|i]; [cbn [skipn] in Hs; congruence|].
        cbn [skipn] in Hs. cbn [List.length] in Hi.
        assert (Hk : find sub r = Some i).
        { apply IHr. split; [lia|]. split; [exact Hs|].
          intros j Hj. apply (Hmin (S j)). lia. }
        rewrite Hk. reflexivity.
Qed.

Lemma find_Some_startswith : forall sub s i,
    find sub s = Some i -> startswith sub (skipn i s) = true.
Proof. intros sub s i H. apply find_Some_iff in H. apply H. Qed.

Lemma find_Some_minimal : forall sub s i j,
    find sub s = Some i -> j < i -> startswith sub (skipn j s) = false.
Proof. intros sub s i j H Hj. apply find_Some_iff in H. apply H. exact Hj. Qed.

Lemma find_Some_bound : forall sub s i,
    find sub s = Some i -> i + List.length sub <= List.length s.
Proof.
  intros sub s i H. apply find_Some_iff in H. destruct H as [Hi [Hs _]].
  apply startswith_length in Hs. rewrite skipn_length in Hs. lia.
Qed.

(* s = s[:i] + sub + s[i+len(sub):] *)
Lemma find_Some_decomp : forall sub s i,
    find sub s = Some i ->
    s = firstn i s ++ sub ++ skipn (i + List.length sub) s.
Proof.
  intros sub s i H. apply find_Some_startswith in H.
  apply startswith_firstn in H.
  rewrite <- H at 1. apply firstn_skipn_mid.
Qed.

Lemma find_None_iff : forall sub s,
    find sub s = None <-> forall j, j <= List.length s -> startswith sub (skipn j s) = false.
Proof.
  intros sub s. induction s as [|c r IHr].
  - rewrite find_nil_r. split.
    + intros H j Hj. cbn in Hj. assert (j = 0) by lia. subst j.
      destruct sub; [discriminate|reflexivity].
    + intros H. specialize (H 0 (Nat.le_refl 0)). destruct sub; [discriminate|reflexivity].
  - rewrite find_cons. split.
    + intros H j Hj. destruct (startswith sub (c :: r)) eqn:Hsw; [discriminate|].
      destruct (find sub r) as [k|] eqn:Hk; [discriminate|].
      destruct j as [|j]; [exact Hsw|]. cbn [skipn].
      apply (proj1 IHr eq_refl). cbn in Hj. lia.
    + intros H. pose proof (H 0 (Nat.le_0_l _)) as H0. cbn [skipn] in H0. rewrite H0.
      assert (Hr : find sub r = None).
      { apply IHr. intros j Hj. apply (H (S j)). cbn. lia. }
      rewrite Hr. reflexivity.
Qed.

(* no occurrence anywhere *)
Lemma find_None_no_occurrence : forall sub s,
    find sub s = None <-> forall a b, s <> a ++ sub ++ b.
Proof.
  intros sub s. rewrite find_None_iff. split.
  - intros H a b E. subst s.
    specialize (H (List.length a)).
    rewrite skipn_app_exact, startswith_app in H.
    rewrite app_length in H. discriminate H. lia.
  - intros H j Hj. destruct (startswith sub (skipn j s)) eqn:E; [|reflexivity].
    apply startswith_iff in E. destruct E as [r Hr].
    exfalso. apply (H (firstn j s) r). rewrite <- Hr. symmetry. apply firstn_skipn.
Qed.

Lemma contains_true_iff : forall sub s,
    contains sub s = true <-> exists a b, s = a ++ sub ++ b.
Proof.
  intros sub s. unfold contains. split.
  - intros H. destruct (find sub s) as [i|] eqn:E; [|discriminate].
    apply find_Some_decomp in E. eauto.
  - intros [a [b Hab]]. destruct (find sub s) as [i|] eqn:E; [reflexivity|].
    exfalso. exact (proj1 (find_None_no_occurrence sub s) E a b Hab).
Qed.

Lemma contains_false_iff : forall sub s, contains sub s = false <-> find sub s = None.
Proof.
  intros sub s. unfold contains. destruct (find sub s); split; intros H; congruence.
Qed.

Lemma contains_app_mid : forall sub a b, contains sub (a ++ sub ++ b) = true.
Proof. intros sub a b. apply contains_true_iff. eauto. Qed.

Lemma contains_app_l : forall sub s x, contains sub s = true -> contains sub (s ++ x) = true.
Proof.
  intros sub s x H. apply contains_true_iff in H. destruct H as [a [b Hab]]. subst.
  apply contains_true_iff. exists a, (b ++ x). rewrite <- !app_assoc. reflexivity.
Qed.

Lemma contains_app_r : forall sub s x, contains sub s = true -> contains sub (x ++ s) = true.
Proof.
  intros sub s x H. apply contains_true_iff in H. destruct H as [a [b Hab]]. subst.
  apply contains_true_iff. exists (x ++ a), b. rewrite <- !app_assoc. reflexivity.
Qed.

Lemma find_None_too_long : forall sub s, List.length s < List.length sub -> find sub s = None.
Proof.
  intros sub s Hlen. destruct (find sub s) as [i|] eqn:E; [|reflexivity].
  apply find_Some_bound in E. lia.
Qed.

(* an occurrence that lies inside a prefix stays the first occurrence when text is appended *)
Lemma find_app_l : forall sub s x i, find sub s = Some i -> find sub (s ++ x) = Some i.
Proof.
  intros sub s x i H. pose proof (find_Some_bound _ _ _ H) as Hb.
  apply find_Some_iff in H. destruct H as [Hi [Hs Hmin]].
  apply find_Some_iff. split; [rewrite app_length; lia|]. split.
  - rewrite skipn_app. apply startswith_app_r. exact Hs.
  - intros j Hj. specialize (Hmin j Hj).
    destruct (startswith sub (skipn j (s ++ x))) eqn:E; [|reflexivity].
    rewrite skipn_app in E. apply startswith_app_cases in E.
    destruct E as [E | [q [Hq1 [Hq2 _]]]]; [congruence|].
    exfalso. apply (f_equal (@List.length ascii)) in Hq1.
    rewrite app_length, skipn_length in Hq1.
    destruct q as [|y q]; [contradiction|]. cbn [List.length] in Hq1. lia.
Qed.

(* text made of characters that do not occur in the pattern cannot create an occurrence *)
Lemma find_app_disjoint : forall p x s,
    p <> [] -> forallb (fun c => negb (mem_c c p)) s = true -> find p (x ++ s) = find p x.
Proof.
  intros p x s Hp Hs.
  assert (Hsw : forall y, startswith p (y ++ s) = startswith p y).
  { intros y. destruct (startswith p y) eqn:Ey.
    - apply startswith_app_r. exact Ey.
    - destruct (startswith p (y ++ s)) eqn:E; [|reflexivity].
      apply startswith_app_cases in E. destruct E as [E | [q [Hq1 [Hq2 Hq3]]]]; [congruence|].
      exfalso. destruct q as [|c q]; [contradiction|].
      destruct s as [|c' s]; [discriminate|].
      cbn [startswith] in Hq3. apply andb_true_iff in Hq3. destruct Hq3 as [Hc _].
      apply ascii_eqb_eq in Hc. subst c'.
      cbn [forallb] in Hs. apply andb_true_iff in Hs. destruct Hs as [Hc _].
      apply negb_true_iff in Hc. subst p. rewrite mem_c_app in Hc.
      cbn [mem_c existsb] in Hc. rewrite ascii_eqb_refl in Hc.
      rewrite orb_true_r in Hc. discriminate. }
  induction x as [|a x IHx].
  - cbn [app]. rewrite find_nil_r. destruct p as [|y p]; [contradiction|].
    clear Hsw. induction s as [|c s IHs]; [reflexivity|].
    rewrite find_cons. cbn [forallb] in Hs. apply andb_true_iff in Hs. destruct Hs as [Hc Hs].
    cbn [startswith]. apply negb_true_iff in Hc. rewrite mem_c_cons in Hc.
    apply orb_false_iff in Hc. destruct Hc as [Hc _].
    rewrite ascii_eqb_sym, Hc. cbn [andb]. rewrite (IHs Hs). reflexivity.
  - change ((a :: x) ++ s) with (a :: (x ++ s)). rewrite !find_cons.
    change (a :: (x ++ s)) with ((a :: x) ++ s). rewrite Hsw, IHx. reflexivity.
Qed.

(* the separator lemma: the pattern does not occur in d, the last character of d does not occur in
   the pattern, the pattern does not begin with the separator c: then searching d ++ c ++ x is
   searching x *)
Lemma find_app_sep : forall p d c x,
    find p d = None ->
    (forall l, last_c d = Some l -> mem_c l p = false) ->
    startswith [c] p = false ->
    find p (d ++ c :: x) = option_map (fun i => List.length d + 1 + i) (find p x).
Proof.
  intros p d c x. induction d as [|a d IHd]; intros Hnone Hlast Hsep.
  - cbn [app List.length]. rewrite find_cons.
    destruct p as [|y p]; [discriminate|].
    cbn [startswith] in *. rewrite andb_true_r in Hsep.
    rewrite ascii_eqb_sym, Hsep. cbn [andb].
    destruct (find (y :: p) x); reflexivity.
  - rewrite find_cons in Hnone.
    destruct (startswith p (a :: d)) eqn:Hsw; [discriminate|].
    destruct (find p d) as [k|] eqn:Hk; [discriminate|].
    change ((a :: d) ++ c :: x) with (a :: (d ++ c :: x)). rewrite find_cons.
    change (a :: (d ++ c :: x)) with ((a :: d) ++ c :: x).
    destruct (startswith p ((a :: d) ++ c :: x)) eqn:E.
    + exfalso. apply startswith_app_cases in E.
      destruct E as [E | [q [Hq1 [Hq2 _]]]]; [congruence|].
      destruct (last_c (a :: d)) as [l|] eqn:Hl.
      * specialize (Hlast l eq_refl). apply last_c_In in Hl.
        assert (Hin : mem_c l p = true).
        { apply mem_c_In. subst p. apply in_or_app. left. exact Hl. }
        congruence.
      * apply last_c_nil_iff in Hl. discriminate.
    + rewrite IHd; [| reflexivity | | exact Hsep].
      * destruct (find p x) as [i|]; cbn [option_map List.length]; [f_equal; lia|reflexivity].
      * intros l Hl. apply Hlast. destruct d as [|b d]; [discriminate|].
        rewrite last_c_cons_cons. exact Hl.
Qed.

(* ------------------------------------------------------------------ *)
(* casefold                                                             *)
(* ------------------------------------------------------------------ *)

Lemma casefold_app : forall a b, casefold (a ++ b) = casefold a ++ casefold b.
Proof. intros a b. unfold casefold. apply map_app. Qed.

Lemma casefold_length : forall s, List.length (casefold s) = List.length s.
Proof. intros s. unfold casefold. apply map_length. Qed.

Lemma casefold_cons : forall c s, casefold (c :: s) = lower_c c :: casefold s.
Proof. reflexivity. Qed.

Lemma lower_c_idem : forall c, lower_c (lower_c c) = lower_c c.
Proof. intros c. destruct c as [[] [] [] [] [] [] [] []]; vm_compute; reflexivity. Qed.

Lemma casefold_idem : forall s, casefold (casefold s) = casefold s.
Proof.
  intros s. unfold casefold. rewrite map_map. apply map_ext. intros c. apply lower_c_idem.
Qed.

Lemma last_c_casefold : forall s, last_c (casefold s) = option_map lower_c (last_c s).
Proof.
  intros s. unfold last_c, casefold. rewrite <- map_rev. destruct (rev s); reflexivity.
Qed.

Lemma lower_c_isdigit : forall c, isdigit c = true -> lower_c c = c.
Proof.
  intros c. destruct c as [[] [] [] [] [] [] [] []]; vm_compute; intros H;
    try reflexivity; discriminate.
Qed.

Lemma casefold_digits : forall s, forallb isdigit s = true -> casefold s = s.
Proof.
  induction s as [|c s IHs]; intros H; [reflexivity|].
  cbn [forallb] in H. apply andb_true_iff in H. destruct H as [Hc Hs].
  rewrite casefold_cons, (lower_c_isdigit c Hc), (IHs Hs). reflexivity.
Qed.

(* ------------------------------------------------------------------ *)
(* strip                                                                *)
(* ------------------------------------------------------------------ *)

Lemma dropwhile_head_false : forall (p : ascii -> bool) (s : str),
    (forall c, head_c s = Some c -> p c = false) -> dropwhile p s = s.
Proof.
  intros p [|c s] H; [reflexivity|]. cbn [dropwhile]. rewrite (H c eq_refl). reflexivity.
Qed.

Lemma lstrip_by_id : forall p s,
    (forall c, head_c s = Some c -> p c = false) -> lstrip_by p s = s.
Proof. intros p s H. unfold lstrip_by. apply dropwhile_head_false. exact H. Qed.

Lemma rstrip_by_id : forall p s,
    (forall c, last_c s = Some c -> p c = false) -> rstrip_by p s = s.
Proof.
  intros p s H. unfold rstrip_by. rewrite dropwhile_head_false; [apply rev_involutive|].
  intros c Hc. apply H. unfold last_c. unfold head_c in Hc. destruct (rev s); congruence.
Qed.

(* identity when neither the first nor the last character is in the stripped set *)
Lemma strip_by_id : forall p s,
    (forall c, head_c s = Some c -> p c = false) ->
    (forall c, last_c s = Some c -> p c = false) -> strip_by p s = s.
Proof.
  intros p s Hh Hl. unfold strip_by. rewrite (lstrip_by_id p s Hh). apply rstrip_by_id. exact Hl.
Qed.

Lemma strip_by_forallb : forall p s,
    forallb (fun c => negb (p c)) s = true -> strip_by p s = s.
Proof.
  intros p s H. rewrite forallb_forall in H. apply strip_by_id.
  - intros c Hc. apply negb_true_iff. apply H. destruct s as [|x s]; [discriminate|].
    injection Hc as Hc. subst. left. reflexivity.
  - intros c Hc. apply negb_true_iff. apply H. apply last_c_In. exact Hc.
Qed.

Lemma strip_chars_id : forall cs s,
    (forall c, head_c s = Some c -> mem_c c cs = false) ->
    (forall c, last_c s = Some c -> mem_c c cs = false) -> strip_chars cs s = s.
Proof. intros cs s Hh Hl. unfold strip_chars. apply strip_by_id; assumption. Qed.

Lemma strip_chars_forallb : forall cs s,
    forallb (fun c => negb (mem_c c cs)) s = true -> strip_chars cs s = s.
Proof. intros cs s H. unfold strip_chars. apply strip_by_forallb. exact H. Qed.

Lemma strip_by_nil : forall p, strip_by p [] = [].
Proof. reflexivity. Qed.

(* generic: forallb under a pointwise implication *)
Lemma forallb_impl : forall (P Q : ascii -> bool) s,
    (forall c, P c = true -> Q c = true) -> forallb P s = true -> forallb Q s = true.
Proof.
  intros P Q s HPQ H. rewrite forallb_forall in *. intros c Hc. apply HPQ. apply H. exact Hc.
Qed.

(* ------------------------------------------------------------------ *)
(* decimal printing                                                     *)
(* ------------------------------------------------------------------ *)

Lemma digit_char : forall d, d < 10 -> isdigit (ch (48 + d)) = true /\ code (ch (48 + d)) = 48 + d.
Proof.
  intros d Hd.
  do 10 (destruct d as [|d]; [split; reflexivity|]). lia.
Qed.

Definition dec_step (acc : N) (c : ascii) : N := (acc * 10 + N.of_nat (code c - 48))%N.

Lemma N_of_dec_fold : forall s, N_of_dec s = fold_left dec_step s 0%N.
Proof. reflexivity. Qed.

Lemma N_of_dec_app_single : forall s c,
    N_of_dec (s ++ [c]) = (N_of_dec s * 10 + N.of_nat (code c - 48))%N.
Proof. intros s c. unfold N_of_dec. rewrite fold_left_app. reflexivity. Qed.

Lemma mod10_lt : forall n, N.to_nat (n mod 10) < 10.
Proof.
  intros n. assert (H : (n mod 10 < 10)%N) by (apply N.mod_lt; discriminate). lia.
Qed.

Lemma dec_aux_value : forall fuel n acc,
    (n < 2 ^ N.of_nat fuel)%N ->
    fold_left dec_step (dec_of_pos_aux fuel n acc) 0%N = fold_left dec_step acc n.
Proof.
  induction fuel as [|f IHf]; intros n acc Hn.
  - cbn [dec_of_pos_aux]. change (2 ^ N.of_nat 0)%N with 1%N in Hn.
    assert (n = 0%N) by lia. subst. reflexivity.
  - cbn [dec_of_pos_aux].
    pose proof (mod10_lt n) as Hd.
    destruct (digit_char _ Hd) as [_ Hcode].
    pose proof (N.div_mod n 10 ltac:(discriminate)) as Hdm.
    assert (Hqlt : (n / 10 < 2 ^ N.of_nat f)%N).
    { rewrite Nat2N.inj_succ, N.pow_succ_r' in Hn.
      apply N.div_lt_upper_bound; [discriminate|].
      set (P := (2 ^ N.of_nat f)%N) in *. clearbody P. lia. }
    assert (Hstep : dec_step (n / 10) (ch (48 + N.to_nat (n mod 10))) = n).
    { unfold dec_step. rewrite Hcode.
      set (q := (n / 10)%N) in *. set (m := (n mod 10)%N) in *. clearbody q m. lia. }
    destruct (N.eqb (n / 10) 0) eqn:Hq.
    + apply N.eqb_eq in Hq. cbn [fold_left]. f_equal. rewrite Hq in Hstep.
      unfold dec_step in *. exact Hstep.
    + rewrite IHf by exact Hqlt. cbn [fold_left]. rewrite Hstep. reflexivity.
Qed.

Lemma log2_fuel : forall n, (n < 2 ^ N.of_nat (S (N.to_nat (N.log2 n))))%N.
Proof.
  intros n. rewrite Nat2N.inj_succ, N2Nat.id.
  destruct n as [|p].
  - reflexivity.
  - apply N.log2_spec. reflexivity.
Qed.

(* int(str(n)) = n *)
Lemma N_of_dec_of_N : forall n, N_of_dec (dec_of_N n) = n.
Proof.
  intros n. unfold dec_of_N. rewrite N_of_dec_fold.
  rewrite dec_aux_value by apply log2_fuel. reflexivity.
Qed.

Lemma dec_aux_digits : forall fuel n acc,
    forallb isdigit acc = true -> forallb isdigit (dec_of_pos_aux fuel n acc) = true.
Proof.
  induction fuel as [|f IHf]; intros n acc Hacc; cbn [dec_of_pos_aux]; [exact Hacc|].
  destruct (digit_char _ (mod10_lt n)) as [Hdig _].
  assert (Hacc' : forallb isdigit (ch (48 + N.to_nat (n mod 10)) :: acc) = true).
  { cbn [forallb]. rewrite Hdig, Hacc. reflexivity. }
  destruct (N.eqb (n / 10) 0); [exact Hacc'|]. apply IHf. exact Hacc'.
Qed.

Lemma dec_aux_nonnil : forall fuel n acc, acc <> [] -> dec_of_pos_aux fuel n acc <> [].
Proof.
  induction fuel as [|f IHf]; intros n acc Hacc; cbn [dec_of_pos_aux]; [exact Hacc|].
  destruct (N.eqb (n / 10) 0); [discriminate|]. apply IHf. discriminate.
Qed.

Lemma dec_of_N_digits : forall n, forallb isdigit (dec_of_N n) = true.
Proof. intros n. unfold dec_of_N. apply dec_aux_digits. reflexivity. Qed.

Lemma dec_of_N_nonnil : forall n, dec_of_N n <> [].
Proof.
  intros n. unfold dec_of_N. cbn [dec_of_pos_aux].
  destruct (N.eqb (n / 10) 0); [discriminate|]. apply dec_aux_nonnil. discriminate.
Qed.

Lemma isdecimal_iff : forall s, isdecimal s = true <-> s <> [] /\ forallb isdigit s = true.
Proof.
  intros [|c s]; unfold isdecimal; split.
  - discriminate.
  - intros [H _]. contradiction.
  - intros H. split; [discriminate|exact H].
  - intros [_ H]. exact H.
Qed.

Lemma isdecimal_dec_of_N : forall n, isdecimal (dec_of_N n) = true.
Proof.
  intros n. apply isdecimal_iff. split; [apply dec_of_N_nonnil|apply dec_of_N_digits].
Qed.

Lemma dec_of_N_head_digit : forall n, exists c r, dec_of_N n = c :: r /\ isdigit c = true.
Proof.
  intros n. pose proof (dec_of_N_nonnil n) as Hn. pose proof (dec_of_N_digits n) as Hd.
  destruct (dec_of_N n) as [|c r]; [contradiction|].
  exists c, r. split; [reflexivity|].
  cbn [forallb] in Hd. apply andb_true_iff in Hd. apply Hd.
Qed.

(* characters of str(int): digits, with a leading minus sign for negatives *)
Definition intchar (c : ascii) : bool := isdigit c || ascii_eqb c (ch 45).

Lemma dec_of_Z_nonneg_digits : forall z, (0 <= z)%Z -> forallb isdigit (dec_of_Z z) = true.
Proof.
  intros [|p|p] Hz; cbn [dec_of_Z]; [reflexivity|apply dec_of_N_digits|lia].
Qed.

Lemma dec_of_Z_nonneg_N : forall z, (0 <= z)%Z -> dec_of_Z z = dec_of_N (Z.to_N z).
Proof. intros [|p|p] Hz; [reflexivity|reflexivity|lia]. Qed.

Lemma dec_of_Z_neg : forall p, dec_of_Z (Zneg p) = ch 45 :: dec_of_Z (Zpos p).
Proof. reflexivity. Qed.

Lemma dec_of_Z_intchars : forall z, forallb intchar (dec_of_Z z) = true.
Proof.
  assert (Hd : forall s, forallb isdigit s = true -> forallb intchar s = true).
  { intros s. apply forallb_impl. intros c Hc. unfold intchar. rewrite Hc. reflexivity. }
  intros [|p|p]; cbn [dec_of_Z].
  - reflexivity.
  - apply Hd. apply dec_of_N_digits.
  - cbn [forallb]. rewrite (Hd _ (dec_of_N_digits (Npos p))). reflexivity.
Qed.

Lemma dec_of_Z_nonnil : forall z, dec_of_Z z <> [].
Proof. intros [|p|p]; cbn [dec_of_Z]; [discriminate|apply dec_of_N_nonnil|discriminate]. Qed.

Lemma isdecimal_dec_of_Z_nonneg : forall z, (0 <= z)%Z -> isdecimal (dec_of_Z z) = true.
Proof.
  intros z Hz. apply isdecimal_iff. split; [apply dec_of_Z_nonnil|apply dec_of_Z_nonneg_digits; exact Hz].
Qed.

Lemma isdecimal_dec_of_Z_neg : forall p, isdecimal (dec_of_Z (Zneg p)) = false.
Proof. reflexivity. Qed.

Lemma N_of_dec_of_Z_nonneg : forall z, (0 <= z)%Z -> Z.of_N (N_of_dec (dec_of_Z z)) = z.
Proof.
  intros [|p|p] Hz; cbn [dec_of_Z]; [reflexivity| |lia].
  rewrite N_of_dec_of_N. reflexivity.
Qed.

(* ------------------------------------------------------------------ *)
(* signed decimal reading (PyVal.Z_of_dec_signed) of printed integers   *)
(* ------------------------------------------------------------------ *)
From DT Require Import Sexp PyVal.

Lemma isdigit_not_sign : forall c, isdigit c = true ->
    ascii_eqb c (ch 45) = false /\ ascii_eqb c (ch 43) = false.
Proof.
  intros c. destruct c as [[] [] [] [] [] [] [] []]; vm_compute; intros H;
    try discriminate H; split; reflexivity.
Qed.

Lemma Z_of_dec_signed_digits : forall s,
    isdecimal s = true -> Z_of_dec_signed s = Some (Z.of_N (N_of_dec s)).
Proof.
  intros s Hs. pose proof Hs as Hs'. apply isdecimal_iff in Hs'. destruct Hs' as [Hnil Hdig].
  destruct s as [|c r]; [contradiction|].
  cbn [forallb] in Hdig. apply andb_true_iff in Hdig. destruct Hdig as [Hc _].
  destruct (isdigit_not_sign c Hc) as [Hm Hp].
  unfold Z_of_dec_signed. rewrite Hm, Hp, Hs. reflexivity.
Qed.

(* int(str(z)) = z *)
Lemma Z_of_dec_signed_dec_of_Z : forall z, Z_of_dec_signed (dec_of_Z z) = Some z.
Proof.
  intros [|p|p].
  - reflexivity.
  - cbn [dec_of_Z]. rewrite Z_of_dec_signed_digits by apply isdecimal_dec_of_N.
    rewrite N_of_dec_of_N. reflexivity.
  - cbn [dec_of_Z]. unfold Z_of_dec_signed. rewrite ascii_eqb_refl.
    rewrite isdecimal_dec_of_N, N_of_dec_of_N. reflexivity.
Qed.
