(* C05Facts: property C05 (any-to-any convertibility).
   - [preserved] is reflexive, transitive and position-wise (the k-th parameter of the result has the name, type,
     prose and default of the k-th parameter of the original: nothing is swapped between parameters, nothing is
     invented or dropped);
   - the composition theorem: from per-kind round-trip laws on a domain closed under the conversions, every
     chain of conversions of ANY length preserves the interface (induction over the chain);
   - the laws that existing theorems discharge: ReST from the C01 ReST theorem on its guard, numpydoc / google from
     the C01 theorem modulo its scan link; what remains a hypothesis is stated in each lemma;
   - the statement over the whole domain is false of the faithful model (witness from a finding class);
     the region is inhabited. *)
From Coq Require Import List Ascii Bool Arith ZArith Lia.
From Coq Require String.
Import String.StringSyntax.
From DT Require Import PyStr Sexp PyVal TyExpr PureUtils Defaults PyAst IR Extracted C17Spec DocParse C01Spec C05Spec.
From DT Require Import PyStrFacts.
From DT Require DefaultsFacts EmitAstFacts DocParseFacts.
From DT Require DocParseNG C01SpecNG DocParseNGFacts.
Import ListNotations.

(* ------------------------------------------------------------------ equality tests *)

Lemma list_eqb_refl_Forall : forall {A} (f : A -> A -> bool) l,
    Forall (fun x => f x x = true) l -> list_eqb f l l = true.
Proof.
  intros A f l H. induction H as [|x l Hx Hl IH]; [reflexivity|].
  cbn. rewrite Hx. exact IH.
Qed.

Lemma expr_eqb_refl : forall e, expr_eqb e e = true.
Proof.
  intros e. induction e as [v|id|e a IHe|e s IHe IHs|es IH|es IH|ks vs IHk IHv|f args kws IHf IHa IHk|op e IHe|s]
                             using EmitAstFacts.expr_ind'; cbn.
  - apply DefaultsFacts.pyval_eqb_refl.
  - apply str_eqb_refl.
  - rewrite IHe. apply str_eqb_refl.
  - rewrite IHe. exact IHs.
  - apply list_eqb_refl_Forall. exact IH.
  - apply list_eqb_refl_Forall. exact IH.
  - rewrite (list_eqb_refl_Forall expr_eqb ks IHk). apply list_eqb_refl_Forall. exact IHv.
  - rewrite IHf. rewrite (list_eqb_refl_Forall expr_eqb args IHa). cbn.
    apply list_eqb_refl_Forall. eapply Forall_impl; [|exact IHk].
    intros [o x] Hx. cbn in Hx. rewrite Hx. destruct o as [o|]; cbn; [rewrite str_eqb_refl|]; reflexivity.
  - rewrite str_eqb_refl. exact IHe.
  - apply str_eqb_refl.
Qed.

Lemma dval_eqb_refl : forall d, dval_eqb d d = true.
Proof.
  destruct d; cbn; [apply DefaultsFacts.pyval_eqb_refl | apply expr_eqb_refl | apply str_eqb_refl].
Qed.

Lemma dval_eqb_eq : forall a b, dval_eqb a b = true -> a = b.
Proof.
  intros a b H. destruct a, b; cbn in H; try discriminate; f_equal.
  - apply DefaultsFacts.pyval_eqb_eq. exact H.
  - apply EmitAstFacts.expr_eqb_eq. exact H.
  - apply str_eqb_eq. exact H.
Qed.

Lemma opt_eqb_refl : forall {A} (eq : A -> A -> bool), (forall x, eq x x = true) -> forall a, opt_eqb eq a a = true.
Proof. intros A eq H [x|]; cbn; [apply H | reflexivity]. Qed.

Lemma opt_eqb_trans : forall {A} (eq : A -> A -> bool),
    (forall x y z, eq x y = true -> eq y z = true -> eq x z = true) ->
    forall a b c, opt_eqb eq a b = true -> opt_eqb eq b c = true -> opt_eqb eq a c = true.
Proof.
  intros A eq H [x|] [y|] [z|] H1 H2; cbn in *; try discriminate; try reflexivity. eapply H; eassumption.
Qed.

Lemma str_eqb_trans : forall x y z, str_eqb x y = true -> str_eqb y z = true -> str_eqb x z = true.
Proof. intros x y z H1 H2. apply str_eqb_eq in H1. apply str_eqb_eq in H2. subst. apply str_eqb_refl. Qed.

(* ------------------------------------------------------------------ the pieces of [preserved] *)

Lemma same_typ_refl : forall g, same_typ g g = true.
Proof. intros g. unfold same_typ. apply opt_eqb_refl. exact str_eqb_refl. Qed.

Lemma same_typ_trans : forall a b c, same_typ a b = true -> same_typ b c = true -> same_typ a c = true.
Proof. intros a b c. unfold same_typ. apply opt_eqb_trans. exact str_eqb_trans. Qed.

Lemma same_prose_refl : forall g, same_prose g g = true.
Proof. intros g. unfold same_prose. apply opt_eqb_refl. exact str_eqb_refl. Qed.

Lemma same_prose_trans : forall a b c, same_prose a b = true -> same_prose b c = true -> same_prose a c = true.
Proof. intros a b c. unfold same_prose. apply opt_eqb_trans. exact str_eqb_trans. Qed.

Lemma same_default_ir_refl : forall d, same_default_ir d d = true.
Proof. intros [d|]; cbn; [rewrite dval_eqb_refl|]; reflexivity. Qed.

Lemma same_default_ir_trans : forall a b c,
    same_default_ir a b = true -> same_default_ir b c = true -> same_default_ir a c = true.
Proof.
  intros [x|] [y|] [z|] H1 H2; cbn in *; try discriminate; try reflexivity.
  apply orb_true_iff in H1. apply orb_true_iff in H2. apply orb_true_iff.
  destruct H1 as [H1|H1].
  - apply dval_eqb_eq in H1. subst y. exact H2.
  - destruct H2 as [H2|H2].
    + apply dval_eqb_eq in H2. subst z. right. exact H1.
    + apply andb_true_iff in H1. apply andb_true_iff in H2. destruct H1 as [Hx _]. destruct H2 as [_ Hz].
      right. rewrite Hx, Hz. reflexivity.
Qed.

Lemma preserved_entry_refl : forall g, preserved_entry g g = true.
Proof.
  intros g. unfold preserved_entry. rewrite same_typ_refl, same_prose_refl, same_default_ir_refl. reflexivity.
Qed.

Lemma preserved_entry_split : forall g g',
    preserved_entry g g' = true <->
    same_typ g g' = true /\ same_prose g g' = true /\ same_default_ir (g_default g) (g_default g') = true.
Proof.
  intros g g'. unfold preserved_entry. rewrite !andb_true_iff. tauto.
Qed.

Lemma preserved_entry_trans : forall a b c,
    preserved_entry a b = true -> preserved_entry b c = true -> preserved_entry a c = true.
Proof.
  intros a b c H1 H2. apply preserved_entry_split in H1. apply preserved_entry_split in H2.
  destruct H1 as [T1 [P1 D1]]. destruct H2 as [T2 [P2 D2]]. apply preserved_entry_split. repeat split.
  - eapply same_typ_trans; eassumption.
  - eapply same_prose_trans; eassumption.
  - eapply same_default_ir_trans; eassumption.
Qed.

Lemma preserved_params_refl : forall ps, preserved_params ps ps = true.
Proof.
  induction ps as [|[n g] r IH]; [reflexivity|]. cbn [preserved_params].
  rewrite str_eqb_refl, preserved_entry_refl. exact IH.
Qed.

Lemma preserved_params_trans : forall a b c,
    preserved_params a b = true -> preserved_params b c = true -> preserved_params a c = true.
Proof.
  induction a as [|[n g] a IH]; intros [|[n' g'] b] [|[n'' g''] c] H1 H2; cbn [preserved_params] in *;
    try discriminate; try reflexivity.
  apply andb_true_iff in H1. destruct H1 as [H1 R1]. apply andb_true_iff in H1. destruct H1 as [N1 E1].
  apply andb_true_iff in H2. destruct H2 as [H2 R2]. apply andb_true_iff in H2. destruct H2 as [N2 E2].
  rewrite (str_eqb_trans _ _ _ N1 N2), (preserved_entry_trans _ _ _ E1 E2). exact (IH b c R1 R2).
Qed.

Lemma same_summary_refl : forall i, same_summary i i = true.
Proof. intros i. unfold same_summary. apply opt_eqb_refl. exact str_eqb_refl. Qed.

Lemma same_summary_trans : forall a b c, same_summary a b = true -> same_summary b c = true -> same_summary a c = true.
Proof. intros a b c. unfold same_summary. apply opt_eqb_trans. exact str_eqb_trans. Qed.

Lemma preserved_returns_refl : forall r, preserved_returns r r = true.
Proof. intros r. unfold preserved_returns. apply opt_eqb_refl. exact preserved_entry_refl. Qed.

Lemma preserved_returns_trans : forall a b c,
    preserved_returns a b = true -> preserved_returns b c = true -> preserved_returns a c = true.
Proof. intros a b c. unfold preserved_returns. apply opt_eqb_trans. exact preserved_entry_trans. Qed.

Lemma preserved_split : forall i i',
    preserved i i' = true <->
    same_summary i i' = true /\ preserved_params (ir_params i) (ir_params i') = true
    /\ preserved_returns (ir_returns i) (ir_returns i') = true.
Proof. intros i i'. unfold preserved. rewrite !andb_true_iff. tauto. Qed.

(* ------------------------------------------------------------------ preserved: reflexive, transitive *)

Theorem preserved_refl : forall i, preserved i i = true.
Proof.
  intros i. apply preserved_split. repeat split;
    [apply same_summary_refl | apply preserved_params_refl | apply preserved_returns_refl].
Qed.

Theorem preserved_trans : forall a b c, preserved a b = true -> preserved b c = true -> preserved a c = true.
Proof.
  intros a b c H1 H2. apply preserved_split in H1. apply preserved_split in H2.
  destruct H1 as [S1 [P1 R1]]. destruct H2 as [S2 [P2 R2]]. apply preserved_split. repeat split.
  - eapply same_summary_trans; eassumption.
  - eapply preserved_params_trans; eassumption.
  - eapply preserved_returns_trans; eassumption.
Qed.

(* ------------------------------------------------------------------ preserved: position-wise, nothing swapped *)

Lemma preserved_params_length : forall a b, preserved_params a b = true -> List.length a = List.length b.
Proof.
  induction a as [|[n g] a IH]; intros [|[n' g'] b] H; cbn [preserved_params] in H; try discriminate; [reflexivity|].
  apply andb_true_iff in H. destruct H as [_ R]. cbn [List.length]. f_equal. exact (IH b R).
Qed.

Lemma preserved_params_nth : forall a b, preserved_params a b = true ->
    forall k n g, nth_error a k = Some (n, g) ->
    exists g', nth_error b k = Some (n, g') /\ preserved_entry g g' = true.
Proof.
  induction a as [|[n0 g0] a IH]; intros [|[n1 g1] b] H k n g Hk; cbn [preserved_params] in H; try discriminate.
  - destruct k; discriminate.
  - apply andb_true_iff in H. destruct H as [H R]. apply andb_true_iff in H. destruct H as [N E].
    apply str_eqb_eq in N. subst n1. destruct k as [|k]; cbn [nth_error] in *.
    + injection Hk as Hn Hg. subst. exists g1. split; [reflexivity | exact E].
    + exact (IH b R k n g Hk).
Qed.

Lemma preserved_params_nth_back : forall a b, preserved_params a b = true ->
    forall k n g', nth_error b k = Some (n, g') ->
    exists g, nth_error a k = Some (n, g) /\ preserved_entry g g' = true.
Proof.
  induction a as [|[n0 g0] a IH]; intros [|[n1 g1] b] H k n g' Hk; cbn [preserved_params] in H; try discriminate.
  - destruct k; discriminate.
  - apply andb_true_iff in H. destruct H as [H R]. apply andb_true_iff in H. destruct H as [N E].
    apply str_eqb_eq in N. subst n1. destruct k as [|k]; cbn [nth_error] in *.
    + injection Hk as Hn Hg. subst. exists g0. split; [reflexivity | exact E].
    + exact (IH b R k n g' Hk).
Qed.

(* the k-th parameter of the result has the name, type, prose and default of the k-th parameter of the original *)
Theorem preserved_no_swap : forall i i', preserved i i' = true ->
    List.length (ir_params i) = List.length (ir_params i')
    /\ forall k n g, nth_error (ir_params i) k = Some (n, g) ->
       exists g', nth_error (ir_params i') k = Some (n, g')
                  /\ same_typ g g' = true /\ same_prose g g' = true
                  /\ same_default_ir (g_default g) (g_default g') = true.
Proof.
  intros i i' H. apply preserved_split in H. destruct H as [_ [P _]]. split.
  - apply preserved_params_length. exact P.
  - intros k n g Hk. destruct (preserved_params_nth _ _ P k n g Hk) as [g' [Hg' E]].
    exists g'. split; [exact Hg'|]. apply preserved_entry_split. exact E.
Qed.

(* nothing is invented: every parameter of the result is, at the same position, a parameter of the original *)
Theorem preserved_nothing_invented : forall i i', preserved i i' = true ->
    forall k n g', nth_error (ir_params i') k = Some (n, g') ->
    exists g, nth_error (ir_params i) k = Some (n, g)
              /\ same_typ g g' = true /\ same_prose g g' = true
              /\ same_default_ir (g_default g) (g_default g') = true.
Proof.
  intros i i' H k n g' Hk. apply preserved_split in H. destruct H as [_ [P _]].
  destruct (preserved_params_nth_back _ _ P k n g' Hk) as [g [Hg E]].
  exists g. split; [exact Hg|]. apply preserved_entry_split. exact E.
Qed.

(* names and order *)
Theorem preserved_names : forall i i', preserved i i' = true -> map fst (ir_params i) = map fst (ir_params i').
Proof.
  intros i i' H. apply preserved_split in H. destruct H as [_ [P _]]. revert P.
  generalize (ir_params i) (ir_params i'). induction l as [|[n g] a IH]; intros [|[n' g'] b] H;
    cbn [preserved_params] in H; try discriminate; [reflexivity|].
  apply andb_true_iff in H. destruct H as [H R]. apply andb_true_iff in H. destruct H as [N _].
  apply str_eqb_eq in N. subst. cbn [map fst]. f_equal. exact (IH b R).
Qed.

(* ------------------------------------------------------------------ the composition theorem *)

Section Compose.
  Variables (T K : Type).
  Variable pres : T -> T -> bool.
  Variable conv : K -> T -> outcome T.     (* conv k = parse_k o emit_k *)
  Variable D : T -> bool.                  (* a domain closed under the conversions considered *)
  Hypothesis pres_refl : forall i, pres i i = true.
  Hypothesis pres_trans : forall a b c, pres a b = true -> pres b c = true -> pres a c = true.

  (* the law of one kind: on the domain the conversion succeeds, preserves, and stays in the domain *)
  Definition RT (k : K) : Prop :=
    forall i, D i = true -> exists i', conv k i = Ok i' /\ pres i i' = true /\ D i' = true.

  Theorem chain_preserved : forall ks, (forall k, In k ks -> RT k) ->
      forall i, D i = true -> exists i', chain conv ks i = Ok i' /\ pres i i' = true /\ D i' = true.
  Proof.
    induction ks as [|k ks IH]; intros Hlaws i Hi.
    - exists i. cbn [chain]. split; [reflexivity|]. split; [apply pres_refl | exact Hi].
    - destruct (Hlaws k (or_introl eq_refl) i Hi) as [i1 [Hc [Hp Hd]]].
      destruct (IH (fun k' Hk' => Hlaws k' (or_intror Hk')) i1 Hd) as [i2 [Hc2 [Hp2 Hd2]]].
      exists i2. cbn [chain]. rewrite Hc. cbn [bind]. split; [exact Hc2|].
      split; [exact (pres_trans _ _ _ Hp Hp2) | exact Hd2].
  Qed.

  (* the law split in two: round trip, and closure of the domain *)
  Lemma RT_of_parts : forall k,
      (forall i, D i = true -> exists i', conv k i = Ok i' /\ pres i i' = true) ->
      (forall i i', D i = true -> conv k i = Ok i' -> D i' = true) ->
      RT k.
  Proof.
    intros k Hrt Hcl i Hi. destruct (Hrt i Hi) as [i' [Hc Hp]]. exists i'. split; [exact Hc|].
    split; [exact Hp | exact (Hcl i i' Hi Hc)].
  Qed.
End Compose.

(* C05: any chain (of any length, repetitions allowed) of conversions over kinds drawn from [ks] preserves the
   interface on the region chain_safe ks, given the law of each kind of [ks] on that region *)
Section C05Laws.
  Variable conv : kind -> ir -> outcome ir.
  Variable ks : list kind.
  Hypothesis RT_rest : In KRest ks -> kind_law conv (chain_safe ks) KRest.
  Hypothesis RT_numpydoc : In KNumpydoc ks -> kind_law conv (chain_safe ks) KNumpydoc.
  Hypothesis RT_google : In KGoogle ks -> kind_law conv (chain_safe ks) KGoogle.
  Hypothesis RT_class : In KClass ks -> kind_law conv (chain_safe ks) KClass.
  Hypothesis RT_function : In KFunction ks -> kind_law conv (chain_safe ks) KFunction.
  Hypothesis RT_method : In KMethod ks -> kind_law conv (chain_safe ks) KMethod.
  Hypothesis RT_argparse : In KArgparse ks -> kind_law conv (chain_safe ks) KArgparse.

  Theorem C05_chain_preserved_lemma : forall cs, incl cs ks ->
      forall i, chain_safe ks i = true ->
      exists i', chain conv cs i = Ok i' /\ preserved i i' = true /\ chain_safe ks i' = true.
  Proof.
    intros cs Hincl. apply (chain_preserved ir kind preserved conv (chain_safe ks) preserved_refl preserved_trans).
    intros k Hk. apply Hincl in Hk. change (kind_law conv (chain_safe ks) k).
    destruct k; [apply RT_rest | apply RT_numpydoc | apply RT_google | apply RT_class | apply RT_function
                 | apply RT_method | apply RT_argparse]; exact Hk.
  Qed.

  (* with the position-wise reading of preserved: the k-th parameter keeps its name, type, prose and default *)
  Corollary C05_chain_no_swap_lemma : forall cs, incl cs ks ->
      forall i, chain_safe ks i = true ->
      exists i', chain conv cs i = Ok i'
                 /\ List.length (ir_params i) = List.length (ir_params i')
                 /\ forall k n g, nth_error (ir_params i) k = Some (n, g) ->
                    exists g', nth_error (ir_params i') k = Some (n, g')
                               /\ same_typ g g' = true /\ same_prose g g' = true
                               /\ same_default_ir (g_default g) (g_default g') = true.
  Proof.
    intros cs Hincl i Hi. destruct (C05_chain_preserved_lemma cs Hincl i Hi) as [i' [Hc [Hp _]]].
    exists i'. split; [exact Hc|]. exact (preserved_no_swap i i' Hp).
  Qed.
End C05Laws.

(* ------------------------------------------------------------------ laws discharged by existing theorems *)

(* C01's relation for a parse that reads the defaults back out is exactly [preserved] *)
Lemma same_params_false_preserved : forall a b, same_params false a b = preserved_params a b.
Proof.
  induction a as [|[n g] a IH]; intros [|[n' g'] b]; cbn [same_params preserved_params]; try reflexivity.
  rewrite IH. reflexivity.
Qed.

Lemma same_returns_false_preserved : forall r r', same_returns false r r' = preserved_returns r r'.
Proof.
  intros r r'. unfold same_returns, preserved_returns.
  destruct (fld_opt r) as [g|], (fld_opt r') as [g'|]; reflexivity.
Qed.

Lemma same_interface_false_preserved : forall i i', same_interface false i i' = preserved i i'.
Proof.
  intros i i'. unfold same_interface, preserved.
  rewrite same_params_false_preserved, same_returns_false_preserved. reflexivity.
Qed.

(* ReST, round-trip part: discharged by the C01 ReST theorem on its guard *)
Theorem RT_rest_roundtrip : forall i, guard_C01_rest false i = true ->
    exists i', conv_rest i = Ok i' /\ preserved i i' = true.
Proof.
  intros i Hg. destruct (DocParseFacts.C01_rest_partial_lemma false i Hg) as [text [i' [Ht [_ [Hp Hs]]]]].
  exists i'. split.
  - unfold conv_rest. rewrite Ht. cbn [bind]. exact Hp.
  - rewrite <- same_interface_false_preserved. exact Hs.
Qed.

(* ReST, the whole law on any domain that lies inside the C01 guard and is closed under the conversion *)
Theorem RT_rest_from_C01 : forall D : ir -> bool,
    (forall i, D i = true -> guard_C01_rest false i = true) ->
    (forall i i', D i = true -> conv_rest i = Ok i' -> D i' = true) ->
    forall i, D i = true -> exists i', conv_rest i = Ok i' /\ preserved i i' = true /\ D i' = true.
Proof.
  intros D Hin Hcl i Hi. destruct (RT_rest_roundtrip i (Hin i Hi)) as [i' [Hc Hp]].
  exists i'. split; [exact Hc|]. split; [exact Hp | exact (Hcl i i' Hi Hc)].
Qed.

(* numpydoc / google: the relation of the C01 numpydoc/google theorem implies [preserved] *)
Lemma fget_fld_str : forall a b : fld str, fget a = fget b -> fld_str a = fld_str b.
Proof. intros [| |x] [| |y] H; cbn in *; try discriminate; try reflexivity. injection H as H. subst. reflexivity. Qed.

Lemma ng_fld_eqb_fld_str : forall a b, C01SpecNG.fld_eqb a b = true -> opt_eqb str_eqb (fld_str a) (fld_str b) = true.
Proof.
  intros a b H. unfold C01SpecNG.fld_eqb, C01SpecNG.opt_str_eqb in H.
  assert (E : fget a = fget b).
  { destruct (fget a) as [x|], (fget b) as [y|]; try discriminate; [|reflexivity].
    apply str_eqb_eq in H. subst. reflexivity. }
  rewrite (fget_fld_str a b E). apply opt_eqb_refl. exact str_eqb_refl.
Qed.

Lemma ng_default_eqb_same : forall a b, C01SpecNG.default_eqb a b = true -> same_default_ir a b = true.
Proof.
  intros a b H. destruct a as [[x|x|x]|], b as [[y|y|y]|];
    cbn [C01SpecNG.default_eqb same_default_ir dval_eqb none_like_d] in *; try discriminate; try reflexivity.
  - unfold none_like. exact H.
  - rewrite H. reflexivity.
  - rewrite H. reflexivity.
Qed.

Lemma ng_gparam_same_preserved : forall p q, C01SpecNG.gparam_same p q = true -> preserved_entry p q = true.
Proof.
  intros p q H. unfold C01SpecNG.gparam_same in H. apply andb_true_iff in H. destruct H as [H Hd].
  apply andb_true_iff in H. destruct H as [Ht Hp]. apply preserved_entry_split. repeat split.
  - unfold same_typ. apply ng_fld_eqb_fld_str. exact Ht.
  - unfold same_prose. apply ng_fld_eqb_fld_str. exact Hp.
  - apply ng_default_eqb_same. exact Hd.
Qed.

Lemma ng_params_same_preserved : forall a b, C01SpecNG.params_same a b = true -> preserved_params a b = true.
Proof.
  induction a as [|[n g] a IH]; intros [|[n' g'] b] H; cbn [C01SpecNG.params_same preserved_params] in *;
    try discriminate; try reflexivity.
  apply andb_true_iff in H. destruct H as [H R]. apply andb_true_iff in H. destruct H as [N E].
  rewrite N, (ng_gparam_same_preserved _ _ E). exact (IH b R).
Qed.

Lemma ng_same_interface_preserved : forall a b, C01SpecNG.same_interface a b = true -> preserved a b = true.
Proof.
  intros a b H. unfold C01SpecNG.same_interface in H. apply andb_true_iff in H. destruct H as [H Hr].
  apply andb_true_iff in H. destruct H as [Hd Hp]. apply preserved_split. repeat split.
  - unfold same_summary. unfold C01SpecNG.fld_eqb, C01SpecNG.opt_str_eqb in Hd. unfold fld_opt.
    destruct (ir_doc a) as [| |x], (ir_doc b) as [| |y]; cbn in *; try discriminate; try reflexivity. exact Hd.
  - apply ng_params_same_preserved. exact Hp.
  - unfold preserved_returns, fld_opt. unfold C01SpecNG.returns_same in Hr.
    destruct (ir_returns a) as [| |x], (ir_returns b) as [| |y]; cbn in *; try discriminate; try reflexivity.
    apply ng_gparam_same_preserved. exact Hr.
Qed.

(* the numpydoc / google conversion of the models *)
Definition conv_ng (style : DocParseNG.ngstyle) (i : ir) : outcome ir :=
  do text <- C01SpecNG.text_of_o style i;
  DocParseNG.parse_ng style C01SpecNG.rt_flags text.

(* round-trip part, from the C01 numpydoc/google theorem: on its guard, modulo its scan link *)
Theorem RT_ng_roundtrip : forall style i,
    C01SpecNG.guard_C01_ng style i = true -> C01SpecNG.scan_link_b style i = true ->
    exists i', conv_ng style i = Ok i' /\ preserved i i' = true.
Proof.
  intros style i Hg Hl.
  destruct (DocParseNGFacts.C01_ng_partial_modulo_scan style i Hg Hl) as [text [i' [Ht [_ [Hp Hs]]]]].
  exists i'. split.
  - unfold conv_ng. rewrite Ht. cbn [bind]. exact Hp.
  - apply ng_same_interface_preserved. exact Hs.
Qed.

(* ------------------------------------------------------------------ the region: refutation outside, inhabited inside *)

Definition gp (t d : str) (v : option pyval) : gparam := mkG (Has d) (Has t) (option_map DV v).
Definition mk_ir (ps : list (str * gparam)) : ir :=
  mkIR FNone (Has (L "static")) (Has (L "Summary line.")) ps FNone None.

(* in the region of every chain *)
Definition w_safe : ir :=
  mk_ir [(L "alpha", gp (L "int") (L "first one.") (Some (VInt 5)));
         (L "beta", gp (L "Optional[str]") (L "second one,") (Some (VStr (L "np"))))].

(* class prose-without-terminal-punctuation: a full stop is added before the default sentence *)
Definition w_noterm : ir := mk_ir [(L "alpha", gp (L "int") (L "x") (Some (VInt 5)))].

(* the property over the whole domain, for the one-hop chain through ReST of the models *)
Definition C05_statement : Prop :=
  forall i, c05_domain i = true -> exists i', chain (fun _ : kind => conv_rest) [KRest] i = Ok i' /\ preserved i i' = true.

Definition w_noterm_out : ir := mk_ir [(L "alpha", mkG (Has (L "x.")) (Has (L "int")) (Some (DV (VInt 5))))].

Lemma w_noterm_conv : chain (fun _ : kind => conv_rest) [KRest] w_noterm = Ok w_noterm_out.
Proof. vm_compute. reflexivity. Qed.

Lemma w_noterm_not_preserved : preserved w_noterm w_noterm_out = false.
Proof. vm_compute. reflexivity. Qed.

Lemma C05_refuted_lemma : ~ C05_statement.
Proof.
  intros H. assert (Hd : c05_domain w_noterm = true) by (vm_compute; reflexivity).
  destruct (H w_noterm Hd) as [i' [Hc Hp]].
  rewrite w_noterm_conv in Hc. injection Hc as Hc. subst i'.
  rewrite w_noterm_not_preserved in Hp. discriminate.
Qed.

(* the witness is outside the region, for the reason its class names *)
Lemma w_noterm_class : c05_class_of [KRest] w_noterm = Some K05_prose_no_terminal.
Proof. vm_compute. reflexivity. Qed.

Definition w_safe_holds_b : bool :=
  match conv_rest w_safe with Ok j => preserved w_safe j && chain_safe all_kinds j | Err _ => false end.

Lemma w_safe_holds : w_safe_holds_b = true.
Proof. vm_compute. reflexivity. Qed.

Lemma C05_nonvacuous_lemma :
  chain_safe all_kinds w_safe = true
  /\ guard_C01_rest false w_safe = true
  /\ exists i', conv_rest w_safe = Ok i' /\ preserved w_safe i' = true /\ chain_safe all_kinds i' = true.
Proof.
  split; [vm_compute; reflexivity|]. split; [vm_compute; reflexivity|].
  pose proof w_safe_holds as Hb. unfold w_safe_holds_b in Hb.
  destruct (conv_rest w_safe) as [i'|e]; [|discriminate].
  exists i'. split; [reflexivity|]. apply andb_true_iff in Hb. exact Hb.
Qed.

(* ------------------------------------------------------------------ the region of all seven kinds is inside every region *)

Lemma or_else_none : forall {A} (a b : option A), or_else a b = None <-> a = None /\ b = None.
Proof.
  intros A [x|] b; cbn; split; intros H.
  - discriminate.
  - destruct H as [H _]. discriminate.
  - split; [reflexivity | exact H].
  - destruct H as [_ H]. exact H.
Qed.

Lemma entry_soft_mono : forall ks seen g, entry_soft all_kinds seen g = None -> entry_soft ks seen g = None.
Proof.
  intros ks seen g. unfold entry_soft.
  change (existsb is_doc_kind all_kinds) with true. change (existsb is_ng_kind all_kinds) with true.
  change (existsb is_class_kind all_kinds) with true. change (existsb is_fun_kind all_kinds) with true.
  change (existsb is_argparse_kind all_kinds) with true.
  destruct (existsb is_doc_kind ks), (existsb is_ng_kind ks), (existsb is_class_kind ks), (existsb is_fun_kind ks),
    (existsb is_argparse_kind ks);
    destruct (fld_str (g_doc g)) as [d|]; try destruct (ends_terminal d);
    destruct (default_shape g);
    destruct (match fld_str (g_typ g) with Some t => type_shape t | None => ShOther end);
    destruct seen; cbn; intros H; try discriminate H; reflexivity.
Qed.

Lemma params_class_mono : forall ks ps seen, params_class all_kinds seen ps = None -> params_class ks seen ps = None.
Proof.
  intros ks. induction ps as [|[n g] r IH]; intros seen H; [reflexivity|].
  cbn [params_class] in *. apply or_else_none in H. destruct H as [Hh H]. apply or_else_none in H. destruct H as [Hs Hr].
  apply or_else_none. split; [exact Hh|]. apply or_else_none. split; [exact (entry_soft_mono ks seen g Hs)|].
  exact (IH _ Hr).
Qed.

Lemma return_class_mono : forall ks i, return_class all_kinds i = None -> return_class ks i = None.
Proof.
  intros ks i. unfold return_class. destruct (fld_opt (ir_returns i)) as [g|]; [|reflexivity].
  change (negb (forallb carries_return all_kinds)) with true. cbn. discriminate.
Qed.

(* a description every chain over all seven kinds preserves is preserved by every chain over any kinds *)
Theorem chain_safe_all_kinds : forall ks i, chain_safe all_kinds i = true -> chain_safe ks i = true.
Proof.
  intros ks i H. unfold chain_safe in *. apply andb_true_iff in H. destruct H as [Hd Hc]. rewrite Hd. cbn [andb].
  destruct (c05_class_of all_kinds i) as [k|] eqn:E; [discriminate|].
  unfold c05_class_of in E. apply or_else_none in E. destruct E as [Es E]. apply or_else_none in E. destruct E as [Er Ep].
  unfold c05_class_of. rewrite Es. cbn [or_else]. rewrite (return_class_mono ks i Er). cbn [or_else].
  rewrite (params_class_mono ks _ _ Ep). reflexivity.
Qed.
