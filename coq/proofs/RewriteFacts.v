(* RewriteFacts: the frame theorem of RewriteAtQuery (Locate.visit_stmt / rewrite_visit), by induction on the tree. *)
From Coq Require Import List Ascii Bool Arith ZArith Lia.
From Coq Require String.
Import String.StringSyntax.
From DT Require Import PyStr Sexp PyVal PureUtils PyAst Locate C15Spec PyStrFacts LocateFacts.
Import ListNotations.

(* ------------------------------------------------------------------ the nested loops as top-level functions *)
Fixpoint visit_blocks (search : loc) (st : rw_state) (bl : list (list astmt))
  : outcome (list (list astmt) * rw_state) :=
  match bl with
  | [] => Ok ([], st)
  | b :: rest =>
    do b' <- visit_list search st b;
    do r' <- visit_blocks search (snd b') rest;
    Ok (fst b' :: fst r', snd r')
  end.

Lemma visit_go_eq : forall search b st,
    (fix go (st : rw_state) (b : list astmt) : outcome (list astmt * rw_state) :=
       match b with
       | [] => Ok ([], st)
       | x :: rest =>
         do x' <- visit_stmt search st x;
         do r' <- go (snd x') rest;
         Ok (fst x' :: fst r', snd r')
       end) st b = visit_list search st b.
Proof.
  intros search b. induction b as [|x rest IH]; intros st; simpl; [reflexivity|].
  destruct (visit_stmt search st x) as [x'|e]; simpl; [rewrite IH|]; reflexivity.
Qed.

Lemma visit_gob_eq : forall search bl st,
    (fix gob (st : rw_state) (bl : list (list astmt)) : outcome (list (list astmt) * rw_state) :=
       match bl with
       | [] => Ok ([], st)
       | b :: rest =>
         do b' <- (fix go (st : rw_state) (b : list astmt) : outcome (list astmt * rw_state) :=
                     match b with
                     | [] => Ok ([], st)
                     | x :: rest' =>
                       do x' <- visit_stmt search st x;
                       do r' <- go (snd x') rest';
                       Ok (fst x' :: fst r', snd r')
                     end) st b;
         do r' <- gob (snd b') rest;
         Ok (fst b' :: fst r', snd r')
       end) st bl = visit_blocks search st bl.
Proof.
  intros search bl. induction bl as [|b rest IH]; intros st; simpl; [reflexivity|].
  rewrite visit_go_eq. destruct (visit_list search st b) as [b'|e]; simpl; [rewrite IH|]; reflexivity.
Qed.

Lemma visit_stmt_class : forall search st i l n bs body d,
    visit_stmt search st (AClass i l n bs body d)
    = if negb (rw_replaced st) && oloc_eqb l search then
        (do r <- node_as_stmt (rw_node st); Ok (r, mkRw true (rw_node st)))
      else
        (do r <- visit_list search st body; Ok (AClass i l n bs (fst r) d, snd r)).
Proof.
  intros. simpl. destruct (negb (rw_replaced st) && oloc_eqb l search); [reflexivity|].
  rewrite visit_go_eq. reflexivity.
Qed.

Lemma visit_stmt_other : forall search st i t h bl,
    visit_stmt search st (AOther i t h bl)
    = (do r <- visit_blocks search st bl; Ok (AOther i t h (fst r), snd r)).
Proof.
  intros. simpl. rewrite andb_false_r. rewrite visit_gob_eq. reflexivity.
Qed.

Lemma first_hit_go_eq : forall search b,
    (fix go (b : list astmt) : option path :=
       match b with
       | [] => None
       | x :: r => match first_hit search x with Some p => Some p | None => go r end
       end) b = first_hit_list search b.
Proof. intros search b. induction b as [|x r IH]; simpl; [reflexivity | rewrite IH; reflexivity]. Qed.

Lemma first_hit_gob_eq : forall search bl,
    (fix gob (bl : list (list astmt)) : option path :=
       match bl with
       | [] => None
       | b :: rest =>
         match (fix go (b : list astmt) : option path :=
                  match b with
                  | [] => None
                  | x :: r => match first_hit search x with Some p => Some p | None => go r end
                  end) b with
         | Some p => Some p
         | None => gob rest
         end
       end) bl = first_hit_blocks search bl.
Proof.
  intros search bl. induction bl as [|b r IH]; simpl; [reflexivity|].
  rewrite first_hit_go_eq, IH. reflexivity.
Qed.

Lemma first_hit_class : forall search i l n bs body d,
    first_hit search (AClass i l n bs body d)
    = if oloc_eqb l search then Some i else first_hit_list search body.
Proof. intros. simpl. rewrite first_hit_go_eq. reflexivity. Qed.

Lemma first_hit_other : forall search i t h bl,
    first_hit search (AOther i t h bl) = first_hit_blocks search bl.
Proof. intros. simpl. apply first_hit_gob_eq. Qed.

(* ------------------------------------------------------------------ once replaced, the visit changes nothing *)
Definition visit_id (search : loc) (s : astmt) : Prop :=
  forall st, rw_replaced st = true -> visit_stmt search st s = Ok (s, st).

Lemma visit_list_id_of : forall search l, Forall (visit_id search) l ->
    forall st, rw_replaced st = true -> visit_list search st l = Ok (l, st).
Proof.
  intros search l H. induction H as [|x l Hx Hl IH]; intros st Hst; simpl; [reflexivity|].
  rewrite (Hx st Hst). simpl. rewrite (IH st Hst). reflexivity.
Qed.

Lemma visit_blocks_id_of : forall search bl, Forall (Forall (visit_id search)) bl ->
    forall st, rw_replaced st = true -> visit_blocks search st bl = Ok (bl, st).
Proof.
  intros search bl H. induction H as [|b bl Hb Hbl IH]; intros st Hst; simpl; [reflexivity|].
  rewrite (visit_list_id_of search b Hb st Hst). simpl. rewrite (IH st Hst). reflexivity.
Qed.

Lemma visit_stmt_id : forall search s, visit_id search s.
Proof.
  intros search s. induction s using astmt_ind2; intros st Hst.
  - simpl. rewrite Hst. reflexivity.
  - rewrite visit_stmt_class, Hst. simpl. rewrite (visit_list_id_of search b H st Hst). reflexivity.
  - simpl. rewrite Hst. reflexivity.
  - simpl. rewrite Hst. reflexivity.
  - simpl. rewrite Hst. reflexivity.
  - simpl. rewrite Hst. reflexivity.
  - rewrite visit_stmt_other. rewrite (visit_blocks_id_of search bl H st Hst). reflexivity.
  - simpl. rewrite Hst. reflexivity.
Qed.

Lemma visit_list_id : forall search l st, rw_replaced st = true -> visit_list search st l = Ok (l, st).
Proof.
  intros search l. apply visit_list_id_of. apply Forall_forall. intros x _. apply visit_stmt_id.
Qed.

Lemma visit_blocks_id : forall search bl st, rw_replaced st = true -> visit_blocks search st bl = Ok (bl, st).
Proof.
  intros search bl st Hst. revert st Hst. induction bl as [|b r IH]; intros st Hst; simpl; [reflexivity|].
  rewrite visit_list_id by assumption. simpl. rewrite IH by assumption. reflexivity.
Qed.

(* ------------------------------------------------------------------ the argument lists of an addressed parent function *)
Lemma replace_first_arg_spec : forall search r l l' b,
    replace_first_arg search r l = (l', b) ->
    (b = false /\ l' = l /\ first_arg_hit search l = None)
    \/ (b = true /\ exists p, first_arg_hit search l = Some p /\ arg_replaced search r p l l').
Proof.
  intros search r l. induction l as [|a rest IH]; intros l' b H; simpl in H.
  - inversion H; subst. left. repeat split; reflexivity.
  - unfold first_arg_hit. simpl. destruct (oloc_eqb (aa_loc a) search) eqn:E.
    + inversion H; subst. right. split; [reflexivity|]. exists (aa_id a). split; [reflexivity|].
      apply ar_here; [assumption | reflexivity].
    + destruct (replace_first_arg search r rest) as [rest' b0] eqn:E2. inversion H; subst.
      destruct (IH rest' b eq_refl) as [[H1 [H2 H3]]|[H1 [p [H2 H3]]]].
      * left. subst. repeat split; try reflexivity. exact H3.
      * right. split; [assumption|]. exists p. split; [exact H2|]. apply ar_later; assumption.
Qed.

Lemma set_nth_length : forall (A : Type) n (x : A) l, List.length (set_nth n x l) = List.length l.
Proof.
  intros A n x l. revert n. induction l as [|y r IH]; intros n; destruct n; simpl; try reflexivity.
  rewrite IH. reflexivity.
Qed.

Lemma update_defaults_length : forall idx nd ds ds',
    update_defaults idx nd ds = Ok ds' -> List.length ds' = List.length ds.
Proof.
  intros idx nd ds ds' H. unfold update_defaults in H.
  destruct idx as [z|]; [|inversion H; reflexivity].
  destruct nd as [d|]; [|inversion H; reflexivity].
  destruct (z <? Z.of_nat (List.length ds))%Z; [|inversion H; reflexivity].
  destruct ((if (z <? 0)%Z then (z + Z.of_nat (List.length ds))%Z else z) <? 0)%Z; [discriminate|].
  inversion H. apply set_nth_length.
Qed.

(* ------------------------------------------------------------------ the frame property of one statement *)
Definition frame_stmt (search : loc) (s : astmt) : Prop :=
  forall st s' st',
    rw_replaced st = false -> visit_stmt search st s = Ok (s', st') ->
    (rw_replaced st' = false /\ first_hit search s = None /\ same_mod_defaults search s s')
    \/ (rw_replaced st' = true /\ exists p, first_hit search s = Some p /\ replaced_in search (rw_node st') p s s').

Definition frame_list_at (search : loc) (l : list astmt) : Prop :=
  forall st l' st',
    rw_replaced st = false -> visit_list search st l = Ok (l', st') ->
    (rw_replaced st' = false /\ first_hit_list search l = None /\ Forall2 (same_mod_defaults search) l l')
    \/ (rw_replaced st' = true /\ exists p, first_hit_list search l = Some p
                                           /\ replaced_first search (rw_node st') p l l').

Lemma Forall2_refl_smd : forall search l, Forall2 (same_mod_defaults search) l l.
Proof. intros search l. induction l; constructor; [apply smd_refl | assumption]. Qed.

Lemma frame_list_of : forall search l, Forall (frame_stmt search) l -> frame_list_at search l.
Proof.
  intros search l H. induction H as [|x l Hx Hl IH]; intros st l' st' Hst Hv; simpl in Hv.
  - inversion Hv; subst. left. repeat split; [assumption | constructor].
  - destruct (visit_stmt search st x) as [[x' st1]|e] eqn:Ex; simpl in Hv; [|discriminate].
    destruct (Hx st x' st1 Hst Ex) as [[H1 [H2 H3]]|[H1 [p [H2 H3]]]].
    + destruct (visit_list search st1 l) as [[l1 st2]|e] eqn:El; simpl in Hv; [|discriminate].
      inversion Hv; subst.
      destruct (IH st1 l1 st' H1 El) as [[K1 [K2 K3]]|[K1 [p [K2 K3]]]].
      * left. simpl. rewrite H2. repeat split; [assumption | assumption | constructor; assumption].
      * right. split; [assumption|]. exists p. simpl. rewrite H2. split; [assumption|].
        apply rf_skip; assumption.
    + rewrite (visit_list_id search l st1 H1) in Hv. simpl in Hv. inversion Hv; subst.
      right. split; [assumption|]. exists p. simpl. rewrite H2. split; [reflexivity|].
      apply rf_head. assumption.
Qed.

Definition frame_blocks_at (search : loc) (bl : list (list astmt)) : Prop :=
  forall st bl' st',
    rw_replaced st = false -> visit_blocks search st bl = Ok (bl', st') ->
    (rw_replaced st' = false /\ first_hit_blocks search bl = None
     /\ Forall2 (Forall2 (same_mod_defaults search)) bl bl')
    \/ (rw_replaced st' = true /\ exists p, first_hit_blocks search bl = Some p
                                           /\ replaced_first_blocks search (rw_node st') p bl bl').

Lemma frame_blocks_of : forall search bl, Forall (Forall (frame_stmt search)) bl -> frame_blocks_at search bl.
Proof.
  intros search bl H. induction H as [|b bl Hb Hbl IH]; intros st bl' st' Hst Hv; simpl in Hv.
  - inversion Hv; subst. left. repeat split; [assumption | constructor].
  - destruct (visit_list search st b) as [[b' st1]|e] eqn:Eb; simpl in Hv; [|discriminate].
    destruct (frame_list_of search b Hb st b' st1 Hst Eb) as [[H1 [H2 H3]]|[H1 [p [H2 H3]]]].
    + destruct (visit_blocks search st1 bl) as [[bl1 st2]|e] eqn:El; simpl in Hv; [|discriminate].
      inversion Hv; subst.
      destruct (IH st1 bl1 st' H1 El) as [[K1 [K2 K3]]|[K1 [p [K2 K3]]]].
      * left. simpl. rewrite H2. repeat split; [assumption | assumption | constructor; assumption].
      * right. split; [assumption|]. exists p. simpl. rewrite H2. split; [assumption|].
        apply rfb_skip; assumption.
    + rewrite (visit_blocks_id search bl st1 H1) in Hv. simpl in Hv. inversion Hv; subst.
      right. split; [assumption|]. exists p. simpl. rewrite H2. split; [reflexivity|].
      apply rfb_head. assumption.
Qed.

(* a statement that is not a FunctionDef and carries the searched _location: replaced by the current node *)
Lemma frame_leaf_hit : forall search st s s' st',
    (forall i l n a b d x, s <> AFunc i l n a b d x) ->
    first_hit search s = (if oloc_eqb (stmt_loc s) search then Some (stmt_id s) else first_hit search s) ->
    rw_replaced st = false -> oloc_eqb (stmt_loc s) search = true ->
    (do r <- node_as_stmt (rw_node st); Ok (r, mkRw true (rw_node st))) = Ok (s', st') ->
    rw_replaced st' = true /\ exists p, first_hit search s = Some p /\ replaced_in search (rw_node st') p s s'.
Proof.
  intros search st s s' st' Hnf Hfh Hst Hloc Hv.
  destruct (node_as_stmt (rw_node st)) as [r|e] eqn:En; simpl in Hv; [|discriminate].
  inversion Hv; subst. simpl. split; [reflexivity|]. exists (stmt_id s). rewrite Hfh, Hloc.
  split; [reflexivity|]. apply ri_here; try assumption. reflexivity.
Qed.

Lemma frame_FunctionDef : forall search i l n a b d r, frame_stmt search (AFunc i l n a b d r).
Proof.
  intros search i l n a b d r st s' st' Hst Hv.
  change (visit_stmt search st (AFunc i l n a b d r)) with (visit_FunctionDef search st (AFunc i l n a b d r)) in Hv.
  unfold visit_FunctionDef in Hv. rewrite Hst in Hv. simpl negb in Hv. rewrite andb_true_l in Hv.
  destruct (oloc_eqb l (removelast search)) eqn:El.
  - (* the parent function of the addressed argument *)
    match type of Hv with (do conv <- ?c; _) = _ => destruct c as [[node' ds]|e] eqn:Ec end; simpl in Hv; [|discriminate].
    assert (Hlen : List.length ds = List.length (aar_defaults a)).
    { destruct (rw_node st) as [m|s0|a0]; try (inversion Ec; reflexivity).
      destruct s0; try (inversion Ec; reflexivity).
      - destruct (idx_for_annassign target (aar_args a)) as [idx|e]; simpl in Ec; [|discriminate].
        destruct (update_defaults idx _ (aar_defaults a)) as [ds0|e] eqn:Eu; simpl in Ec; [|discriminate].
        destruct (name_id target) as [ti|]; simpl in Ec; [|discriminate].
        inversion Ec; subst. eapply update_defaults_length; eassumption.
      - destruct (idx_for_assign targets (aar_args a)) as [idx|e]; simpl in Ec; [|discriminate].
        match type of Ec with (do r1 <- ?c; _) = _ => destruct c as [r1|e] end; simpl in Ec; [|discriminate].
        destruct (update_defaults idx _ (aar_defaults a)) as [ds0|e] eqn:Eu; simpl in Ec; [|discriminate].
        inversion Ec; subst. eapply update_defaults_length; eassumption. }
    destruct (is_arg_node node'); simpl in Hv; [|discriminate].
    destruct (emit_arg node') as [ra|e] eqn:Er; simpl in Hv; [|discriminate].
    destruct (replace_first_arg search ra (aar_args a)) as [args1 b1] eqn:E1.
    destruct (replace_first_arg search ra (aar_kwonly a)) as [kw1 b2] eqn:E2.
    inversion Hv; subst. simpl.
    destruct (replace_first_arg_spec _ _ _ _ _ E1) as [[B1 [A1 F1]]|[B1 [p1 [F1 R1]]]];
      destruct (replace_first_arg_spec _ _ _ _ _ E2) as [[B2 [A2 F2]]|[B2 [p2 [F2 R2]]]]; subst.
    + left. rewrite El, F1, F2. repeat split.
      apply smd_func; [assumption|]. unfold same_args. simpl. repeat split. symmetry. assumption.
    + right. split; [reflexivity|]. exists p2. rewrite El, F1, F2. split; [reflexivity|].
      eapply ri_func_kw; simpl; try eassumption; reflexivity.
    + right. split; [reflexivity|]. exists p1. rewrite El, F1. split; [reflexivity|].
      eapply ri_func_pos; simpl; try eassumption; try reflexivity.
      right. split; [assumption | reflexivity].
    + right. split; [reflexivity|]. exists p1. rewrite El, F1. split; [reflexivity|].
      eapply ri_func_pos; simpl; try eassumption; try reflexivity.
      left. exists p2. assumption.
  - inversion Hv; subst. left. simpl. rewrite El. repeat split; [assumption | apply smd_refl].
Qed.

Lemma frame_stmt_all : forall search s, frame_stmt search s.
Proof.
  intros search s. induction s using astmt_ind2.
  - apply frame_FunctionDef.
  - (* ClassDef *)
    intros st s' st' Hst Hv. rewrite visit_stmt_class in Hv. rewrite Hst in Hv. simpl negb in Hv. rewrite andb_true_l in Hv.
    rewrite first_hit_class.
    destruct (oloc_eqb l search) eqn:El.
    + right. destruct (node_as_stmt (rw_node st)) as [r|e] eqn:En; simpl in Hv; [|discriminate].
      inversion Hv; subst. simpl. split; [reflexivity|]. exists i. split; [reflexivity|].
      apply ri_here; try assumption; try reflexivity. intros; discriminate.
    + destruct (visit_list search st b) as [[b' st1]|e] eqn:Eb; simpl in Hv; [|discriminate].
      inversion Hv; subst.
      destruct (frame_list_of search b H st b' st' Hst Eb) as [[H1 [H2 H3]]|[H1 [p [H2 H3]]]].
      * left. repeat split; [assumption | assumption | apply smd_class; assumption].
      * right. split; [assumption|]. exists p. split; [assumption|]. apply ri_class; assumption.
  - (* AnnAssign *)
    intros st s' st' Hst Hv. simpl in Hv. rewrite Hst in Hv. simpl in Hv.
    destruct (oloc_eqb l search) eqn:El.
    + right. eapply (frame_leaf_hit search st (AAnnAssign i l t a v)); try eassumption; try reflexivity.
      * intros; discriminate.
      * simpl. rewrite El. reflexivity.
    + inversion Hv; subst. left. simpl. rewrite El. repeat split; [assumption | apply smd_refl].
  - (* Assign *)
    intros st s' st' Hst Hv. simpl in Hv. rewrite Hst in Hv. simpl in Hv.
    destruct (oloc_eqb l search) eqn:El.
    + right. eapply (frame_leaf_hit search st (AAssign i l ts v)); try eassumption; try reflexivity.
      * intros; discriminate.
      * simpl. rewrite El. reflexivity.
    + inversion Hv; subst. left. simpl. rewrite El. repeat split; [assumption | apply smd_refl].
  - (* Expr *)
    intros st s' st' Hst Hv. simpl in Hv. rewrite andb_false_r in Hv.
    inversion Hv; subst. left. simpl. repeat split; [assumption | apply smd_refl].
  - (* Return *)
    intros st s' st' Hst Hv. simpl in Hv. rewrite andb_false_r in Hv.
    inversion Hv; subst. left. simpl. repeat split; [assumption | apply smd_refl].
  - (* other statements: their blocks *)
    intros st s' st' Hst Hv. rewrite visit_stmt_other in Hv. rewrite first_hit_other.
    destruct (visit_blocks search st bl) as [[bl' st1]|e] eqn:Eb; simpl in Hv; [|discriminate].
    inversion Hv; subst.
    destruct (frame_blocks_of search bl H st bl' st' Hst Eb) as [[H1 [H2 H3]]|[H1 [p [H2 H3]]]].
    + left. repeat split; [assumption | assumption | apply smd_other; assumption].
    + right. split; [assumption|]. exists p. split; [assumption|]. apply ri_other; assumption.
  - (* an ast.arg in a statement list *)
    intros st s' st' Hst Hv. simpl in Hv. rewrite Hst in Hv. simpl in Hv.
    destruct (oloc_eqb (aa_loc a) search) eqn:El.
    + right. eapply (frame_leaf_hit search st (AArgS a)); try eassumption; try reflexivity.
      * intros; discriminate.
      * simpl. rewrite El. reflexivity.
    + inversion Hv; subst. left. simpl. rewrite El. repeat split; [assumption | apply smd_refl].
Qed.

Lemma frame_list : forall search l, frame_list_at search l.
Proof.
  intros search l. apply frame_list_of. apply Forall_forall. intros x _. apply frame_stmt_all.
Qed.

(* ------------------------------------------------------------------ the frame theorem *)
Theorem C15_rewrite_frame_lemma : C15_rewrite_frame.
Proof.
  unfold C15_rewrite_frame. intros search repl m m' st Hs Hv.
  unfold rewrite_visit in Hv. destruct search as [|x q]; [contradiction|].
  destruct (visit_list (x :: q) (mkRw false repl) m) as [[l st1]|e] eqn:E; simpl in Hv; [|discriminate].
  inversion Hv; subst.
  exact (frame_list (x :: q) m (mkRw false repl) m' st eq_refl E).
Qed.

(* the relation determines the replaced position: it is the first hit *)
Lemma C15_rewrite_position : forall search repl m m' st,
    search <> [] -> rewrite_visit search repl m = Ok (NMod m', st) ->
    rw_replaced st = match first_hit_list search m with Some _ => true | None => false end.
Proof.
  intros search repl m m' st Hs Hv.
  destruct (C15_rewrite_frame_lemma search repl m m' st Hs Hv) as [[H1 [H2 _]]|[H1 [p [H2 _]]]];
    rewrite H1, H2; reflexivity.
Qed.

(* with an ast.arg as replacement nothing but the replaced position changes: no conversion, no default touched *)
Lemma is_arg_node_conv : forall search st i l n a b d r s' st',
    is_arg_node (rw_node st) = true ->
    visit_stmt search st (AFunc i l n a b d r) = Ok (s', st') ->
    rw_node st' = rw_node st
    /\ exists a', s' = AFunc i l n a' b d r /\ aar_defaults a' = aar_defaults a.
Proof.
  intros search st i l n a b d r s' st' Ha Hv.
  change (visit_stmt search st (AFunc i l n a b d r)) with (visit_FunctionDef search st (AFunc i l n a b d r)) in Hv.
  unfold visit_FunctionDef in Hv.
  destruct (negb (rw_replaced st) && oloc_eqb l (removelast search)).
  - assert (Hc : exists x, rw_node st = x /\ is_arg_node x = true) by (eexists; split; [reflexivity | assumption]).
    destruct (rw_node st) as [m0|s0|a0] eqn:En; simpl in Ha; try discriminate.
    + destruct s0; simpl in Ha; try discriminate. simpl in Hv.
      destruct (replace_first_arg search a0 (aar_args a)) as [args1 b1].
      destruct (replace_first_arg search a0 (aar_kwonly a)) as [kw1 b2].
      inversion Hv; subst. simpl. split; [reflexivity|]. eexists. split; reflexivity.
    + simpl in Hv.
      destruct (replace_first_arg search a0 (aar_args a)) as [args1 b1].
      destruct (replace_first_arg search a0 (aar_kwonly a)) as [kw1 b2].
      inversion Hv; subst. simpl. split; [reflexivity|]. eexists. split; reflexivity.
  - inversion Hv; subst. split; [reflexivity|]. exists a. split; reflexivity.
Qed.
