(* C06Facts: the emitter's side of C06.  Structure of the emitted argument list (unbounded in the number of
   parameters): names, order, kinds, alignment of defaults, every parameter carries a default node; the
   signature the IR describes is obtained inside guard_C06_function and refuted outside; attribute names
   of the emitted class and option strings of the emitted argparse function. *)
From Coq Require Import List Ascii Bool Arith ZArith Lia.
From Coq Require String.
Import String.StringSyntax.
From DT Require Import PyStr Sexp PyVal TyExpr PureUtils Defaults PyAst IR EmitAst C06Spec PyStrFacts EmitAstFacts.
Import ListNotations.

(* ------------------------------------------------------------------ per-parameter facts *)
Lemma arg_of_param_name : forall pt it kv a, arg_of_param pt it kv = Ok a -> a_name a = fst kv.
Proof.
  intros pt it [name g] a H. unfold arg_of_param in H. destruct it.
  - destruct (g_typ g) as [| |t].
    + injection H as H. now subst a.
    + injection H as H. now subst a.
    + destruct (in_simple_types t).
      * injection H as H. now subst a.
      * apply bind_Ok in H. destruct H as [e [_ H]]. injection H as H. now subst a.
  - injection H as H. now subst a.
Qed.

Lemma arg_of_param_ann_indep : forall pt it n1 n2 g,
    (do a <- arg_of_param pt it (n1, g); Ok (a_ann a)) = (do a <- arg_of_param pt it (n2, g); Ok (a_ann a)).
Proof.
  intros pt it n1 n2 g. unfold arg_of_param. destruct it; [|reflexivity].
  destruct (g_typ g) as [| |t]; try reflexivity.
  destruct (in_simple_types t); [reflexivity|].
  destruct (ast_parse_fix pt t); reflexivity.
Qed.

Lemma emitted_ann_spec : forall pt it kv a,
    arg_of_param pt it kv = Ok a -> emitted_ann pt it (snd kv) = Ok (a_ann a).
Proof.
  intros pt it [name g] a H. unfold emitted_ann. cbn [snd].
  transitivity (do a0 <- arg_of_param pt it (name, g); Ok (a_ann a0));
    [apply arg_of_param_ann_indep | rewrite H; reflexivity].
Qed.

Lemma sig_combine : forall pt it kw l afp dfp,
    map_outcome (arg_of_param pt it) l = Ok afp ->
    map_outcome default_of_param l = Ok dfp ->
    map_outcome (emitted_param_sig pt it kw) l
    = Ok (map (fun p => mkSig (a_name (fst p)) (if kw then KwOnly else PosOrKw) (Some (snd p)) (a_ann (fst p)))
              (combine afp dfp)).
Proof.
  intros pt it kw l. induction l as [|kv l IH]; intros afp dfp Ha Hd; cbn in Ha, Hd.
  - injection Ha as Ha. injection Hd as Hd. subst. reflexivity.
  - apply bind_Ok in Ha. destruct Ha as [a [Ha1 Ha]]. apply bind_Ok in Ha. destruct Ha as [as' [Ha2 Ha]].
    injection Ha as Ha. subst afp.
    apply bind_Ok in Hd. destruct Hd as [d [Hd1 Hd]]. apply bind_Ok in Hd. destruct Hd as [ds' [Hd2 Hd]].
    injection Hd as Hd. subst dfp.
    cbn [map_outcome combine map fst snd]. unfold emitted_param_sig at 1.
    rewrite (emitted_ann_spec _ _ _ _ Ha1). cbn [bind]. rewrite Hd1. cbn [bind].
    rewrite (IH _ _ Ha2 Hd2). cbn [bind]. rewrite (arg_of_param_name _ _ _ _ Ha1). reflexivity.
Qed.

(* ------------------------------------------------------------------ the emitted argument list *)
Definition fn_args0 (ftype : option str) : list arg :=
  match ftype with
  | None => []
  | Some t => if str_eqb t (L "static") then [] else [set_arg t None]
  end.

Definition fn_kwarg (i : ir) : option arg :=
  match filter (fun kv => negb (no_kwargs kv)) (ir_params i) with
  | kv :: _ => Some (set_arg (fst kv) None)
  | [] => None
  end.

Lemma emit_function_arguments : forall pt i fn ft it kw tds n a body d r i2,
    emit_function pt i fn ft it kw tds = Ok (SFunc n a body d r, i2) ->
    exists ftype afp dfp,
      py_or ft (ir_type i) = Ok ftype
      /\ map_outcome (arg_of_param pt it) (filter no_kwargs (ir_params i)) = Ok afp
      /\ map_outcome default_of_param (filter no_kwargs (ir_params i)) = Ok dfp
      /\ a = (if kw then mkArguments (fn_args0 ftype) [] afp (map Some dfp) None (fn_kwarg i)
              else mkArguments (fn_args0 ftype ++ afp) dfp [] [] None (fn_kwarg i)).
Proof.
  intros pt i fn ft it kw tds n a body d r i2 H. unfold emit_function in H.
  apply bind_Ok in H. destruct H as [fname [_ H]].
  apply bind_Ok in H. destruct H as [ftype [Hft H]].
  apply bind_Ok in H. destruct H as [afp [Hafp H]].
  apply bind_Ok in H. destruct H as [dfp [Hdfp H]].
  apply bind_Ok in H. destruct H as [b [_ H]].
  apply bind_Ok in H. destruct H as [rv [_ H]].
  apply bind_Ok in H. destruct H as [text [_ H]].
  apply bind_Ok in H. destruct H as [rets [_ H]].
  destruct fname as [nm|]; [|discriminate]. injection H as _ Ha _ _ _ _. 
  exists ftype, afp, dfp. repeat split; try assumption. subst a. destruct kw; reflexivity.
Qed.

Lemma first_arg_args0 : forall ftype,
    map (fun x => mkSig (a_name x) PosOrKw None (a_ann x)) (fn_args0 ftype) = first_arg ftype.
Proof. intros [t|]; unfold fn_args0, first_arg; [destruct (str_eqb t (L "static")); reflexivity | reflexivity]. Qed.

Lemma kwarg_sig_spec : forall i,
    (match fn_kwarg i with Some x => [mkSig (a_name x) VarKw None (a_ann x)] | None => [] end) = kwarg_sig i.
Proof.
  intros i. unfold fn_kwarg, kwarg_sig. destruct (filter _ (ir_params i)) as [|kv r]; reflexivity.
Qed.

Lemma kwonly_sig_map : forall (afp : list arg) (dfp : list expr),
    map (fun p : arg * option expr => mkSig (a_name (fst p)) KwOnly (snd p) (a_ann (fst p)))
        (combine afp (map Some dfp))
    = map (fun p : arg * expr => mkSig (a_name (fst p)) KwOnly (Some (snd p)) (a_ann (fst p)))
          (combine afp dfp).
Proof.
  induction afp as [|a afp IH]; intros [|d dfp]; cbn; try reflexivity. f_equal. apply IH.
Qed.

(* every parameter of the IR carries a default node in the emitted signature; names, order, kinds *)
Lemma emit_function_signature : forall pt i fn ft it kw tds n a body d r i2,
    emit_function pt i fn ft it kw tds = Ok (SFunc n a body d r, i2) ->
    exists ftype ps,
      py_or ft (ir_type i) = Ok ftype
      /\ map_outcome (emitted_param_sig pt it kw) (filter no_kwargs (ir_params i)) = Ok ps
      /\ py_signature_of (SFunc n a body d r) = Some (first_arg ftype ++ ps ++ kwarg_sig i, r).
Proof.
  intros pt i fn ft it kw tds n a body d r i2 H.
  destruct (emit_function_arguments _ _ _ _ _ _ _ _ _ _ _ _ _ H) as [ftype [afp [dfp [Hft [Ha [Hd Hargs]]]]]].
  exists ftype. eexists. split; [exact Hft|]. split; [eapply sig_combine; eauto|].
  assert (Hla : List.length afp = List.length (filter no_kwargs (ir_params i))) by (eapply map_outcome_length; eauto).
  assert (Hld : List.length dfp = List.length (filter no_kwargs (ir_params i))) by (eapply map_outcome_length; eauto).
  subst a. unfold py_signature_of. destruct kw; cbn [ar_args ar_defaults ar_kwonly ar_kw_defaults ar_vararg ar_kwarg].
  - cbn [List.length]. rewrite Nat.sub_0_r, firstn_all, skipn_all. rewrite combine_nil. cbn [map app].
    rewrite first_arg_args0, kwarg_sig_spec, kwonly_sig_map. reflexivity.
  - rewrite app_length. replace (List.length (fn_args0 ftype) + List.length afp - List.length dfp)
      with (List.length (fn_args0 ftype)) by lia.
    rewrite firstn_app, Nat.sub_diag, firstn_all, firstn_O, app_nil_r.
    rewrite skipn_app, Nat.sub_diag, skipn_all. cbn [skipn app combine map].
    rewrite first_arg_args0, kwarg_sig_spec. reflexivity.
Qed.

(* len defaults <= len args and len kw_defaults = len kwonlyargs, for every IR and option combination *)
Lemma emit_function_counts : forall pt i fn ft it kw tds n a body d r i2,
    emit_function pt i fn ft it kw tds = Ok (SFunc n a body d r, i2) ->
    List.length (ar_defaults a) <= List.length (ar_args a)
    /\ List.length (ar_kw_defaults a) = List.length (ar_kwonly a)
    /\ List.length (ar_defaults a) + List.length (ar_kw_defaults a)
       = List.length (filter no_kwargs (ir_params i)).
Proof.
  intros pt i fn ft it kw tds n a body d r i2 H.
  destruct (emit_function_arguments _ _ _ _ _ _ _ _ _ _ _ _ _ H) as [ftype [afp [dfp [Hft [Ha [Hd Hargs]]]]]].
  assert (Hla : List.length afp = List.length (filter no_kwargs (ir_params i))) by (eapply map_outcome_length; eauto).
  assert (Hld : List.length dfp = List.length (filter no_kwargs (ir_params i))) by (eapply map_outcome_length; eauto).
  subst a. destruct kw; cbn [ar_args ar_defaults ar_kwonly ar_kw_defaults].
  - rewrite map_length. cbn [List.length]. lia.
  - rewrite app_length. cbn [List.length]. lia.
Qed.

(* names and order of the emitted arguments *)
Lemma map_outcome_arg_names : forall pt it l afp,
    map_outcome (arg_of_param pt it) l = Ok afp -> map a_name afp = map fst l.
Proof.
  intros pt it l. induction l as [|kv l IH]; intros afp H; cbn in H.
  - injection H as H. now subst.
  - apply bind_Ok in H. destruct H as [a [Ha H]]. apply bind_Ok in H. destruct H as [r [Hr H]].
    injection H as H. subst afp. cbn. f_equal; [eapply arg_of_param_name; eauto | now apply IH].
Qed.

Lemma emit_function_names : forall pt i fn ft it kw tds n a body d r i2,
    emit_function pt i fn ft it kw tds = Ok (SFunc n a body d r, i2) ->
    exists ftype, py_or ft (ir_type i) = Ok ftype
      /\ map a_name (ar_args a ++ ar_kwonly a)
         = map a_name (fn_args0 ftype) ++ map fst (filter no_kwargs (ir_params i))
      /\ ar_vararg a = None /\ ar_kwarg a = fn_kwarg i.
Proof.
  intros pt i fn ft it kw tds n a body d r i2 H.
  destruct (emit_function_arguments _ _ _ _ _ _ _ _ _ _ _ _ _ H) as [ftype [afp [dfp [Hft [Ha [Hd Hargs]]]]]].
  exists ftype. split; [exact Hft|]. apply map_outcome_arg_names in Ha.
  subst a. destruct kw; cbn [ar_args ar_kwonly ar_vararg ar_kwarg]; rewrite ?app_nil_r, map_app, Ha; auto.
Qed.

(* ------------------------------------------------------------------ the signature the IR describes *)
Lemma map_outcome_ext_in : forall {A B} (f g : A -> outcome B) l,
    (forall x, In x l -> f x = g x) -> map_outcome f l = map_outcome g l.
Proof.
  intros A B f g l. induction l as [|x l IH]; intros H; cbn; [reflexivity|].
  rewrite (H x (or_introl eq_refl)). rewrite IH; [reflexivity|]. intros y Hy. apply H. now right.
Qed.

Lemma plain_default_sig : forall pt it kw kv,
    plain_default (snd kv) = true -> emitted_param_sig pt it kw kv = spec_param_sig pt it kw kv.
Proof.
  intros pt it kw [name g] Hp. unfold emitted_param_sig, spec_param_sig, plain_default in *. cbn [snd fst] in *.
  destruct (emitted_ann pt it g) as [ann|e]; [|reflexivity]. cbn [bind].
  unfold default_of_param, spec_default. cbn [snd].
  destruct (g_default g) as [[v|e|o]|]; try discriminate.
  destruct (in_none_types v) eqn:En; cbn [bind]; [reflexivity|].
  destruct v; cbn [bind]; try reflexivity.
  apply andb_true_iff in Hp. destruct Hp as [_ Hs]. apply str_eqb_eq in Hs.
  unfold set_value. now rewrite Hs.
Qed.

Lemma C06_function_partial_lemma : forall pt i fn ft it kw tds s i2 ftype,
    guard_C06_function i = true ->
    emit_function pt i fn ft it kw tds = Ok (s, i2) ->
    py_or ft (ir_type i) = Ok ftype ->
    exists sg, spec_signature pt i ftype it kw = Ok sg /\ option_map fst (py_signature_of s) = Some sg.
Proof.
  intros pt i fn ft it kw tds s i2 ftype G H Hft.
  assert (Hs : exists n a body d r, s = SFunc n a body d r).
  { pose proof H as H0. unfold emit_function in H0.
    apply bind_Ok in H0. destruct H0 as [fname [_ H0]].
    apply bind_Ok in H0. destruct H0 as [ftype0 [_ H0]].
    apply bind_Ok in H0. destruct H0 as [afp [_ H0]].
    apply bind_Ok in H0. destruct H0 as [dfp [_ H0]].
    apply bind_Ok in H0. destruct H0 as [b [_ H0]].
    apply bind_Ok in H0. destruct H0 as [rv [_ H0]].
    apply bind_Ok in H0. destruct H0 as [text [_ H0]].
    apply bind_Ok in H0. destruct H0 as [rets [_ H0]].
    destruct fname as [nm|]; [|discriminate]. injection H0 as Hs _. subst s. eauto 6. }
  destruct Hs as [n [a [body [d [r Hs]]]]]. subst s.
  destruct (emit_function_signature _ _ _ _ _ _ _ _ _ _ _ _ _ H) as [ftype' [ps [Hft' [Hps Hsig]]]].
  rewrite Hft in Hft'. injection Hft' as Hft'. subst ftype'.
  exists (first_arg ftype ++ ps ++ kwarg_sig i). split.
  - unfold spec_signature.
    rewrite <- (map_outcome_ext_in (emitted_param_sig pt it kw) (spec_param_sig pt it kw)).
    + rewrite Hps. reflexivity.
    + intros kv Hin. apply plain_default_sig. unfold guard_C06_function in G.
      rewrite forallb_forall in G. now apply G.
  - rewrite Hsig. reflexivity.
Qed.

(* ------------------------------------------------------------------ refutation *)
Definition w6_ir : ir :=
  mkIR (Has (L "f")) (Has (L "static")) (Has (L "Summary."))
       [(L "x", mkG (Has (L "the x.")) (Has (L "int")) None)] FNone None.

Lemma C06_function_refuted_lemma : ~ C06_function_statement.
Proof.
  intros H.
  specialize (H [] w6_ir (Some (L "f")) (Some (L "static")) true false (Ok [])).
  destruct (emit_function [] w6_ir (Some (L "f")) (Some (L "static")) true false (Ok [])) as [[s i2]|e] eqn:E;
    [|vm_compute in E; discriminate].
  specialize (H s i2 (Some (L "static")) eq_refl eq_refl). destruct H as [sg [H1 H2]].
  vm_compute in E. injection E as Es _. subst s.
  vm_compute in H1. injection H1 as H1. subst sg. vm_compute in H2. discriminate.
Qed.

(* the emitted signature of the witness: def f(x: int = None) *)
Lemma C06_witness_signature :
  exists s i2, emit_function [] w6_ir (Some (L "f")) (Some (L "static")) true false (Ok []) = Ok (s, i2)
               /\ option_map fst (py_signature_of s)
                  = Some [mkSig (L "x") PosOrKw (Some (EConst VNone)) (Some (EName (L "int")))].
Proof. eexists. eexists. split; vm_compute; reflexivity. Qed.

(* ------------------------------------------------------------------ class: attribute names and order *)
Lemma generic_param2ast_shape : forall pt name t g s,
    generic_param2ast pt name t g = Ok s -> exists a v, s = SAnnAssign (EName name) a (Some v).
Proof.
  intros pt name t g s H. unfold generic_param2ast in H.
  apply bind_Ok in H. destruct H as [ann [_ H]]. apply bind_Ok in H. destruct H as [v [_ H]].
  injection H as H. subst s. unfold ann_assign. eauto.
Qed.

Lemma param2ast_shape : forall pt name g s g',
    param2ast pt name g = Ok (s, g') -> exists a v, s = SAnnAssign (EName name) a (Some v).
Proof.
  intros pt name g s g' H. unfold param2ast in H.
  apply bind_Ok in H. destruct H as [g1 [_ H]]. apply bind_Ok in H. destruct H as [g2 [_ H]].
  destruct (fget (g_typ g2)) as [t|].
  - apply bind_Ok in H. destruct H as [nq [_ H]]. destruct nq.
    + apply bind_Ok in H. destruct H as [ann [_ H]]. apply bind_Ok in H. destruct H as [v [_ H]].
      injection H as H _. subst s. unfold ann_assign. eauto.
    + destruct (in_simple_types t).
      * apply bind_Ok in H. destruct H as [z [_ H]]. injection H as H _. subst s. unfold ann_assign. eauto.
      * destruct (str_eqb t (L "dict") || startswith [ch 42] t).
        -- destruct (g_default g2); [discriminate|]. injection H as H _. subst s. unfold ann_assign. eauto.
        -- apply bind_Ok in H. destruct H as [s' [Hs H]]. injection H as H _. subst s'.
           eapply generic_param2ast_shape; eauto.
  - injection H as H _. subst s. unfold ann_assign. eauto.
Qed.

Lemma class_attrs_of_attrs : forall pt (l : list (str * gparam)) attrs,
    map_outcome (fun kv => do r <- param2ast pt (fst kv) (snd kv); Ok (fst r)) l = Ok attrs ->
    map (fun x => fst (fst x))
        (flat_map (fun x => match x with
                            | SAnnAssign (EName n) a v => [(n, a, v)]
                            | _ => []
                            end) attrs) = map fst l
    /\ Forall (fun x => exists n a v, x = SAnnAssign (EName n) a (Some v)) attrs.
Proof.
  intros pt l. induction l as [|[k g] l IH]; intros attrs H; cbn in H.
  - injection H as H. subst. split; [reflexivity | constructor].
  - apply bind_Ok in H. destruct H as [y [Hy H]]. apply bind_Ok in H. destruct H as [ys [Hys H]].
    injection H as H. subst attrs.
    apply bind_Ok in Hy. destruct Hy as [[s g'] [Hp Hy]]. injection Hy as Hy. subst y.
    apply param2ast_shape in Hp. destruct Hp as [a [v Hs]]. cbn [fst] in Hs. subst s.
    destruct (IH _ Hys) as [IH1 IH2]. split.
    + cbn. f_equal. exact IH1.
    + constructor; eauto.
Qed.

Lemma flat_map_app' : forall {A B} (f : A -> list B) l1 l2, flat_map f (l1 ++ l2) = flat_map f l1 ++ flat_map f l2.
Proof. intros. apply flat_map_app. Qed.

(* the annotated attributes of the emitted class are the parameters of the IR, return entry folded in, in order *)
Lemma emit_class_attr_names : forall pt i ec cn bs ds ww tds s i',
    emit_class pt i ec cn bs ds ww tds = Ok (s, i') ->
    map (fun x => fst (fst x)) (class_attrs_of s) = od_keys (ir_params (class_fold_returns i)).
Proof.
  intros pt i ec cn bs ds ww tds s i' H. unfold emit_class in H.
  apply bind_Ok in H. destruct H as [ib [_ H]].
  apply bind_Ok in H. destruct H as [text [_ H]].
  apply bind_Ok in H. destruct H as [meth [Hm H]].
  apply bind_Ok in H. destruct H as [attrs [Ha H]].
  injection H as Hs _. subst s. unfold class_attrs_of. cbn [flat_map app].
  rewrite flat_map_app', map_app.
  destruct (class_attrs_of_attrs _ _ _ Ha) as [Hn _]. rewrite Hn.
  assert (Hmeth : flat_map (fun x => match x with
                                     | SAnnAssign (EName n) a v => [(n, a, v)]
                                     | _ => []
                                     end) meth = []).
  { destruct ec; [|injection Hm as Hm; subst meth; reflexivity].
    destruct ib as [[|s0 rest]|].
    - injection Hm as Hm. subst meth. reflexivity.
    - injection Hm as Hm. subst meth. reflexivity.
    - destruct (od_get (L "return_type") (ir_params (class_fold_returns i))) as [p|]; [|discriminate].
      destruct (gparam_nonempty p).
      + apply bind_Ok in Hm. destruct Hm as [m [Hcm Hm]]. injection Hm as Hm. subst meth.
        unfold call_meth_of_dict in Hcm. apply bind_Ok in Hcm. destruct Hcm as [dsm [_ Hcm]].
        apply bind_Ok in Hcm. destruct Hcm as [ret [_ Hcm]]. injection Hcm as Hcm. subst m. reflexivity.
      + injection Hm as Hm. subst meth. reflexivity. }
  rewrite Hmeth. cbn. rewrite app_nil_r. reflexivity.
Qed.

(* ------------------------------------------------------------------ argparse: option strings and order *)
Lemma set_value_option : forall name, set_value (VStr (L "--" ++ name)) = EConst (VStr (L "--" ++ name)).
Proof.
  intros name. unfold set_value, set_value_str. 
  replace (both_ends dq (L "--" ++ name)) with false; [replace (both_ends sq (L "--" ++ name)) with false|].
  - rewrite andb_false_r. reflexivity.
  - unfold both_ends. cbn. destruct (last_c _); reflexivity.
  - unfold both_ends. cbn. destruct (last_c _); reflexivity.
Qed.

Lemma param2argparse_param_shape : forall pt ww edd name g s,
    param2argparse_param pt ww edd name g = Ok s ->
    exists kws, s = SExpr (ECall (EAttr argparser (L "add_argument")) (spec_option name) kws).
Proof.
  intros pt ww edd name g s H. unfold param2argparse_param in H.
  apply bind_Ok in H. destruct H as [[[[[action choices] required] typ] g2] [_ H]].
  apply bind_Ok in H. destruct H as [[doc dflt_doc] [_ H]].
  apply bind_Ok in H. destruct H as [dflt_in [_ H]].
  apply bind_Ok in H. destruct H as [r [_ H]].
  match type of H with (let '(_, _) := ?X in _) = _ => destruct X as [typ2 required2] end.
  apply bind_Ok in H. destruct H as [help [_ H]].
  apply bind_Ok in H. destruct H as [dkw [_ H]].
  injection H as Hs. subst s. unfold spec_option. eexists.
  f_equal. f_equal. f_equal. apply set_value_option.
Qed.

Lemma emit_argparse_options : forall pt i edd fn ft wd ww ds n a body d r i2,
    emit_argparse pt i edd fn ft wd ww ds = Ok (SFunc n a body d r, i2) ->
    exists doc desc adds tail,
      body = doc :: desc :: adds ++ tail
      /\ is_add_argument doc = None /\ is_add_argument desc = None
      /\ Forall2 (fun kv s => exists kws, is_add_argument s = Some (spec_option (fst kv), kws)) (ir_params i) adds.
Proof.
  intros pt i edd fn ft wd ww ds n a body d r i2 H. unfold emit_argparse in H.
  apply bind_Ok in H. destruct H as [fname [_ H]].
  apply bind_Ok in H. destruct H as [ftype [_ H]].
  apply bind_Ok in H. destruct H as [b [_ H]].
  apply bind_Ok in H. destruct H as [dtext [_ H]].
  apply bind_Ok in H. destruct H as [desc [_ H]].
  apply bind_Ok in H. destruct H as [ps [Hps H]].
  apply bind_Ok in H. destruct H as [spliced [_ H]].
  apply bind_Ok in H. destruct H as [ret [_ H]].
  destruct fname as [nm|]; [|discriminate]. injection H as _ _ Hb _ _ _. subst body.
  exists (SExpr (set_value (VStr (indent tab dtext ++ tab)))), (description_assign desc), ps, (spliced ++ ret).
  split; [now rewrite app_assoc|]. split; [reflexivity|]. split; [reflexivity|].
  apply map_outcome_Forall2 in Hps. clear -Hps.
  induction Hps as [|kv y l ys Hy Hr IH]; cbn; constructor; [|exact IH].
  apply param2argparse_param_shape in Hy. destruct Hy as [kws Hs]. subst y. exists kws.
  unfold is_add_argument, argparser. rewrite !str_eqb_refl. reflexivity.
Qed.

(* ------------------------------------------------------------------ non-vacuity *)
Definition w6_ir_ok : ir :=
  mkIR (Has (L "f")) (Has (L "static")) (Has (L "Summary."))
       [(L "x", mkG (Has (L "the x.")) (Has (L "int")) (Some (DV (VInt 5))));
        (L "name", mkG (Has (L "the name.")) (Has (L "Optional[str]")) (Some (DV (VStr (L "mnist")))));
        (L "kwargs", mkG (Has (L "more.")) (Has (L "Optional[dict]")) (Some (DV (VStr NoneStr))))]
       (Has (mkG (Has (L "result.")) (Has (L "int")) None)) None.

Lemma C06_nonvacuous_lemma :
  guard_C06_function w6_ir_ok = true
  /\ exists s i2, emit_function [] w6_ir_ok (Some (L "f")) (Some (L "self")) true true (Ok []) = Ok (s, i2)
                  /\ wf_python s = true.
Proof. split; [reflexivity|]. eexists. eexists. split; vm_compute; reflexivity. Qed.

(* well-formedness of the emitted argument list reduces to the IR's names being distinct identifiers (and
   no Name(None) annotation): the length conditions always hold *)
Lemma emit_function_wf : forall pt i fn ft it kw tds n a body d r i2,
    emit_function pt i fn ft it kw tds = Ok (SFunc n a body d r, i2) ->
    forallb (fun x => is_identifier (a_name x) && ann_ok (a_ann x)) (all_args a) = true ->
    nodupb (map a_name (all_args a)) = true ->
    wf_arguments a = true.
Proof.
  intros pt i fn ft it kw tds n a body d r i2 H Hid Hnd.
  destruct (emit_function_counts _ _ _ _ _ _ _ _ _ _ _ _ _ H) as [Hle [Heq _]].
  unfold wf_arguments. rewrite Hid, Hnd. cbn [andb].
  apply andb_true_iff. split; [now apply Nat.leb_le | now apply Nat.eqb_eq].
Qed.

(* without inline types no argument carries an annotation *)
Lemma emit_function_no_annotations : forall pt i fn ft kw tds n a body d r i2,
    emit_function pt i fn ft false kw tds = Ok (SFunc n a body d r, i2) ->
    forallb (fun x => ann_ok (a_ann x)) (all_args a) = true /\ r = None.
Proof.
  intros pt i fn ft kw tds n a body d r i2 H.
  destruct (emit_function_arguments _ _ _ _ _ _ _ _ _ _ _ _ _ H) as [ftype [afp [dfp [Hft [Ha [Hd Hargs]]]]]].
  assert (Hafp : forallb (fun x => ann_ok (a_ann x)) afp = true).
  { apply map_outcome_Forall2 in Ha. clear -Ha. induction Ha as [|kv y l ys Hy Hr IH]; [reflexivity|].
    cbn. rewrite IH. destruct kv as [nm g]. cbn in Hy. injection Hy as Hy. subst y. reflexivity. }
  assert (H0 : forallb (fun x => ann_ok (a_ann x)) (fn_args0 ftype) = true).
  { unfold fn_args0. destruct ftype as [t|]; [destruct (str_eqb t (L "static"))|]; reflexivity. }
  assert (Hk : forallb (fun x => ann_ok (a_ann x)) (match fn_kwarg i with Some x => [x] | None => [] end) = true).
  { unfold fn_kwarg. destruct (filter (fun kv => negb (no_kwargs kv)) (ir_params i)); reflexivity. }
  split.
  - subst a. unfold all_args. destruct kw; cbn [ar_args ar_kwonly ar_vararg ar_kwarg];
      rewrite ?forallb_app, ?H0, ?Hafp, ?Hk; reflexivity.
  - unfold emit_function in H.
    apply bind_Ok in H. destruct H as [fname [_ H]].
    apply bind_Ok in H. destruct H as [ftype0 [_ H]].
    apply bind_Ok in H. destruct H as [afp0 [_ H]].
    apply bind_Ok in H. destruct H as [dfp0 [_ H]].
    apply bind_Ok in H. destruct H as [b [_ H]].
    apply bind_Ok in H. destruct H as [rv [_ H]].
    apply bind_Ok in H. destruct H as [text [_ H]].
    apply bind_Ok in H. destruct H as [rets [Hr H]]. injection Hr as Hr. subst rets.
    destruct fname as [nm|]; [|discriminate]. injection H as _ _ _ _ Hret _. now subst r.
Qed.
