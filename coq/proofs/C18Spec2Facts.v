(* Facts about the reader-aware C18 classifier (model/C18Spec2.v). *)
From Coq Require Import List Ascii Bool Arith.
From Coq Require String.
Import String.StringSyntax.
From DT Require Import PyStr PyVal IR DocEmit C18Spec C18Spec2 C01Spec C18ParseSpec C18Parse.
Import ListNotations.

(* when the reader keeps the sentence the refinement is the old classifier *)
Lemma finding_class_C18_r_keep : forall w e i, finding_class_C18_r true w e i = finding_class_C18 w e i.
Proof.
  intros w e i. unfold finding_class_C18_r. destruct (finding_class_C18 w e i); reflexivity.
Qed.

(* the refined guard is inside the old one: every theorem stated under guard_C18 holds under guard_C18_r *)
Lemma guard_C18_r_inside : forall k w e i, guard_C18_r k w e i = true -> guard_C18 w e i = true.
Proof.
  intros k w e i H. unfold guard_C18_r in H. unfold guard_C18.
  apply andb_true_iff in H. destruct H as [Hw Hc]. rewrite Hw. cbn [andb].
  unfold finding_class_C18_r in Hc. destruct (finding_class_C18 w e i) as [c|]; [discriminate Hc|reflexivity].
Qed.

(* the refinement only ever adds the class default-sentence-wrapped *)
Lemma finding_class_C18_r_adds : forall k w e i c,
    finding_class_C18_r k w e i = Some c -> finding_class_C18 w e i = Some c \/ (k = false /\ c = K18_default_wrapped).
Proof.
  intros k w e i c H. unfold finding_class_C18_r in H.
  destruct (finding_class_C18 w e i) as [c0|]; [left; exact H|].
  destruct (negb k && _) eqn:E; [|discriminate H].
  right. apply andb_true_iff in E. destruct E as [Ek _]. apply negb_true_iff in Ek.
  injection H as H. split; [exact Ek|symmetry; exact H].
Qed.

(* the split default of a typed parameter read with emit_default_doc = False (the point the parse-level proof found:
   the real code returns the default with the line break inside): outside the old classifier, inside the refined one,
   and only for the reader that drops the sentence *)
Lemma split_typed_default_classified :
  finding_class_C18 30 (E_docstring Rest) c18_w_default_split = None
  /\ finding_class_C18_r false 30 (E_docstring Rest) c18_w_default_split = Some K18_default_wrapped
  /\ finding_class_C18_r true 30 (E_docstring Rest) c18_w_default_split = None
  /\ C18_rest_parse_at_b 30 false c18_w_default_split = false
  /\ C18_rest_parse_at_b 30 true c18_w_default_split = true.
Proof. vm_compute. repeat split; reflexivity. Qed.
