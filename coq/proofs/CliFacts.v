(* CliFacts: model/Cli.v -- which argument shapes main() rejects before anything runs, and that an
   accepted sync command cannot fail on the shape of its arguments (C20(i)).  General statements for
   arbitrary counts, and the exhaustive table over the finite abstraction.  Proofs only. *)
From Coq Require Import List Ascii Bool Arith Lia.
From Coq Require String.
Import String.StringSyntax.
From DT Require Import PyStr Sexp PyVal FS Sync Cli.
Import ListNotations.

Lemma kind_in_order : forall k, In k kinds_in_order.
Proof. intros []; cbn [kinds_in_order In]; auto. Qed.

Lemma existsb_false_In : forall (A : Type) (f : A -> bool) l x,
    existsb f l = false -> In x l -> f x = false.
Proof.
  intros A f l x H Hin. destruct (f x) eqn:E; [|reflexivity].
  assert (Ht : existsb f l = true) by (apply existsb_exists; exists x; split; assumption).
  rewrite Ht in H. discriminate H.
Qed.

(* a kind given with files but without its name *)
Definition nameless (s : sync_shape) (k : kind) : bool :=
  match ss_files s k, ss_names s k with
  | Some _, None => true
  | _, _ => false
  end.

(* argparse's append action: an option that is present was given at least once *)
Definition names_wf (s : sync_shape) : Prop := forall k n, ss_names s k = Some n -> 1 <= n.

Definition names_wf_b (s : sync_shape) : bool :=
  forallb (fun k => match ss_names s k with Some 0 => false | _ => true end) kinds_in_order.

Lemma names_wf_b_sound : forall s, names_wf_b s = true -> names_wf s.
Proof.
  intros s H k n Hn. unfold names_wf_b in H. rewrite forallb_forall in H.
  specialize (H k (kind_in_order k)). rewrite Hn in H. destruct n; [discriminate H|lia].
Qed.

(* ------------------------------------------------------------------ *)
(* decide_sync                                                          *)
(* ------------------------------------------------------------------ *)

Lemma decide_sync_eq : forall s,
    decide_sync s =
    match ss_files s (ss_truth s) with
    | None => Reject
    | Some _ =>
      if Nat.ltb (files_total s) 2 then Reject
      else if negb (ss_truth_file_exists s) then Reject
      else if existsb (nameless s) kinds_in_order then Reject
      else Run
    end.
Proof. reflexivity. Qed.

Lemma decide_sync_never_raises : forall s e, decide_sync s <> Raise e.
Proof.
  intros s e. rewrite decide_sync_eq. destruct (ss_files s (ss_truth s)) as [c0|]; [|discriminate].
  destruct (Nat.ltb (files_total s) 2); [discriminate|].
  destruct (negb (ss_truth_file_exists s)); [discriminate|].
  destruct (existsb (nameless s) kinds_in_order); discriminate.
Qed.

Lemma decide_sync_run_iff : forall s,
    decide_sync s = Run <->
    ss_files s (ss_truth s) <> None /\ 2 <= files_total s /\ ss_truth_file_exists s = true
    /\ forall k, nameless s k = false.
Proof.
  intros s. rewrite decide_sync_eq. split.
  - intros H. destruct (ss_files s (ss_truth s)) as [c0|]; [|discriminate H].
    destruct (Nat.ltb (files_total s) 2) eqn:E1; [discriminate H|].
    destruct (ss_truth_file_exists s); [|discriminate H]. cbn [negb] in H.
    destruct (existsb (nameless s) kinds_in_order) eqn:E2; [discriminate H|].
    split; [discriminate|]. split; [apply Nat.ltb_ge; exact E1|]. split; [reflexivity|].
    intros k. apply (existsb_false_In _ _ _ _ E2 (kind_in_order k)).
  - intros [H1 [H2 [H3 H4]]]. destruct (ss_files s (ss_truth s)) as [c0|]; [|contradiction H1; reflexivity].
    apply Nat.ltb_ge in H2. rewrite H2, H3. cbn [negb].
    destruct (existsb (nameless s) kinds_in_order) eqn:E2; [|reflexivity].
    apply existsb_exists in E2. destruct E2 as [k [_ Hk]]. rewrite H4 in Hk. discriminate Hk.
Qed.

(* C20(i): exactly these shapes are refused with a usage error *)
Lemma decide_sync_reject_iff : forall s,
    decide_sync s = Reject <->
    ss_files s (ss_truth s) = None \/ files_total s < 2 \/ ss_truth_file_exists s = false
    \/ exists k, ss_files s k <> None /\ ss_names s k = None.
Proof.
  intros s. rewrite decide_sync_eq. split.
  - intros H. destruct (ss_files s (ss_truth s)) as [c0|]; [|left; reflexivity]. right.
    destruct (Nat.ltb (files_total s) 2) eqn:E1; [left; apply Nat.ltb_lt; exact E1|]. right.
    destruct (ss_truth_file_exists s); [|left; reflexivity]. right. cbn [negb] in H.
    destruct (existsb (nameless s) kinds_in_order) eqn:E2; [|discriminate H].
    apply existsb_exists in E2. destruct E2 as [k [_ Hk]]. exists k. unfold nameless in Hk.
    destruct (ss_files s k) as [c|]; [|discriminate Hk]. destruct (ss_names s k) as [c1|]; [discriminate Hk|].
    split; [discriminate|reflexivity].
  - intros H. destruct (ss_files s (ss_truth s)) as [c0|] eqn:E0; [|reflexivity].
    destruct H as [H|[H|[H|[k [Hf Hn]]]]]; [discriminate H| | |].
    + apply Nat.ltb_lt in H. rewrite H. reflexivity.
    + rewrite H. destruct (Nat.ltb (files_total s) 2); reflexivity.
    + assert (E2 : existsb (nameless s) kinds_in_order = true).
      { apply existsb_exists. exists k. split; [apply kind_in_order|]. unfold nameless. rewrite Hn.
        destruct (ss_files s k) as [c|]; [reflexivity|contradiction Hf; reflexivity]. }
      rewrite E2. destruct (Nat.ltb (files_total s) 2); [reflexivity|].
      destruct (negb (ss_truth_file_exists s)); reflexivity.
Qed.

(* ------------------------------------------------------------------ *)
(* accepted => no failure on the shape of the arguments                 *)
(* ------------------------------------------------------------------ *)

Lemma fold_names_none : forall (s : sync_shape) l,
    (forall k, In k l -> match ss_files s k, ss_names s k with
                         | Some _, None => false
                         | Some _, Some 0 => false
                         | _, _ => true
                         end = true) ->
    fold_right (fun k acc =>
                  match ss_files s k, ss_names s k with
                  | Some _, None => Some TypeError
                  | Some _, Some 0 => Some IndexError
                  | _, _ => acc
                  end) None l = None.
Proof.
  intros s l. induction l as [|k r IHr]; intros H; [reflexivity|].
  cbn [fold_right]. rewrite IHr by (intros k' Hk'; apply H; right; exact Hk').
  specialize (H k (or_introl eq_refl)).
  destruct (ss_files s k) as [c|]; [|reflexivity].
  destruct (ss_names s k) as [[|n]|]; [discriminate H|reflexivity|discriminate H].
Qed.

(* for arbitrary counts *)
Lemma names_complete_no_arg_error : forall s,
    names_complete s = true -> arg_level_error s = None.
Proof.
  intros s H. unfold names_complete in H. apply andb_true_iff in H. destruct H as [H1 H2].
  unfold arg_level_error. destruct (ss_names s (ss_truth s)) as [[|n]|]; try discriminate H2.
  apply fold_names_none. intros k Hk. rewrite forallb_forall in H1. apply (H1 k Hk).
Qed.

Lemma run_names_complete : forall s,
    names_wf s -> decide_sync s = Run -> names_complete s = true.
Proof.
  intros s Hwf H. apply decide_sync_run_iff in H. destruct H as [H1 [_ [_ H4]]].
  unfold names_complete. apply andb_true_iff. split.
  - apply forallb_forall. intros k _. specialize (H4 k). unfold nameless in H4.
    destruct (ss_files s k) as [c|]; [|reflexivity].
    destruct (ss_names s k) as [[|n]|] eqn:EN; [|reflexivity|discriminate H4].
    specialize (Hwf k 0 EN). lia.
  - specialize (H4 (ss_truth s)). unfold nameless in H4.
    destruct (ss_files s (ss_truth s)) as [c0|]; [|contradiction H1; reflexivity].
    destruct (ss_names s (ss_truth s)) as [[|n]|] eqn:EN; [|reflexivity|discriminate H4].
    specialize (Hwf (ss_truth s) 0 EN). lia.
Qed.

(* C20(i), the full statement: an accepted sync command does not fail on its argument shape *)
Theorem run_no_arg_error : forall s,
    names_wf s -> decide_sync s = Run -> arg_level_error s = None.
Proof.
  intros s Hwf H. apply names_complete_no_arg_error. apply run_names_complete; assumption.
Qed.

(* without well-formedness the guard is still needed: a name option present zero times *)
Lemma run_arg_error_needs_wf :
  exists s, decide_sync s = Run /\ arg_level_error s = Some IndexError.
Proof.
  exists (mkSyncShape KClass (fun _ => Some 1) (fun _ => Some 0) true). split; reflexivity.
Qed.

(* ------------------------------------------------------------------ *)
(* the exhaustive table                                                 *)
(* ------------------------------------------------------------------ *)

Lemma all_sync_shapes_length : List.length all_sync_shapes = 4374.
Proof. vm_compute. reflexivity. Qed.

Definition is_reject (d : decision) : bool := match d with Reject => true | _ => false end.
Definition is_run (d : decision) : bool := match d with Run => true | _ => false end.
Definition is_none {A} (o : option A) : bool := match o with None => true | Some _ => false end.

Definition reject_spec (s : sync_shape) : bool :=
  is_none (ss_files s (ss_truth s)) || Nat.ltb (files_total s) 2 || negb (ss_truth_file_exists s)
  || existsb (nameless s) kinds_in_order.

Lemma table_wf_b : forallb names_wf_b all_sync_shapes = true.
Proof. vm_compute. reflexivity. Qed.

Lemma table_wf : forall s, In s all_sync_shapes -> names_wf s.
Proof.
  intros s Hs. apply names_wf_b_sound. pose proof table_wf_b as H. rewrite forallb_forall in H.
  apply H. exact Hs.
Qed.

Lemma table_reject_b :
  forallb (fun s => Bool.eqb (is_reject (decide_sync s)) (reject_spec s)) all_sync_shapes = true.
Proof. vm_compute. reflexivity. Qed.

Lemma table_reject_iff : forall s, In s all_sync_shapes ->
    (decide_sync s = Reject <-> reject_spec s = true).
Proof.
  intros s Hs. pose proof table_reject_b as H. rewrite forallb_forall in H.
  specialize (H s Hs). apply Bool.eqb_prop in H. rewrite <- H.
  destruct (decide_sync s); cbn [is_reject]; split; intros H0; try reflexivity; discriminate H0.
Qed.

Lemma table_run_b :
  forallb (fun s => implb (is_run (decide_sync s))
                          (names_complete s && is_none (arg_level_error s))) all_sync_shapes = true.
Proof. vm_compute. reflexivity. Qed.

(* the table, by computation alone *)
Lemma table_run_no_arg_error : forall s, In s all_sync_shapes ->
    decide_sync s = Run -> names_complete s = true /\ arg_level_error s = None.
Proof.
  intros s Hs Hr. pose proof table_run_b as H. rewrite forallb_forall in H.
  specialize (H s Hs). rewrite Hr in H. cbn [is_run implb] in H.
  apply andb_true_iff in H. destruct H as [H1 H2]. split; [exact H1|].
  destruct (arg_level_error s); [discriminate H2|reflexivity].
Qed.

(* the same as an instance of the general theorem *)
Lemma table_run_no_arg_error_instance : forall s, In s all_sync_shapes ->
    decide_sync s = Run -> arg_level_error s = None.
Proof. intros s Hs. apply run_no_arg_error. apply table_wf. exact Hs. Qed.

(* the guarded form of the earlier statement *)
Lemma table_run_partial : forall s, In s all_sync_shapes ->
    decide_sync s = Run -> names_complete s = true -> arg_level_error s = None.
Proof. intros s _ _. apply names_complete_no_arg_error. Qed.

(* membership in the table *)
Lemma in_all_sync_shapes : forall t fa fc ff na nc nf ex,
    In fa counts -> In fc counts -> In ff counts -> In na counts -> In nc counts -> In nf counts ->
    In (mkSyncShape t (fun_of_triple fa fc ff) (fun_of_triple na nc nf) ex) all_sync_shapes.
Proof.
  intros t fa fc ff na nc nf ex Hfa Hfc Hff Hna Hnc Hnf. unfold all_sync_shapes.
  apply in_flat_map. exists t. split; [apply kind_in_order|].
  apply in_flat_map. exists fa. split; [exact Hfa|].
  apply in_flat_map. exists fc. split; [exact Hfc|].
  apply in_flat_map. exists ff. split; [exact Hff|].
  apply in_flat_map. exists na. split; [exact Hna|].
  apply in_flat_map. exists nc. split; [exact Hnc|].
  apply in_flat_map. exists nf. split; [exact Hnf|].
  apply in_map_iff. exists ex. split; [reflexivity|]. destruct ex; cbn [In]; auto.
Qed.

(* both decisions occur in the table *)
Lemma table_nonvacuous :
  (exists s, In s all_sync_shapes /\ decide_sync s = Run)
  /\ (exists s, In s all_sync_shapes /\ decide_sync s = Reject /\ ss_truth_file_exists s = true
                /\ files_total s >= 2 /\ ss_files s (ss_truth s) <> None).
Proof.
  assert (H0 : In None counts) by (left; reflexivity).
  assert (H1 : In (Some 1) counts) by (right; left; reflexivity).
  split.
  - exists (mkSyncShape KClass (fun_of_triple None (Some 1) (Some 1))
                        (fun_of_triple None (Some 1) (Some 1)) true).
    split; [apply in_all_sync_shapes; assumption|reflexivity].
  - exists (mkSyncShape KClass (fun_of_triple None (Some 1) (Some 1))
                        (fun_of_triple None (Some 1) None) true).
    split; [apply in_all_sync_shapes; assumption|]. split; [reflexivity|]. split; [reflexivity|].
    split; [vm_compute; lia|discriminate].
Qed.

(* ------------------------------------------------------------------ *)
(* sync_properties, gen                                                 *)
(* ------------------------------------------------------------------ *)

Lemma decide_sync_properties_run_iff : forall c i o,
    decide_sync_properties c i o = Run <-> c = true /\ i = true /\ o = true.
Proof.
  intros [] [] []; cbn; split; intros H; try discriminate H; auto;
    destruct H as [H1 [H2 H3]]; discriminate.
Qed.

Lemma decide_sync_properties_reject_iff : forall c i o,
    decide_sync_properties c i o = Reject <-> c = false \/ i = false \/ o = false.
Proof.
  intros [] [] []; cbn; split; intros H; try discriminate H; auto;
    destruct H as [H|[H|H]]; discriminate.
Qed.

Lemma decide_sync_properties_never_raises : forall c i o e, decide_sync_properties c i o <> Raise e.
Proof. intros [] [] [] e; discriminate. Qed.

(* an accepted sync_properties invocation pairs every input parameter with an output parameter: the shape of the
   arguments cannot make the run fail *)
Lemma decide_sync_properties_run_counts : forall c i o, decide_sync_properties c i o = Run -> c = true.
Proof. intros c i o H. apply decide_sync_properties_run_iff in H. tauto. Qed.

Lemma decide_gen_run_iff : forall o, decide_gen o = Run <-> o = false.
Proof. intros []; cbn; split; intros H; try discriminate H; reflexivity. Qed.

Lemma decide_gen_raise_iff : forall o, decide_gen o = Raise IOError <-> o = true.
Proof. intros []; cbn; split; intros H; try discriminate H; reflexivity. Qed.

Lemma decide_gen_never_rejects : forall o, decide_gen o <> Reject.
Proof. intros []; discriminate. Qed.
