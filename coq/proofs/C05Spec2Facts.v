(* Facts about the refined C05 classifier (model/C05Spec2.v). *)
From Coq Require Import List Ascii Bool Arith ZArith.
From Coq Require String.
Import String.StringSyntax.
From DT Require Import PyStr PyVal Defaults IR C05Spec C05Spec2 C05Closed.
From DT Require C02Spec2 C04Spec2 C05ClosedFacts.
Import ListNotations.

(* the refinement only ever adds the two new classes: an old class is kept as it is *)
Lemma c05_class_of_r_adds : forall ks i c,
    c05_class_of_r ks i = Some c ->
    (exists k, c05_class_of ks i = Some k /\ c = K5r_old k)
    \/ (c05_class_of ks i = None /\ (c = K5r_negative_zero \/ c = K5r_text_quoted)).
Proof.
  intros ks i c H. unfold c05_class_of_r in H.
  destruct (c05_class_of ks i) as [k|].
  - left. exists k. injection H as H. split; [reflexivity|symmetry; exact H].
  - right. split; [reflexivity|]. unfold new_class_C05, new_classes_C05 in H.
    destruct (nonempty_l (neg_zero_entries ks i)); [injection H as H; left; symmetry; exact H|].
    destruct (quoted_summary ks i || nonempty_l (quoted_entries ks i));
      [injection H as H; right; symmetry; exact H|discriminate H].
Qed.

(* the list of all new classes that apply holds only new classes *)
Lemma new_classes_C05_new : forall ks i c,
    In c (new_classes_C05 ks i) -> c = K5r_negative_zero \/ c = K5r_text_quoted.
Proof.
  intros ks i c H. unfold new_classes_C05 in H. apply in_app_or in H.
  destruct H as [H|H];
    [destruct (nonempty_l (neg_zero_entries ks i))
    |destruct (quoted_summary ks i || nonempty_l (quoted_entries ks i))]; cbn [In] in H;
    try contradiction; destruct H as [H|[]]; [left|right]; symmetry; exact H.
Qed.

Lemma c05_class_of_r_old : forall ks i k,
    c05_class_of ks i = Some k -> c05_class_of_r ks i = Some (K5r_old k).
Proof. intros ks i k H. unfold c05_class_of_r. rewrite H. reflexivity. Qed.

(* the name of a kept class is the old name: KNOWN_FINDINGS lines of the old classes stay valid *)
Lemma c05_class_r_name_old : forall k, c05_class_r_name (K5r_old k) = c05_class_name k.
Proof. reflexivity. Qed.

(* the refined region is inside the old one: every theorem stated under chain_safe holds under chain_safe_r *)
Lemma chain_safe_r_inside : forall ks i, chain_safe_r ks i = true -> chain_safe ks i = true.
Proof.
  intros ks i H. unfold chain_safe_r in H. unfold chain_safe.
  apply andb_true_iff in H. destruct H as [Hd Hc]. rewrite Hd. cbn [andb].
  unfold c05_class_of_r in Hc. destruct (c05_class_of ks i) as [k|]; [discriminate Hc|reflexivity].
Qed.

(* a new class is given only on a chain through the kind that produces the failure *)
Lemma negative_zero_needs_class_kind : forall ks i,
    In K5r_negative_zero (new_classes_C05 ks i) -> through_class ks = true.
Proof.
  intros ks i H. unfold new_classes_C05 in H. apply in_app_or in H. destruct H as [H|H].
  - unfold neg_zero_entries in H. destruct (through_class ks); [reflexivity|]. cbn in H. contradiction.
  - destruct (quoted_summary ks i || nonempty_l (quoted_entries ks i)); cbn [In] in H;
      [destruct H as [H|[]]; discriminate H|contradiction].
Qed.

Lemma text_quoted_needs_argparse_kind : forall ks i,
    In K5r_text_quoted (new_classes_C05 ks i) -> through_argparse ks = true.
Proof.
  intros ks i H. unfold new_classes_C05 in H. apply in_app_or in H. destruct H as [H|H].
  - destruct (nonempty_l (neg_zero_entries ks i)); cbn [In] in H;
      [destruct H as [H|[]]; discriminate H|contradiction].
  - unfold quoted_summary, quoted_entries in H. destruct (through_argparse ks); [reflexivity|]. cbn in H. contradiction.
Qed.

(* the point of theorem C05_region_hole_negzero (props/C05Ext.v): unnamed by the old classifier on every chain over the
   closed kinds, named by the refined one on a chain through the class kind (and only there), in the domain, and the
   model of the class conversion fails on it *)
Lemma negative_zero_classified :
  c05_class_of closed_kinds C05ClosedFacts.w_negzero = None
  /\ c05_class_of [KClass] C05ClosedFacts.w_negzero = None
  /\ c05_class_of_r [KClass] C05ClosedFacts.w_negzero = Some K5r_negative_zero
  /\ c05_class_of_r [KRest; KClass; KArgparse] C05ClosedFacts.w_negzero = Some K5r_negative_zero
  /\ c05_class_of_r [KRest; KNumpydoc; KGoogle; KArgparse] C05ClosedFacts.w_negzero = None
  /\ c05_domain C05ClosedFacts.w_negzero = true
  /\ match conv_class default_env C05ClosedFacts.w_negzero with
     | Ok i' => preserved C05ClosedFacts.w_negzero i' | Err _ => true end = false.
Proof. vm_compute. repeat split; reflexivity. Qed.

(* the same default under Optional[float] is carried (the falsy test is made for scalar types only): not in the class *)
Lemma negative_zero_optional_unclassified :
  c05_class_of_r [KClass]
    (C05ClosedFacts.w1p (L "Sum.") (cg (L "first.") (L "Optional[float]") (VFloat (L "-0.0")))) = None.
Proof. vm_compute. reflexivity. Qed.

(* the point of theorem C05_region_hole_quoted_summary: the same for a chain through the argparse kind *)
Lemma quoted_summary_classified :
  c05_class_of closed_kinds C05ClosedFacts.w_quoted_summary = None
  /\ c05_class_of [KArgparse] C05ClosedFacts.w_quoted_summary = None
  /\ c05_class_of_r [KArgparse] C05ClosedFacts.w_quoted_summary = Some K5r_text_quoted
  /\ c05_class_of_r [KClass; KArgparse; KGoogle] C05ClosedFacts.w_quoted_summary = Some K5r_text_quoted
  /\ c05_class_of_r [KRest; KNumpydoc; KGoogle; KClass] C05ClosedFacts.w_quoted_summary = None
  /\ c05_domain C05ClosedFacts.w_quoted_summary = true
  /\ match conv_argparse default_env C05ClosedFacts.w_quoted_summary with
     | Ok i' => preserved C05ClosedFacts.w_quoted_summary i' | Err _ => true end = false.
Proof. vm_compute. repeat split; reflexivity. Qed.

(* the same mechanism on the prose of a parameter (the help text of the option) *)
Definition w5_quoted_help : ir := C05ClosedFacts.w1p (L "Sum.") (cg (L "'a' and 'b'") (L "int") (VInt 1)).

Lemma quoted_help_classified :
  c05_class_of [KArgparse] w5_quoted_help = None
  /\ c05_class_of_r [KArgparse] w5_quoted_help = Some K5r_text_quoted
  /\ c05_class_of_r [KClass] w5_quoted_help = None
  /\ c05_domain w5_quoted_help = true
  /\ match conv_argparse default_env w5_quoted_help with
     | Ok i' => preserved w5_quoted_help i' | Err _ => true end = false.
Proof. vm_compute. repeat split; reflexivity. Qed.

(* both at once: the list of new classes names both, the refined class is the first *)
Definition w5_both : ir := C05ClosedFacts.w1p (L "'quoted'") (cg (L "first.") (L "float") (VFloat (L "-0.0"))).

Lemma both_new_classes :
  c05_class_of [KClass; KArgparse] w5_both = None
  /\ new_classes_C05 [KClass; KArgparse] w5_both = [K5r_negative_zero; K5r_text_quoted]
  /\ new_classes_C05 [KArgparse] w5_both = [K5r_text_quoted]
  /\ new_classes_C05 [KClass] w5_both = [K5r_negative_zero]
  /\ new_classes_C05 [KRest] w5_both = [].
Proof. vm_compute. repeat split; reflexivity. Qed.

(* a pair of quote marks alone, a quote mark at one end only, or an apostrophe inside are carried: not in the class *)
Lemma unbalanced_quotes_unclassified :
  forallb (fun s => match c05_class_of_r [KArgparse] (C05ClosedFacts.w1p s (cg (L "first.") (L "int") (VInt 1)))
                    with None => true | Some _ => false end)
          [L "'quoted"; L "quoted'"; L "it's"] = true.
Proof. vm_compute. reflexivity. Qed.
