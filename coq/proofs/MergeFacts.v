(* MergeFacts: lemmas about the OrderedDict operations of IR.v and about Merge.v (ir_merge,
   _join_non_none): key-set invariants, commutation of updates at distinct keys, independence of
   every set-iteration order.  Proofs only. *)
From Coq Require Import List Ascii Bool Arith ZArith Lia Permutation.
From Coq Require String.
Import String.StringSyntax.
From DT Require Import PyStr Sexp PyVal PureUtils Defaults PyAst IR Merge C12Spec PyStrFacts.
Import ListNotations.

(* ------------------------------------------------------------------ *)
(* membership, dedup                                                   *)
(* ------------------------------------------------------------------ *)
Lemma mem_str_In : forall k l, mem_str k l = true <-> In k l.
Proof.
  intros k l; induction l as [|x r IH]; cbn [mem_str In].
  - split; [discriminate | tauto].
  - rewrite orb_true_iff, IH, str_eqb_eq. split; intros [H|H]; auto.
Qed.

Lemma mem_str_false : forall k l, mem_str k l = false <-> ~ In k l.
Proof.
  intros k l. split.
  - intros H Hin. apply mem_str_In in Hin. congruence.
  - intros H. destruct (mem_str k l) eqn:E; [|reflexivity]. exfalso; apply H; apply mem_str_In; exact E.
Qed.

Lemma In_dedup : forall k l, In k (dedup l) <-> In k l.
Proof.
  intros k l; induction l as [|x r IH]; cbn [dedup]; [tauto|].
  destruct (mem_str x r) eqn:E.
  - rewrite IH. cbn [In]. split; [auto|]. intros [H|H]; [subst; apply mem_str_In; exact E | exact H].
  - cbn [In]. rewrite IH. tauto.
Qed.

Lemma NoDup_dedup : forall l, NoDup (dedup l).
Proof.
  induction l as [|x r IH]; cbn [dedup]; [constructor|].
  destruct (mem_str x r) eqn:E; [exact IH|].
  constructor; [|exact IH]. rewrite In_dedup. apply mem_str_false; exact E.
Qed.

Lemma dedup_NoDup_id : forall l, NoDup l -> dedup l = l.
Proof.
  induction l as [|x r IH]; intros H; cbn [dedup]; [reflexivity|].
  inversion H as [|? ? Hx Hr]; subst.
  apply mem_str_false in Hx. rewrite Hx, IH by exact Hr. reflexivity.
Qed.

(* ------------------------------------------------------------------ *)
(* OrderedDict operations                                              *)
(* ------------------------------------------------------------------ *)
Section OD.
Context {A : Type}.
Implicit Types d : list (str * A).

Lemma od_get_In_keys : forall k d, In k (od_keys d) -> exists v, od_get k d = Some v.
Proof.
  intros k d; induction d as [|[k' v'] r IH]; cbn [od_keys map fst In od_get]; [tauto|].
  intros H. destruct (str_eqb k k') eqn:E; [eexists; reflexivity|].
  destruct H as [H|H]; [subst; rewrite str_eqb_refl in E; discriminate|].
  apply IH; exact H.
Qed.

Lemma od_get_Some_In_keys : forall k d v, od_get k d = Some v -> In k (od_keys d).
Proof.
  intros k d; induction d as [|[k' v'] r IH]; cbn [od_keys map fst In od_get]; [discriminate|].
  intros v. destruct (str_eqb k k') eqn:E.
  - intros _. left. apply str_eqb_eq in E. auto.
  - intros H. right. eapply IH; exact H.
Qed.

Lemma od_get_Some_In : forall k d v, od_get k d = Some v -> In (k, v) d.
Proof.
  intros k d; induction d as [|[k' v'] r IH]; cbn [od_get In]; [discriminate|].
  intros v. destruct (str_eqb k k') eqn:E.
  - intros H; inversion H; subst. apply str_eqb_eq in E; subst. left; reflexivity.
  - intros H. right. apply IH; exact H.
Qed.

Lemma od_get_None_iff : forall k d, od_get k d = None <-> ~ In k (od_keys d).
Proof.
  intros k d. split.
  - intros H Hin. destruct (od_get_In_keys _ _ Hin) as [v Hv]. congruence.
  - intros H. destruct (od_get k d) eqn:E; [|reflexivity].
    exfalso; apply H. eapply od_get_Some_In_keys; exact E.
Qed.

Lemma od_get_set_same : forall k (v : A) d, od_get k (od_set k v d) = Some v.
Proof.
  intros k v d; induction d as [|[k' v'] r IH]; cbn [od_set od_get].
  - rewrite str_eqb_refl; reflexivity.
  - destruct (str_eqb k k') eqn:E; cbn [od_get]; [rewrite str_eqb_refl; reflexivity|].
    rewrite E. exact IH.
Qed.

Lemma od_get_set_other : forall k k' (v : A) d, k <> k' -> od_get k' (od_set k v d) = od_get k' d.
Proof.
  intros k k' v d Hne; induction d as [|[k0 v0] r IH]; cbn [od_set od_get].
  - apply not_eq_sym in Hne. apply str_eqb_neq in Hne. rewrite Hne; reflexivity.
  - destruct (str_eqb k k0) eqn:E; cbn [od_get].
    + apply str_eqb_eq in E; subst k0.
      assert (H : str_eqb k' k = false) by (apply str_eqb_neq; auto). rewrite H; reflexivity.
    + rewrite IH; reflexivity.
Qed.

Lemma od_keys_set_present : forall k (v : A) d, In k (od_keys d) -> od_keys (od_set k v d) = od_keys d.
Proof.
  intros k v d; induction d as [|[k' v'] r IH]; cbn [od_keys map fst In od_set]; [tauto|].
  intros H. destruct (str_eqb k k') eqn:E; cbn [map fst].
  - apply str_eqb_eq in E; subst; reflexivity.
  - f_equal. apply IH. destruct H as [H|H]; [subst; rewrite str_eqb_refl in E; discriminate|exact H].
Qed.

Lemma od_keys_set_absent : forall k (v : A) d, ~ In k (od_keys d) -> od_keys (od_set k v d) = od_keys d ++ [k].
Proof.
  intros k v d; induction d as [|[k' v'] r IH]; cbn [od_keys map fst In od_set app]; [reflexivity|].
  intros H. destruct (str_eqb k k') eqn:E.
  - apply str_eqb_eq in E; subst. exfalso; apply H; left; reflexivity.
  - cbn [map fst]. f_equal. apply IH. tauto.
Qed.

Lemma od_set_comm : forall k1 k2 (v1 v2 : A) d, k1 <> k2 -> In k1 (od_keys d) ->
  od_set k1 v1 (od_set k2 v2 d) = od_set k2 v2 (od_set k1 v1 d).
Proof.
  intros k1 k2 v1 v2 d Hne; induction d as [|[k v] r IH]; cbn [od_keys map fst In]; [tauto|].
  intros Hin. cbn [od_set].
  destruct (str_eqb k1 k) eqn:E1; destruct (str_eqb k2 k) eqn:E2; cbn [od_set].
  - apply str_eqb_eq in E1, E2. congruence.
  - rewrite E1. assert (H : str_eqb k2 k1 = false) by (apply str_eqb_neq; auto).
    rewrite H. reflexivity.
  - rewrite E2. assert (H : str_eqb k1 k2 = false) by (apply str_eqb_neq; auto).
    rewrite H. reflexivity.
  - rewrite E1, E2. f_equal. apply IH.
    destruct Hin as [Hin|Hin]; [subst; rewrite str_eqb_refl in E1; discriminate|exact Hin].
Qed.

Lemma od_pop_keys_notin : forall k d, ~ In k (od_keys d) -> od_pop k d = d.
Proof.
  intros k d; induction d as [|[k' v'] r IH]; cbn [od_keys map fst In od_pop]; [reflexivity|].
  intros H. destruct (str_eqb k k') eqn:E.
  - apply str_eqb_eq in E; subst. exfalso; apply H; left; reflexivity.
  - f_equal. apply IH. tauto.
Qed.

Lemma od_keys_pop : forall k d, NoDup (od_keys d) ->
  od_keys (od_pop k d) = filter (fun x => negb (str_eqb k x)) (od_keys d).
Proof.
  intros k d; induction d as [|[k' v'] r IH]; cbn [od_keys map fst od_pop filter]; [reflexivity|].
  intros H. inversion H as [|? ? Hx Hr]; subst.
  destruct (str_eqb k k') eqn:E; cbn [negb].
  - apply str_eqb_eq in E; subst k'.
    symmetry. clear IH H Hr. revert Hx. generalize (map fst r) as l.
    induction l as [|y l IHl]; cbn [filter In]; [reflexivity|].
    intros Hx. assert (Hy : str_eqb k y = false) by (apply str_eqb_neq; intros ->; apply Hx; left; reflexivity).
    rewrite Hy. cbn [negb]. f_equal. apply IHl. tauto.
  - cbn [map fst]. f_equal. apply IH; exact Hr.
Qed.

Lemma od_get_pop_other : forall k k' d, k <> k' -> od_get k' (od_pop k d) = od_get k' d.
Proof.
  intros k k' d Hne; induction d as [|[k0 v0] r IH]; cbn [od_pop od_get]; [reflexivity|].
  destruct (str_eqb k k0) eqn:E; cbn [od_get].
  - apply str_eqb_eq in E; subst k0.
    assert (H : str_eqb k' k = false) by (apply str_eqb_neq; auto). rewrite H; reflexivity.
  - rewrite IH; reflexivity.
Qed.

(* OrderedDict(pairs) with unique keys is the list of pairs *)
Lemma fold_od_set_fresh : forall (l : list (str * A)) acc,
  NoDup (od_keys acc ++ od_keys l) ->
  fold_left (fun d kv => od_set (fst kv) (snd kv) d) l acc = acc ++ l.
Proof.
  induction l as [|[k v] r IH]; intros acc H; cbn [fold_left fst snd].
  - rewrite app_nil_r; reflexivity.
  - cbn [od_keys map fst] in H.
    assert (Hk : ~ In k (od_keys acc)).
    { apply NoDup_remove_2 in H. intros Hin; apply H. apply in_or_app; left; exact Hin. }
    assert (Hset : od_set k v acc = acc ++ [(k, v)]).
    { clear - Hk. induction acc as [|[k' v'] a IHa]; cbn [od_set app]; [reflexivity|].
      cbn [od_keys map fst In] in Hk.
      destruct (str_eqb k k') eqn:E; [apply str_eqb_eq in E; subst; tauto|].
      f_equal. apply IHa. tauto. }
    rewrite Hset, IH.
    + rewrite <- app_assoc. reflexivity.
    + unfold od_keys in *. rewrite map_app. cbn [map fst]. rewrite <- app_assoc. cbn [app]. exact H.
Qed.

Lemma od_of_pairs_NoDup : forall (l : list (str * A)), NoDup (od_keys l) -> od_of_pairs l = l.
Proof.
  intros l H. unfold od_of_pairs. rewrite fold_od_set_fresh; [reflexivity|exact H].
Qed.

End OD.

(* ------------------------------------------------------------------ *)
(* generic folds under permutation                                     *)
(* ------------------------------------------------------------------ *)
Lemma fold_left_perm : forall {A B} (f : A -> B -> A),
  (forall a x y, f (f a x) y = f (f a y) x) ->
  forall l l', Permutation l l' -> forall a, fold_left f l a = fold_left f l' a.
Proof.
  intros A B f Hc l l' HP; induction HP as [|x l l' HP IH|x y l|l l' l'' HP1 IH1 HP2 IH2]; intros a; cbn [fold_left].
  - reflexivity.
  - apply IH.
  - rewrite Hc; reflexivity.
  - rewrite IH1; apply IH2.
Qed.

(* ------------------------------------------------------------------ *)
(* _join_non_none                                                      *)
(* ------------------------------------------------------------------ *)
Definition jstep_form (i : nat) (o p : gparam) : gparam :=
  match i with
  | 0 => mkG (if fld_is_none (g_doc p) && negb (fld_is_none (g_doc o)) then g_doc o else g_doc p) (g_typ p) (g_default p)
  | 1 => mkG (g_doc p) (if fld_is_none (g_typ p) && negb (fld_is_none (g_typ o)) then g_typ o else g_typ p) (g_default p)
  | 2 => mkG (g_doc p) (g_typ p)
             (if default_is_none (g_default p) && negb (default_is_none (g_default o)) then g_default o else g_default p)
  | _ => p
  end.

Lemma join_step_form : forall o k, exists i, forall p, join_step o k p = jstep_form i o p.
Proof.
  intros o k. unfold join_step.
  destruct (str_eqb k key_doc); [exists 0|destruct (str_eqb k key_typ); [exists 1|destruct (str_eqb k key_default); [exists 2|exists 3]]];
    intros [a b c]; cbn [jstep_form g_doc g_typ g_default];
    try match goal with |- context [if ?c then _ else _] => destruct c end; reflexivity.
Qed.

Lemma jstep_form_comm : forall i j o p, jstep_form i o (jstep_form j o p) = jstep_form j o (jstep_form i o p).
Proof.
  intros i j o [a b c].
  destruct i as [|[|[|i]]]; destruct j as [|[|[|j]]]; reflexivity.
Qed.

Lemma join_step_comm : forall o p k1 k2, join_step o k1 (join_step o k2 p) = join_step o k2 (join_step o k1 p).
Proof.
  intros o p k1 k2.
  destruct (join_step_form o k1) as [i Hi]. destruct (join_step_form o k2) as [j Hj].
  rewrite !Hi, !Hj. apply jstep_form_comm.
Qed.

Lemma join_non_none_perm : C12_join_statement.
Proof.
  intros pj pj' p o H H'. unfold join_non_none.
  destruct (gparam_empty p); [reflexivity|]. destruct (gparam_empty o); [reflexivity|].
  apply fold_left_perm.
  - intros a x y. apply join_step_comm.
  - eapply Permutation_trans; [apply H|]. apply Permutation_sym, H'.
Qed.

(* ------------------------------------------------------------------ *)
(* the intersection loop                                               *)
(* ------------------------------------------------------------------ *)
Lemma not_in_none_frozenset_err : forall d e, dval_modelled_hash (Some d) = true ->
  not_in_none_frozenset d = Err e -> e = TypeError.
Proof.
  intros d e Hm H. destruct d as [v|x|r]; cbn in H.
  - destruct v as [|b|z|f|s]; discriminate.
  - discriminate.
  - cbn in Hm. destruct (do_hashable r) as [[|]|]; try discriminate; inversion H; reflexivity.
Qed.

Lemma merge_param_err : forall t o e, dval_modelled_hash (g_default o) = true ->
  merge_param t o = Err e -> e = TypeError.
Proof.
  intros t o e Hm H. unfold merge_param in H.
  match type of H with (if ?c then _ else _) = _ => destruct c end; [|discriminate].
  destruct (g_default o) as [od|] eqn:Eo; [|discriminate].
  destruct (not_in_none_frozenset od) as [b|e'] eqn:En; cbn [bind] in H; [discriminate|].
  inversion H; subst. eapply not_in_none_frozenset_err; eauto.
Qed.

Lemma params_modelled_get : forall ps k o, params_modelled ps = true -> od_get k ps = Some o ->
  dval_modelled_hash (g_default o) = true.
Proof.
  intros ps k o Hm Hg. unfold params_modelled in Hm. rewrite forallb_forall in Hm.
  apply od_get_Some_In in Hg. apply (Hm _ Hg).
Qed.

Lemma inter_step_keys : forall op k tp tp', inter_step op k tp = Ok tp' -> od_keys tp' = od_keys tp.
Proof.
  intros op k tp tp' H. unfold inter_step in H.
  destruct (od_get k tp) as [t|] eqn:Et; [|discriminate].
  destruct (od_get k op) as [o|]; [|discriminate].
  destruct (merge_param t o) as [t'|]; cbn [bind] in H; [|discriminate].
  inversion H; subst. apply od_keys_set_present. eapply od_get_Some_In_keys; exact Et.
Qed.

Lemma inter_step_comm : forall op x y d,
  params_modelled op = true -> x <> y ->
  In x (od_keys d) -> In y (od_keys d) -> In x (od_keys op) -> In y (od_keys op) ->
  bind (inter_step op x d) (inter_step op y) = bind (inter_step op y d) (inter_step op x).
Proof.
  intros op x y d Hm Hne Hxd Hyd Hxo Hyo.
  destruct (od_get_In_keys _ _ Hxd) as [tx Htx]. destruct (od_get_In_keys _ _ Hyd) as [ty Hty].
  destruct (od_get_In_keys _ _ Hxo) as [ox Hox]. destruct (od_get_In_keys _ _ Hyo) as [oy Hoy].
  unfold inter_step at 1 3. rewrite Htx, Hty, Hox, Hoy.
  destruct (merge_param tx ox) as [tx'|ex] eqn:Ex; destruct (merge_param ty oy) as [ty'|ey] eqn:Ey; cbn [bind].
  - unfold inter_step.
    rewrite (od_get_set_other x y) by exact Hne. rewrite (od_get_set_other y x) by auto.
    rewrite Htx, Hty, Hox, Hoy, Ex, Ey. cbn [bind]. f_equal.
    symmetry. apply od_set_comm; [exact Hne|exact Hxd].
  - unfold inter_step. rewrite (od_get_set_other x y) by exact Hne. rewrite Hty, Hoy, Ey. reflexivity.
  - unfold inter_step. rewrite (od_get_set_other y x) by auto. rewrite Htx, Hox, Ex. reflexivity.
  - apply merge_param_err in Ex; [|eapply params_modelled_get; eauto].
    apply merge_param_err in Ey; [|eapply params_modelled_get; eauto]. subst; reflexivity.
Qed.

Lemma fold_outcome_keys : forall op l tp tp', fold_outcome (inter_step op) l tp = Ok tp' -> od_keys tp' = od_keys tp.
Proof.
  intros op l; induction l as [|x r IH]; intros tp tp' H; cbn [fold_outcome] in H.
  - inversion H; reflexivity.
  - destruct (inter_step op x tp) as [d|] eqn:E; cbn [bind] in H; [|discriminate].
    rewrite (IH _ _ H). eapply inter_step_keys; exact E.
Qed.

Lemma inter_loop_perm : forall op l l', Permutation l l' -> NoDup l ->
  params_modelled op = true -> (forall k, In k l -> In k (od_keys op)) ->
  forall tp, (forall k, In k l -> In k (od_keys tp)) ->
  inter_loop l op tp = inter_loop l' op tp.
Proof.
  intros op l l' HP. unfold inter_loop.
  induction HP as [|x l l' HP IH|x y l|l l' l'' HP1 IH1 HP2 IH2]; intros Hnd Hm Hop tp Htp; cbn [fold_outcome].
  - reflexivity.
  - inversion Hnd as [|? ? Hx Hl]; subst.
    destruct (inter_step op x tp) as [d|e] eqn:E; cbn [bind]; [|reflexivity].
    apply IH; [exact Hl|exact Hm|intros k Hk; apply Hop; right; exact Hk|].
    intros k Hk. rewrite (inter_step_keys _ _ _ _ E). apply Htp; right; exact Hk.
  - inversion Hnd as [|? ? Hy Hr]; subst. inversion Hr as [|? ? Hx Hl]; subst.
    assert (Hne : x <> y) by (intros ->; apply Hy; left; reflexivity).
    pose proof (inter_step_comm op x y tp Hm Hne
                  (Htp x (or_intror (or_introl eq_refl))) (Htp y (or_introl eq_refl))
                  (Hop x (or_intror (or_introl eq_refl))) (Hop y (or_introl eq_refl))) as Hc.
    destruct (inter_step op y tp) as [d1|e1] eqn:E1; destruct (inter_step op x tp) as [d2|e2] eqn:E2;
      cbn [bind] in *.
    + destruct (inter_step op x d1) as [d3|e3] eqn:E3; destruct (inter_step op y d2) as [d4|e4] eqn:E4;
        cbn [bind]; try congruence.
    + destruct (inter_step op x d1) as [d3|e3] eqn:E3; cbn [bind]; congruence.
    + destruct (inter_step op y d2) as [d4|e4] eqn:E4; cbn [bind]; congruence.
    + congruence.
  - rewrite IH1 by assumption.
    apply IH2.
    + eapply Permutation_NoDup; eauto.
    + exact Hm.
    + intros k Hk. apply Hop. eapply Permutation_in; [apply Permutation_sym; exact HP1|exact Hk].
    + intros k Hk. apply Htp. eapply Permutation_in; [apply Permutation_sym; exact HP1|exact Hk].
Qed.

Lemma inter_keys_spec : forall op tp k, In k (inter_keys op tp) <-> In k (od_keys op) /\ In k (od_keys tp).
Proof.
  intros op tp k. unfold inter_keys. rewrite In_dedup, filter_In, mem_str_In. tauto.
Qed.

Lemma merge_params_perm : forall pi pi' tp op, perm_ok pi -> perm_ok pi' -> params_modelled op = true ->
  merge_params pi tp op = merge_params pi' tp op.
Proof.
  intros pi pi' tp op H H' Hm. unfold merge_params.
  destruct tp as [|t0 tr]; [reflexivity|]. destruct op as [|o0 orr]; [reflexivity|].
  set (tp := t0 :: tr). set (op := o0 :: orr) in *.
  rewrite (inter_loop_perm op (pi (inter_keys op tp)) (pi' (inter_keys op tp))); [reflexivity| | | | |].
  - eapply Permutation_trans; [apply H|apply Permutation_sym, H'].
  - eapply Permutation_NoDup; [apply Permutation_sym, H|apply NoDup_dedup].
  - exact Hm.
  - intros k Hk. eapply Permutation_in in Hk; [|apply H]. apply inter_keys_spec in Hk. tauto.
  - intros k Hk. eapply Permutation_in in Hk; [|apply H]. apply inter_keys_spec in Hk. tauto.
Qed.

Lemma merge_returns_perm : forall pj pj' tr orr, perm_ok pj -> perm_ok pj' ->
  merge_returns pj tr orr = merge_returns pj' tr orr.
Proof.
  intros pj pj' tr orr H H'. unfold merge_returns.
  destruct tr as [| |t]; try reflexivity. destruct orr as [| |o]; try reflexivity.
  rewrite (join_non_none_perm pj pj' t o H H'). reflexivity.
Qed.

Lemma ir_merge_perm : C12_merge_statement.
Proof.
  intros pi pi' pj pj' t o Hpi Hpi' Hpj Hpj'. unfold ir_merge.
  destruct (params_modelled (ir_params t) && params_modelled (ir_params o)) eqn:Em; cbn [negb]; [|reflexivity].
  apply andb_true_iff in Em. destruct Em as [_ Emo].
  rewrite (merge_params_perm pi pi' _ _ Hpi Hpi' Emo).
  rewrite (merge_returns_perm pj pj' _ _ Hpj Hpj'). reflexivity.
Qed.

(* ------------------------------------------------------------------ *)
(* keys of the merged map                                              *)
(* ------------------------------------------------------------------ *)
Lemma inter_loop_keys : forall l op tp tp', inter_loop l op tp = Ok tp' -> od_keys tp' = od_keys tp.
Proof. intros l op tp tp'. unfold inter_loop. apply fold_outcome_keys. Qed.

Lemma filter_notin_app_single : forall (l : list str) acc k, ~ In k l ->
  filter (fun x => negb (mem_str x (acc ++ [k]))) l = filter (fun x => negb (mem_str x acc)) l.
Proof.
  induction l as [|y l IH]; intros acc k Hk; cbn [filter]; [reflexivity|].
  cbn [In] in Hk.
  assert (E : mem_str y (acc ++ [k]) = mem_str y acc).
  { destruct (mem_str y acc) eqn:Ey.
    - apply mem_str_In. apply in_or_app; left. apply mem_str_In; exact Ey.
    - apply mem_str_false. intros Hin. apply in_app_or in Hin. destruct Hin as [Hin|[Hin|[]]].
      + apply mem_str_false in Ey; tauto.
      + subst; tauto. }
  rewrite E. rewrite IH by tauto. reflexivity.
Qed.

Lemma append_missing_keys : forall (op tp : list (str * gparam)), NoDup (od_keys op) ->
  od_keys (append_missing op tp) = od_keys tp ++ filter (fun k => negb (mem_str k (od_keys tp))) (od_keys op).
Proof.
  unfold append_missing.
  induction op as [|[k v] r IH]; intros tp Hnd.
  - cbn. rewrite app_nil_r; reflexivity.
  - change (od_keys ((k, v) :: r)) with (k :: od_keys r) in *.
    inversion Hnd as [|? ? Hk Hr]; subst.
    cbn [fold_left fst snd filter].
    destruct (od_get k tp) as [x|] eqn:E.
    + apply od_get_Some_In_keys in E. apply mem_str_In in E. rewrite E. cbn [negb]. apply IH; exact Hr.
    + apply od_get_None_iff in E. pose proof E as E'. apply mem_str_false in E'. rewrite E'. cbn [negb].
      rewrite IH by exact Hr. rewrite od_keys_set_absent by exact E.
      rewrite filter_notin_app_single by exact Hk. rewrite <- app_assoc. reflexivity.
Qed.

Lemma append_missing_get_old : forall (op tp : list (str * gparam)) k, In k (od_keys tp) ->
  od_get k (append_missing op tp) = od_get k tp.
Proof.
  unfold append_missing.
  induction op as [|[k0 v0] r IH]; intros tp k Hin; cbn [fold_left fst snd]; [reflexivity|].
  destruct (od_get k0 tp) as [x|] eqn:E.
  - apply IH; exact Hin.
  - rewrite IH.
    + apply od_get_set_other. intros ->. apply od_get_None_iff in E. tauto.
    + apply od_get_None_iff in E. rewrite od_keys_set_absent by exact E. apply in_or_app; left; exact Hin.
Qed.

Lemma append_missing_get_new : forall (op tp : list (str * gparam)) k, NoDup (od_keys op) ->
  ~ In k (od_keys tp) -> od_get k (append_missing op tp) = od_get k op.
Proof.
  unfold append_missing.
  induction op as [|[k0 v0] r IH]; intros tp k Hnd Hk; cbn [fold_left fst snd].
  - cbn [od_get]. apply od_get_None_iff; exact Hk.
  - change (od_keys ((k0, v0) :: r)) with (k0 :: od_keys r) in *.
    inversion Hnd as [|? ? Hk0 Hr]; subst.
    cbn [od_get].
    destruct (str_eqb k k0) eqn:Ek.
    + apply str_eqb_eq in Ek; subst k0.
      assert (E : od_get k tp = None) by (apply od_get_None_iff; exact Hk). rewrite E.
      pose proof (append_missing_get_old r (od_set k v0 tp) k) as Hold. unfold append_missing in Hold.
      rewrite Hold.
      * apply od_get_set_same.
      * rewrite od_keys_set_absent by exact Hk. apply in_or_app; right; left; reflexivity.
    + apply str_eqb_neq in Ek.
      destruct (od_get k0 tp) as [x|] eqn:E.
      * apply IH; assumption.
      * apply IH; [exact Hr|]. apply od_get_None_iff in E. rewrite od_keys_set_absent by exact E.
        intros Hin. apply in_app_or in Hin. destruct Hin as [Hin|[Hin|[]]]; [tauto|congruence].
Qed.

(* names of the merged map: the target's names, then the names only `other` has, in `other`'s order *)
Lemma merge_params_keys : forall pi tp op r, NoDup (od_keys op) -> merge_params pi tp op = Ok r ->
  od_keys r = od_keys tp ++ filter (fun k => negb (mem_str k (od_keys tp))) (od_keys op).
Proof.
  intros pi tp op r Hnd H. unfold merge_params in H.
  destruct tp as [|t0 tr].
  - inversion H; subst. cbn [od_keys map app mem_str negb].
    clear. generalize (od_keys r) as l. induction l as [|x l IH]; cbn [filter]; [reflexivity|]. f_equal; exact IH.
  - destruct op as [|o0 orr].
    + inversion H; subst. cbn [od_keys map filter]. rewrite app_nil_r. reflexivity.
    + remember (o0 :: orr) as op eqn:Eop. remember (t0 :: tr) as tp eqn:Etp.
      destruct (inter_loop _ _ _) as [tp1|] eqn:E; cbn [bind] in H; [|discriminate].
      injection H as <-. rewrite append_missing_keys by exact Hnd.
      rewrite (inter_loop_keys _ _ _ _ E). reflexivity.
Qed.

(* ------------------------------------------------------------------ *)
(* the loop before fix 5000c02 depended on the set order               *)
(* ------------------------------------------------------------------ *)
Definition g0 : gparam := mkG Missing Missing None.

Lemma old_append_order_dependent :
  append_missing_old id_perm [(L "a", g0); (L "b", g0)] [(L "c", g0)]
  <> append_missing_old rev_perm [(L "a", g0); (L "b", g0)] [(L "c", g0)].
Proof. vm_compute. discriminate. Qed.

Lemma rev_perm_ok : perm_ok rev_perm.
Proof. intros l. unfold rev_perm. apply Permutation_sym, Permutation_rev. Qed.

Lemma id_perm_ok : perm_ok id_perm.
Proof. intros l. apply Permutation_refl. Qed.
