(* C07Facts: what each parameter of parse.function's result contains (documented information wins,
   the signature fills the gaps), the refutation of the full statement and the guarded theorem.
   Proofs only. *)
From Coq Require Import List Ascii Bool Arith ZArith Lia Permutation.
From Coq Require String.
Import String.StringSyntax.
From DT Require Import PyStr Sexp PyVal TyExpr PureUtils Defaults PyAst IR Merge ParseSig C12Spec C07Spec
     PyStrFacts MergeFacts C12Facts ParseSigFacts.
Import ListNotations.

(* ------------------------------------------------------------------ *)
(* entries of the merged map                                           *)
(* ------------------------------------------------------------------ *)
Lemma fold_outcome_get_other : forall op l tp tp' k,
  fold_outcome (inter_step op) l tp = Ok tp' -> ~ In k l -> od_get k tp' = od_get k tp.
Proof.
  intros op l; induction l as [|x r IH]; intros tp tp' k H Hk; cbn [fold_outcome] in H.
  - inversion H; reflexivity.
  - destruct (inter_step op x tp) as [d|] eqn:E; cbn [bind] in H; [|discriminate].
    rewrite (IH _ _ _ H) by (intros Hin; apply Hk; right; exact Hin).
    unfold inter_step in E. destruct (od_get x tp); [|discriminate]. destruct (od_get x op); [|discriminate].
    destruct (merge_param g g0); cbn [bind] in E; [|discriminate]. inversion E; subst.
    apply od_get_set_other. intros ->. apply Hk; left; reflexivity.
Qed.

Lemma fold_outcome_get_in : forall op l tp tp' k t o, NoDup l -> In k l ->
  fold_outcome (inter_step op) l tp = Ok tp' -> od_get k tp = Some t -> od_get k op = Some o ->
  exists t', merge_param t o = Ok t' /\ od_get k tp' = Some t'.
Proof.
  intros op l; induction l as [|x r IH]; intros tp tp' k t o Hnd Hin H Ht Ho; [destruct Hin|].
  inversion Hnd as [|? ? Hx Hr]; subst. cbn [fold_outcome] in H.
  destruct (inter_step op x tp) as [d|] eqn:E; cbn [bind] in H; [|discriminate].
  destruct Hin as [->|Hin].
  - unfold inter_step in E. rewrite Ht, Ho in E.
    destruct (merge_param t o) as [t'|]; cbn [bind] in E; [|discriminate]. inversion E; subst.
    exists t'. split; [reflexivity|].
    rewrite (fold_outcome_get_other _ _ _ _ _ H Hx). apply od_get_set_same.
  - apply (IH d tp' k t o Hr Hin H); [|exact Ho].
    assert (Hne : x <> k) by (intros ->; tauto).
    unfold inter_step in E. destruct (od_get x tp); [|discriminate]. destruct (od_get x op); [|discriminate].
    destruct (merge_param g g0); cbn [bind] in E; [|discriminate]. inversion E; subst.
    rewrite od_get_set_other by exact Hne. exact Ht.
Qed.

(* a name in both maps: the target's entry, gaps filled from the other's *)
Lemma merge_params_get_both : forall pi tp op r k t o, perm_ok pi -> NoDup (od_keys op) ->
  merge_params pi tp op = Ok r -> od_get k tp = Some t -> od_get k op = Some o ->
  exists t', merge_param t o = Ok t' /\ od_get k r = Some t'.
Proof.
  intros pi tp op r k t o Hpi Hnd H Ht Ho. unfold merge_params in H.
  destruct tp as [|t0 tr]; [discriminate|]. destruct op as [|o0 orr]; [discriminate|].
  remember (t0 :: tr) as tp eqn:Etp. remember (o0 :: orr) as op eqn:Eop.
  destruct (inter_loop (pi (inter_keys op tp)) op tp) as [tp1|] eqn:E; cbn [bind] in H; [|discriminate].
  injection H as <-.
  unfold inter_loop in E.
  destruct (fold_outcome_get_in op (pi (inter_keys op tp)) tp tp1 k t o) as [t' [Hm Hg]]; auto.
  - eapply Permutation_NoDup; [apply Permutation_sym, Hpi|apply NoDup_dedup].
  - eapply Permutation_in; [apply Permutation_sym, Hpi|]. apply inter_keys_spec.
    split; eapply od_get_Some_In_keys; eauto.
  - exists t'. split; [exact Hm|]. rewrite append_missing_get_old; [exact Hg|].
    rewrite (fold_outcome_keys _ _ _ _ E). eapply od_get_Some_In_keys; eauto.
Qed.

(* a name only the other map has: the other's entry *)
Lemma merge_params_get_new : forall pi tp op r k, perm_ok pi -> NoDup (od_keys op) ->
  merge_params pi tp op = Ok r -> od_get k tp = None -> od_get k r = od_get k op.
Proof.
  intros pi tp op r k Hpi Hnd H Ht. unfold merge_params in H.
  destruct tp as [|t0 tr]; [inversion H; reflexivity|]. destruct op as [|o0 orr].
  - inversion H; subst. rewrite Ht. reflexivity.
  - remember (t0 :: tr) as tp eqn:Etp. remember (o0 :: orr) as op eqn:Eop.
    destruct (inter_loop (pi (inter_keys op tp)) op tp) as [tp1|] eqn:E; cbn [bind] in H; [|discriminate].
    injection H as <-. apply append_missing_get_new; [exact Hnd|].
    unfold inter_loop in E. rewrite (fold_outcome_keys _ _ _ _ E). apply od_get_None_iff; exact Ht.
Qed.

(* ------------------------------------------------------------------ *)
(* the signature, entry by entry                                        *)
(* ------------------------------------------------------------------ *)
Lemma In_od_get : forall {A} k (v : A) l, NoDup (od_keys l) -> In (k, v) l -> od_get k l = Some v.
Proof.
  intros A k v l; induction l as [|[k0 v0] l IH]; intros Hnd Hin; [destruct Hin|].
  cbn [od_keys map fst] in Hnd. inversion Hnd as [|? ? Hk Hl]; subst. cbn [od_get].
  destruct Hin as [Hin|Hin].
  - inversion Hin; subst. rewrite str_eqb_refl; reflexivity.
  - destruct (str_eqb k k0) eqn:E.
    + apply str_eqb_eq in E; subst. exfalso. apply Hk. change (In k0 (od_keys l)).
      eapply od_get_Some_In_keys. apply IH; [exact Hl|exact Hin].
    + apply IH; assumption.
Qed.

Lemma od_get_map2_func : forall args (ds : list (option expr)) k, List.length args <= List.length ds ->
  NoDup (map a_name args) -> In k (map a_name args) ->
  exists x d, In x args /\ a_name x = k
              /\ od_get k (map2 func_arg2param args ds) = Some (snd (func_arg2param x d))
              /\ forall kind, List.find (fun p => str_eqb (s_name p) k)
                                (map2 (fun x d => mkSig (a_name x) kind d (a_ann x)) args ds)
                              = Some (mkSig k kind d (a_ann x)).
Proof.
  induction args as [|x args IH]; intros ds k Hlen Hnd Hin; [destruct Hin|].
  destruct ds as [|d ds]; [cbn in Hlen; lia|].
  cbn [map] in Hnd, Hin. inversion Hnd as [|? ? Hx Hr]; subst.
  cbn [map2 od_get func_arg2param fst List.find s_name].
  destruct (str_eqb k (a_name x)) eqn:E.
  - apply str_eqb_eq in E; subst k. exists x, d. split; [left; reflexivity|]. split; [reflexivity|].
    split; [reflexivity|]. intros kind. rewrite str_eqb_refl. reflexivity.
  - destruct Hin as [Hin|Hin]; [subst; rewrite str_eqb_refl in E; discriminate|].
    destruct (IH ds k) as (y & dy & Hy & Hn & Hg & Hf); [cbn in Hlen; lia|exact Hr|exact Hin|].
    exists y, dy. split; [right; exact Hy|]. split; [exact Hn|]. split; [exact Hg|].
    intros kind. rewrite str_eqb_sym, E. apply Hf.
Qed.

Lemma find_app_l : forall {A} (f : A -> bool) l1 l2 x, List.find f l1 = Some x -> List.find f (l1 ++ l2) = Some x.
Proof.
  intros A f l1; induction l1 as [|y l1 IH]; intros l2 x H; [discriminate|]. cbn [app List.find] in *.
  destruct (f y); [exact H|apply IH; exact H].
Qed.

Lemma find_app_r : forall {A} (f : A -> bool) l1 l2, (forall y, In y l1 -> f y = false) ->
  List.find f (l1 ++ l2) = List.find f l2.
Proof.
  intros A f l1; induction l1 as [|y l1 IH]; intros l2 H; [reflexivity|]. cbn [app List.find].
  rewrite (H y) by (left; reflexivity). apply IH. intros z Hz; apply H; right; exact Hz.
Qed.

Lemma map2_sig_In_name : forall kind args (ds : list (option expr)) p,
  In p (map2 (fun x d => mkSig (a_name x) kind d (a_ann x)) args ds) -> In (s_name p) (map a_name args).
Proof.
  intros kind; induction args as [|x args IH]; intros ds p H; [destruct H|].
  destruct ds as [|d ds]; [destruct H|]. cbn [map2 In map] in *.
  destruct H as [<-|H]; [left; reflexivity|right; eapply IH; exact H].
Qed.

(* py_signature when self/cls carries no default: the kept positional arguments with right-aligned
   defaults, the keyword-only ones, the ** one *)
Lemma py_signature_spec : forall n a b dc r, fd_facts a ->
  List.length (ar_defaults a) <= List.length (pos_args a) ->
  py_signature (SFunc n a b dc r) =
  Some (map2 (fun x d => mkSig (a_name x) PosOrKw d (a_ann x)) (pos_args a)
             (pad_defaults (List.length (pos_args a)) (map Some (ar_defaults a)))
        ++ map2 (fun x d => mkSig (a_name x) KwOnly d (a_ann x)) (ar_kwonly a) (ar_kw_defaults a)
        ++ match ar_kwarg a with Some x => [mkSig (a_name x) VarKw None (a_ann x)] | None => [] end).
Proof.
  intros n a b dc r F Hself. destruct F as [Hv Hd Hk _ _].
  unfold py_signature, py_signature_raw.
  assert (E1 : Nat.ltb (List.length (ar_args a)) (List.length (ar_defaults a)) = false) by (apply Nat.ltb_ge; exact Hd).
  assert (E2 : Nat.eqb (List.length (ar_kwonly a)) (List.length (ar_kw_defaults a)) = true) by (apply Nat.eqb_eq; exact Hk).
  rewrite E1, E2, Hv. cbn [orb negb app].
  unfold pos_args, get_function_type in *. unfold pad_defaults. rewrite map_length.
  destruct (ar_args a) as [|x args] eqn:Ea.
  - assert (Hstat : str_eqb (L "static") (L "static") = true) by reflexivity. rewrite Hstat in *.
    cbn [map2 app List.length].
    destruct (ar_kwonly a) as [|y ys]; destruct (ar_kw_defaults a) as [|d ds]; cbn [List.length] in Hk; try lia.
    + cbn [map2 app]. destruct (ar_kwarg a); reflexivity.
    + cbn [map2 app s_kind andb]. reflexivity.
  - destruct (str_eqb (a_name x) (L "self") || str_eqb (a_name x) (L "cls")) eqn:Es.
    + assert (Hns : str_eqb (a_name x) (L "static") = false).
      { apply orb_true_iff in Es. destruct Es as [Es|Es]; apply str_eqb_eq in Es; rewrite Es; reflexivity. }
      rewrite Hns in *. cbn [tl List.length] in *.
      replace (S (List.length args) - List.length (ar_defaults a)) with (S (List.length args - List.length (ar_defaults a))) by lia.
      cbn [repeat app map2 s_kind s_name andb]. rewrite Es. reflexivity.
    + assert (Hstat : str_eqb (L "static") (L "static") = true) by reflexivity. rewrite Hstat in *.
      destruct (repeat None (List.length (x :: args) - List.length (ar_defaults a)) ++ map Some (ar_defaults a))
        as [|d0 ds0] eqn:Eds.
      * exfalso. apply (f_equal (@List.length _)) in Eds. rewrite app_length, repeat_length, map_length in Eds.
        cbn [List.length] in *. lia.
      * cbn [map2 app s_kind s_name andb]. rewrite Es. reflexivity.
Qed.

(* ------------------------------------------------------------------ *)
(* _infer_default, case by case (infer_type = False)                   *)
(* ------------------------------------------------------------------ *)
Lemma unquote_NoneStr : unquote NoneStr = NoneStr.
Proof. vm_compute. reflexivity. Qed.

Lemma NoneStr_in_none_types : in_none_types (VStr NoneStr) = true.
Proof. vm_compute. reflexivity. Qed.

(* the value a scalar default ends as *)
Definition norm_scalar (v : pyval) : dval :=
  if in_none_types v then DV (VStr NoneStr)
  else match v with VStr s => DV (VStr (unquote s)) | _ => DV v end.

(* the final type-deletion step *)
Definition typ_final (d : dval) (t : str) : fld str :=
  if negb (dval_is_NoneStr d) && code_quoted_dval d then (if contains [ch 91] t then Has t else Missing) else Has t.

(* the last two steps of _infer_default *)
Definition infer_tail (q : gparam) (d : dval) (tn : option str) : outcome gparam :=
  do typ5 <- (if fld_is_none (g_typ q) && negb (dval_is_NoneStr d)
              then match tn with
                   | Some n => Ok (Has n)
                   | None => match dval_type_name d with Some n => Ok (Has n) | None => Err Unmodelled end
                   end
              else Ok (g_typ q));
  if negb (dval_is_NoneStr d) && code_quoted_dval d then
    match typ5 with
    | Missing => Err KeyError
    | FNone => Err TypeError
    | Has t => if contains [ch 91] t then Ok (mkG (g_doc q) typ5 (Some d))
               else Ok (mkG (g_doc q) Missing (Some d))
    end
  else Ok (mkG (g_doc q) typ5 (Some d)).

Lemma infer_tail_spec : forall q d tn p1, infer_tail q d tn = Ok p1 ->
  g_doc p1 = g_doc q /\ g_default p1 = Some d /\ (forall t, g_typ q = Has t -> g_typ p1 = typ_final d t).
Proof.
  intros q d tn p1 H. unfold infer_tail in H.
  destruct (g_typ q) as [| |t] eqn:Et; cbn [fld_is_none andb] in H.
  - destruct (negb (dval_is_NoneStr d)); cbn [bind andb] in H.
    + destruct (match tn with Some n => Ok (Has n) | None => match dval_type_name d with Some n => Ok (Has n) | None => Err Unmodelled end end) as [[| |nm]|]; cbn [bind] in H;
        destruct (code_quoted_dval d); try discriminate; try (destruct (contains [ch 91] nm));
        inversion H; subst; cbn [g_doc g_default g_typ]; (split; [reflexivity|]); (split; [reflexivity|]);
        intros t' Ht'; discriminate.
    + inversion H; subst; cbn [g_doc g_default g_typ]; (split; [reflexivity|]); (split; [reflexivity|]);
        intros t' Ht'; discriminate.
  - destruct (negb (dval_is_NoneStr d)); cbn [bind andb] in H.
    + destruct (match tn with Some n => Ok (Has n) | None => match dval_type_name d with Some n => Ok (Has n) | None => Err Unmodelled end end) as [[| |nm]|]; cbn [bind] in H;
        destruct (code_quoted_dval d); try discriminate; try (destruct (contains [ch 91] nm));
        inversion H; subst; cbn [g_doc g_default g_typ]; (split; [reflexivity|]); (split; [reflexivity|]);
        intros t' Ht'; discriminate.
    + inversion H; subst; cbn [g_doc g_default g_typ]; (split; [reflexivity|]); (split; [reflexivity|]);
        intros t' Ht'; discriminate.
  - cbn [bind] in H.
    assert (Hp1 : p1 = mkG (g_doc q) (typ_final d t) (Some d)).
    { unfold typ_final. destruct (negb (dval_is_NoneStr d) && code_quoted_dval d);
        [destruct (contains [ch 91] t)|]; inversion H; reflexivity. }
    subst p1. cbn [g_doc g_default g_typ]. split; [reflexivity|]. split; [reflexivity|].
    intros t' Ht'. inversion Ht'; reflexivity.
Qed.

Lemma infer_default_DV : forall q v p1, infer_default q (DV v) false = Ok p1 ->
  g_doc p1 = g_doc q /\ g_default p1 = Some (norm_scalar v)
  /\ (forall t, g_typ q = Has t -> g_typ p1 = typ_final (norm_scalar v) t).
Proof.
  intros q v p1 H. unfold infer_default in H. cbn [bind andb dval_in_none_types] in H.
  unfold norm_scalar.
  destruct (in_none_types v) eqn:Env.
  - destruct (needs_quoting (fget (g_typ q))) as [nq|]; cbn [bind] in H; [|discriminate].
    rewrite orb_true_r in H. cbn [bind] in H. rewrite unquote_NoneStr in H.
    apply (infer_tail_spec q (DV (VStr NoneStr)) None p1 H).
  - destruct (needs_quoting (fget (g_typ q))) as [nq|]; cbn [bind] in H; [|discriminate].
    destruct v as [|bb|z|f|s].
    + vm_compute in Env. discriminate.
    + rewrite orb_false_r in H. destruct nq; cbn [bind] in H; apply (infer_tail_spec q _ None p1 H).
    + rewrite orb_false_r in H. destruct nq; cbn [bind] in H; apply (infer_tail_spec q _ None p1 H).
    + rewrite orb_false_r in H. destruct nq; cbn [bind] in H; apply (infer_tail_spec q _ None p1 H).
    + rewrite orb_true_r in H. cbn [bind] in H. apply (infer_tail_spec q _ None p1 H).
Qed.

Lemma infer_default_DE_const : forall q v,
  infer_default q (DE (EConst v)) false = infer_default q (DV (none_to_NoneStr v)) false.
Proof. intros q v. reflexivity. Qed.

Lemma expected_nonconst : forall e, is_const e = false ->
  expected_sig_default e = match lit_eval e with
                           | Ok lv => Some (dval_of_lval lv)
                           | Err ValueError => Some (DV (VStr (code_quote e)))
                           | Err _ => None
                           end.
Proof. intros e H. destruct e; try reflexivity. discriminate. Qed.

Lemma infer_default_DE_nonconst : forall q e p1, is_const e = false ->
  infer_default q (DE e) false = Ok p1 ->
  exists dv, expected_sig_default e = Some dv /\ g_doc p1 = g_doc q /\ g_default p1 = Some dv
             /\ (forall t, g_typ q = Has t -> g_typ p1 = typ_final dv t).
Proof.
  intros q e p1 Hc H. rewrite (expected_nonconst e Hc). unfold infer_default in H.
  assert (Hd1 : exists o, (match DE e with
                           | DE (EConst v) => Ok (DV (none_to_NoneStr v))
                           | DE (EOpaque src) => if opaque_maybe_const src then Err Unmodelled else Ok (DE e)
                           | _ => Ok (DE e)
                           end) = o /\ (o = Ok (DE e) \/ o = Err Unmodelled)).
  { eexists; split; [reflexivity|]. destruct e; try (left; reflexivity); try discriminate.
    destruct (opaque_maybe_const src); [right|left]; reflexivity. }
  destruct Hd1 as [o [Ho Hcase]]. rewrite Ho in H. destruct Hcase as [-> | ->]; cbn [bind] in H; [|discriminate].
  cbn [dval_in_none_types andb bind] in H.
  destruct (expr_ok e); cbn [negb] in H; [|discriminate].
  destruct (lit_eval e) as [lv|er] eqn:El.
  - cbn [bind] in H. exists (dval_of_lval lv). split; [reflexivity|].
    apply (infer_tail_spec q (dval_of_lval lv) (Some (lval_type_name lv)) p1 H).
  - destruct er; try discriminate. cbn [bind] in H.
    change (bt3 ++ paren_wrap_code (rstrip_chars [nl] (show_expr e)) ++ bt3) with (code_quote e) in H.
    exists (DV (VStr (code_quote e))). split; [reflexivity|].
    apply (infer_tail_spec q (DV (VStr (code_quote e))) None p1 H).
Qed.

(* ------------------------------------------------------------------ *)
(* second half of _set_name_and_type                                   *)
(* ------------------------------------------------------------------ *)
Definition truthy_doc (f : fld str) : fld str :=
  match f with Has (c :: r) => Has (c :: r) | _ => Missing end.

Lemma snt_post_spec : forall p1 rp, snt_post p1 true = Ok rp ->
  g_default rp = g_default p1
  /\ g_doc rp = (match truthy_doc (g_doc p1) with Has s => Has (norm_doc s) | x => x end)
  /\ (forall t, g_typ p1 = Has t -> g_typ rp = Has (typ_after_prose (truthy_doc (g_doc p1)) t)).
Proof.
  intros p1 rp H. unfold snt_post in H. unfold typ_after_prose, prose_says_optional, truthy_doc.
  destruct (g_doc p1) as [| |[|c r]] eqn:Ed.
  - inversion H; subst; cbn [g_default g_doc g_typ]. split; [reflexivity|]. split; [reflexivity|].
    intros t Ht. rewrite Ht. cbn [andb]. destruct (endswith google_opt t); reflexivity.
  - inversion H; subst; cbn [g_default g_doc g_typ]. split; [reflexivity|]. split; [reflexivity|].
    intros t Ht. rewrite Ht. cbn [andb]. destruct (endswith google_opt t); reflexivity.
  - inversion H; subst; cbn [g_default g_doc g_typ]. split; [reflexivity|]. split; [reflexivity|].
    intros t Ht. rewrite Ht. cbn [andb]. destruct (endswith google_opt t); reflexivity.
  - change (rstrip (join [sp] (map strip (split [nl] (c :: r))))) with (norm_doc (c :: r)) in H.
    destruct (startswith (L "(Optional)") (norm_doc (c :: r)) || startswith (L "Optional") (norm_doc (c :: r))) eqn:Eo.
    + destruct (g_typ p1) as [| |t] eqn:Et.
      * inversion H; subst; cbn [g_default g_doc g_typ]. split; [reflexivity|]. split; [reflexivity|]. intros t Ht; discriminate.
      * discriminate.
      * destruct (endswith google_opt t) eqn:Eg.
        -- match type of H with context [startswith (L "Optional[") ?u] => destruct (startswith (L "Optional[") u) eqn:Es end;
             inversion H; subst; cbn [g_default g_doc g_typ]; (split; [reflexivity|]); (split; [reflexivity|]);
             intros t' Ht'; inversion Ht'; subst t'; rewrite Eg, Es; reflexivity.
        -- destruct (startswith (L "Optional[") t) eqn:Es;
             inversion H; subst; cbn [g_default g_doc g_typ]; (split; [reflexivity|]); (split; [reflexivity|]);
             intros t' Ht'; inversion Ht'; subst t'; rewrite Eg, Es; reflexivity.
    + destruct (g_typ p1) as [| |t] eqn:Et.
      * inversion H; subst; cbn [g_default g_doc g_typ]. split; [reflexivity|]. split; [reflexivity|]. intros t Ht; discriminate.
      * inversion H; subst; cbn [g_default g_doc g_typ]. split; [reflexivity|]. split; [reflexivity|]. intros t Ht; discriminate.
      * inversion H; subst; cbn [g_default g_doc g_typ]. split; [reflexivity|]. split; [reflexivity|].
        intros t' Ht'; inversion Ht'; subst t'. cbn [andb]. destruct (endswith google_opt t); reflexivity.
Qed.

(* ------------------------------------------------------------------ *)
(* merging a docstring entry with a signature entry                    *)
(* ------------------------------------------------------------------ *)
Definition sig_gparam (x : arg) (d : option expr) : gparam := snd (func_arg2param x d).

Definition ann_text (x : arg) : option str :=
  option_map (fun e => rstrip_chars [nl] (show_expr e)) (a_ann x).

Lemma merge_param_sig : forall t x d q,
  (forall s, ann_text x = Some s -> s <> []) ->
  merge_param t (sig_gparam x d) = Ok q ->
  g_doc q = g_doc t
  /\ g_typ q = (if fld_is_none (g_typ t) then match ann_text x with Some s => Has s | None => g_typ t end else g_typ t)
  /\ g_default q = (if default_in_none_types (g_default t)
                    then match d with Some e => Some (DE e) | None => g_default t end else g_default t).
Proof.
  intros t x d q Hann H. unfold merge_param, sig_gparam, func_arg2param in H. cbn [snd g_doc g_typ g_default] in H.
  cbn [fld_truthy andb] in H. rewrite andb_false_r in H.
  unfold ann_text in *.
  destruct (a_ann x) as [e|]; cbn [option_map] in *.
  - destruct (rstrip_chars [nl] (show_expr e)) as [|c s] eqn:Es; [exfalso; apply (Hann [] eq_refl); reflexivity|].
    cbn [fld_truthy] in H. rewrite andb_true_r in H.
    destruct (fld_is_none (g_typ t)) eqn:Et; cbn [g_doc g_typ g_default] in H.
    + destruct (default_in_none_types (g_default t)) eqn:Ed.
      * destruct d as [e0|]; cbn [option_map bind not_in_none_frozenset] in H; injection H as <-; cbn [g_doc g_typ g_default];
          repeat split; reflexivity.
      * injection H as <-; cbn [g_doc g_typ g_default]. destruct t; repeat split; reflexivity.
    + destruct (default_in_none_types (g_default t)) eqn:Ed.
      * destruct d as [e0|]; cbn [option_map bind not_in_none_frozenset] in H; injection H as <-; cbn [g_doc g_typ g_default];
          destruct t; repeat split; reflexivity.
      * injection H as <-; cbn [g_doc g_typ g_default]. destruct t; repeat split; reflexivity.
  - cbn [fld_truthy] in H. rewrite andb_false_r in H.
    destruct (default_in_none_types (g_default t)) eqn:Ed.
    + destruct d as [e0|]; cbn [option_map bind not_in_none_frozenset] in H; injection H as <-; cbn [g_doc g_typ g_default];
        destruct (fld_is_none (g_typ t)); destruct t; repeat split; reflexivity.
    + injection H as <-; cbn [g_doc g_typ g_default]. destruct (fld_is_none (g_typ t)); destruct t; repeat split; reflexivity.
Qed.

(* ------------------------------------------------------------------ *)
(* one parameter through _set_name_and_type                            *)
(* ------------------------------------------------------------------ *)
Definition final_of (q : gparam) : option dval :=
  match g_default q with
  | None => None
  | Some (DV v) => Some (norm_scalar v)
  | Some (DE (EConst v)) => Some (norm_scalar (none_to_NoneStr v))
  | Some (DE e) => expected_sig_default e
  | Some (DO r) => None
  end.

Lemma snt_param_analysis : forall k q rp, kwargs_like k = false -> snt_param k q false true = Ok rp ->
  (forall r, g_default q <> Some (DO r)) ->
  g_default rp = final_of q
  /\ (g_default q <> None -> exists dv, g_default rp = Some dv)
  /\ g_doc rp = (match truthy_doc (g_doc q) with Has s => Has (norm_doc s) | x => x end)
  /\ (forall t, g_typ q = Has t ->
        (match final_of q with Some dv => typ_final dv t = Has t | None => True end) ->
        g_typ rp = Has (typ_after_prose (truthy_doc (g_doc q)) t)).
Proof.
  intros k q rp Hk H Hdo. unfold snt_param, snt_pre in H. rewrite Hk in H. unfold final_of.
  destruct (g_default q) as [[v|e|r]|] eqn:Ed.
  - destruct (infer_default q (DV v) false) as [p1|] eqn:Ei; cbn [bind] in H; [|discriminate].
    destruct (infer_default_DV _ _ _ Ei) as (Hd1 & Hv1 & Ht1).
    destruct (snt_post_spec _ _ H) as (Hv & Hd & Ht).
    rewrite Hv, Hv1, Hd, Hd1. split; [reflexivity|]. split; [intros _; eexists; reflexivity|]. split; [reflexivity|].
    intros t Hqt Hfin. rewrite Hd1 in Ht. apply Ht. rewrite (Ht1 t Hqt). exact Hfin.
  - destruct (is_const e) eqn:Ec.
    + destruct e; try discriminate. rewrite infer_default_DE_const in H.
      destruct (infer_default q (DV (none_to_NoneStr v)) false) as [p1|] eqn:Ei; cbn [bind] in H; [|discriminate].
      destruct (infer_default_DV _ _ _ Ei) as (Hd1 & Hv1 & Ht1).
      destruct (snt_post_spec _ _ H) as (Hv & Hd & Ht).
      rewrite Hv, Hv1, Hd, Hd1. split; [reflexivity|]. split; [intros _; eexists; reflexivity|]. split; [reflexivity|].
      intros t Hqt Hfin. rewrite Hd1 in Ht. apply Ht. rewrite (Ht1 t Hqt). exact Hfin.
    + destruct (infer_default q (DE e) false) as [p1|] eqn:Ei; cbn [bind] in H; [|discriminate].
      destruct (infer_default_DE_nonconst _ _ _ Ec Ei) as (dv & He & Hd1 & Hv1 & Ht1).
      destruct (snt_post_spec _ _ H) as (Hv & Hd & Ht).
      assert (Hm : (match e with EConst v => Some (norm_scalar (none_to_NoneStr v)) | _ => expected_sig_default e end) = Some dv).
      { destruct e; try exact He. discriminate. }
      rewrite Hm, Hv, Hv1, Hd, Hd1. split; [reflexivity|]. split; [intros _; eexists; reflexivity|]. split; [reflexivity|].
      intros t Hqt Hfin. rewrite Hd1 in Ht. apply Ht. rewrite (Ht1 t Hqt). exact Hfin.
  - exfalso. apply (Hdo r). reflexivity.
  - cbn [bind] in H. destruct (snt_post_spec _ _ H) as (Hv & Hd & Ht).
    rewrite Hv, Hd, Ed. split; [reflexivity|]. split; [intros Hx; exfalso; apply Hx; reflexivity|]. split; [reflexivity|].
    intros t Hqt _. apply Ht; exact Hqt.
Qed.

Lemma pyval_eqb_refl : forall v, pyval_eqb v v = true.
Proof.
  destruct v as [|b|z|f|s]; cbn [pyval_eqb]; auto using str_eqb_refl.
  - destruct b; reflexivity.
  - apply Z.eqb_refl.
Qed.

Lemma fld_str_eqb_refl : forall f, fld_str_eqb f f = true.
Proof. destruct f; cbn [fld_str_eqb]; auto using str_eqb_refl. Qed.

Lemma dval_of_lval_eqb_refl : forall lv, dval_eqb (dval_of_lval lv) (dval_of_lval lv) = true.
Proof. destruct lv; cbn [dval_of_lval dval_eqb]; auto using pyval_eqb_refl, str_eqb_refl. Qed.

Lemma norm_scalar_eqb_refl : forall v, dval_eqb (norm_scalar v) (norm_scalar v) = true.
Proof.
  intros v. unfold norm_scalar. destruct (in_none_types v); [cbn [dval_eqb pyval_eqb]; apply str_eqb_refl|].
  destruct v; cbn [dval_eqb]; apply pyval_eqb_refl.
Qed.

Lemma expected_sig_default_eqb_refl : forall e dv, expected_sig_default e = Some dv -> dval_eqb dv dv = true.
Proof.
  intros e dv H. unfold expected_sig_default in H.
  assert (G : forall o, (match o with Ok lv => Some (dval_of_lval lv) | Err ValueError => Some (DV (VStr (code_quote e))) | Err _ => None end) = Some dv -> dval_eqb dv dv = true).
  { intros o Ho. destruct o as [lv|er]; [inversion Ho; apply dval_of_lval_eqb_refl|].
    destruct er; try discriminate. inversion Ho. cbn [dval_eqb pyval_eqb]. apply str_eqb_refl. }
  destruct e; try (apply (G _ H)); try (exact (G _ H)).
  all: try (inversion H; cbn [dval_eqb]; apply pyval_eqb_refl).
Qed.

(* ------------------------------------------------------------------ *)
(* what the absence of a finding class says about one parameter        *)
(* ------------------------------------------------------------------ *)
Lemma param_class_None : forall dp sp, param_class dp sp = None ->
  exists nq, needs_quoting (eff_typ dp sp) = Ok nq
  /\ (doc_default_given dp = None -> forall s, s_default sp = Some (EConst (VStr s)) -> str_default_altered s = false)
  /\ type_dropped (final_default dp sp) (eff_typ dp sp) = false.
Proof.
  intros dp sp H. unfold param_class in H.
  destruct (needs_quoting (eff_typ dp sp)) as [nq|]; [|discriminate]. exists nq. split; [reflexivity|].
  unfold final_default in *.
  destruct (doc_default_given dp) as [dv|] eqn:Edd.
  - split; [discriminate|]. destruct (s_default sp); destruct (type_dropped _ _); try discriminate; reflexivity.
  - destruct (s_default sp) as [e|] eqn:Es.
    + destruct e as [v|id|e1 at1|e1 s1|es|es|ks vs|f args kws|op e1|src];
        try (match type of H with (if ?c then _ else _) = None => destruct c eqn:Ed; [discriminate|] end;
             split; [intros _ s0 Hs0; discriminate|first [exact Ed|reflexivity]]).
      destruct v as [|bb|z|fl|s];
        try (match type of H with (if ?c then _ else _) = None => destruct c eqn:Ed; [discriminate|] end;
             split; [intros _ s0 Hs0; discriminate|first [exact Ed|reflexivity]]).
      destruct (str_default_altered s) eqn:Ea; [discriminate|].
      match type of H with (if ?c then _ else _) = None => destruct c eqn:Ed; [discriminate|] end.
      split; [|first [exact Ed|reflexivity]]. intros _ s0 Hs0. inversion Hs0; subst; exact Ea.
    + split; [intros _ s He; discriminate|]. destruct (type_dropped _ _); [discriminate|reflexivity].
Qed.

Lemma typ_final_not_dropped : forall dv t, type_dropped (Some dv) (Some t) = false -> typ_final dv t = Has t.
Proof.
  intros dv t H. unfold type_dropped in H. unfold typ_final.
  destruct (code_quoted_dval dv); destruct (dval_is_NoneStr dv); destruct (contains [ch 91] t); cbn in *; try reflexivity; discriminate.
Qed.

Lemma norm_scalar_const : forall v, (forall s, v = VStr s -> str_default_altered s = false) ->
  norm_scalar (none_to_NoneStr v) = DV (none_to_NoneStr v).
Proof.
  intros v H. destruct v as [|b|z|f|s]; cbn [none_to_NoneStr].
  - unfold norm_scalar. rewrite NoneStr_in_none_types. reflexivity.
  - reflexivity.
  - reflexivity.
  - reflexivity.
  - specialize (H s eq_refl). unfold str_default_altered in H. apply negb_false_iff in H. apply str_eqb_eq in H.
    unfold norm_scalar. destruct (in_none_types (VStr s)); rewrite H; reflexivity.
Qed.

(* ------------------------------------------------------------------ *)
(* one parameter, from docstring entry and signature entry to the IR   *)
(* ------------------------------------------------------------------ *)
Definition doc_default_scalar (dp : option gparam) : Prop :=
  match dp with
  | Some t => match g_default t with Some (DV _) => True | None => True | _ => False end
  | None => True
  end.

Lemma param_faithful_lemma : forall k kind dp x d q rp,
  kwargs_like k = false ->
  (forall s, ann_text x = Some s -> s <> []) ->
  doc_default_scalar dp ->
  (match dp with Some t => merge_param t (sig_gparam x d) = Ok q | None => q = sig_gparam x d end) ->
  snt_param k q false true = Ok rp ->
  param_class dp (mkSig k kind d (a_ann x)) = None ->
  param_faithful dp (mkSig k kind d (a_ann x)) rp = true.
Proof.
  intros k kind dp x d q rp Hk Hann Hsc Hres Hsnt Hcls.
  set (sp := mkSig k kind d (a_ann x)) in *.
  (* the three fields of the merged entry *)
  assert (Hq : g_doc q = (match dp with Some t => g_doc t | None => FNone end)
               /\ g_typ q = (match doc_typ_given dp with
                             | Some s => Has s
                             | None => match ann_text x with
                                       | Some s => Has s
                                       | None => match dp with Some t => g_typ t | None => FNone end
                                       end
                             end)
               /\ g_default q = (match doc_default_given dp with
                                 | Some dv => Some dv
                                 | None => match d with
                                           | Some e => Some (DE e)
                                           | None => match dp with Some t => g_default t | None => None end
                                           end
                                 end)).
  { destruct dp as [t|].
    - destruct (merge_param_sig _ _ _ _ Hann Hres) as (H1 & H2 & H3). split; [exact H1|]. split.
      + rewrite H2. unfold doc_typ_given. destruct (g_typ t); cbn [fld_is_none]; try reflexivity.
      + rewrite H3. unfold doc_default_given. destruct (default_in_none_types (g_default t)) eqn:E; [reflexivity|].
        destruct (g_default t) as [dv|]; [reflexivity|]. cbn in E. vm_compute in E. discriminate.
    - subst q. unfold sig_gparam, func_arg2param, ann_text. cbn [snd g_doc g_typ g_default doc_typ_given doc_default_given].
      split; [reflexivity|]. split; destruct (a_ann x); destruct d; reflexivity. }
  destruct Hq as (Hqd & Hqt & Hqv).
  assert (Heff : eff_typ dp sp = fget (g_typ q)).
  { rewrite Hqt. unfold eff_typ. destruct (doc_typ_given dp) as [s|] eqn:Edt; [reflexivity|].
    cbn [s_ann sp]. unfold ann_text. destruct (a_ann x); cbn [option_map fget]; [reflexivity|].
    destruct dp as [t|]; [|reflexivity]. unfold doc_typ_given in Edt. destruct (g_typ t); try reflexivity. discriminate. }
  destruct (param_class_None _ _ Hcls) as (nq & Hnq & Hsig & Hdrop).
  rewrite Heff in Hnq.
  (* the documented default, if any, is a scalar that is not None-like *)
  assert (Hddg : forall dv, doc_default_given dp = Some dv -> exists v, dv = DV v /\ in_none_types v = false).
  { intros dv Hdv. destruct dp as [t|]; [|discriminate]. unfold doc_default_given in Hdv. cbn [doc_default_scalar] in Hsc.
    destruct (default_in_none_types (g_default t)) eqn:E; [discriminate|].
    destruct (g_default t) as [[v|e|r]|]; try contradiction; try discriminate.
    inversion Hdv; subst. exists v. split; [reflexivity|exact E]. }
  assert (Hnodoc : doc_default_given dp = None -> d = None ->
                   g_default q = None \/ exists v, g_default q = Some (DV v) /\ in_none_types v = true).
  { intros Hdd Hd. rewrite Hqv, Hdd, Hd. destruct dp as [t|]; [|left; reflexivity].
    unfold doc_default_given in Hdd. cbn [doc_default_scalar] in Hsc.
    destruct (default_in_none_types (g_default t)) eqn:E.
    - destruct (g_default t) as [[v|e|r]|]; try contradiction; [right; exists v; split; [reflexivity|exact E]|left; reflexivity].
    - destruct (g_default t); [discriminate|left; reflexivity]. }
  destruct (snt_param_analysis k q rp Hk Hsnt) as (Hv & Hsome & Hd & Ht).
  { intros r Hr.
    destruct (doc_default_given dp) as [dv|] eqn:Edd.
    - rewrite Hqv in Hr. destruct (Hddg dv eq_refl) as (v & -> & _). discriminate.
    - destruct d as [e'|]; [rewrite Hqv in Hr; discriminate|].
      destruct (Hnodoc eq_refl eq_refl) as [Hn|(v & Hn & _)]; rewrite Hn in Hr; discriminate. }
  (* prose of the docstring entry = truthy prose of the merged entry *)
  assert (Hprose : doc_prose dp = truthy_doc (g_doc q)).
  { rewrite Hqd. unfold doc_prose, truthy_doc. destruct dp as [t|]; [|reflexivity].
    destruct (g_doc t) as [| |[|c r]]; reflexivity. }
  (* relation between the spec's final default and the merged entry's *)
  assert (Hfd : match doc_default_given dp, d with
                | None, None => final_of q = None \/ final_of q = Some (DV (VStr NoneStr))
                | _, _ => final_of q = final_default dp sp
                end).
  { unfold final_of, final_default. destruct (doc_default_given dp) as [dv|] eqn:Edd.
    - assert (G : match g_default q with
                  | Some (DV v) => Some (norm_scalar v)
                  | Some (DE (EConst v)) => Some (norm_scalar (none_to_NoneStr v))
                  | Some (DE e) => expected_sig_default e
                  | Some (DO _) => None
                  | None => None
                  end = Some (norm_doc_default dv)).
      { destruct (Hddg dv eq_refl) as (v & -> & Hv0). rewrite Hqv. unfold norm_scalar. rewrite Hv0. destruct v; reflexivity. }
      destruct d; exact G.
    - cbn [s_default sp]. destruct d as [e|].
      + rewrite Hqv.
        destruct e as [v| | | | | | | | |]; try reflexivity.
        cbn [expected_sig_default]. rewrite (norm_scalar_const v); [reflexivity|].
        intros s ->. apply (Hsig eq_refl s eq_refl).
      + destruct (Hnodoc eq_refl eq_refl) as [Hn|(v & Hn & Hv0)]; rewrite Hn; [left; reflexivity|right].
        unfold norm_scalar. rewrite Hv0. reflexivity. }
  assert (Htyp : forall t, g_typ q = Has t -> g_typ rp = Has (typ_after_prose (doc_prose dp) t)).
  { intros t Hqt'. rewrite Hprose. apply Ht; [exact Hqt'|].
    assert (He : eff_typ dp sp = Some t) by (rewrite Heff, Hqt'; reflexivity).
    rewrite He in Hdrop.
    assert (Hcase : final_of q = final_default dp sp \/ final_of q = Some (DV (VStr NoneStr)) \/ final_of q = None).
    { destruct (doc_default_given dp); destruct d; try (left; exact Hfd). destruct Hfd as [Hf|Hf]; auto. }
    destruct Hcase as [Hf|[Hf|Hf]]; rewrite Hf.
    - destruct (final_default dp sp) as [dv|]; [|exact I]. apply typ_final_not_dropped; exact Hdrop.
    - unfold typ_final. cbn [dval_is_NoneStr]. rewrite str_eqb_refl. reflexivity.
    - exact I. }
  unfold param_faithful. apply andb_true_iff. split; [apply andb_true_iff; split|].
  - (* prose *) rewrite Hd, Hprose. apply fld_str_eqb_refl.
  - (* default *)
    cbn [s_default sp].
    destruct (doc_default_given dp) as [dv|] eqn:Edd.
    + assert (Hf : final_of q = final_default dp sp) by (destruct d; exact Hfd).
      rewrite Hv, Hf. unfold final_default. rewrite Edd. cbn [opt_dval_eqb].
      destruct (Hddg dv eq_refl) as (v & -> & _). destruct v; cbn [norm_doc_default dval_eqb]; apply pyval_eqb_refl.
    + destruct d as [e|].
      * destruct Hsome as (dv & Hdv); [rewrite Hqv; discriminate|].
        assert (Hexp : expected_sig_default e = Some dv).
        { rewrite Hv, Hfd in Hdv. unfold final_default in Hdv. rewrite Edd in Hdv. exact Hdv. }
        rewrite Hexp, Hdv. cbn [opt_dval_eqb]. eapply expected_sig_default_eqb_refl; exact Hexp.
      * rewrite Hv. destruct Hfd as [Hf|Hf]; rewrite Hf; [reflexivity|].
        cbn [dval_is_NoneStr]. apply str_eqb_refl.
  - (* type *)
    cbn [s_ann sp].
    destruct (doc_typ_given dp) as [t|] eqn:Edt.
    + rewrite (Htyp t) by (rewrite Hqt; reflexivity). apply fld_str_eqb_refl.
    + destruct (a_ann x) as [a|] eqn:Ea; [|reflexivity].
      rewrite (Htyp (rstrip_chars [nl] (show_expr a))); [apply fld_str_eqb_refl|].
      rewrite Hqt. unfold ann_text. rewrite Ea. reflexivity.
Qed.

(* ------------------------------------------------------------------ *)
(* the ** parameter                                                    *)
(* ------------------------------------------------------------------ *)
Lemma snt_kwarg_lemma : forall k p rp,
  snt_param k (mkG (g_doc p) (g_typ p) (Some (DV (VStr NoneStr)))) false true = Ok rp ->
  kwarg_faithful (Some p) rp = true.
Proof.
  intros k p rp H. unfold snt_param, snt_pre in H. cbn [g_doc g_typ g_default] in H.
  assert (G : forall p1, g_doc p1 = g_doc p -> g_default p1 = Some (DV (VStr NoneStr)) -> snt_post p1 true = Ok rp ->
              kwarg_faithful (Some p) rp = true).
  { intros p1 Hd1 Hv1 Hp. destruct (snt_post_spec _ _ Hp) as (Hv & Hd & _).
    unfold kwarg_faithful. rewrite Hv, Hv1, Hd, Hd1. apply andb_true_iff. split.
    - assert (E : doc_prose (Some p) = truthy_doc (g_doc p)).
      { unfold doc_prose, truthy_doc. destruct (g_doc p) as [| |[|c r]]; reflexivity. }
      rewrite E. apply fld_str_eqb_refl.
    - cbn [opt_dval_eqb dval_eqb pyval_eqb]. apply str_eqb_refl. }
  destruct (kwargs_like k).
  - cbn [bind] in H. eapply G; [| |exact H]; reflexivity.
  - destruct (infer_default _ (DV (VStr NoneStr)) false) as [p1|] eqn:Ei; cbn [bind] in H; [|discriminate].
    destruct (infer_default_DV _ _ _ Ei) as (Hd1 & Hv1 & _). cbn [g_doc] in Hd1.
    eapply G; [exact Hd1| |exact H]. rewrite Hv1. unfold norm_scalar. rewrite NoneStr_in_none_types. reflexivity.
Qed.

(* ------------------------------------------------------------------ *)
(* misc                                                                *)
(* ------------------------------------------------------------------ *)
Lemma list_eqb_str_refl : forall l, list_eqb str_eqb l l = true.
Proof. induction l as [|x l IH]; cbn [list_eqb]; [reflexivity|]. rewrite str_eqb_refl, IH. reflexivity. Qed.


Lemma first_some_class_None : forall l, first_some_class l = None -> forall x, In x l -> x = None.
Proof.
  induction l as [|[k|] l IH]; intros H x Hx; [destruct Hx|discriminate|].
  destruct Hx as [<-|Hx]; [reflexivity|apply IH; assumption].
Qed.

Lemma pad_defaults_exact : forall {A} (ds : list (option A)) n, n = List.length ds -> pad_defaults n ds = ds.
Proof. intros A ds n ->. unfold pad_defaults. rewrite Nat.sub_diag. reflexivity. Qed.

Lemma pos_args_incl : forall a x, In x (pos_args a) -> In x (ar_args a).
Proof.
  intros a x H. unfold pos_args in H. destruct (str_eqb _ _); [exact H|].
  destruct (ar_args a); [destruct H|right; exact H].
Qed.

Lemma find_none_by_name : forall kind args (ds : list (option expr)) k, ~ In k (map a_name args) ->
  forall y, In y (map2 (fun x d => mkSig (a_name x) kind d (a_ann x)) args ds) -> str_eqb (s_name y) k = false.
Proof.
  intros kind args ds k Hk y Hy. apply str_eqb_neq. intros Heq. apply Hk. rewrite <- Heq.
  eapply map2_sig_In_name; exact Hy.
Qed.

(* the signature entry of a positional / keyword-only name, on both sides *)
Lemma sig_entry : forall n a b dc rr k, fd_facts a ->
  List.length (ar_defaults a) <= List.length (pos_args a) -> In k (sig_pos_names a) ->
  exists x dflt kind, In x (ar_args a ++ ar_kwonly a) /\ kind <> VarKw
    /\ od_get k (sig_pairs a (pos_args a)) = Some (sig_gparam x dflt)
    /\ sig_param_of (SFunc n a b dc rr) k = Some (mkSig k kind dflt (a_ann x)).
Proof.
  intros n a b dc rr k F Hself Hk.
  pose proof (NoDup_app_l _ _ (ff_nodup a F)) as HS. unfold sig_pos_names in HS, Hk.
  unfold sig_param_of. rewrite (py_signature_spec _ _ _ _ _ F Hself).
  unfold sig_pairs. rewrite od_get_app.
  rewrite (pad_defaults_exact (ar_kw_defaults a)) by apply (ff_kw a F).
  destruct (in_dec (list_eq_dec ascii_dec) k (map a_name (pos_args a))) as [Hp|Hp].
  - destruct (od_get_map2_func (pos_args a) (pad_defaults (List.length (pos_args a)) (map Some (ar_defaults a))) k)
      as (x & dflt & Hx & Hn & Hg & Hf); [apply pad_defaults_length|apply (NoDup_app_l _ _ HS)|exact Hp|].
    exists x, dflt, PosOrKw. split; [apply in_or_app; left; apply pos_args_incl; exact Hx|]. split; [discriminate|].
    rewrite Hg. split; [reflexivity|]. apply find_app_l. apply Hf.
  - assert (Hkw : In k (map a_name (ar_kwonly a))) by (apply in_app_or in Hk; tauto).
    assert (Hnone : od_get k (map2 func_arg2param (pos_args a)
                                   (pad_defaults (List.length (pos_args a)) (map Some (ar_defaults a)))) = None).
    { apply od_get_None_iff. unfold od_keys. rewrite map2_func_arg2param_keys by apply pad_defaults_length. exact Hp. }
    rewrite Hnone.
    destruct (od_get_map2_func (ar_kwonly a) (ar_kw_defaults a) k) as (x & dflt & Hx & Hn & Hg & Hf).
    + rewrite (ff_kw a F). lia.
    + clear - HS. induction (map a_name (pos_args a)) as [|y l IH]; [exact HS|].
      cbn [app] in HS. inversion HS; subst. apply IH; assumption.
    + exact Hkw.
    + exists x, dflt, KwOnly. split; [apply in_or_app; right; exact Hx|]. split; [discriminate|].
      rewrite Hg. split; [reflexivity|].
      rewrite find_app_r by (apply find_none_by_name; exact Hp).
      apply find_app_l. apply Hf.
Qed.

Lemma sig_entry_kw : forall n a b dc rr karg, fd_facts a ->
  List.length (ar_defaults a) <= List.length (pos_args a) -> ar_kwarg a = Some karg ->
  sig_param_of (SFunc n a b dc rr) (a_name karg) = Some (mkSig (a_name karg) VarKw None (a_ann karg)).
Proof.
  intros n a b dc rr karg F Hself Hk.
  pose proof (ff_nodup a F) as Hnd. unfold kwarg_name in Hnd. rewrite Hk in Hnd. cbn [option_map opt_list] in Hnd.
  apply NoDup_remove_2 in Hnd. rewrite app_nil_r in Hnd. unfold sig_pos_names in Hnd.
  unfold sig_param_of. rewrite (py_signature_spec _ _ _ _ _ F Hself). rewrite Hk.
  rewrite find_app_r by (apply find_none_by_name; intros Hin; apply Hnd; apply in_or_app; left; exact Hin).
  rewrite find_app_r by (apply find_none_by_name; intros Hin; apply Hnd; apply in_or_app; right; exact Hin).
  cbn [List.find s_name]. rewrite str_eqb_refl. reflexivity.
Qed.

Lemma wf_fd_ann : forall n a b dc rr x, wf_fd (SFunc n a b dc rr) = true -> In x (ar_args a ++ ar_kwonly a) ->
  forall s, ann_text x = Some s -> s <> [].
Proof.
  intros n a b dc rr x H Hx s Hs. cbn [wf_fd] in H. apply andb_true_iff in H. destruct H as [_ H].
  rewrite forallb_forall in H. specialize (H x Hx). unfold ann_text in Hs.
  destruct (a_ann x) as [e|]; [|discriminate]. cbn [option_map] in Hs. inversion Hs; subst.
  destruct (rstrip_chars [nl] (show_expr e)); [discriminate|]. discriminate.
Qed.

Lemma wf_doc_scalar : forall d n a b dc rr k, wf_doc d (SFunc n a b dc rr) = true ->
  doc_default_scalar (od_get k (doc_params d (SFunc n a b dc rr))).
Proof.
  intros d n a b dc rr k H. unfold wf_doc in H. cbn [fd_arguments] in H.
  apply andb_true_iff in H. destruct H as [_ H]. rewrite forallb_forall in H.
  unfold doc_default_scalar. destruct (od_get k _) as [t|] eqn:E; [|exact I].
  apply od_get_Some_In in E. specialize (H _ E). cbn [snd] in H.
  destruct (g_default t) as [[v|e|r]|]; try exact I; discriminate.
Qed.

(* ------------------------------------------------------------------ *)
(* the guarded theorem                                                 *)
(* ------------------------------------------------------------------ *)
Lemma C07_partial_lemma : forall pi pj d fd, perm_ok pi -> perm_ok pj -> guard_C07 d fd = true -> C07_at pi pj d fd.
Proof.
  intros pi pj d fd Hpi Hpj Hg. unfold guard_C07 in Hg. apply andb_true_iff in Hg. destruct Hg as [Hdom Hcls].
  pose proof Hdom as Hdom0. unfold C07_domain in Hdom. apply andb_true_iff in Hdom. destruct Hdom as [Hwf Hdoc].
  destruct (wf_fd_facts _ Hwf) as (n & a & b & dc & rr & -> & F).
  pose proof (wf_doc_facts _ _ _ _ _ _ Hdoc) as D.
  set (fd := SFunc n a b dc rr) in *.
  (* read the guard *)
  destruct (finding_class_C07 d fd) eqn:Efc; [discriminate|]. clear Hcls.
  unfold finding_class_C07 in Efc. cbn [fd_arguments fd] in Efc. fold fd in Efc.
  destruct (match kwarg_name a with Some _ => negb (kwarg_documented d a fd) | None => false end) eqn:C1; [discriminate|].
  match type of Efc with (if ?c then _ else _) = None => destruct c eqn:C2; [discriminate|] end.
  destruct (Nat.ltb (List.length (pos_args a)) (List.length (ar_defaults a))) eqn:C4; [discriminate|].
  destruct (existsb kwargs_like (sig_pos_names a)) eqn:C5; [discriminate|].
  destruct (parse_default id_perm id_perm d fd) as [r0|er] eqn:C6; [|destruct er; discriminate].
  destruct (py_signature fd) as [l|] eqn:C7; [|discriminate].
  apply Nat.ltb_ge in C4.
  assert (Hog : order_guard d fd = true).
  { unfold order_guard. cbn [fd_arguments fd]. fold fd.
    destruct (kwarg_name a); [apply negb_false_iff in C1; exact C1|reflexivity]. }
  exists r0. split.
  { unfold parse_default. rewrite parse_function_canonical by assumption. exact C6. }
  unfold parse_default in C6.
  pose proof (parse_function_names _ _ _ _ _ _ _ _ _ Hdom0 C6) as Hnames.
  pose proof (proj2 (order_guard_iff d fd Hdom0) Hog) as Horder.
  unfold C07_check. apply andb_true_iff. split.
  { rewrite Hnames, Horder. apply list_eqb_str_refl. }
  destruct (parse_function_structure _ _ _ _ _ _ _ _ _ _ _ _ _ F D C6) as (tparams & app & m & Ekw & Em & Esn & Ekeys).
  fold fd in Ekw, Ekeys.
  assert (Hnd1 : NoDup (od_keys (append_kw app (sort_by_sig (sig_pos_names a) m)))) by (rewrite Ekeys; apply expected_names_NoDup; assumption).
  assert (Hok1 : forallb name_ok (od_keys (append_kw app (sort_by_sig (sig_pos_names a) m))) = true).
  { rewrite Ekeys. eapply forallb_sub; [|apply (ff_ok a F)]. intros k Hk. eapply expected_names_sub; eauto. }
  assert (HS : NoDup (sig_pos_names a)) by (apply (NoDup_app_l _ _ (ff_nodup a F))).
  assert (Hndr : NoDup (od_keys (ir_params r0))) by (rewrite Hnames; apply expected_names_NoDup; assumption).
  rewrite forallb_forall. intros [k rp] Hin.
  assert (Hgr : od_get k (ir_params r0) = Some rp) by (apply In_od_get; assumption).
  assert (Hk : In k (sig_pos_names a ++ opt_list (kwarg_name a))).
  { rewrite <- (sig_names_spec n a b dc rr F). fold fd. rewrite <- Horder, <- Hnames. eapply od_get_Some_In_keys; exact Hgr. }
  assert (Hkeq : od_keys (ir_params r0) = od_keys (append_kw app (sort_by_sig (sig_pos_names a) m))) by (apply (set_names_and_types_keys _ _ _ _ Hnd1 Hok1 Esn)).
  assert (Hk1 : In k (od_keys (append_kw app (sort_by_sig (sig_pos_names a) m)))).
  { rewrite <- Hkeq. eapply od_get_Some_In_keys; exact Hgr. }
  destruct (od_get_In_keys _ _ Hk1) as [q Hq].
  destruct (set_names_and_types_get _ _ _ _ _ _ Hnd1 Hok1 Esn Hq) as (rp' & Hsnt & Hgr').
  rewrite Hgr in Hgr'. inversion Hgr'; subst rp'. clear Hgr'.
  unfold result_param_ok. cbn [fst snd].
  unfold kw_split in Ekw.
  apply in_app_or in Hk. destruct Hk as [HkS|Hkk].
  - (* a positional / keyword-only parameter *)
    destruct (sig_entry n a b dc rr k F C4 HkS) as (x & dflt & kind & Hx & Hkind & Hgo & Hsp).
    fold fd in Hsp. rewrite Hsp. cbn [s_kind].
    assert (Hnotkw : forall karg, ar_kwarg a = Some karg -> a_name karg <> k).
    { intros karg Hka Heq. pose proof (ff_nodup a F) as Hnd. unfold kwarg_name in Hnd. rewrite Hka in Hnd.
      cbn [option_map opt_list] in Hnd. apply NoDup_remove_2 in Hnd. rewrite app_nil_r in Hnd. subst k. tauto. }
    (* the merged entry before _set_name_and_type *)
    assert (Hqm : od_get k m = Some q /\ od_get k tparams = od_get k (doc_params d fd)).
    { rewrite <- (sort_by_sig_get (sig_pos_names a) m k HS).
      destruct (ar_kwarg a) as [karg|] eqn:Eka.
      - destruct (od_get (a_name karg) (doc_params d fd)) as [p|] eqn:Egk.
        + destruct (fld_present (g_typ p)); [|discriminate]. injection Ekw as <- <-.
          unfold append_kw in Hq. cbn [fold_left fst snd] in Hq.
          rewrite od_get_set_other in Hq by (apply (Hnotkw karg eq_refl)).
          split; [exact Hq|]. apply od_get_pop_other. apply (Hnotkw karg eq_refl).
        + injection Ekw as <- <-. split; [exact Hq|reflexivity].
      - injection Ekw as <- <-. split; [exact Hq|reflexivity]. }
    destruct Hqm as [Hqm Htp].
    assert (Hres : match od_get k (doc_params d fd) with
                   | Some t => merge_param t (sig_gparam x dflt) = Ok q
                   | None => q = sig_gparam x dflt
                   end).
    { assert (Hndo : NoDup (od_keys (sig_pairs a (pos_args a)))) by (rewrite sig_pairs_keys; exact HS).
      destruct (od_get k (doc_params d fd)) as [t|] eqn:Edk.
      - destruct (merge_params_get_both id_perm tparams (sig_pairs a (pos_args a)) m k t (sig_gparam x dflt)
                    id_perm_ok Hndo Em Htp Hgo) as (t' & Hmp & Hgm).
        rewrite Hqm in Hgm. inversion Hgm; subst. exact Hmp.
      - rewrite (merge_params_get_new id_perm tparams (sig_pairs a (pos_args a)) m k id_perm_ok Hndo Em Htp) in Hqm.
        rewrite Hgo in Hqm. inversion Hqm; reflexivity. }
    assert (Hpf : param_faithful (od_get k (doc_params d fd)) (mkSig k kind dflt (a_ann x)) rp = true).
    { eapply param_faithful_lemma; [| | |exact Hres|exact Hsnt|].
      * apply not_true_iff_false. intros Hkl. rewrite <- not_true_iff_false in C5. apply C5.
        apply existsb_exists. exists k. split; assumption.
      * eapply wf_fd_ann; [exact Hwf|exact Hx].
      * eapply wf_doc_scalar; exact Hdoc.
      * assert (Hin_l : In (mkSig k kind dflt (a_ann x)) l).
        { unfold sig_param_of in Hsp. rewrite C7 in Hsp. apply find_some in Hsp. tauto. }
        pose proof (first_some_class_None _ Efc _ (in_map _ _ _ Hin_l)) as Hc. cbn [s_kind s_name] in Hc.
        destruct kind; try exact Hc. exfalso; apply Hkind; reflexivity. }
    destruct kind; try exact Hpf. exfalso; apply Hkind; reflexivity.
  - (* the ** parameter *)
    unfold kwarg_name in Hkk. destruct (ar_kwarg a) as [karg|] eqn:Eka; cbn [option_map opt_list] in Hkk; [|destruct Hkk].
    destruct Hkk as [<-|[]].
    pose proof (sig_entry_kw n a b dc rr karg F C4 Eka) as Hskw. fold fd in Hskw. rewrite Hskw. cbn [s_kind].
    unfold kwarg_name in C1. rewrite Eka in C1. cbn [option_map] in C1. apply negb_false_iff in C1.
    unfold kwarg_documented, kwarg_name in C1. rewrite Eka in C1. cbn [option_map] in C1.
    apply mem_str_In in C1. destruct (od_get_In_keys _ _ C1) as [p Hp]. fold fd in Hp.
    rewrite Hp in Ekw. destruct (fld_present (g_typ p)); [|discriminate]. injection Ekw as <- <-.
    unfold append_kw in Hq. cbn [fold_left fst snd] in Hq. rewrite od_get_set_same in Hq. inversion Hq; subst q.
    rewrite Hp. eapply snt_kwarg_lemma; exact Hsnt.
Qed.

(* ------------------------------------------------------------------ *)
(* the full statement is false: an undocumented ** parameter is dropped *)
(* ------------------------------------------------------------------ *)
(* def f(a, **kwargs):
       pass                                                            *)
Definition wit_fd : stmt :=
  SFunc (L "f") (mkArguments [mkArg (L "a") None] [] [] [] None (Some (mkArg (L "kwargs") None)))
        [SOther (L "Pass") (L "pass") []] [] None.

Definition wit_doc : option ir := None.

Lemma wit_in_domain : C07_domain wit_doc wit_fd = true.
Proof. vm_compute. reflexivity. Qed.

Lemma wit_result_names : exists r, parse_default id_perm id_perm wit_doc wit_fd = Ok r
                                   /\ od_keys (ir_params r) = [L "a"] /\ sig_names wit_fd = [L "a"; L "kwargs"].
Proof. eexists. split; [vm_compute; reflexivity|]. split; vm_compute; reflexivity. Qed.

Lemma C07_refuted_lemma : ~ C07_statement.
Proof.
  intros H. destruct (H id_perm id_perm wit_doc wit_fd id_perm_ok id_perm_ok wit_in_domain) as (r & Hr & Hc).
  destruct wit_result_names as (r' & Hr' & Hk & Hs). rewrite Hr in Hr'. inversion Hr'; subst r'.
  unfold C07_check in Hc. apply andb_true_iff in Hc. destruct Hc as [Hc _].
  rewrite Hk, Hs in Hc. vm_compute in Hc. discriminate.
Qed.

Lemma wit_class : finding_class_C07 wit_doc wit_fd = Some K_kwargs_undocumented.
Proof. vm_compute. reflexivity. Qed.

(* the witness of the order defect that fix cc5b15e removed now holds:
   def f(a, b):  documenting only b *)
Definition old_wit_fd : stmt :=
  SFunc (L "f") (mkArguments [mkArg (L "a") None; mkArg (L "b") None] [] [] [] None None)
        [SExpr (EConst (VStr (L "Doc." ++ [nl; nl] ++ L ":param b: the b"))); SOther (L "Pass") (L "pass") []] [] None.

Definition old_wit_doc : option ir :=
  Some (mkIR FNone (Has (L "static")) (Has (L "Doc.")) [(L "b", mkG (Has (L "the b")) Missing None)] FNone None).

Lemma old_witness_now_holds : guard_C07 old_wit_doc old_wit_fd = true
  /\ exists r, parse_default id_perm id_perm old_wit_doc old_wit_fd = Ok r /\ od_keys (ir_params r) = [L "a"; L "b"].
Proof. split; [vm_compute; reflexivity|]. eexists. split; vm_compute; reflexivity. Qed.

(* ------------------------------------------------------------------ *)
(* non-vacuity and class-free corollaries                              *)
(* ------------------------------------------------------------------ *)
(* def g(self, a: int, b=5, *, c: str = "x", **kwargs):
       """Doc.

       :param a: the a
       :param b: the b. Defaults to 5
       :param kwargs: extra
       :type kwargs: ```dict```"""
       return a                                                        *)
Definition nv_fd : stmt :=
  SFunc (L "g")
        (mkArguments [mkArg (L "self") None; mkArg (L "a") (Some (EName (L "int"))); mkArg (L "b") None]
                     [EConst (VInt 5)]
                     [mkArg (L "c") (Some (EName (L "str")))] [Some (EConst (VStr (L "x")))]
                     None (Some (mkArg (L "kwargs") None)))
        [SExpr (EConst (VStr (L "Doc."))); SReturn (Some (EName (L "a")))] [] None.

Definition nv_doc : option ir :=
  Some (mkIR FNone (Has (L "static")) (Has (L "Doc."))
             [(L "a", mkG (Has (L "the a")) Missing None);
              (L "b", mkG (Has (L "the b. Defaults to 5")) Missing (Some (DV (VInt 5))));
              (L "kwargs", mkG (Has (L "extra")) (Has (L "Optional[dict]")) (Some (DV (VStr NoneStr))))]
             FNone None).

Lemma C07_nonvacuous_lemma :
  guard_C07 nv_doc nv_fd = true /\ List.length (sig_names nv_fd) = 4 /\ List.length (doc_names nv_doc nv_fd) = 3.
Proof. split; [vm_compute; reflexivity|]. split; vm_compute; reflexivity. Qed.

(* names and order for whole input classes, whatever the defaults and annotations are *)
Lemma C07_names_lemma : forall pi pj d fd it ww ft fnm r, C07_domain d fd = true -> order_guard d fd = true ->
  parse_function pi pj d fd it ww ft fnm = Ok r -> od_keys (ir_params r) = sig_names fd.
Proof.
  intros pi pj d fd it ww ft fnm r Hdom Hog H.
  rewrite (parse_function_names _ _ _ _ _ _ _ _ _ Hdom H). apply order_guard_iff; assumption.
Qed.

(* nothing documented, no ** parameter: always the source order *)
Lemma C07_names_undocumented : forall pi pj d fd it ww ft fnm r, C07_domain d fd = true ->
  doc_names d fd = [] -> (match fd_arguments fd with Some a => kwarg_name a = None | None => False end) ->
  parse_function pi pj d fd it ww ft fnm = Ok r -> od_keys (ir_params r) = sig_names fd.
Proof.
  intros pi pj d fd it ww ft fnm r Hdom Hd Hk H. eapply C07_names_lemma; eauto.
  unfold order_guard. destruct (fd_arguments fd) as [a|]; [|destruct Hk]. rewrite Hk. reflexivity.
Qed.

(* no ** parameter: the source order whatever the docstring documents, in whatever order *)
Lemma C07_names_no_kwarg : forall pi pj d fd it ww ft fnm r a, C07_domain d fd = true ->
  fd_arguments fd = Some a -> kwarg_name a = None ->
  parse_function pi pj d fd it ww ft fnm = Ok r -> od_keys (ir_params r) = sig_names fd.
Proof.
  intros pi pj d fd it ww ft fnm r a Hdom Ha Hk H. eapply C07_names_lemma; eauto.
  unfold order_guard. rewrite Ha, Hk. reflexivity.
Qed.

(* a documented ** parameter: the source order too *)
Lemma C07_names_kwarg_documented : forall pi pj d fd it ww ft fnm r a, C07_domain d fd = true ->
  fd_arguments fd = Some a -> kwarg_documented d a fd = true ->
  parse_function pi pj d fd it ww ft fnm = Ok r -> od_keys (ir_params r) = sig_names fd.
Proof.
  intros pi pj d fd it ww ft fnm r a Hdom Ha Hk H. eapply C07_names_lemma; eauto.
  unfold order_guard. rewrite Ha, Hk. destruct (kwarg_name a); reflexivity.
Qed.

(* an undocumented ** parameter is the only thing that can be missing *)
(* when the order differs it is exactly "documented first" - and still a permutation: nothing lost, nothing twice *)
Lemma C07_missing_only_kwarg : forall pi pj d fd it ww ft fnm r a, C07_domain d fd = true ->
  fd_arguments fd = Some a -> parse_function pi pj d fd it ww ft fnm = Ok r ->
  od_keys (ir_params r) = sig_names fd
  \/ (exists k, kwarg_name a = Some k /\ sig_names fd = od_keys (ir_params r) ++ [k]).
Proof.
  intros pi pj d fd it ww ft fnm r a Hdom Ha H. rewrite (parse_function_names _ _ _ _ _ _ _ _ _ Hdom H).
  unfold C07_domain in Hdom. apply andb_true_iff in Hdom. destruct Hdom as [Hwf Hdoc].
  destruct (wf_fd_facts _ Hwf) as (n & a' & b & dc & rr & -> & F). cbn [fd_arguments] in Ha. inversion Ha; subst a'.
  pose proof (wf_doc_facts _ _ _ _ _ _ Hdoc) as D.
  rewrite (expected_names_domain _ _ _ _ _ _ D), (sig_names_spec _ _ _ _ _ F).
  destruct (kwarg_documented d a (SFunc n a b dc rr)) eqn:Ek; [left; reflexivity|].
  destruct (kwarg_name a) as [k|]; cbn [opt_list]; [right; exists k; rewrite app_nil_r; split; reflexivity|left; reflexivity].
Qed.

(* ------------------------------------------------------------------ *)
(* a class merged with its __init__                                    *)
(* ------------------------------------------------------------------ *)
Lemma filter_mem_app : forall (f : str -> bool) l1 l2, filter f (l1 ++ l2) = filter f l1 ++ filter f l2.
Proof. intros. apply filter_app. Qed.

(* the __init__ parameters keep their order in the merged interface when the class attributes that are
   also __init__ parameters form, in class order, a prefix of them *)
Lemma class_order_lemma : forall tnames inames : list str, NoDup inames ->
  class_order_guard tnames inames = true -> init_names_in_merged tnames inames = inames.
Proof.
  intros T I HI Hg. unfold init_names_in_merged, class_merged_names, class_order_guard in *.
  rewrite filter_app.
  set (P := filter (fun k => mem_str k I) T) in *.
  assert (E : filter (fun k => mem_str k I) (filter (fun k => negb (mem_str k T)) I)
              = filter (fun k => negb (mem_str k P)) I).
  { clear Hg HI. subst P. induction I as [|y I' IH] in T |- *; [reflexivity|].
    assert (G : forall l, filter (fun k => mem_str k (y :: I')) (filter (fun k => negb (mem_str k T)) l)
                          = filter (fun k => negb (mem_str k T)) (filter (fun k => mem_str k (y :: I')) l)).
    { induction l as [|z l IHl]; [reflexivity|]. cbn [filter].
      destruct (negb (mem_str z T)) eqn:E1; destruct (mem_str z (y :: I')) eqn:E2; cbn [filter]; rewrite ?E1, ?E2, IHl; reflexivity. }
    rewrite G.
    assert (Hall : filter (fun k => mem_str k (y :: I')) (y :: I') = y :: I').
    { assert (Q : forall l, (forall k, In k l -> In k (y :: I')) -> filter (fun k => mem_str k (y :: I')) l = l).
      { induction l as [|z l IHl]; intros Hs; [reflexivity|]. cbn [filter].
        assert (Hz : mem_str z (y :: I') = true) by (apply mem_str_In; apply Hs; left; reflexivity).
        rewrite Hz. f_equal. apply IHl. intros k Hk; apply Hs; right; exact Hk. }
      apply Q; auto. }
    rewrite Hall.
    apply filter_ext_in. intros k Hk. f_equal.
    destruct (mem_str k T) eqn:E1.
    - symmetry. apply mem_str_In. apply filter_In. split; [apply mem_str_In; exact E1|apply mem_str_In; exact Hk].
    - symmetry. apply mem_str_false. intros Hin. apply filter_In in Hin. destruct Hin as [Hin _].
      apply mem_str_In in Hin. congruence. }
  rewrite E. apply prefix_then_rest; assumption.
Qed.

(* names after _merge_inner_function's ir_merge(target = class IR, other = IR of the inner function) *)
Lemma class_merge_names_lemma : forall pi pj t inner r, NoDup (od_keys (ir_params inner)) ->
  ir_merge pi pj t inner = Ok r ->
  od_keys (ir_params r) = class_merged_names (od_keys (ir_params t)) (od_keys (ir_params inner)).
Proof.
  intros pi pj t inner r Hnd H. apply ir_merge_params in H.
  unfold class_merged_names. apply (merge_params_keys pi _ _ _ Hnd H).
Qed.
