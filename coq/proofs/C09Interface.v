(* C09Interface: the last step of property C09 -- from `stable` (the target is found at its location and compares
   equal to the re-emission of the truth; proofs/SyncFacts.v) to the property's own wording: the target, WHEN PARSED with
   the parser of its kind, describes the same interface as the truth.  The emit / parse / compare layers are the
   instance of model/C09Instance.v; the step is the composition with the round-trip theorems of the converter layers
   (C02_partial_closed for class targets, C04_partial for argparse targets; for function targets the round trip
   stays a named premise, see RT_at below).  The tree layer stays abstract.  Proofs only. *)
From Coq Require Import List Ascii Bool Arith ZArith Lia.
From Coq Require String.
Import String.StringSyntax.
From DT Require Import PyStr Sexp PyVal TyExpr PureUtils Defaults PyAst IR FS Sync.
From DT Require Import PyStrFacts FSFacts SyncFacts.
From DT Require Import EmitAst ParseAst C02Spec C02Codec C02DocLinkDefs C04Spec C04Codec C09Instance.
From DT Require EmitAstFacts C02Compose C02DocLink C04Compose C03Spec.
Import ListNotations.

(* ------------------------------------------------------------------ *)
(* cmp_ast: equal trees, or equal to the written form                   *)
(* ------------------------------------------------------------------ *)

Lemma cmp_inst_true : forall aw o n, cmp_inst aw o n = true -> o = n \/ o = aw n.
Proof.
  intros aw o n H. unfold cmp_inst in H. apply orb_true_iff in H.
  destruct H as [H|H]; [left|right]; apply EmitAstFacts.stmt_eqb_eq; exact H.
Qed.

Lemma stmt_eqb_refl : forall s, stmt_eqb s s = true.
Proof.
  assert (Hl : forall (A : Type) (f : A -> A -> bool) (l : list A),
             Forall (fun x => f x x = true) l -> list_eqb f l l = true).
  { intros A f l H. induction H as [|x l Hx Hl IH]; [reflexivity|]. cbn. rewrite Hx, IH. reflexivity. }
  assert (Ho : forall (A : Type) (f : A -> A -> bool) (o : option A),
             (forall x, o = Some x -> f x x = true) -> option_eqb f o o = true).
  { intros A f [x|] H; [apply H; reflexivity|reflexivity]. }
  assert (He : forall e, expr_eqb e e = true).
  { fix IH 1. intros e. destruct e as [v|id|e a|e s|es|es|ks vs|f args kws|op e|src]; cbn [expr_eqb].
    - apply EmitAstFacts.pyval_eqb_refl.
    - apply str_eqb_refl.
    - rewrite IH, str_eqb_refl. reflexivity.
    - rewrite !IH. reflexivity.
    - apply Hl. induction es as [|x r IHr]; constructor; [apply IH|exact IHr].
    - apply Hl. induction es as [|x r IHr]; constructor; [apply IH|exact IHr].
    - rewrite !Hl; [reflexivity| |].
      + induction vs as [|x r IHr]; constructor; [apply IH|exact IHr].
      + induction ks as [|x r IHr]; constructor; [apply IH|exact IHr].
    - rewrite IH. rewrite !Hl; [reflexivity| |].
      + induction kws as [|[k v] r IHr]; constructor; [|exact IHr].
        rewrite IH, andb_true_r. apply Ho. intros x _. apply str_eqb_refl.
      + induction args as [|x r IHr]; constructor; [apply IH|exact IHr].
    - rewrite str_eqb_refl, IH. reflexivity.
    - apply str_eqb_refl. }
  assert (Hle : forall l, list_eqb expr_eqb l l = true).
  { intros l. apply Hl. induction l; constructor; [apply He|assumption]. }
  assert (Hoe : forall o, option_eqb expr_eqb o o = true).
  { intros o. apply Ho. intros x _. apply He. }
  assert (Ha : forall a, arg_eqb a a = true).
  { intros a. unfold arg_eqb. rewrite str_eqb_refl, Hoe. reflexivity. }
  assert (Hla : forall l, list_eqb arg_eqb l l = true).
  { intros l. apply Hl. induction l; constructor; [apply Ha|assumption]. }
  assert (Hoa : forall o, option_eqb arg_eqb o o = true).
  { intros o. apply Ho. intros x _. apply Ha. }
  fix IH 1. intros s. destruct s as [n a b d r|n bs b d|t a v|ts v|e|e|t h bl]; cbn [stmt_eqb].
  - rewrite str_eqb_refl, Hle, Hoe. unfold arguments_eqb. rewrite !Hla, Hle, !Hoa.
    assert (E : list_eqb (option_eqb expr_eqb) (ar_kw_defaults a) (ar_kw_defaults a) = true).
    { apply Hl. induction (ar_kw_defaults a); constructor; [apply Hoe|assumption]. }
    rewrite E. cbn [andb]. rewrite !andb_true_r. apply Hl.
    induction b as [|x q IHq]; constructor; [apply IH|exact IHq].
  - rewrite str_eqb_refl, !Hle. cbn [andb]. rewrite !andb_true_r. apply Hl.
    induction b as [|x q IHq]; constructor; [apply IH|exact IHq].
  - rewrite !He, Hoe. reflexivity.
  - rewrite Hle, He. reflexivity.
  - apply He.
  - apply Hoe.
  - rewrite !str_eqb_refl. cbn [andb]. apply Hl.
    induction bl as [|x q IHq]; constructor; [|exact IHq]. apply Hl.
    induction x as [|y z IHz]; constructor; [apply IH|exact IHz].
Qed.

Lemma cmp_inst_refl : forall aw n, cmp_inst aw n n = true.
Proof. intros aw n. unfold cmp_inst. rewrite stmt_eqb_refl. reflexivity. Qed.

(* ------------------------------------------------------------------ *)
(* class targets: the node-level round trip, from C02_partial_closed    *)
(* ------------------------------------------------------------------ *)

(* the text emit.class_ stores starts with a line break (the closed form T3 of proofs/C02DocLink.v), so set_value's
   quote stripping does not apply to it: the docstring constant of the emitted class IS class_docstring text *)
Lemma class_docstring_head : forall w edd ww i,
    guard_C02_ast i = true -> doc_link_ok w edd ww i = true ->
    exists text z, class_docstring_text w edd ww i = Ok text /\ class_docstring text = nl :: z.
Proof.
  intros w edd ww i Hg Hok.
  destruct (C02Compose.guard_C02_ast_inv i Hg) as [Hdom [_ [Hpok [Hrok _]]]].
  destruct (C02Compose.C02_domain_facts i Hdom) as [Hnd [Hnr _]].
  pose proof (C02Compose.forall_folded_ok i Hpok Hrok) as Hall.
  apply Forall_app in Hall. destruct Hall as [Hallp Hallr].
  pose proof (C02Compose.fold_returns_params i Hnr) as Hfold.
  unfold doc_link_ok in Hok. rewrite Hfold in Hok.
  apply andb_true_iff in Hok. destruct Hok as [Hok Hnw]. apply andb_true_iff in Hok. destruct Hok as [Hok Hle].
  apply andb_true_iff in Hok. destruct Hok as [Hsum Hex].
  rewrite forallb_app in Hle, Hnw.
  apply andb_true_iff in Hle. destruct Hle as [Hlep Hler]. apply andb_true_iff in Hnw. destruct Hnw as [Hnwp Hnwr].
  destruct (ir_doc i) as [| |S] eqn:Edoc; try discriminate.
  apply andb_true_iff in Hsum. destruct Hsum as [Hsl Hsw].
  destruct (C02DocLink.line_ok_facts S Hsl) as [_ [Hedge [Hnl [Hasc [Htok _]]]]].
  destruct (C02DocLink.link_all w ww edd (ir_params i) Hallp Hlep Hnwp) as [ps_p [es_p [ds_p Hlp]]].
  destruct (C02DocLink.link_all w ww edd (C02Compose.ret_entry i) Hallr Hler Hnwr) as [ps_r [es_r [ds_r Hlr]]].
  assert (HS : C02DocLink.sum_fine S) by (split; [exact Hedge|split; assumption]).
  assert (HSw : C02DocLink.wrap_fine w ww S) by (apply C02DocLink.wrap_fine_of; exact Hsw).
  assert (Hne : es_p <> []).
  { destruct (C02DocLink.link_names _ _ _ _ _ _ _ Hlp) as [Hn1 _]. intros E. subst es_p. cbn [map] in Hn1.
    apply existsb_exists in Hex. destruct Hex as [kv [Hin Hd]].
    assert (Hf : In kv (filter documented (ir_params i))) by (apply filter_In; split; assumption).
    destruct (filter documented (ir_params i)); [destruct Hf|discriminate]. }
  pose proof (C02DocLink.link_app _ _ _ _ _ _ _ _ _ _ _ Hlp Hlr) as Hl.
  destruct (C02DocLink.link_ret_shape _ _ _ _ _ _ _ Hlr) as [r Er].
  assert (Hes_ne : es_p ++ es_r <> []).
  { destruct es_p; [contradiction|discriminate]. }
  assert (Hi2doc : ir_doc (class_fold_returns i) = Has S).
  { unfold class_fold_returns. destruct (ir_returns i); exact Edoc. }
  assert (Hi2ret : forall g, ir_returns (class_fold_returns i) <> Has g).
  { intros g. unfold class_fold_returns. destruct (ir_returns i) eqn:E; cbn [ir_returns]; try rewrite E; discriminate. }
  assert (Htext : class_docstring_text w edd ww i = Ok (C02DocLink.T1 S (es_p ++ es_r))).
  { unfold class_docstring_text.
    rewrite (C02DocLink.to_docstring_T1 w ww edd (class_fold_returns i) S (ps_p ++ ps_r) (es_p ++ es_r) Hi2doc
                                        (proj1 HS) (proj1 (proj2 HS)) HSw).
    - reflexivity.
    - rewrite Hfold. apply (C02DocLink.link_params_of _ _ _ _ _ _ _ Hl).
    - exact Hi2ret.
    - apply (C02DocLink.link_emits _ _ _ _ _ _ _ Hl).
    - exact Hes_ne. }
  pose proof (C02DocLink.link_entries _ _ _ _ _ _ _ Hl) as Hent.
  assert (Hall : C02DocLink.all_params es_p).
  { intros e He. destruct (C02DocLink.link_entries _ _ _ _ _ _ _ Hlp e He) as [_ [_ [_ [_ Hin]]]].
    unfold DocEmit.is_return. apply str_eqb_neq. intros E. apply Hnr.
    change return_type_key with (L "return_type"). rewrite <- E. exact Hin. }
  assert (Hfine : forall e, In e (es_p ++ es_r) -> C02DocLink.entry_fine e) by (intros e He; apply (Hent e He)).
  assert (Hcd : class_docstring (C02DocLink.T1 S (es_p ++ es_r)) = C02DocLink.T3 S (es_p ++ es_r)).
  { rewrite Er. destruct es_p as [|e1 ps']; [contradiction Hne; reflexivity|].
    apply C02DocLink.class_docstring_T1; [exact HS|exact Hall|]. rewrite <- Er. exact Hfine. }
  eexists. eexists. split; [exact Htext|]. rewrite Hcd. unfold C02DocLink.T3. reflexivity.
Qed.

Lemma set_value_str_nl : forall z, set_value_str (nl :: z) = nl :: z.
Proof.
  intros z. unfold set_value_str.
  assert (E : forall q, ascii_eqb nl q = false -> both_ends q (nl :: z) = false).
  { intros q Hq. unfold both_ends. destruct (last_c (nl :: z)); [rewrite Hq; reflexivity|reflexivity]. }
  rewrite (E dq eq_refl), (E sq eq_refl). rewrite andb_false_r. reflexivity.
Qed.

(* the class parser on a class whose docstring constant is ds takes the docstring-derived IR of ds *)
Lemma parse_class_node_shape : forall it ww nm bs ds rest decos,
    parse_class_node it ww (SClass nm bs (SExpr (EConst (VStr ds)) :: rest) decos)
    = parse_class (Some (class_doc_ir_of_const ds)) (CStmt (SClass nm bs (SExpr (EConst (VStr ds)) :: rest) decos))
                  None it ww.
Proof. reflexivity. Qed.

Lemma class_docstring_ir_const : forall text, class_docstring_ir text = class_doc_ir_of_const (class_docstring text).
Proof. reflexivity. Qed.

(* emit.class_ -> parse.class_ at the node, no docstring hypothesis, at the options conformance uses; any class name *)
Theorem class_round_trip_node : forall w pt i cn it ww,
    guard_C09_class w i = true ->
    exists n i',
      emit_class_inst w pt i cn = Ok n
      /\ parse_class_node it ww n = Ok i'
      /\ ir_params i' = norm_params_C02 (ir_params i)
      /\ ir_returns i' = norm_returns_C02 (ir_returns i)
      /\ same_interface i i' = true.
Proof.
  intros w pt i cn it ww Hg. unfold guard_C09_class in Hg. apply andb_true_iff in Hg. destruct Hg as [Hg Hok].
  destruct (C02DocLink.C02_partial_closed_lemma w pt i cn [L "object"] [] false true it ww Hg Hok)
    as [text [s [i' [Ht [He [Hp [Hps [Hrs [_ [_ Hsame]]]]]]]]]].
  destruct (class_docstring_head w false true i Hg Hok) as [text' [z [Ht' Hz]]].
  rewrite Ht in Ht'. injection Ht' as Ht'. subst text'.
  destruct (C02Compose.emit_class_inv _ _ _ _ _ _ _ _ _ _ He) as [text2 [attrs [meth [Htds [_ [Hs _]]]]]].
  rewrite Ht in Htds. injection Htds as Htds. subst text2.
  rewrite Hz, set_value_str_nl, <- Hz in Hs.
  exists s, i'. split; [unfold emit_class_inst; rewrite He; reflexivity|].
  split; [|split; [exact Hps|split; [exact Hrs|exact Hsame]]].
  rewrite Hs, parse_class_node_shape, <- class_docstring_ir_const, <- Hs. exact Hp.
Qed.

(* ------------------------------------------------------------------ *)
(* argparse targets: the node-level round trip, from C04_partial        *)
(* ------------------------------------------------------------------ *)

Lemma map_outcome_agree : forall (f g : str * gparam -> outcome stmt) l,
    forallb (fun kv => outcome_stmt_eqb (f kv) (g kv)) l = true -> map_outcome f l = map_outcome g l.
Proof.
  intros f g l. induction l as [|kv l IH]; intros H; [reflexivity|].
  cbn [forallb] in H. apply andb_true_iff in H. destruct H as [H1 H2].
  cbn [map_outcome]. rewrite (IH H2). unfold outcome_stmt_eqb in H1.
  destruct (f kv) as [x|e]; [|discriminate H1]. destruct (g kv) as [y|e]; [|discriminate H1].
  apply EmitAstFacts.stmt_eqb_eq in H1. subst y. reflexivity.
Qed.

(* with the help texts left alone by textwrap.fill, word_wrap=True emits what word_wrap=False emits *)
Lemma emit_argparse_wrap_neutral : forall pt i fn ft wd ds,
    argparse_wrap_neutral pt i = true ->
    emit_argparse pt i false fn ft wd true ds = emit_argparse pt i false fn ft wd false ds.
Proof.
  intros pt i fn ft wd ds H. unfold emit_argparse.
  rewrite (map_outcome_agree _ _ _ H). reflexivity.
Qed.

(* emit.argparse_function -> parse.argparse_ast at the node, at the options conformance uses *)
Theorem argparse_round_trip_node : forall w pt i fc fr tc tr,
    guard_C09_argparse w pt i = true ->
    exists n i',
      emit_argparse_inst w pt i (fc :: fr) (Some (tc :: tr)) = Ok n
      /\ parse_argparse_node n = Ok i'
      /\ ir_params i' = norm_params_C04 false (ir_params i)
      /\ ir_doc i' = ir_doc i
      /\ same_interface_argparse (argparse_type_norm i) i' = true.
Proof.
  intros w pt i fc fr tc tr Hg. unfold guard_C09_argparse in Hg.
  apply andb_true_iff in Hg. destruct Hg as [Hg Hdl]. apply andb_true_iff in Hg. destruct Hg as [Hg Hwn].
  unfold argparse_doc_layer_ok in Hdl.
  destruct (argparse_docstring_text w i) as [ds|e] eqn:Eds; [|discriminate Hdl].
  destruct (argparse_doc_ir_of_const (Some (set_value_str (indent tab ds ++ tab)))) as [di|e] eqn:Edi;
    [|discriminate Hdl].
  destruct (C04Compose.C04_ast_partial_lemma pt i false fc fr tc tr ds di None None Hg)
    as [s [i' [He [Hp [Hps [Hdoc [_ Hsame]]]]]]].
  exists s, i'. split.
  - unfold emit_argparse_inst. rewrite Eds. rewrite (emit_argparse_wrap_neutral _ _ _ _ _ _ Hwn).
    match goal with |- bind ?x _ = _ => replace x with (@Ok (stmt * ir) (s, i)) by (symmetry; exact He) end. reflexivity.
  - split; [|split; [exact Hps|split; [exact Hdoc|exact Hsame]]].
    assert (Hshape : exists nm a rest decos rets,
               s = SFunc nm a (SExpr (EConst (VStr (set_value_str (indent tab ds ++ tab)))) :: rest) decos rets).
    { unfold emit_argparse in He. cbn [py_or bind] in He.
      destruct (get_internal_body (Some (fc :: fr)) (Some (tc :: tr)) i) as [ib'|]; [|discriminate He].
      cbn [bind] in He.
      destruct (match ir_doc i with
                | Missing => Err KeyError
                | FNone => if false then Err AttributeError else Ok VNone
                | Has d => do t <- fill_if false d; Ok (VStr t)
                end) as [desc'|]; [|discriminate He]. cbn [bind] in He.
      destruct (map_outcome _ (ir_params i)) as [ps'|]; [|discriminate He]. cbn [bind] in He.
      destruct (argparse_body_skip ib') as [sp'|]; [|discriminate He]. cbn [bind] in He.
      destruct (if last_is_return ib' then Ok [] else do r <- argparse_return pt i; Ok [r]) as [ret'|];
        [|discriminate He]. cbn [bind] in He.
      injection He as He. subst s. unfold set_value. do 5 eexists. reflexivity. }
    destruct Hshape as [nm [a [rest [decos [rets Hsh]]]]].
    unfold parse_argparse_node. rewrite Hsh. cbn [docstring_of]. rewrite Edi, <- Hsh. exact Hp.
Qed.

(* ------------------------------------------------------------------ *)
(* the step: a stable target, when parsed, has the interface of the truth *)
(* ------------------------------------------------------------------ *)

Section Step.
  Variable tree : Type.
  Variable parse_file : path -> bytes -> outcome tree.
  Variable find : list str -> tree -> option stmt.
  Variable as_written : stmt -> stmt.
  Variables (w : nat) (pt : ptable) (it ww : bool).

  Notation stable_i :=
    (stable stmt tree ir sync_opts (emit_inst w pt) parse_file find (cmp_inst as_written) opts_inst type_ok_inst).

  (* PREMISE that stays abstract (no model of black / ast.unparse / ast.parse of a whole definition): the parser of
     kind k reads from the written form of an emitted node what it reads from the node.  conformance compares the
     found node with n AND with _as_written(n) = ast_parse(black(to_code(Module([n])))).body[0]; the law
     RENDER_PARSE (that form IS n) would give this at once, but is false of the real code on docstrings (black
     re-indents them), which is why the comparison with the written form exists; class_doc_equiv_parse below reduces
     the premise for class targets to: the two nodes differ in the docstring constant only, and the two constants
     clean to the same docstring-derived IR. *)
  Definition WRITTEN_PARSE_law (k : kind) : Prop :=
    forall i o n, emit_inst w pt k i o = Ok n ->
                  parse_node_inst it ww k (as_written n) = parse_node_inst it ww k n.

  (* the round trip of kind k at the truth IR i, for the options read from whatever node is found *)
  Definition RT_at (k : kind) (search : list str) (i : ir) : Prop :=
    forall o n, emit_inst w pt k i (opts_inst (Some o) search k) = Ok n ->
                exists i', parse_node_inst it ww k n = Ok i' /\ same_interface_inst k i i' = true.

  (* the target is found at its location and what the kind's parser reads there has the interface of the truth *)
  Definition agrees_at (fs : fsys) (file : path) (search : list str) (k : kind) (i : ir) : Prop :=
    exists content t o i',
      fs_get file fs = Some content /\ parse_file file content = Ok t /\ find search t = Some o
      /\ parse_node_inst it ww k o = Ok i' /\ same_interface_inst k i i' = true.

  Lemma stable_agrees_gen : forall k fs file search i,
      WRITTEN_PARSE_law k -> RT_at k search i ->
      stable_i fs file search k i -> agrees_at fs file search k i.
  Proof.
    intros k fs file search i HW HRT [content [t [o [n [H1 [H2 [H3 [H4 [_ [_ H7]]]]]]]]]].
    destruct (HRT o n H4) as [i' [Hp Hs]].
    exists content, t, o, i'. split; [exact H1|]. split; [exact H2|]. split; [exact H3|]. split; [|exact Hs].
    destruct (cmp_inst_true _ _ _ H7) as [E|E]; subst o; [exact Hp|].
    rewrite (HW _ _ _ H4). exact Hp.
  Qed.

  Lemma RT_at_class : forall search i, guard_C09_class w i = true -> RT_at KClass search i.
  Proof.
    intros search i Hg o n He. cbn [emit_inst] in He.
    destruct (class_round_trip_node w pt i (so_name (opts_inst (Some o) search KClass)) it ww Hg)
      as [n' [i' [He' [Hp [_ [_ Hs]]]]]].
    rewrite He in He'. injection He' as He'. subst n'. exists i'. split; [exact Hp|exact Hs].
  Qed.

  Lemma get_function_type_nonempty : forall a, exists c r, get_function_type a = c :: r.
  Proof.
    intros a. unfold get_function_type. destruct (ar_args a) as [|x l]; [do 2 eexists; reflexivity|].
    destruct (str_eqb (a_name x) (L "self")) eqn:E1.
    - apply str_eqb_eq in E1. rewrite E1. do 2 eexists. reflexivity.
    - destruct (str_eqb (a_name x) (L "cls")) eqn:E2; cbn [orb].
      + apply str_eqb_eq in E2. rewrite E2. do 2 eexists. reflexivity.
      + do 2 eexists. reflexivity.
  Qed.

  Lemma RT_at_argparse : forall search i,
      guard_C09_argparse w pt i = true -> last search (default_name KArgparse) <> [] ->
      RT_at KArgparse search i.
  Proof.
    intros search i Hg Hnm o n He. cbn [emit_inst] in He. unfold opts_inst in He. cbn [so_ftype so_name] in He.
    destruct (last search (default_name KArgparse)) as [|fc fr] eqn:En; [contradiction Hnm; reflexivity|].
    destruct o as [nm a b d r| | | | | |]; cbn [bind] in He; try discriminate He.
    destruct (get_function_type_nonempty a) as [tc [tr Et]]. rewrite Et in He.
    destruct (argparse_round_trip_node w pt i fc fr tc tr Hg) as [n' [i' [He' [Hp [_ [_ Hs]]]]]].
    assert (X : @Ok stmt n = Ok n').
    { transitivity (emit_argparse_inst w pt i (fc :: fr) (Some (tc :: tr))); [symmetry; exact He|exact He']. }
    injection X as X. subst n'. exists i'. split; [exact Hp|exact Hs].
  Qed.

  (* (b) of the assignment, per kind *)
  Theorem stable_class_target_same_interface : forall fs file search i,
      WRITTEN_PARSE_law KClass -> guard_C09_class w i = true ->
      stable_i fs file search KClass i -> agrees_at fs file search KClass i.
  Proof.
    intros fs file search i HW Hg Hst. apply (stable_agrees_gen KClass fs file search i HW); [|exact Hst].
    apply RT_at_class. exact Hg.
  Qed.

  Theorem stable_argparse_target_same_interface : forall fs file search i,
      WRITTEN_PARSE_law KArgparse -> guard_C09_argparse w pt i = true ->
      last search (default_name KArgparse) <> [] ->
      stable_i fs file search KArgparse i -> agrees_at fs file search KArgparse i.
  Proof.
    intros fs file search i HW Hg Hnm Hst. apply (stable_agrees_gen KArgparse fs file search i HW); [|exact Hst].
    apply RT_at_argparse; assumption.
  Qed.

  (* class targets: a sufficient, structural form of WRITTEN_PARSE -- the written form differs from the node in the
     docstring constant only, and both constants are read as the same docstring-derived IR *)
  Definition class_doc_equiv (a b : stmt) : Prop :=
    exists nm bs d1 d2 rest decos,
      a = SClass nm bs (SExpr (EConst (VStr d1)) :: rest) decos
      /\ b = SClass nm bs (SExpr (EConst (VStr d2)) :: rest) decos
      /\ class_doc_ir_of_const d1 = class_doc_ir_of_const d2.

  Lemma class_doc_equiv_parse : forall a b,
      class_doc_equiv a b -> parse_class_node it ww a = parse_class_node it ww b.
  Proof.
    intros a b [nm [bs [d1 [d2 [rest [decos [Ea [Eb Hd]]]]]]]]. subst a b.
    rewrite !parse_class_node_shape. unfold parse_class. cbn [find_class is_class_other bind docstring_of tl].
    rewrite Hd. reflexivity.
  Qed.

  Lemma WRITTEN_PARSE_class_of_equiv :
      (forall i o n, emit_inst w pt KClass i o = Ok n -> class_doc_equiv (as_written n) n) ->
      WRITTEN_PARSE_law KClass.
  Proof. intros H i o n He. cbn [parse_node_inst]. apply class_doc_equiv_parse. apply (H i o n He). Qed.

  (* ---------------------------------------------------------------- *)
  (* (c): composed with sync_establishes_agreement                      *)
  (* ---------------------------------------------------------------- *)

  Variable rewrite : list str -> stmt -> tree -> tree * bool.
  Variable render_node : stmt -> outcome bytes.
  Variable render_tree : tree -> outcome bytes.
  Variable parse_truth : kind -> option stmt -> list str -> outcome ir.

  Notation FIX_i :=
    (FIX_law stmt tree ir sync_opts (emit_inst w pt) parse_file find rewrite (cmp_inst as_written) render_node
             render_tree opts_inst type_ok_inst).
  Notation gtruth_i :=
    (ground_truth (emit_inst w pt) parse_file find rewrite (cmp_inst as_written) render_node render_tree opts_inst
                  type_ok_inst parse_truth).

  (* every named target of kind k agrees with the IR i *)
  Definition targets_agree (fs : fsys) (a : sync_args) (truth : path) (k : kind) (i : ir) : Prop :=
    forall files, sa_files a k = Some files ->
      exists nm, name_of a k = Ok nm
                 /\ forall file, In file files -> file <> truth ->
                                 agrees_at fs file (strip_split [ch 46] nm) k i.

  (* the name given for kind k does not end in a dot (its last component names the definition) *)
  Definition name_ends_named (a : sync_args) (k : kind) : Prop :=
    forall nm, name_of a k = Ok nm -> last (strip_split [ch 46] nm) (default_name k) <> [].

  Theorem interface_agreement :
      FIX_i -> REPLACES_law stmt tree find rewrite ->
      forall fs a truth fs1 eff pr,
        sync_args_ok a truth ->
        gtruth_i fs a truth NoFaults = (fs1, Ok eff, pr) ->
        exists i,
          truth_ir stmt tree ir parse_file find parse_truth fs1 a truth = Ok i
          /\ truth_ir stmt tree ir parse_file find parse_truth fs a truth = Ok i
          (* class targets *)
          /\ (WRITTEN_PARSE_law KClass -> guard_C09_class w i = true -> targets_agree fs1 a truth KClass i)
          (* argparse targets *)
          /\ (WRITTEN_PARSE_law KArgparse -> guard_C09_argparse w pt i = true -> name_ends_named a KArgparse ->
              targets_agree fs1 a truth KArgparse i)
          (* any kind, from the round trip of that kind as a premise (function targets: C03) *)
          /\ (forall k, WRITTEN_PARSE_law k ->
                        (forall nm, name_of a k = Ok nm -> RT_at k (strip_split [ch 46] nm) i) ->
                        targets_agree fs1 a truth k i).
  Proof.
    intros HF HR fs a truth fs1 eff pr Hok H.
    pose proof (sync_establishes_agreement _ _ _ _ _ _ _ _ _ _ _ _ _ _ HF HR _ _ _ _ _ _ Hok H) as [i [Hir HG]].
    assert (Hgen : forall k, WRITTEN_PARSE_law k ->
                             (forall nm, name_of a k = Ok nm -> RT_at k (strip_split [ch 46] nm) i) ->
                             targets_agree fs1 a truth k i).
    { intros k HW HRT files Hfiles.
      assert (Hk : In k kinds_in_order) by (destruct k; cbn; tauto).
      destruct (HG k Hk files Hfiles) as [nm [Hnm Hall]].
      exists nm. split; [exact Hnm|]. intros file Hin Hne.
      apply (stable_agrees_gen k fs1 file _ i HW (HRT nm Hnm)). apply Hall; assumption. }
    exists i. split; [exact Hir|]. split.
    - assert (Hsame : fs_get truth fs1 = fs_get truth fs).
      { destruct Hok as [_ [_ HT]].
        apply (ground_truth_truth_untouched _ _ _ _ _ _ _ _ _ _ _ _ _ _ _ _ _ _ _ _ _ H).
        intros t Hin Hne. apply HT. apply proc_In. split; assumption. }
      rewrite <- (truth_ir_ext _ _ _ _ _ _ fs1 fs a truth Hsame). exact Hir.
    - split; [|split; [|exact Hgen]].
      + intros HW Hg. apply (Hgen KClass HW). intros nm _. apply RT_at_class. exact Hg.
      + intros HW Hg Hnm. apply (Hgen KArgparse HW). intros nm En. apply RT_at_argparse; [exact Hg|].
        apply (Hnm nm En).
  Qed.

  (* ---------------------------------------------------------------- *)
  (* from FIX alone (REPLACES is false of the Locate rewriter on FunctionDef nodes): agreement, or the rewriter *)
  (* declined a found definition that differs                           *)
  (* ---------------------------------------------------------------- *)

  Definition declined_at (fs : fsys) (file : path) (search : list str) (k : kind) (i : ir) : Prop :=
    exists content t o n,
      fs_get file fs = Some content /\ parse_file file content = Ok t /\ find search t = Some o
      /\ emit_inst w pt k i (opts_inst (Some o) search k) = Ok n
      /\ cmp_inst as_written o n = false /\ snd (rewrite search n t) = false.

  Notation settled_i :=
    (settled stmt tree ir sync_opts (emit_inst w pt) parse_file find rewrite (cmp_inst as_written) opts_inst
             type_ok_inst).

  Lemma settled_agrees_or_declined : forall k fs file search i,
      WRITTEN_PARSE_law k -> RT_at k search i ->
      settled_i fs file search k i -> agrees_at fs file search k i \/ declined_at fs file search k i.
  Proof.
    intros k fs file search i HW HRT [content [t [o [n [H1 [H2 [H3 [H4 [H5 [H6 H7]]]]]]]]]].
    destruct (cmp_inst as_written o n) eqn:Ec.
    - left. apply (stable_agrees_gen k fs file search i HW HRT). exists content, t, o, n.
      split; [exact H1|]. split; [exact H2|]. split; [exact H3|]. split; [exact H4|]. split; [exact H5|].
      split; [exact H6|exact Ec].
    - right. destruct H7 as [H7|H7]; [discriminate H7|]. exists content, t, o, n.
      split; [exact H1|]. split; [exact H2|]. split; [exact H3|]. split; [exact H4|]. split; [exact Ec|exact H7].
  Qed.

  Definition targets_settle (fs : fsys) (a : sync_args) (truth : path) (k : kind) (i : ir) : Prop :=
    forall files, sa_files a k = Some files ->
      exists nm, name_of a k = Ok nm
                 /\ forall file, In file files -> file <> truth ->
                                 agrees_at fs file (strip_split [ch 46] nm) k i
                                 \/ declined_at fs file (strip_split [ch 46] nm) k i.

  Theorem interface_agreement_settled :
      FIX_i ->
      forall fs a truth fs1 eff pr,
        sync_args_ok a truth ->
        gtruth_i fs a truth NoFaults = (fs1, Ok eff, pr) ->
        exists i,
          truth_ir stmt tree ir parse_file find parse_truth fs1 a truth = Ok i
          /\ (WRITTEN_PARSE_law KClass -> guard_C09_class w i = true -> targets_settle fs1 a truth KClass i)
          /\ (WRITTEN_PARSE_law KArgparse -> guard_C09_argparse w pt i = true -> name_ends_named a KArgparse ->
              targets_settle fs1 a truth KArgparse i)
          /\ (forall k, WRITTEN_PARSE_law k ->
                        (forall nm, name_of a k = Ok nm -> RT_at k (strip_split [ch 46] nm) i) ->
                        targets_settle fs1 a truth k i).
  Proof.
    intros HF fs a truth fs1 eff pr Hok H.
    pose proof (sync_establishes_settled _ _ _ _ _ _ _ _ _ _ _ _ _ _ HF _ _ _ _ _ _ Hok H) as [i [Hir HG]].
    assert (Hgen : forall k, WRITTEN_PARSE_law k ->
                             (forall nm, name_of a k = Ok nm -> RT_at k (strip_split [ch 46] nm) i) ->
                             targets_settle fs1 a truth k i).
    { intros k HW HRT files Hfiles.
      assert (Hk : In k kinds_in_order) by (destruct k; cbn; tauto).
      destruct (HG k Hk files Hfiles) as [nm [Hnm Hall]].
      exists nm. split; [exact Hnm|]. intros file Hin Hne.
      apply (settled_agrees_or_declined k fs1 file _ i HW (HRT nm Hnm)). apply Hall; assumption. }
    exists i. split; [exact Hir|]. split; [|split; [|exact Hgen]].
    - intros HW Hg. apply (Hgen KClass HW). intros nm _. apply RT_at_class. exact Hg.
    - intros HW Hg Hnm. apply (Hgen KArgparse HW). intros nm En. apply RT_at_argparse; [exact Hg|].
      apply (Hnm nm En).
  Qed.
End Step.

(* argparse targets: the same reduction.  parse.argparse_ast uses the docstring constant through the docstring-derived
   IR, and through its text only at a  return (..., ...)  statement *)
Lemma argparse_step_indep : forall di fb fb' st node,
    is_tuple_return node = false -> argparse_step di fb st node = argparse_step di fb' st node.
Proof.
  intros di fb fb' st node H. unfold argparse_step.
  destruct (argparse_stmt_declined node); [reflexivity|].
  destruct node as [n a b d r|n bs b d|t a v|ts v|e|e|t h bl]; try reflexivity.
  destruct e as [e|]; [|reflexivity].
  destruct e; try reflexivity. discriminate H.
Qed.

Lemma argparse_loop_indep : forall di fb fb' body st,
    forallb (fun s => negb (is_tuple_return s)) body = true ->
    argparse_loop di fb st body = argparse_loop di fb' st body.
Proof.
  intros di fb fb' body. induction body as [|x r IH]; intros st H; [reflexivity|].
  cbn [forallb] in H. apply andb_true_iff in H. destruct H as [Hx Hr]. apply negb_true_iff in Hx.
  cbn [argparse_loop]. rewrite (argparse_step_indep di fb fb' st x Hx).
  destruct (argparse_step di fb' st x) as [st'|e]; [|reflexivity]. cbn [bind]. apply IH. exact Hr.
Qed.

Definition argparse_doc_equiv (a b : stmt) : Prop :=
  exists nm args d1 d2 rest decos rets,
    a = SFunc nm args (SExpr (EConst (VStr d1)) :: rest) decos rets
    /\ b = SFunc nm args (SExpr (EConst (VStr d2)) :: rest) decos rets
    /\ argparse_doc_ir_of_const (Some d1) = argparse_doc_ir_of_const (Some d2)
    /\ forallb (fun s => negb (is_tuple_return s)) rest = true.

Lemma argparse_doc_equiv_parse : forall a b,
    argparse_doc_equiv a b -> parse_argparse_node a = parse_argparse_node b.
Proof.
  intros a b [nm [args [d1 [d2 [rest [decos [rets [Ea [Eb [Hd Hr]]]]]]]]]]. subst a b.
  unfold parse_argparse_node. cbn [docstring_of]. rewrite Hd.
  unfold parse_argparse_ast. cbn [is_func_other docstring_of tl].
  destruct (argparse_doc_ir_of_const (Some d2)) as [di|e]; [|reflexivity]. cbn [bind].
  rewrite (argparse_loop_indep di (SExpr (EConst (VStr d1)) :: rest) (SExpr (EConst (VStr d2)) :: rest) rest _ Hr).
  reflexivity.
Qed.

Lemma written_form_argparse : forall (as_written : stmt -> stmt) (w : nat) (pt : ptable) (it ww : bool),
    (forall i o n, emit_inst w pt KArgparse i o = Ok n -> argparse_doc_equiv (as_written n) n) ->
    WRITTEN_PARSE_law as_written w pt it ww KArgparse.
Proof.
  intros as_written w pt it ww H i o n He. cbn [parse_node_inst]. apply argparse_doc_equiv_parse. apply (H i o n He).
Qed.

Lemma written_form_class : forall (as_written : stmt -> stmt) (w : nat) (pt : ptable) (it ww : bool),
    (forall a b, class_doc_equiv a b -> parse_class_node it ww a = parse_class_node it ww b)
    /\ ((forall i o n, emit_inst w pt KClass i o = Ok n -> class_doc_equiv (as_written n) n) ->
        WRITTEN_PARSE_law as_written w pt it ww KClass).
Proof.
  intros as_written w pt it ww. split; [apply class_doc_equiv_parse|apply WRITTEN_PARSE_class_of_equiv].
Qed.

(* ------------------------------------------------------------------ *)
(* non-vacuity                                                          *)
(* ------------------------------------------------------------------ *)

Definition gp9 (d t : str) (v : pyval) : gparam := mkG (Has d) (Has t) (Some (DV v)).

(* a truth with three parameters, each with a default *)
Definition ir9 : ir :=
  mkIR FNone (Has (L "static")) (Has (L "Train a model."))
       [(L "epochs", gp9 (L "number of passes.") (L "int") (VInt 5));
        (L "name", gp9 (L "name of the run,") (L "str") (VStr (L "mnist")));
        (L "rate", gp9 (L "the learning rate") (L "float") (VFloat (L "0.5")))]
       FNone None.

Definition node9 : stmt :=
  match emit_inst 100 [] KClass ir9 (opts_inst None [L "Config"] KClass) with
  | Ok n => n
  | Err _ => SReturn None
  end.

(* a toy tree layer: the file holding the text C9 parses to the module [node9]; find takes the first statement *)
Module Toy9.
  Definition parse_file (p : path) (c : bytes) : outcome (list stmt) :=
    if str_eqb c (L "C9") then Ok [node9] else Ok [].
  Definition find (s : list str) (t : list stmt) : option stmt := hd_error t.
  Definition fs : fsys := [(L "target.py", L "C9")].
End Toy9.

Lemma ir9_in_guard : guard_C09_class 100 ir9 = true.
Proof. vm_compute. reflexivity. Qed.

Lemma ir9_stable :
  stable stmt (list stmt) ir sync_opts (emit_inst 100 []) Toy9.parse_file Toy9.find (cmp_inst (fun n => n)) opts_inst
         type_ok_inst Toy9.fs (L "target.py") [L "Config"] KClass ir9.
Proof.
  exists (L "C9"), [node9], node9, node9.
  split; [reflexivity|]. split; [reflexivity|]. split; [reflexivity|].
  split; [vm_compute; reflexivity|]. split; [discriminate|]. split; [vm_compute; reflexivity|].
  apply cmp_inst_refl.
Qed.

(* the class target of the example: in the guard, stable, hence -- by the theorem -- parsed with the same interface;
   and what the parser reads is spelled out *)
Example class_target_example :
  guard_C09_class 100 ir9 = true
  /\ agrees_at (list stmt) Toy9.parse_file Toy9.find false true Toy9.fs (L "target.py") [L "Config"] KClass ir9
  /\ (exists i', parse_node_inst false true KClass node9 = Ok i'
                 /\ map fst (ir_params i') = [L "epochs"; L "name"; L "rate"]
                 /\ map (fun kv => g_default (snd kv)) (ir_params i')
                    = [Some (DV (VInt 5)); Some (DV (VStr (L "mnist"))); Some (DV (VFloat (L "0.5")))]
                 /\ same_interface ir9 i' = true).
Proof.
  split; [exact ir9_in_guard|]. split.
  - apply (stable_class_target_same_interface (list stmt) Toy9.parse_file Toy9.find (fun n => n) 100 [] false true).
    + intros i o n _. reflexivity.
    + exact ir9_in_guard.
    + exact ir9_stable.
  - vm_compute. eexists. split; [reflexivity|]. repeat split; reflexivity.
Qed.

(* the same truth as an argparse target: in the guard of the argparse round trip, which it passes at the node *)
Definition node9a : stmt :=
  match emit_inst 100 [] KArgparse ir9
                  (opts_inst (Some (SFunc (L "set_cli_args") no_arguments [] [] None)) [L "set_cli_args"] KArgparse) with
  | Ok n => n
  | Err _ => SReturn None
  end.

Example argparse_target_example :
  guard_C09_argparse 100 [] ir9 = true
  /\ emit_inst 100 [] KArgparse ir9
               (opts_inst (Some (SFunc (L "set_cli_args") no_arguments [] [] None)) [L "set_cli_args"] KArgparse)
     = Ok node9a
  /\ (exists i', parse_node_inst false true KArgparse node9a = Ok i'
                 /\ map fst (ir_params i') = [L "epochs"; L "name"; L "rate"]
                 /\ same_interface_inst KArgparse ir9 i' = true).
Proof.
  split; [vm_compute; reflexivity|]. split; [vm_compute; reflexivity|].
  vm_compute. eexists. split; [reflexivity|]. split; reflexivity.
Qed.

(* the clause argparse_wrap_neutral is needed: inside guard_C04_ast, a help text longer than the line length is
   re-flowed by word_wrap=True (the option conformance leaves on) and comes back with a line break in it.
   Real code: emit.argparse_function then parse.argparse_ast on this IR returns the help text with a newline after
   the word final. *)
Definition long_help9 : str :=
  L "number of passes over the data set that the optimiser makes before it stops and reports the final loss value".

Definition ir9_long : ir :=
  mkIR FNone (Has (L "static")) (Has (L "Train a model."))
       [(L "epochs", gp9 long_help9 (L "int") (VInt 5))] FNone None.

Lemma argparse_wrap_needed :
  guard_C04_ast ir9_long = true /\ argparse_wrap_neutral [] ir9_long = false
  /\ argparse_doc_layer_ok 100 ir9_long = true
  /\ match emit_argparse_inst 100 [] ir9_long (L "set_cli_args") (Some (L "static")) with
     | Ok n => match parse_argparse_node n with
               | Ok i' => same_interface_argparse (argparse_type_norm ir9_long) i' = false
               | Err _ => False
               end
     | Err _ => False
     end.
Proof. vm_compute. repeat split; reflexivity. Qed.

(* the function instance composes as well: at this truth the emitted function, parsed at the node, has the same
   interface (a computed point; for all IRs the round trip of function targets is the premise RT_at) *)
Example function_target_point :
  match emit_inst 100 [] KFunction ir9
                  (opts_inst (Some (SFunc (L "train") no_arguments [] [] None)) [L "train"] KFunction) with
  | Ok n => match parse_node_inst false true KFunction n with
            | Ok i' => same_interface_inst KFunction ir9 i' = true
                       /\ map fst (ir_params i') = [L "epochs"; L "name"; L "rate"]
            | Err _ => False
            end
  | Err _ => False
  end.
Proof. vm_compute. split; reflexivity. Qed.

(* ================================================================== *)
(* FOLLOW-UP: function targets closed (composition with C19_function_any_name = C03_partial for any identifier as *)
(* function name, and with the docstring link of C03Ext), the install phase, target by target                     *)
(* ================================================================== *)
From DT Require C06Spec C03DocLinkDefs C03DocLinkMain C03DocLink C19ComposeFacts ParseSig.

(* same_interface_fn (lookup by name, strict defaults, kind) implies the positional relation of the property *)
Lemma list_eqb_str_eq : forall a b : list str, list_eqb str_eqb a b = true -> a = b.
Proof.
  induction a as [|x a IH]; intros [|y b] H; cbn in H; try discriminate; [reflexivity|].
  apply andb_true_iff in H. destruct H as [H1 H2]. apply str_eqb_eq in H1. subst y. rewrite (IH b H2). reflexivity.
Qed.

Lemma same_param_fn_weaken : forall a b, C03Spec.same_param_fn a b = true -> same_param a b = true.
Proof.
  intros a b H. unfold C03Spec.same_param_fn in H. unfold same_param.
  apply andb_true_iff in H. destruct H as [H Hd]. rewrite H. cbn [andb].
  unfold default_same in Hd. unfold default_ok.
  destruct (g_default a) as [v|]; destruct (g_default b) as [x|]; try discriminate Hd; [exact Hd|reflexivity].
Qed.

Lemma same_params_fn_weaken : forall a b,
    NoDup (map fst a) -> C03Spec.same_params_fn a b = true -> same_params same_param a b = true.
Proof.
  intros a b Hnd H. unfold C03Spec.same_params_fn in H. apply andb_true_iff in H. destruct H as [Hk Hf].
  apply list_eqb_str_eq in Hk. unfold od_keys in Hk. rewrite forallb_forall in Hf.
  revert b Hk Hf. induction a as [|[n1 p1] a IH]; intros [|[n2 p2] b] Hk Hf; cbn [map] in Hk; try discriminate Hk;
    [reflexivity|].
  injection Hk as Hn Hk. cbn [fst] in Hn. subst n2. cbn [same_params].
  inversion Hnd as [|x l Hnotin Hnd']. subst x l.
  rewrite str_eqb_refl. cbn [andb].
  pose proof (Hf (n1, p1) (or_introl eq_refl)) as H1. cbn [fst snd od_get] in H1. rewrite str_eqb_refl in H1.
  rewrite (same_param_fn_weaken _ _ H1). cbn [andb].
  apply (IH Hnd' b Hk). intros kv Hin. pose proof (Hf kv (or_intror Hin)) as H2. cbn [od_get] in H2.
  destruct (str_eqb (fst kv) n1) eqn:E; [|exact H2].
  apply str_eqb_eq in E. contradiction Hnotin. rewrite <- E. apply in_map. exact Hin.
Qed.

Lemma same_interface_fn_weaken : forall ft i r,
    NoDup (map fst (ir_params i)) -> C03Spec.same_interface_fn ft i r = true -> same_interface i r = true.
Proof.
  intros ft i r Hnd H. unfold C03Spec.same_interface_fn in H.
  apply andb_true_iff in H. destruct H as [H _]. apply andb_true_iff in H. destruct H as [Hp Hr].
  unfold same_interface. rewrite (same_params_fn_weaken _ _ Hnd Hp). cbn [andb].
  unfold C03Spec.same_returns_fn in Hr. unfold same_returns.
  destruct (fget (ir_returns i)) as [x|]; destruct (fget (ir_returns r)) as [y|]; try discriminate Hr;
    [apply same_param_fn_weaken; exact Hr|reflexivity].
Qed.

(* the docstring constant of the emitted function *)
Lemma emit_function_doc : forall pt i fn ft it kw text s i2,
    emit_function pt i fn ft it kw (Ok text) = Ok (s, i2) ->
    exists n a rest r, s = SFunc n a (SExpr (EConst (VStr (set_value_str text))) :: rest) [] r.
Proof.
  intros pt i fn ft it kw text s i2 H. unfold emit_function in H.
  apply EmitAstFacts.bind_Ok in H. destruct H as [fname [_ H]].
  apply EmitAstFacts.bind_Ok in H. destruct H as [ftype [_ H]].
  apply EmitAstFacts.bind_Ok in H. destruct H as [afp [_ H]].
  apply EmitAstFacts.bind_Ok in H. destruct H as [dfp [_ H]].
  apply EmitAstFacts.bind_Ok in H. destruct H as [ib [_ H]].
  apply EmitAstFacts.bind_Ok in H. destruct H as [rv [_ H]].
  cbn [bind] in H.
  apply EmitAstFacts.bind_Ok in H. destruct H as [rets [_ H]].
  destruct fname as [n|]; [|discriminate H]. injection H as H _. subst s.
  unfold set_value. do 4 eexists. reflexivity.
Qed.

Lemma reparse_stmt_doc : forall n a x rest dc r s',
    C03Spec.reparse_stmt (SFunc n a (SExpr (EConst (VStr x)) :: rest) dc r) = Ok s' ->
    exists a' rest' dc' r', s' = SFunc n a' (SExpr (EConst (VStr x)) :: rest') dc' r'.
Proof.
  intros n a x rest dc r s' H. unfold C03Spec.reparse_stmt in H.
  destruct (negb (C06Spec.is_identifier n)); [discriminate H|].
  apply EmitAstFacts.bind_Ok in H. destruct H as [a' [_ H]].
  apply EmitAstFacts.bind_Ok in H. destruct H as [b' [Hb H]].
  apply EmitAstFacts.bind_Ok in H. destruct H as [dc' [_ H]].
  apply EmitAstFacts.bind_Ok in H. destruct H as [r' [_ H]].
  injection H as H. subst s'.
  cbn in Hb. apply EmitAstFacts.bind_Ok in Hb. destruct Hb as [rest' [_ Hb]]. injection Hb as Hb. subst b'.
  do 4 eexists. reflexivity.
Qed.

Lemma function_docstring_text_kind : forall w pt ft i,
    C03DocLinkDefs.function_docstring_text w (sync_fopts pt []) i
    = C03DocLinkDefs.function_docstring_text w (sync_fopts pt ft) i.
Proof. reflexivity. Qed.

(* emit.function -> (ast.unparse -> ast.parse) -> parse.function at the node, docstring read from the node; any identifier
   as name, function type ft, the options conformance leaves at their defaults *)
Theorem function_round_trip_canon : forall w pt i name ft,
    guard_C09_function_core w pt i name ft = true ->
    exists n n' i',
      emit_function_inst w pt i name (Some ft) = Ok n
      /\ C03Spec.reparse_stmt n = Ok n'
      /\ parse_function_node n' = Ok i'
      /\ C03Spec.same_interface_fn ft i i' = true
      /\ same_interface i i' = true.
Proof.
  intros w pt i name ft Hg. unfold guard_C09_function_core in Hg.
  apply andb_true_iff in Hg. destruct Hg as [Hg Huq]. apply andb_true_iff in Hg. destruct Hg as [Hg Hl].
  apply andb_true_iff in Hg. destruct Hg as [Hid Hg].
  set (o := sync_fopts pt ft) in *.
  destruct (C03DocLinkMain.C03_doc_link_lemma w o i Hg Hl) as [text [d [Ht [Hd Ha]]]].
  destruct (C19ComposeFacts.FnPart.C03_partial_named name o i text d Hid Hg Ha) as [s [s' [r [He [_ [Hre [Hp Hs]]]]]]].
  change (C03Spec.fo_pt o) with pt in He. change (C03Spec.fo_kind o) with ft in He, Hs.
  change (C03Spec.fo_inline o) with true in He. change (C03Spec.fo_kwonly o) with true in He.
  unfold fn_text_unquoted in Huq. fold o in Huq. rewrite Ht in Huq. apply str_eqb_eq in Huq.
  destruct (emit_function_doc _ _ _ _ _ _ _ _ _ He) as [n0 [a0 [rest [r0 Es]]]].
  rewrite Huq in Es.
  rewrite Es in Hre. destruct (reparse_stmt_doc _ _ _ _ _ _ _ Hre) as [a' [rest' [dc' [r' Es']]]].
  rewrite <- Es in Hre.
  exists s, s', r. split.
  - unfold emit_function_inst. rewrite (function_docstring_text_kind w pt ft i). fold o. rewrite Ht.
    match goal with |- bind ?x _ = _ => replace x with (@Ok (stmt * ir) (s, i)) by (symmetry; exact He) end.
    reflexivity.
  - split; [exact Hre|]. split; [|split; [exact Hs|]].
    + rewrite Es'. unfold parse_function_node. cbn [docstring_of]. rewrite Hd. cbn [bind]. rewrite <- Es'. exact Hp.
    + destruct (C03DocLink.guard_agree_facts o i Hg) as [Hnd _].
      apply (same_interface_fn_weaken ft i r Hnd Hs).
Qed.

(* with the emitted FunctionDef a fixed point of the re-parse: the round trip at the emitted node itself *)
Theorem function_round_trip_node : forall w pt i name ft,
    guard_C09_function w pt i name ft = true ->
    exists n i',
      emit_function_inst w pt i name (Some ft) = Ok n
      /\ parse_function_node n = Ok i'
      /\ C03Spec.same_interface_fn ft i i' = true
      /\ same_interface i i' = true.
Proof.
  intros w pt i name ft Hg. unfold guard_C09_function in Hg. apply andb_true_iff in Hg. destruct Hg as [Hc Hf].
  destruct (function_round_trip_canon w pt i name ft Hc) as [n [n' [i' [He [Hre [Hp [Hs Hs2]]]]]]].
  unfold fn_reparse_fixed in Hf. rewrite He, Hre in Hf. apply EmitAstFacts.stmt_eqb_eq in Hf. subst n'.
  exists n, i'. split; [exact He|]. split; [exact Hp|]. split; assumption.
Qed.

Lemma get_function_type_kinds : forall a, In (get_function_type a) function_kinds.
Proof.
  intros a. unfold get_function_type, function_kinds. destruct (ar_args a) as [|x l]; [left; reflexivity|].
  destruct (str_eqb (a_name x) (L "self")) eqn:E1.
  - apply str_eqb_eq in E1. cbn [orb]. rewrite E1. right. left. reflexivity.
  - destruct (str_eqb (a_name x) (L "cls")) eqn:E2; cbn [orb].
    + apply str_eqb_eq in E2. rewrite E2. right. right. left. reflexivity.
    + left. reflexivity.
Qed.

(* what emit_inst does for a function target at the options read from a found node *)
Lemma emit_inst_function_found : forall w pt i o search n,
    emit_inst w pt KFunction i (opts_inst (Some o) search KFunction) = Ok n ->
    exists ft, In ft function_kinds
               /\ emit_function_inst w pt i (last search (default_name KFunction)) (Some ft) = Ok n.
Proof.
  intros w pt i o search n He. cbn [emit_inst] in He. unfold opts_inst in He. cbn [so_ftype so_name] in He.
  destruct o as [nm a b d r| | | | | |]; cbn [bind] in He; try discriminate He.
  exists (get_function_type a). split; [apply get_function_type_kinds|exact He].
Qed.

Lemma RT_at_function : forall w pt it ww search i,
    guard_C09_function_found w pt i (last search (default_name KFunction)) = true ->
    RT_at w pt it ww KFunction search i.
Proof.
  intros w pt it ww search i Hg o n He.
  destruct (emit_inst_function_found _ _ _ _ _ _ He) as [ft [Hin He1]].
  unfold guard_C09_function_found in Hg. rewrite forallb_forall in Hg.
  destruct (function_round_trip_node w pt i _ ft (Hg ft Hin)) as [n' [i' [He' [Hp [_ Hs]]]]].
  assert (X : @Ok stmt n = Ok n').
  { transitivity (emit_function_inst w pt i (last search (default_name KFunction)) (Some ft));
      [symmetry; exact He1|exact He']. }
  injection X as X. subst n'. exists i'. split; [exact Hp|exact Hs].
Qed.

(* ---- without the fixed-point clause: two parse-transparency premises ---- *)

(* the parser reads from the written form what it reads from ast.parse(ast.unparse(n)): black is transparent *)
Definition WRITTEN_REPARSE_law (as_written : stmt -> stmt) (w : nat) (pt : ptable) : Prop :=
  forall i o n n', emit_inst w pt KFunction i o = Ok n -> C03Spec.reparse_stmt n = Ok n' ->
                   parse_function_node (as_written n) = parse_function_node n'.

(* the parser reads from the emitted node what it reads from its re-parse (negative numbers: Constant(-5) against
   UnaryOp(USub, 5)); concerns the disjunct cmp_ast(found, emitted) only *)
Definition EMITTED_REPARSE_law (w : nat) (pt : ptable) : Prop :=
  forall i o n n', emit_inst w pt KFunction i o = Ok n -> C03Spec.reparse_stmt n = Ok n' ->
                   parse_function_node n = parse_function_node n'.

Theorem stable_function_target_canon :
    forall (tree : Type) (parse_file : path -> bytes -> outcome tree) (find : list str -> tree -> option stmt)
      (as_written : stmt -> stmt) (w : nat) (pt : ptable) (it ww : bool) (fs : fsys) (file : path)
      (search : list str) (i : ir),
    WRITTEN_REPARSE_law as_written w pt -> EMITTED_REPARSE_law w pt ->
    guard_C09_function_found_core w pt i (last search (default_name KFunction)) = true ->
    stable stmt tree ir sync_opts (emit_inst w pt) parse_file find (cmp_inst as_written) opts_inst type_ok_inst
           fs file search KFunction i ->
    agrees_at tree parse_file find it ww fs file search KFunction i.
Proof.
  intros tree parse_file find as_written w pt it ww fs file search i HW HE Hg
         [content [t [o [n [H1 [H2 [H3 [H4 [_ [_ H7]]]]]]]]]].
  destruct (emit_inst_function_found _ _ _ _ _ _ H4) as [ft [Hin He1]].
  unfold guard_C09_function_found_core in Hg. rewrite forallb_forall in Hg.
  destruct (function_round_trip_canon w pt i _ ft (Hg ft Hin)) as [n0 [n' [i' [He' [Hre [Hp [_ Hs]]]]]]].
  assert (X : @Ok stmt n = Ok n0).
  { transitivity (emit_function_inst w pt i (last search (default_name KFunction)) (Some ft));
      [symmetry; exact He1|exact He']. }
  injection X as X. subst n0.
  exists content, t, o, i'. split; [exact H1|]. split; [exact H2|]. split; [exact H3|]. split; [|exact Hs].
  cbn [parse_node_inst]. destruct (cmp_inst_true _ _ _ H7) as [E|E]; subst o.
  - rewrite (HE _ _ _ _ H4 Hre). exact Hp.
  - rewrite (HW _ _ _ _ H4 Hre). exact Hp.
Qed.

(* ------------------------------------------------------------------ *)
(* a run, target by target, knowing what the target file held BEFORE the run *)
(* ------------------------------------------------------------------ *)

Section Pre.
  Variables (node tree irT opts : Type).
  Variable emit_k : kind -> irT -> opts -> outcome node.
  Variable parse_file : path -> bytes -> outcome tree.
  Variable find : list str -> tree -> option node.
  Variable rewrite : list str -> node -> tree -> tree * bool.
  Variable cmp : node -> node -> bool.
  Variable render_node : node -> outcome bytes.
  Variable render_tree : tree -> outcome bytes.
  Variable opts_of : option node -> list str -> kind -> opts.
  Variable type_ok : kind -> node -> bool.

  Notation conf := (conform emit_k parse_file find rewrite cmp render_node render_tree opts_of type_ok).
  Notation conf_files := (conform_files emit_k parse_file find rewrite cmp render_node render_tree opts_of type_ok).
  Notation conf_kinds := (conform_kinds emit_k parse_file find rewrite cmp render_node render_tree opts_of type_ok).

  (* G c fs' file ...: c = what the file held when its conform call was made *)
  Variable G : option bytes -> fsys -> path -> list str -> kind -> irT -> Prop.
  Hypothesis G_ext : forall c fs1 fs2 file s k ir,
      fs_get file fs1 = fs_get file fs2 -> G c fs1 file s k ir -> G c fs2 file s k ir.
  Variable faults : path -> fault.
  Hypothesis STEP_G : forall fs file s k ir fs' b pr,
      s <> [] -> conf fs file s k ir (faults file) = (fs', Ok b, pr) -> G (fs_get file fs) fs' file s k ir.

  Lemma conform_files_establish_pre : forall truth files search k ir fs acc printed fs' acc' pr',
      search <> [] ->
      conf_files fs truth files search k ir faults acc printed = (fs', Ok acc', pr') ->
      NoDup (proc truth files) -> clash_free truth files ->
      forall file, In file files -> file <> truth -> G (fs_get file fs) fs' file search k ir.
  Proof.
    intros truth. induction files as [|f0 rest IH];
      intros search k ir fs acc printed fs' acc' pr' Hs H ND CF file Hin Hne.
    - destruct Hin.
    - cbn [conform_files] in H. destruct (str_eqb f0 truth) eqn:E.
      + apply str_eqb_eq in E. subst f0. unfold clash_free in CF. rewrite proc_cons_eq in ND, CF.
        destruct Hin as [E0|Hin]; [contradiction Hne; symmetry; exact E0|].
        apply (IH _ _ _ _ _ _ _ _ _ Hs H ND CF file Hin Hne).
      + apply str_eqb_neq in E. unfold clash_free in CF. rewrite (proc_cons_ne _ _ _ E) in ND, CF.
        destruct (conf fs f0 search k ir (faults f0)) as [[fs2 r2] pr2] eqn:EC.
        destruct r2 as [flag|e]; [|discriminate H].
        inversion ND as [|x l Hnotin ND']. subst x l.
        assert (CF' : clash_free truth rest).
        { intros t t' Ht Ht'. apply CF; right; assumption. }
        destruct Hin as [E0|Hin].
        * subst file. pose proof (STEP_G _ _ _ _ _ _ _ _ Hs EC) as HG2.
          apply (G_ext _ fs2 fs'); [|exact HG2]. symmetry.
          refine (conform_files_frame _ _ _ _ _ _ _ _ _ _ _ _ _ (fun q => q = f0) truth faults _ _ _ _ _ _ _ _ _ _ _ H
                                      f0 eq_refl).
          intros f Hf Hfne q Hq. subst q.
          assert (Hfp : In f (proc truth rest)) by (apply proc_In; split; assumption).
          split.
          -- intros E1. subst f. contradiction.
          -- intros E1. apply (CF f f0); [right; exact Hfp|left; reflexivity|].
             symmetry. exact E1.
        * assert (Hfp : In file (proc truth rest)) by (apply proc_In; split; assumption).
          assert (Hpre : fs_get file fs2 = fs_get file fs).
          { apply (conform_frame _ _ _ _ _ _ _ _ _ _ _ _ _ _ _ _ _ _ _ _ _ _ EC).
            - intros E1. subst file. contradiction.
            - intros E1. apply (CF f0 file); [left; reflexivity|right; exact Hfp|]. symmetry. exact E1. }
          rewrite <- Hpre. apply (IH _ _ _ _ _ _ _ _ _ Hs H ND' CF' file Hin Hne).
  Qed.

  Definition all_G_pre (fs fs' : fsys) (a : sync_args) (truth : path) (ks : list kind) (ir : irT) : Prop :=
    forall k, In k ks -> forall files, sa_files a k = Some files ->
      exists nm, name_of a k = Ok nm
                 /\ forall file, In file files -> file <> truth ->
                                 G (fs_get file fs) fs' file (strip_split [ch 46] nm) k ir.

  Lemma conform_kinds_establish_pre : forall a truth ir ks fs acc printed fs' acc' pr',
      conf_kinds fs a truth ks ir faults acc printed = (fs', Ok acc', pr') ->
      NoDup (proc truth (targets_of a ks)) -> clash_free truth (targets_of a ks) ->
      all_G_pre fs fs' a truth ks ir.
  Proof.
    intros a truth ir. induction ks as [|k0 rest IH];
      intros fs acc printed fs' acc' pr' H ND CF.
    - intros k [].
    - cbn [conform_kinds] in H. unfold clash_free in CF. unfold targets_of in ND, CF.
      cbn [flat_map] in ND, CF. fold (targets_of a rest) in ND, CF.
      destruct (sa_files a k0) as [files0|] eqn:EF.
      + rewrite proc_app in ND, CF.
        destruct (NoDup_app_inv _ _ _ ND) as [ND0 [NDr Hdisj]].
        assert (CF0 : clash_free truth files0).
        { intros t t' Ht Ht'. apply CF; apply in_or_app; left; assumption. }
        assert (CFr : clash_free truth (targets_of a rest)).
        { intros t t' Ht Ht'. apply CF; apply in_or_app; right; assumption. }
        destruct (name_of a k0) as [nm|e] eqn:EN; [|discriminate H].
        destruct (conf_files fs truth files0 (strip_split [ch 46] nm) k0 ir faults acc printed)
          as [[fs2 r2] pr2] eqn:EC.
        destruct r2 as [acc2|e]; [|discriminate H].
        pose proof (IH _ _ _ _ _ _ H NDr CFr) as HGr.
        intros k Hk files Hfiles.
        destruct (kind_eq_dec k k0) as [Ek|Ek].
        * subst k. rewrite EF in Hfiles. injection Hfiles as Hfiles. subst files.
          exists nm. split; [exact EN|]. intros file Hin Hne.
          pose proof (conform_files_establish_pre _ _ _ _ _ _ _ _ _ _ _
                        (strip_split_nonnil [ch 46] nm) EC ND0 CF0 file Hin Hne) as HG2.
          apply (G_ext _ fs2 fs'); [|exact HG2]. symmetry.
          refine (conform_kinds_frame _ _ _ _ _ _ _ _ _ _ _ _ _ (fun q => q = file) truth faults _ _ _ _ _ _ _ _ _ _ H
                                      file eq_refl).
          assert (Hfp : In file (proc truth files0)) by (apply proc_In; split; assumption).
          intros f Hf Hfne q Hq. subst q.
          assert (Hfr : In f (proc truth (targets_of a rest)))
            by (apply proc_In; split; assumption).
          split.
          -- intros E1. subst f. apply (Hdisj file Hfp Hfr).
          -- intros E1. apply (CF f file); [apply in_or_app; right; exact Hfr
                                           |apply in_or_app; left; exact Hfp|].
             symmetry. exact E1.
        * destruct Hk as [Hk|Hk]; [contradiction Ek; symmetry; exact Hk|].
          destruct (HGr k Hk files Hfiles) as [nm' [Hnm' Hall]].
          exists nm'. split; [exact Hnm'|]. intros file Hin Hne.
          assert (Hfr : In file (proc truth (targets_of a rest))).
          { apply proc_In. split; [|exact Hne]. apply targets_of_In. exists k, files.
            split; [exact Hk|]. split; assumption. }
          assert (Hpre : fs_get file fs2 = fs_get file fs).
          { refine (conform_files_frame _ _ _ _ _ _ _ _ _ _ _ _ _ (fun q => q = file) truth faults _ _ _ _ _ _ _ _ _ _ _ EC
                                        file eq_refl).
            intros f Hf Hfne q Hq. subst q.
            assert (Hfp : In f (proc truth files0)) by (apply proc_In; split; assumption).
            split.
            - intros E1. subst f. apply (Hdisj file Hfp Hfr).
            - intros E1. apply (CF f file); [apply in_or_app; left; exact Hfp|apply in_or_app; right; exact Hfr|].
              symmetry. exact E1. }
          rewrite <- Hpre. apply Hall; assumption.
      + cbn [app] in ND, CF.
        pose proof (IH _ _ _ _ _ _ H ND CF) as HGr.
        intros k Hk files Hfiles. destruct Hk as [Hk|Hk].
        * subst k. rewrite EF in Hfiles. discriminate Hfiles.
        * apply (HGr k Hk files Hfiles).
  Qed.
End Pre.

Section Install.
  Variable tree : Type.
  Variable parse_file : path -> bytes -> outcome tree.
  Variable find : list str -> tree -> option stmt.
  Variable as_written : stmt -> stmt.
  Variables (w : nat) (pt : ptable) (it ww : bool).
  Variable rewrite : list str -> stmt -> tree -> tree * bool.
  Variable render_node : stmt -> outcome bytes.
  Variable render_tree : tree -> outcome bytes.
  Variable parse_truth : kind -> option stmt -> list str -> outcome ir.

  Notation stable_i :=
    (stable stmt tree ir sync_opts (emit_inst w pt) parse_file find (cmp_inst as_written) opts_inst type_ok_inst).
  Notation settled_i :=
    (settled stmt tree ir sync_opts (emit_inst w pt) parse_file find rewrite (cmp_inst as_written) opts_inst
             type_ok_inst).
  Notation conf_i :=
    (conform (emit_inst w pt) parse_file find rewrite (cmp_inst as_written) render_node render_tree opts_inst
             type_ok_inst).
  Notation FIX_i :=
    (FIX_law stmt tree ir sync_opts (emit_inst w pt) parse_file find rewrite (cmp_inst as_written) render_node
             render_tree opts_inst type_ok_inst).
  Notation gtruth_i :=
    (ground_truth (emit_inst w pt) parse_file find rewrite (cmp_inst as_written) render_node render_tree opts_inst
                  type_ok_inst parse_truth).
  Notation agrees_i := (agrees_at tree parse_file find it ww).
  Notation declined_i := (declined_at tree parse_file find as_written w pt rewrite).

  (* the install phase: what the target file held has no definition at the location -- the file is missing, or it
     parses (an empty file included) and the finder finds nothing *)
  Definition install_pre_c (c : option bytes) (file : path) (search : list str) : Prop :=
    c = None
    \/ exists content t, c = Some content /\ parse_file file content = Ok t /\ find search t = None.

  (* one call, install phase: under FIX the outcome is never the declined one *)
  Lemma conform_install_stable : FIX_i -> forall fs file search k i fs' b pr,
      search <> [] -> install_pre_c (fs_get file fs) file search ->
      conf_i fs file search k i NoFault = (fs', Ok b, pr) -> stable_i fs' file search k i.
  Proof.
    intros HF fs file search k i fs' b pr Hs Hpre H. destruct b.
    - apply (HF _ _ _ _ _ _ _ Hs H).
    - exfalso.
      destruct (conform_false_settled _ _ _ _ _ _ _ _ _ _ _ _ _ _ _ _ _ _ _ _ _ H)
        as [content [t [o [n [H1 [H2 [H3 _]]]]]]].
      destruct Hpre as [Hn|[content' [t' [Hc [Hp Hf]]]]].
      + rewrite H1 in Hn. discriminate Hn.
      + rewrite H1 in Hc. injection Hc as Hc. subst content'. rewrite H2 in Hp. injection Hp as Hp. subst t'.
        rewrite H3 in Hf. discriminate Hf.
  Qed.

  Definition G_inst (c : option bytes) (fs' : fsys) (file : path) (s : list str) (k : kind) (i : ir) : Prop :=
    settled_i fs' file s k i /\ (install_pre_c c file s -> stable_i fs' file s k i).

  Lemma G_inst_ext : forall c fs1 fs2 file s k i,
      fs_get file fs1 = fs_get file fs2 -> G_inst c fs1 file s k i -> G_inst c fs2 file s k i.
  Proof.
    intros c fs1 fs2 file s k i Hg [H1 H2]. split.
    - eapply settled_ext; eassumption.
    - intros Hp. eapply stable_ext; [exact Hg|]. apply H2. exact Hp.
  Qed.

  Lemma G_inst_step : FIX_i -> forall fs file s k i fs' b pr,
      s <> [] -> conf_i fs file s k i (NoFaults file) = (fs', Ok b, pr) -> G_inst (fs_get file fs) fs' file s k i.
  Proof.
    intros HF fs file s k i fs' b pr Hs H. split.
    - apply (step_settled _ _ _ _ _ _ _ _ _ _ _ _ _ HF _ _ _ _ _ _ _ _ Hs H).
    - intros Hp. apply (conform_install_stable HF _ _ _ _ _ _ _ _ Hs Hp H).
  Qed.

  (* the run, target by target, with the pre-state of each target file *)
  Theorem run_settled_and_installed : FIX_i ->
      forall fs a truth fs1 eff pr,
        sync_args_ok a truth ->
        gtruth_i fs a truth NoFaults = (fs1, Ok eff, pr) ->
        exists i, truth_ir stmt tree ir parse_file find parse_truth fs1 a truth = Ok i
                  /\ all_G_pre ir G_inst fs fs1 a truth kinds_in_order i.
  Proof.
    intros HF fs a truth fs1 eff pr [ND [CF HT]] H.
    assert (Hsame : fs_get truth fs1 = fs_get truth fs).
    { apply (ground_truth_truth_untouched _ _ _ _ _ _ _ _ _ _ _ _ _ _ _ _ _ _ _ _ _ H).
      intros t Hin Hne. apply HT. apply proc_In. split; assumption. }
    rewrite ground_truth_unfold in H.
    destruct (truth_ir stmt tree ir parse_file find parse_truth fs a truth) as [i|e] eqn:Eir; [|discriminate H].
    exists i. split; [rewrite (truth_ir_ext _ _ _ _ _ _ fs1 fs a truth Hsame); exact Eir|].
    apply (conform_kinds_establish_pre _ _ _ _ _ _ _ _ _ _ _ _ _ G_inst G_inst_ext NoFaults (G_inst_step HF)
                                       _ _ _ _ _ _ _ _ _ _ H ND CF).
  Qed.

  (* per target of kind k: it agrees or was declined; and it agrees when it was installed in this run *)
  Definition targets_settle_install (fs fs1 : fsys) (a : sync_args) (truth : path) (k : kind) (i : ir) : Prop :=
    forall files, sa_files a k = Some files ->
      exists nm, name_of a k = Ok nm
                 /\ forall file, In file files -> file <> truth ->
                      (agrees_i fs1 file (strip_split [ch 46] nm) k i
                       \/ declined_i fs1 file (strip_split [ch 46] nm) k i)
                      /\ (install_pre_c (fs_get file fs) file (strip_split [ch 46] nm) ->
                          agrees_i fs1 file (strip_split [ch 46] nm) k i).

  Theorem interface_agreement_install : FIX_i ->
      forall fs a truth fs1 eff pr,
        sync_args_ok a truth ->
        gtruth_i fs a truth NoFaults = (fs1, Ok eff, pr) ->
        exists i,
          truth_ir stmt tree ir parse_file find parse_truth fs1 a truth = Ok i
          /\ forall k, WRITTEN_PARSE_law as_written w pt it ww k ->
                       (forall nm, name_of a k = Ok nm -> RT_at w pt it ww k (strip_split [ch 46] nm) i) ->
                       targets_settle_install fs fs1 a truth k i.
  Proof.
    intros HF fs a truth fs1 eff pr Hok H.
    destruct (run_settled_and_installed HF _ _ _ _ _ _ Hok H) as [i [Hir HG]].
    exists i. split; [exact Hir|]. intros k HW HRT files Hfiles.
    assert (Hk : In k kinds_in_order) by (destruct k; cbn; tauto).
    destruct (HG k Hk files Hfiles) as [nm [Hnm Hall]].
    exists nm. split; [exact Hnm|]. intros file Hin Hne. destruct (Hall file Hin Hne) as [Hset Hinst]. split.
    - apply (settled_agrees_or_declined tree parse_file find as_written w pt it ww rewrite k fs1 file _ i HW
                                        (HRT nm Hnm) Hset).
    - intros Hp. apply (stable_agrees_gen tree parse_file find as_written w pt it ww k fs1 file _ i HW (HRT nm Hnm)).
      apply Hinst. exact Hp.
  Qed.

  (* ---- function targets ---- *)

  (* the guard at the name given for functions on the command line *)
  Definition function_guard_args (a : sync_args) (i : ir) : Prop :=
    forall nm, name_of a KFunction = Ok nm ->
               guard_C09_function_found w pt i (last (strip_split [ch 46] nm) (default_name KFunction)) = true.

  (* FIX alone (REPLACES is false of the Locate rewriter on FunctionDef nodes): every function target agrees, or is a
     found definition that differs and that the rewriter declined (the recorded finding found-definition-not-replaced);
     and a function target that was installed by this run (file missing, or nothing found at the location) agrees *)
  Theorem function_targets_settle_install : FIX_i ->
      forall fs a truth fs1 eff pr,
        sync_args_ok a truth ->
        gtruth_i fs a truth NoFaults = (fs1, Ok eff, pr) ->
        exists i,
          truth_ir stmt tree ir parse_file find parse_truth fs1 a truth = Ok i
          /\ (WRITTEN_PARSE_law as_written w pt it ww KFunction -> function_guard_args a i ->
              targets_settle_install fs fs1 a truth KFunction i).
  Proof.
    intros HF fs a truth fs1 eff pr Hok H.
    destruct (interface_agreement_install HF _ _ _ _ _ _ Hok H) as [i [Hir Hall]].
    exists i. split; [exact Hir|]. intros HW Hg. apply (Hall KFunction HW).
    intros nm Hnm. apply RT_at_function. apply (Hg nm Hnm).
  Qed.

  (* under FIX and REPLACES: every function target agrees *)
  Theorem function_targets_agree : FIX_i -> REPLACES_law stmt tree find rewrite ->
      forall fs a truth fs1 eff pr,
        sync_args_ok a truth ->
        gtruth_i fs a truth NoFaults = (fs1, Ok eff, pr) ->
        exists i,
          truth_ir stmt tree ir parse_file find parse_truth fs1 a truth = Ok i
          /\ (WRITTEN_PARSE_law as_written w pt it ww KFunction -> function_guard_args a i ->
              targets_agree tree parse_file find it ww fs1 a truth KFunction i).
  Proof.
    intros HF HR fs a truth fs1 eff pr Hok H.
    destruct (interface_agreement tree parse_file find as_written w pt it ww rewrite render_node render_tree parse_truth
                                  HF HR _ _ _ _ _ _ Hok H) as [i [Hir [_ [_ [_ Hall]]]]].
    exists i. split; [exact Hir|]. intros HW Hg. apply (Hall KFunction HW).
    intros nm Hnm. apply RT_at_function. apply (Hg nm Hnm).
  Qed.
End Install.

(* ---- non-vacuity: a function target ---- *)

Definition node9f : stmt :=
  match emit_inst 100 [] KFunction ir9
                  (opts_inst (Some (SFunc (L "train") no_arguments [] [] None)) [L "train"] KFunction) with
  | Ok n => n
  | Err _ => SReturn None
  end.

(* a toy tree layer whose rewriter never replaces (as the Locate rewriter on FunctionDef nodes): every rendering is the
   text F9, which parses to the module [node9f]; any other text parses to the empty module *)
Module Toy9f.
  Definition parse_file (p : path) (c : bytes) : outcome (list stmt) :=
    if str_eqb c (L "F9") then Ok [node9f] else Ok [].
  Definition find (s : list str) (t : list stmt) : option stmt := hd_error t.
  Definition rewrite (s : list str) (n : stmt) (t : list stmt) : list stmt * bool := (t, false).
  Definition render_node (n : stmt) : outcome bytes := Ok (L "F9").
  Definition render_tree (t : list stmt) : outcome bytes := Ok (L "F9").
  Definition fs : fsys := [(L "target.py", L "F9")].
  Definition conf (fs0 : fsys) :=
    conform (emit_inst 100 []) parse_file find rewrite (cmp_inst (fun n => n)) render_node render_tree opts_inst
            type_ok_inst fs0 (L "target.py") [L "train"] KFunction ir9 NoFault.
End Toy9f.

Lemma ir9_function_guard : guard_C09_function_found 100 [] ir9 (L "train") = true.
Proof. vm_compute. reflexivity. Qed.

Lemma ir9_function_stable :
  stable stmt (list stmt) ir sync_opts (emit_inst 100 []) Toy9f.parse_file Toy9f.find (cmp_inst (fun n => n)) opts_inst
         type_ok_inst Toy9f.fs (L "target.py") [L "train"] KFunction ir9.
Proof.
  exists (L "F9"), [node9f], node9f, node9f.
  split; [reflexivity|]. split; [reflexivity|]. split; [reflexivity|].
  split; [vm_compute; reflexivity|]. split; [discriminate|]. split; [vm_compute; reflexivity|].
  apply cmp_inst_refl.
Qed.

(* the truth ir9 (three parameters with defaults) and the function target train: inside the guard for every function
   type a found node can have; the stable target agrees by the theorem; what parse.function reads; and the install
   phase: conform on a missing file and on an empty file creates / appends and the result is stable *)
Example function_target_example :
  guard_C09_function_found 100 [] ir9 (L "train") = true
  /\ agrees_at (list stmt) Toy9f.parse_file Toy9f.find false true Toy9f.fs (L "target.py") [L "train"] KFunction ir9
  /\ (exists i', parse_node_inst false true KFunction node9f = Ok i'
                 /\ map fst (ir_params i') = [L "epochs"; L "name"; L "rate"]
                 /\ map (fun kv => g_default (snd kv)) (ir_params i')
                    = [Some (DV (VInt 5)); Some (DV (VStr (L "mnist"))); Some (DV (VFloat (L "0.5")))]
                 /\ C03Spec.same_interface_fn (L "static") ir9 i' = true)
  /\ Toy9f.conf [] = (Toy9f.fs, Ok true, [])
  /\ (exists fs', Toy9f.conf [(L "target.py", [])] = (fs', Ok true, [])
                  /\ fs_get (L "target.py") fs' = Some (L "F9")).
Proof.
  split; [exact ir9_function_guard|]. split.
  - apply (stable_agrees_gen (list stmt) Toy9f.parse_file Toy9f.find (fun n => n) 100 [] false true KFunction).
    + intros i o n _. reflexivity.
    + apply RT_at_function. exact ir9_function_guard.
    + exact ir9_function_stable.
  - split.
    + vm_compute. eexists. split; [reflexivity|]. repeat split; reflexivity.
    + split; [vm_compute; reflexivity|]. vm_compute. eexists. split; reflexivity.
Qed.

(* the clause fn_reparse_fixed is a limit of the proof, not of the code: with a negative default the emitted node is not
   a fixed point of the re-parse (Constant(-5) against UnaryOp(USub, 5)), the core guard holds, and the parser reads
   the same interface from both *)
Definition ir9_neg : ir :=
  mkIR FNone (Has (L "static")) (Has (L "Train a model."))
       [(L "epochs", gp9 (L "number of passes.") (L "int") (VInt (-5)))] FNone None.

Lemma function_negative_default_point :
  guard_C09_function_core 100 [] ir9_neg (L "train") (L "static") = true
  /\ fn_reparse_fixed 100 [] ir9_neg (L "train") (L "static") = false
  /\ match emit_function_inst 100 [] ir9_neg (L "train") (Some (L "static")) with
     | Ok n => match C03Spec.reparse_stmt n with
               | Ok n' => match parse_function_node n, parse_function_node n' with
                          | Ok a, Ok b => same_interface ir9_neg a = true /\ same_interface ir9_neg b = true
                          | _, _ => False
                          end
               | Err _ => False
               end
     | Err _ => False
     end.
Proof. vm_compute. repeat split; reflexivity. Qed.
