(* C09Interface: the last step of property C09 -- from `stable` (the target is found at its location and compares
   equal to the re-emission of the truth; proofs/SyncFacts.v) to the property's own wording: the target, WHEN PARSED with
   the parser of its kind, describes the same interface as the truth.  The emit / parse / compare layers are the
   instance of model/C09Instance.v; the step is the composition with the round-trip theorems of the converter layers
   (C02_partial_closed for class targets, C04_partial for argparse targets; for function targets the round trip
   stays a named premise, see RT_at below).  The tree layer stays abstract.  Proofs only. *)
From Coq Require Import List Ascii Bool Arith ZArith Lia.
From Coq Require String.
Import String.StringSyntax.
From DT Require Import PyStr Sexp PyVal TyExpr PureUtils Defaults PyAst IR FS Sync.
From DT Require Import PyStrFacts FSFacts SyncFacts.
From DT Require Import EmitAst ParseAst C02Spec C02Codec C02DocLinkDefs C04Spec C04Codec C09Instance.
From DT Require EmitAstFacts C02Compose C02DocLink C04Compose C03Spec.
Import ListNotations.

(* ------------------------------------------------------------------ *)
(* cmp_ast: equal trees, or equal to the written form                   *)
(* ------------------------------------------------------------------ *)

Lemma cmp_inst_true : forall aw o n, cmp_inst aw o n = true -> o = n \/ o = aw n.
Proof.
  intros aw o n H. unfold cmp_inst in H. apply orb_true_iff in H.
  destruct H as [H|H]; [left|right]; apply EmitAstFacts.stmt_eqb_eq; exact H.
Qed.

Lemma stmt_eqb_refl : forall s, stmt_eqb s s = true.
Proof.
  assert (Hl : forall (A : Type) (f : A -> A -> bool) (l : list A),
             Forall (fun x => f x x = true) l -> list_eqb f l l = true).
  { intros A f l H. induction H as [|x l Hx Hl IH]; [reflexivity|]. cbn. rewrite Hx, IH. reflexivity. }
  assert (Ho : forall (A : Type) (f : A -> A -> bool) (o : option A),
             (forall x, o = Some x -> f x x = true) -> option_eqb f o o = true).
  { intros A f [x|] H; [apply H; reflexivity|reflexivity]. }
  assert (He : forall e, expr_eqb e e = true).
  { fix IH 1. intros e. destruct e as [v|id|e a|e s|es|es|ks vs|f args kws|op e|src]; cbn [expr_eqb].
    - apply EmitAstFacts.pyval_eqb_refl.
    - apply str_eqb_refl.
    - rewrite IH, str_eqb_refl. reflexivity.
    - rewrite !IH. reflexivity.
    - apply Hl. induction es as [|x r IHr]; constructor; [apply IH|exact IHr].
    - apply Hl. induction es as [|x r IHr]; constructor; [apply IH|exact IHr].
    - rewrite !Hl; [reflexivity| |].
      + induction vs as [|x r IHr]; constructor; [apply IH|exact IHr].
      + induction ks as [|x r IHr]; constructor; [apply IH|exact IHr].
    - rewrite IH. rewrite !Hl; [reflexivity| |].
      + induction kws as [|[k v] r IHr]; constructor; [|exact IHr].
        rewrite IH, andb_true_r. apply Ho. intros x _. apply str_eqb_refl.
      + induction args as [|x r IHr]; constructor; [apply IH|exact IHr].
    - rewrite str_eqb_refl, IH. reflexivity.
    - apply str_eqb_refl. }
  assert (Hle : forall l, list_eqb expr_eqb l l = true).
  { intros l. apply Hl. induction l; constructor; [apply He|assumption]. }
  assert (Hoe : forall o, option_eqb expr_eqb o o = true).
  { intros o. apply Ho. intros x _. apply He. }
  assert (Ha : forall a, arg_eqb a a = true).
  { intros a. unfold arg_eqb. rewrite str_eqb_refl, Hoe. reflexivity. }
  assert (Hla : forall l, list_eqb arg_eqb l l = true).
  { intros l. apply Hl. induction l; constructor; [apply Ha|assumption]. }
  assert (Hoa : forall o, option_eqb arg_eqb o o = true).
  { intros o. apply Ho. intros x _. apply Ha. }
  fix IH 1. intros s. destruct s as [n a b d r|n bs b d|t a v|ts v|e|e|t h bl]; cbn [stmt_eqb].
  - rewrite str_eqb_refl, Hle, Hoe. unfold arguments_eqb. rewrite !Hla, Hle, !Hoa.
    assert (E : list_eqb (option_eqb expr_eqb) (ar_kw_defaults a) (ar_kw_defaults a) = true).
    { apply Hl. induction (ar_kw_defaults a); constructor; [apply Hoe|assumption]. }
    rewrite E. cbn [andb]. rewrite !andb_true_r. apply Hl.
    induction b as [|x q IHq]; constructor; [apply IH|exact IHq].
  - rewrite str_eqb_refl, !Hle. cbn [andb]. rewrite !andb_true_r. apply Hl.
    induction b as [|x q IHq]; constructor; [apply IH|exact IHq].
  - rewrite !He, Hoe. reflexivity.
  - rewrite Hle, He. reflexivity.
  - apply He.
  - apply Hoe.
  - rewrite !str_eqb_refl. cbn [andb]. apply Hl.
    induction bl as [|x q IHq]; constructor; [|exact IHq]. apply Hl.
    induction x as [|y z IHz]; constructor; [apply IH|exact IHz].
Qed.

Lemma cmp_inst_refl : forall aw n, cmp_inst aw n n = true.
Proof. intros aw n. unfold cmp_inst. rewrite stmt_eqb_refl. reflexivity. Qed.

(* ------------------------------------------------------------------ *)
(* class targets: the node-level round trip, from C02_partial_closed    *)
(* ------------------------------------------------------------------ *)

(* the text emit.class_ stores starts with a line break (the closed form T3 of proofs/C02DocLink.v), so set_value's
   quote stripping does not apply to it: the docstring constant of the emitted class IS class_docstring text *)
Lemma class_docstring_head : forall w edd ww i,
    guard_C02_ast i = true -> doc_link_ok w edd ww i = true ->
    exists text z, class_docstring_text w edd ww i = Ok text /\ class_docstring text = nl :: z.
Proof.
  intros w edd ww i Hg Hok.
  destruct (C02Compose.guard_C02_ast_inv i Hg) as [Hdom [_ [Hpok [Hrok _]]]].
  destruct (C02Compose.C02_domain_facts i Hdom) as [Hnd [Hnr _]].
  pose proof (C02Compose.forall_folded_ok i Hpok Hrok) as Hall.
  apply Forall_app in Hall. destruct Hall as [Hallp Hallr].
  pose proof (C02Compose.fold_returns_params i Hnr) as Hfold.
  unfold doc_link_ok in Hok. rewrite Hfold in Hok.
  apply andb_true_iff in Hok. destruct Hok as [Hok Hnw]. apply andb_true_iff in Hok. destruct Hok as [Hok Hle].
  apply andb_true_iff in Hok. destruct Hok as [Hsum Hex].
  rewrite forallb_app in Hle, Hnw.
  apply andb_true_iff in Hle. destruct Hle as [Hlep Hler]. apply andb_true_iff in Hnw. destruct Hnw as [Hnwp Hnwr].
  destruct (ir_doc i) as [| |S] eqn:Edoc; try discriminate.
  apply andb_true_iff in Hsum. destruct Hsum as [Hsl Hsw].
  destruct (C02DocLink.line_ok_facts S Hsl) as [_ [Hedge [Hnl [Hasc [Htok _]]]]].
  destruct (C02DocLink.link_all w ww edd (ir_params i) Hallp Hlep Hnwp) as [ps_p [es_p [ds_p Hlp]]].
  destruct (C02DocLink.link_all w ww edd (C02Compose.ret_entry i) Hallr Hler Hnwr) as [ps_r [es_r [ds_r Hlr]]].
  assert (HS : C02DocLink.sum_fine S) by (split; [exact Hedge|split; assumption]).
  assert (HSw : C02DocLink.wrap_fine w ww S) by (apply C02DocLink.wrap_fine_of; exact Hsw).
  assert (Hne : es_p <> []).
  { destruct (C02DocLink.link_names _ _ _ _ _ _ _ Hlp) as [Hn1 _]. intros E. subst es_p. cbn [map] in Hn1.
    apply existsb_exists in Hex. destruct Hex as [kv [Hin Hd]].
    assert (Hf : In kv (filter documented (ir_params i))) by (apply filter_In; split; assumption).
    destruct (filter documented (ir_params i)); [destruct Hf|discriminate]. }
  pose proof (C02DocLink.link_app _ _ _ _ _ _ _ _ _ _ _ Hlp Hlr) as Hl.
  destruct (C02DocLink.link_ret_shape _ _ _ _ _ _ _ Hlr) as [r Er].
  assert (Hes_ne : es_p ++ es_r <> []).
  { destruct es_p; [contradiction|discriminate]. }
  assert (Hi2doc : ir_doc (class_fold_returns i) = Has S).
  { unfold class_fold_returns. destruct (ir_returns i); exact Edoc. }
  assert (Hi2ret : forall g, ir_returns (class_fold_returns i) <> Has g).
  { intros g. unfold class_fold_returns. destruct (ir_returns i) eqn:E; cbn [ir_returns]; try rewrite E; discriminate. }
  assert (Htext : class_docstring_text w edd ww i = Ok (C02DocLink.T1 S (es_p ++ es_r))).
  { unfold class_docstring_text.
    rewrite (C02DocLink.to_docstring_T1 w ww edd (class_fold_returns i) S (ps_p ++ ps_r) (es_p ++ es_r) Hi2doc
                                        (proj1 HS) (proj1 (proj2 HS)) HSw).
    - reflexivity.
    - rewrite Hfold. apply (C02DocLink.link_params_of _ _ _ _ _ _ _ Hl).
    - exact Hi2ret.
    - apply (C02DocLink.link_emits _ _ _ _ _ _ _ Hl).
    - exact Hes_ne. }
  pose proof (C02DocLink.link_entries _ _ _ _ _ _ _ Hl) as Hent.
  assert (Hall : C02DocLink.all_params es_p).
  { intros e He. destruct (C02DocLink.link_entries _ _ _ _ _ _ _ Hlp e He) as [_ [_ [_ [_ Hin]]]].
    unfold DocEmit.is_return. apply str_eqb_neq. intros E. apply Hnr.
    change return_type_key with (L "return_type"). rewrite <- E. exact Hin. }
  assert (Hfine : forall e, In e (es_p ++ es_r) -> C02DocLink.entry_fine e) by (intros e He; apply (Hent e He)).
  assert (Hcd : class_docstring (C02DocLink.T1 S (es_p ++ es_r)) = C02DocLink.T3 S (es_p ++ es_r)).
  { rewrite Er. destruct es_p as [|e1 ps']; [contradiction Hne; reflexivity|].
    apply C02DocLink.class_docstring_T1; [exact HS|exact Hall|]. rewrite <- Er. exact Hfine. }
  eexists. eexists. split; [exact Htext|]. rewrite Hcd. unfold C02DocLink.T3. reflexivity.
Qed.

Lemma set_value_str_nl : forall z, set_value_str (nl :: z) = nl :: z.
Proof.
  intros z. unfold set_value_str.
  assert (E : forall q, ascii_eqb nl q = false -> both_ends q (nl :: z) = false).
  { intros q Hq. unfold both_ends. destruct (last_c (nl :: z)); [rewrite Hq; reflexivity|reflexivity]. }
  rewrite (E dq eq_refl), (E sq eq_refl). rewrite andb_false_r. reflexivity.
Qed.

(* the class parser on a class whose docstring constant is ds takes the docstring-derived IR of ds *)
Lemma parse_class_node_shape : forall it ww nm bs ds rest decos,
    parse_class_node it ww (SClass nm bs (SExpr (EConst (VStr ds)) :: rest) decos)
    = parse_class (Some (class_doc_ir_of_const ds)) (CStmt (SClass nm bs (SExpr (EConst (VStr ds)) :: rest) decos))
                  None it ww.
Proof. reflexivity. Qed.

Lemma class_docstring_ir_const : forall text, class_docstring_ir text = class_doc_ir_of_const (class_docstring text).
Proof. reflexivity. Qed.

(* emit.class_ -> parse.class_ at the node, no docstring hypothesis, at the options conformance uses; any class name *)
Theorem class_round_trip_node : forall w pt i cn it ww,
    guard_C09_class w i = true ->
    exists n i',
      emit_class_inst w pt i cn = Ok n
      /\ parse_class_node it ww n = Ok i'
      /\ ir_params i' = norm_params_C02 (ir_params i)
      /\ ir_returns i' = norm_returns_C02 (ir_returns i)
      /\ same_interface i i' = true.
Proof.
  intros w pt i cn it ww Hg. unfold guard_C09_class in Hg. apply andb_true_iff in Hg. destruct Hg as [Hg Hok].
  destruct (C02DocLink.C02_partial_closed_lemma w pt i cn [L "object"] [] false true it ww Hg Hok)
    as [text [s [i' [Ht [He [Hp [Hps [Hrs [_ [_ Hsame]]]]]]]]]].
  destruct (class_docstring_head w false true i Hg Hok) as [text' [z [Ht' Hz]]].
  rewrite Ht in Ht'. injection Ht' as Ht'. subst text'.
  destruct (C02Compose.emit_class_inv _ _ _ _ _ _ _ _ _ _ He) as [text2 [attrs [meth [Htds [_ [Hs _]]]]]].
  rewrite Ht in Htds. injection Htds as Htds. subst text2.
  rewrite Hz, set_value_str_nl, <- Hz in Hs.
  exists s, i'. split; [unfold emit_class_inst; rewrite He; reflexivity|].
  split; [|split; [exact Hps|split; [exact Hrs|exact Hsame]]].
  rewrite Hs, parse_class_node_shape, <- class_docstring_ir_const, <- Hs. exact Hp.
Qed.

(* ------------------------------------------------------------------ *)
(* argparse targets: the node-level round trip, from C04_partial        *)
(* ------------------------------------------------------------------ *)

Lemma map_outcome_agree : forall (f g : str * gparam -> outcome stmt) l,
    forallb (fun kv => outcome_stmt_eqb (f kv) (g kv)) l = true -> map_outcome f l = map_outcome g l.
Proof.
  intros f g l. induction l as [|kv l IH]; intros H; [reflexivity|].
  cbn [forallb] in H. apply andb_true_iff in H. destruct H as [H1 H2].
  cbn [map_outcome]. rewrite (IH H2). unfold outcome_stmt_eqb in H1.
  destruct (f kv) as [x|e]; [|discriminate H1]. destruct (g kv) as [y|e]; [|discriminate H1].
  apply EmitAstFacts.stmt_eqb_eq in H1. subst y. reflexivity.
Qed.

(* with the help texts left alone by textwrap.fill, word_wrap=True emits what word_wrap=False emits *)
Lemma emit_argparse_wrap_neutral : forall pt i fn ft wd ds,
    argparse_wrap_neutral pt i = true ->
    emit_argparse pt i false fn ft wd true ds = emit_argparse pt i false fn ft wd false ds.
Proof.
  intros pt i fn ft wd ds H. unfold emit_argparse.
  rewrite (map_outcome_agree _ _ _ H). reflexivity.
Qed.

(* emit.argparse_function -> parse.argparse_ast at the node, at the options conformance uses *)
Theorem argparse_round_trip_node : forall w pt i fc fr tc tr,
    guard_C09_argparse w pt i = true ->
    exists n i',
      emit_argparse_inst w pt i (fc :: fr) (Some (tc :: tr)) = Ok n
      /\ parse_argparse_node n = Ok i'
      /\ ir_params i' = norm_params_C04 false (ir_params i)
      /\ ir_doc i' = ir_doc i
      /\ same_interface_argparse (argparse_type_norm i) i' = true.
Proof.
  intros w pt i fc fr tc tr Hg. unfold guard_C09_argparse in Hg.
  apply andb_true_iff in Hg. destruct Hg as [Hg Hdl]. apply andb_true_iff in Hg. destruct Hg as [Hg Hwn].
  unfold argparse_doc_layer_ok in Hdl.
  destruct (argparse_docstring_text w i) as [ds|e] eqn:Eds; [|discriminate Hdl].
  destruct (argparse_doc_ir_of_const (Some (set_value_str (indent tab ds ++ tab)))) as [di|e] eqn:Edi;
    [|discriminate Hdl].
  destruct (C04Compose.C04_ast_partial_lemma pt i false fc fr tc tr ds di None None Hg)
    as [s [i' [He [Hp [Hps [Hdoc [_ Hsame]]]]]]].
  exists s, i'. split.
  - unfold emit_argparse_inst. rewrite Eds. rewrite (emit_argparse_wrap_neutral _ _ _ _ _ _ Hwn).
    match goal with |- bind ?x _ = _ => replace x with (@Ok (stmt * ir) (s, i)) by (symmetry; exact He) end. reflexivity.
  - split; [|split; [exact Hps|split; [exact Hdoc|exact Hsame]]].
    assert (Hshape : exists nm a rest decos rets,
               s = SFunc nm a (SExpr (EConst (VStr (set_value_str (indent tab ds ++ tab)))) :: rest) decos rets).
    { unfold emit_argparse in He. cbn [py_or bind] in He.
      destruct (get_internal_body (Some (fc :: fr)) (Some (tc :: tr)) i) as [ib'|]; [|discriminate He].
      cbn [bind] in He.
      destruct (match ir_doc i with
                | Missing => Err KeyError
                | FNone => if false then Err AttributeError else Ok VNone
                | Has d => do t <- fill_if false d; Ok (VStr t)
                end) as [desc'|]; [|discriminate He]. cbn [bind] in He.
      destruct (map_outcome _ (ir_params i)) as [ps'|]; [|discriminate He]. cbn [bind] in He.
      destruct (argparse_body_skip ib') as [sp'|]; [|discriminate He]. cbn [bind] in He.
      destruct (if last_is_return ib' then Ok [] else do r <- argparse_return pt i; Ok [r]) as [ret'|];
        [|discriminate He]. cbn [bind] in He.
      injection He as He. subst s. unfold set_value. do 5 eexists. reflexivity. }
    destruct Hshape as [nm [a [rest [decos [rets Hsh]]]]].
    unfold parse_argparse_node. rewrite Hsh. cbn [docstring_of]. rewrite Edi, <- Hsh. exact Hp.
Qed.

(* ------------------------------------------------------------------ *)
(* the step: a stable target, when parsed, has the interface of the truth *)
(* ------------------------------------------------------------------ *)

Section Step.
  Variable tree : Type.
  Variable parse_file : path -> bytes -> outcome tree.
  Variable find : list str -> tree -> option stmt.
  Variable as_written : stmt -> stmt.
  Variables (w : nat) (pt : ptable) (it ww : bool).

  Notation stable_i :=
    (stable stmt tree ir sync_opts (emit_inst w pt) parse_file find (cmp_inst as_written) opts_inst type_ok_inst).

  (* PREMISE that stays abstract (no model of black / ast.unparse / ast.parse of a whole definition): the parser of
     kind k reads from the written form of an emitted node what it reads from the node.  conformance compares the
     found node with n AND with _as_written(n) = ast_parse(black(to_code(Module([n])))).body[0]; the law
     RENDER_PARSE (that form IS n) would give this at once, but is false of the real code on docstrings (black
     re-indents them), which is why the comparison with the written form exists; class_doc_equiv_parse below reduces
     the premise for class targets to: the two nodes differ in the docstring constant only, and the two constants
     clean to the same docstring-derived IR. *)
  Definition WRITTEN_PARSE_law (k : kind) : Prop :=
    forall i o n, emit_inst w pt k i o = Ok n ->
                  parse_node_inst it ww k (as_written n) = parse_node_inst it ww k n.

  (* the round trip of kind k at the truth IR i, for the options read from whatever node is found *)
  Definition RT_at (k : kind) (search : list str) (i : ir) : Prop :=
    forall o n, emit_inst w pt k i (opts_inst (Some o) search k) = Ok n ->
                exists i', parse_node_inst it ww k n = Ok i' /\ same_interface_inst k i i' = true.

  (* the target is found at its location and what the kind's parser reads there has the interface of the truth *)
  Definition agrees_at (fs : fsys) (file : path) (search : list str) (k : kind) (i : ir) : Prop :=
    exists content t o i',
      fs_get file fs = Some content /\ parse_file file content = Ok t /\ find search t = Some o
      /\ parse_node_inst it ww k o = Ok i' /\ same_interface_inst k i i' = true.

  Lemma stable_agrees_gen : forall k fs file search i,
      WRITTEN_PARSE_law k -> RT_at k search i ->
      stable_i fs file search k i -> agrees_at fs file search k i.
  Proof.
    intros k fs file search i HW HRT [content [t [o [n [H1 [H2 [H3 [H4 [_ [_ H7]]]]]]]]]].
    destruct (HRT o n H4) as [i' [Hp Hs]].
    exists content, t, o, i'. split; [exact H1|]. split; [exact H2|]. split; [exact H3|]. split; [|exact Hs].
    destruct (cmp_inst_true _ _ _ H7) as [E|E]; subst o; [exact Hp|].
    rewrite (HW _ _ _ H4). exact Hp.
  Qed.

  Lemma RT_at_class : forall search i, guard_C09_class w i = true -> RT_at KClass search i.
  Proof.
    intros search i Hg o n He. cbn [emit_inst] in He.
    destruct (class_round_trip_node w pt i (so_name (opts_inst (Some o) search KClass)) it ww Hg)
      as [n' [i' [He' [Hp [_ [_ Hs]]]]]].
    rewrite He in He'. injection He' as He'. subst n'. exists i'. split; [exact Hp|exact Hs].
  Qed.

  Lemma get_function_type_nonempty : forall a, exists c r, get_function_type a = c :: r.
  Proof.
    intros a. unfold get_function_type. destruct (ar_args a) as [|x l]; [do 2 eexists; reflexivity|].
    destruct (str_eqb (a_name x) (L "self")) eqn:E1.
    - apply str_eqb_eq in E1. rewrite E1. do 2 eexists. reflexivity.
    - destruct (str_eqb (a_name x) (L "cls")) eqn:E2; cbn [orb].
      + apply str_eqb_eq in E2. rewrite E2. do 2 eexists. reflexivity.
      + do 2 eexists. reflexivity.
  Qed.

  Lemma RT_at_argparse : forall search i,
      guard_C09_argparse w pt i = true -> last search (default_name KArgparse) <> [] ->
      RT_at KArgparse search i.
  Proof.
    intros search i Hg Hnm o n He. cbn [emit_inst] in He. unfold opts_inst in He. cbn [so_ftype so_name] in He.
    destruct (last search (default_name KArgparse)) as [|fc fr] eqn:En; [contradiction Hnm; reflexivity|].
    destruct o as [nm a b d r| | | | | |]; cbn [bind] in He; try discriminate He.
    destruct (get_function_type_nonempty a) as [tc [tr Et]]. rewrite Et in He.
    destruct (argparse_round_trip_node w pt i fc fr tc tr Hg) as [n' [i' [He' [Hp [_ [_ Hs]]]]]].
    assert (X : @Ok stmt n = Ok n').
    { transitivity (emit_argparse_inst w pt i (fc :: fr) (Some (tc :: tr))); [symmetry; exact He|exact He']. }
    injection X as X. subst n'. exists i'. split; [exact Hp|exact Hs].
  Qed.

  (* (b) of the assignment, per kind *)
  Theorem stable_class_target_same_interface : forall fs file search i,
      WRITTEN_PARSE_law KClass -> guard_C09_class w i = true ->
      stable_i fs file search KClass i -> agrees_at fs file search KClass i.
  Proof.
    intros fs file search i HW Hg Hst. apply (stable_agrees_gen KClass fs file search i HW); [|exact Hst].
    apply RT_at_class. exact Hg.
  Qed.

  Theorem stable_argparse_target_same_interface : forall fs file search i,
      WRITTEN_PARSE_law KArgparse -> guard_C09_argparse w pt i = true ->
      last search (default_name KArgparse) <> [] ->
      stable_i fs file search KArgparse i -> agrees_at fs file search KArgparse i.
  Proof.
    intros fs file search i HW Hg Hnm Hst. apply (stable_agrees_gen KArgparse fs file search i HW); [|exact Hst].
    apply RT_at_argparse; assumption.
  Qed.

  (* class targets: a sufficient, structural form of WRITTEN_PARSE -- the written form differs from the node in the
     docstring constant only, and both constants are read as the same docstring-derived IR *)
  Definition class_doc_equiv (a b : stmt) : Prop :=
    exists nm bs d1 d2 rest decos,
      a = SClass nm bs (SExpr (EConst (VStr d1)) :: rest) decos
      /\ b = SClass nm bs (SExpr (EConst (VStr d2)) :: rest) decos
      /\ class_doc_ir_of_const d1 = class_doc_ir_of_const d2.

  Lemma class_doc_equiv_parse : forall a b,
      class_doc_equiv a b -> parse_class_node it ww a = parse_class_node it ww b.
  Proof.
    intros a b [nm [bs [d1 [d2 [rest [decos [Ea [Eb Hd]]]]]]]]. subst a b.
    rewrite !parse_class_node_shape. unfold parse_class. cbn [find_class is_class_other bind docstring_of tl].
    rewrite Hd. reflexivity.
  Qed.

  Lemma WRITTEN_PARSE_class_of_equiv :
      (forall i o n, emit_inst w pt KClass i o = Ok n -> class_doc_equiv (as_written n) n) ->
      WRITTEN_PARSE_law KClass.
  Proof. intros H i o n He. cbn [parse_node_inst]. apply class_doc_equiv_parse. apply (H i o n He). Qed.

  (* ---------------------------------------------------------------- *)
  (* (c): composed with sync_establishes_agreement                      *)
  (* ---------------------------------------------------------------- *)

  Variable rewrite : list str -> stmt -> tree -> tree * bool.
  Variable render_node : stmt -> outcome bytes.
  Variable render_tree : tree -> outcome bytes.
  Variable parse_truth : kind -> option stmt -> list str -> outcome ir.

  Notation FIX_i :=
    (FIX_law stmt tree ir sync_opts (emit_inst w pt) parse_file find rewrite (cmp_inst as_written) render_node
             render_tree opts_inst type_ok_inst).
  Notation gtruth_i :=
    (ground_truth (emit_inst w pt) parse_file find rewrite (cmp_inst as_written) render_node render_tree opts_inst
                  type_ok_inst parse_truth).

  (* every named target of kind k agrees with the IR i *)
  Definition targets_agree (fs : fsys) (a : sync_args) (truth : path) (k : kind) (i : ir) : Prop :=
    forall files, sa_files a k = Some files ->
      exists nm, name_of a k = Ok nm
                 /\ forall file, In file files -> file <> truth ->
                                 agrees_at fs file (strip_split [ch 46] nm) k i.

  (* the name given for kind k does not end in a dot (its last component names the definition) *)
  Definition name_ends_named (a : sync_args) (k : kind) : Prop :=
    forall nm, name_of a k = Ok nm -> last (strip_split [ch 46] nm) (default_name k) <> [].

  Theorem interface_agreement :
      FIX_i -> REPLACES_law stmt tree find rewrite ->
      forall fs a truth fs1 eff pr,
        sync_args_ok a truth ->
        gtruth_i fs a truth NoFaults = (fs1, Ok eff, pr) ->
        exists i,
          truth_ir stmt tree ir parse_file find parse_truth fs1 a truth = Ok i
          /\ truth_ir stmt tree ir parse_file find parse_truth fs a truth = Ok i
          (* class targets *)
          /\ (WRITTEN_PARSE_law KClass -> guard_C09_class w i = true -> targets_agree fs1 a truth KClass i)
          (* argparse targets *)
          /\ (WRITTEN_PARSE_law KArgparse -> guard_C09_argparse w pt i = true -> name_ends_named a KArgparse ->
              targets_agree fs1 a truth KArgparse i)
          (* any kind, from the round trip of that kind as a premise (function targets: C03) *)
          /\ (forall k, WRITTEN_PARSE_law k ->
                        (forall nm, name_of a k = Ok nm -> RT_at k (strip_split [ch 46] nm) i) ->
                        targets_agree fs1 a truth k i).
  Proof.
    intros HF HR fs a truth fs1 eff pr Hok H.
    pose proof (sync_establishes_agreement _ _ _ _ _ _ _ _ _ _ _ _ _ _ HF HR _ _ _ _ _ _ Hok H) as [i [Hir HG]].
    assert (Hgen : forall k, WRITTEN_PARSE_law k ->
                             (forall nm, name_of a k = Ok nm -> RT_at k (strip_split [ch 46] nm) i) ->
                             targets_agree fs1 a truth k i).
    { intros k HW HRT files Hfiles.
      assert (Hk : In k kinds_in_order) by (destruct k; cbn; tauto).
      destruct (HG k Hk files Hfiles) as [nm [Hnm Hall]].
      exists nm. split; [exact Hnm|]. intros file Hin Hne.
      apply (stable_agrees_gen k fs1 file _ i HW (HRT nm Hnm)). apply Hall; assumption. }
    exists i. split; [exact Hir|]. split.
    - assert (Hsame : fs_get truth fs1 = fs_get truth fs).
      { destruct Hok as [_ [_ HT]].
        apply (ground_truth_truth_untouched _ _ _ _ _ _ _ _ _ _ _ _ _ _ _ _ _ _ _ _ _ H).
        intros t Hin Hne. apply HT. apply proc_In. split; assumption. }
      rewrite <- (truth_ir_ext _ _ _ _ _ _ fs1 fs a truth Hsame). exact Hir.
    - split; [|split; [|exact Hgen]].
      + intros HW Hg. apply (Hgen KClass HW). intros nm _. apply RT_at_class. exact Hg.
      + intros HW Hg Hnm. apply (Hgen KArgparse HW). intros nm En. apply RT_at_argparse; [exact Hg|].
        apply (Hnm nm En).
  Qed.

  (* ---------------------------------------------------------------- *)
  (* from FIX alone (REPLACES is false of the Locate rewriter on FunctionDef nodes): agreement, or the rewriter *)
  (* declined a found definition that differs                           *)
  (* ---------------------------------------------------------------- *)

  Definition declined_at (fs : fsys) (file : path) (search : list str) (k : kind) (i : ir) : Prop :=
    exists content t o n,
      fs_get file fs = Some content /\ parse_file file content = Ok t /\ find search t = Some o
      /\ emit_inst w pt k i (opts_inst (Some o) search k) = Ok n
      /\ cmp_inst as_written o n = false /\ snd (rewrite search n t) = false.

  Notation settled_i :=
    (settled stmt tree ir sync_opts (emit_inst w pt) parse_file find rewrite (cmp_inst as_written) opts_inst
             type_ok_inst).

  Lemma settled_agrees_or_declined : forall k fs file search i,
      WRITTEN_PARSE_law k -> RT_at k search i ->
      settled_i fs file search k i -> agrees_at fs file search k i \/ declined_at fs file search k i.
  Proof.
    intros k fs file search i HW HRT [content [t [o [n [H1 [H2 [H3 [H4 [H5 [H6 H7]]]]]]]]]].
    destruct (cmp_inst as_written o n) eqn:Ec.
    - left. apply (stable_agrees_gen k fs file search i HW HRT). exists content, t, o, n.
      split; [exact H1|]. split; [exact H2|]. split; [exact H3|]. split; [exact H4|]. split; [exact H5|].
      split; [exact H6|exact Ec].
    - right. destruct H7 as [H7|H7]; [discriminate H7|]. exists content, t, o, n.
      split; [exact H1|]. split; [exact H2|]. split; [exact H3|]. split; [exact H4|]. split; [exact Ec|exact H7].
  Qed.

  Definition targets_settle (fs : fsys) (a : sync_args) (truth : path) (k : kind) (i : ir) : Prop :=
    forall files, sa_files a k = Some files ->
      exists nm, name_of a k = Ok nm
                 /\ forall file, In file files -> file <> truth ->
                                 agrees_at fs file (strip_split [ch 46] nm) k i
                                 \/ declined_at fs file (strip_split [ch 46] nm) k i.

  Theorem interface_agreement_settled :
      FIX_i ->
      forall fs a truth fs1 eff pr,
        sync_args_ok a truth ->
        gtruth_i fs a truth NoFaults = (fs1, Ok eff, pr) ->
        exists i,
          truth_ir stmt tree ir parse_file find parse_truth fs1 a truth = Ok i
          /\ (WRITTEN_PARSE_law KClass -> guard_C09_class w i = true -> targets_settle fs1 a truth KClass i)
          /\ (WRITTEN_PARSE_law KArgparse -> guard_C09_argparse w pt i = true -> name_ends_named a KArgparse ->
              targets_settle fs1 a truth KArgparse i)
          /\ (forall k, WRITTEN_PARSE_law k ->
                        (forall nm, name_of a k = Ok nm -> RT_at k (strip_split [ch 46] nm) i) ->
                        targets_settle fs1 a truth k i).
  Proof.
    intros HF fs a truth fs1 eff pr Hok H.
    pose proof (sync_establishes_settled _ _ _ _ _ _ _ _ _ _ _ _ _ _ HF _ _ _ _ _ _ Hok H) as [i [Hir HG]].
    assert (Hgen : forall k, WRITTEN_PARSE_law k ->
                             (forall nm, name_of a k = Ok nm -> RT_at k (strip_split [ch 46] nm) i) ->
                             targets_settle fs1 a truth k i).
    { intros k HW HRT files Hfiles.
      assert (Hk : In k kinds_in_order) by (destruct k; cbn; tauto).
      destruct (HG k Hk files Hfiles) as [nm [Hnm Hall]].
      exists nm. split; [exact Hnm|]. intros file Hin Hne.
      apply (settled_agrees_or_declined k fs1 file _ i HW (HRT nm Hnm)). apply Hall; assumption. }
    exists i. split; [exact Hir|]. split; [|split; [|exact Hgen]].
    - intros HW Hg. apply (Hgen KClass HW). intros nm _. apply RT_at_class. exact Hg.
    - intros HW Hg Hnm. apply (Hgen KArgparse HW). intros nm En. apply RT_at_argparse; [exact Hg|].
      apply (Hnm nm En).
  Qed.
End Step.

(* argparse targets: the same reduction.  parse.argparse_ast uses the docstring constant through the docstring-derived
   IR, and through its text only at a  return (..., ...)  statement *)
Lemma argparse_step_indep : forall di fb fb' st node,
    is_tuple_return node = false -> argparse_step di fb st node = argparse_step di fb' st node.
Proof.
  intros di fb fb' st node H. unfold argparse_step.
  destruct (argparse_stmt_declined node); [reflexivity|].
  destruct node as [n a b d r|n bs b d|t a v|ts v|e|e|t h bl]; try reflexivity.
  destruct e as [e|]; [|reflexivity].
  destruct e; try reflexivity. discriminate H.
Qed.

Lemma argparse_loop_indep : forall di fb fb' body st,
    forallb (fun s => negb (is_tuple_return s)) body = true ->
    argparse_loop di fb st body = argparse_loop di fb' st body.
Proof.
  intros di fb fb' body. induction body as [|x r IH]; intros st H; [reflexivity|].
  cbn [forallb] in H. apply andb_true_iff in H. destruct H as [Hx Hr]. apply negb_true_iff in Hx.
  cbn [argparse_loop]. rewrite (argparse_step_indep di fb fb' st x Hx).
  destruct (argparse_step di fb' st x) as [st'|e]; [|reflexivity]. cbn [bind]. apply IH. exact Hr.
Qed.

Definition argparse_doc_equiv (a b : stmt) : Prop :=
  exists nm args d1 d2 rest decos rets,
    a = SFunc nm args (SExpr (EConst (VStr d1)) :: rest) decos rets
    /\ b = SFunc nm args (SExpr (EConst (VStr d2)) :: rest) decos rets
    /\ argparse_doc_ir_of_const (Some d1) = argparse_doc_ir_of_const (Some d2)
    /\ forallb (fun s => negb (is_tuple_return s)) rest = true.

Lemma argparse_doc_equiv_parse : forall a b,
    argparse_doc_equiv a b -> parse_argparse_node a = parse_argparse_node b.
Proof.
  intros a b [nm [args [d1 [d2 [rest [decos [rets [Ea [Eb [Hd Hr]]]]]]]]]]. subst a b.
  unfold parse_argparse_node. cbn [docstring_of]. rewrite Hd.
  unfold parse_argparse_ast. cbn [is_func_other docstring_of tl].
  destruct (argparse_doc_ir_of_const (Some d2)) as [di|e]; [|reflexivity]. cbn [bind].
  rewrite (argparse_loop_indep di (SExpr (EConst (VStr d1)) :: rest) (SExpr (EConst (VStr d2)) :: rest) rest _ Hr).
  reflexivity.
Qed.

Lemma written_form_argparse : forall (as_written : stmt -> stmt) (w : nat) (pt : ptable) (it ww : bool),
    (forall i o n, emit_inst w pt KArgparse i o = Ok n -> argparse_doc_equiv (as_written n) n) ->
    WRITTEN_PARSE_law as_written w pt it ww KArgparse.
Proof.
  intros as_written w pt it ww H i o n He. cbn [parse_node_inst]. apply argparse_doc_equiv_parse. apply (H i o n He).
Qed.

Lemma written_form_class : forall (as_written : stmt -> stmt) (w : nat) (pt : ptable) (it ww : bool),
    (forall a b, class_doc_equiv a b -> parse_class_node it ww a = parse_class_node it ww b)
    /\ ((forall i o n, emit_inst w pt KClass i o = Ok n -> class_doc_equiv (as_written n) n) ->
        WRITTEN_PARSE_law as_written w pt it ww KClass).
Proof.
  intros as_written w pt it ww. split; [apply class_doc_equiv_parse|apply WRITTEN_PARSE_class_of_equiv].
Qed.

(* ------------------------------------------------------------------ *)
(* non-vacuity                                                          *)
(* ------------------------------------------------------------------ *)

Definition gp9 (d t : str) (v : pyval) : gparam := mkG (Has d) (Has t) (Some (DV v)).

(* a truth with three parameters, each with a default *)
Definition ir9 : ir :=
  mkIR FNone (Has (L "static")) (Has (L "Train a model."))
       [(L "epochs", gp9 (L "number of passes.") (L "int") (VInt 5));
        (L "name", gp9 (L "name of the run,") (L "str") (VStr (L "mnist")));
        (L "rate", gp9 (L "the learning rate") (L "float") (VFloat (L "0.5")))]
       FNone None.

Definition node9 : stmt :=
  match emit_inst 100 [] KClass ir9 (opts_inst None [L "Config"] KClass) with
  | Ok n => n
  | Err _ => SReturn None
  end.

(* a toy tree layer: the file holding the text C9 parses to the module [node9]; find takes the first statement *)
Module Toy9.
  Definition parse_file (p : path) (c : bytes) : outcome (list stmt) :=
    if str_eqb c (L "C9") then Ok [node9] else Ok [].
  Definition find (s : list str) (t : list stmt) : option stmt := hd_error t.
  Definition fs : fsys := [(L "target.py", L "C9")].
End Toy9.

Lemma ir9_in_guard : guard_C09_class 100 ir9 = true.
Proof. vm_compute. reflexivity. Qed.

Lemma ir9_stable :
  stable stmt (list stmt) ir sync_opts (emit_inst 100 []) Toy9.parse_file Toy9.find (cmp_inst (fun n => n)) opts_inst
         type_ok_inst Toy9.fs (L "target.py") [L "Config"] KClass ir9.
Proof.
  exists (L "C9"), [node9], node9, node9.
  split; [reflexivity|]. split; [reflexivity|]. split; [reflexivity|].
  split; [vm_compute; reflexivity|]. split; [discriminate|]. split; [vm_compute; reflexivity|].
  apply cmp_inst_refl.
Qed.

(* the class target of the example: in the guard, stable, hence -- by the theorem -- parsed with the same interface;
   and what the parser reads is spelled out *)
Example class_target_example :
  guard_C09_class 100 ir9 = true
  /\ agrees_at (list stmt) Toy9.parse_file Toy9.find false true Toy9.fs (L "target.py") [L "Config"] KClass ir9
  /\ (exists i', parse_node_inst false true KClass node9 = Ok i'
                 /\ map fst (ir_params i') = [L "epochs"; L "name"; L "rate"]
                 /\ map (fun kv => g_default (snd kv)) (ir_params i')
                    = [Some (DV (VInt 5)); Some (DV (VStr (L "mnist"))); Some (DV (VFloat (L "0.5")))]
                 /\ same_interface ir9 i' = true).
Proof.
  split; [exact ir9_in_guard|]. split.
  - apply (stable_class_target_same_interface (list stmt) Toy9.parse_file Toy9.find (fun n => n) 100 [] false true).
    + intros i o n _. reflexivity.
    + exact ir9_in_guard.
    + exact ir9_stable.
  - vm_compute. eexists. split; [reflexivity|]. repeat split; reflexivity.
Qed.

(* the same truth as an argparse target: in the guard of the argparse round trip, which it passes at the node *)
Definition node9a : stmt :=
  match emit_inst 100 [] KArgparse ir9
                  (opts_inst (Some (SFunc (L "set_cli_args") no_arguments [] [] None)) [L "set_cli_args"] KArgparse) with
  | Ok n => n
  | Err _ => SReturn None
  end.

Example argparse_target_example :
  guard_C09_argparse 100 [] ir9 = true
  /\ emit_inst 100 [] KArgparse ir9
               (opts_inst (Some (SFunc (L "set_cli_args") no_arguments [] [] None)) [L "set_cli_args"] KArgparse)
     = Ok node9a
  /\ (exists i', parse_node_inst false true KArgparse node9a = Ok i'
                 /\ map fst (ir_params i') = [L "epochs"; L "name"; L "rate"]
                 /\ same_interface_inst KArgparse ir9 i' = true).
Proof.
  split; [vm_compute; reflexivity|]. split; [vm_compute; reflexivity|].
  vm_compute. eexists. split; [reflexivity|]. split; reflexivity.
Qed.

(* the clause argparse_wrap_neutral is needed: inside guard_C04_ast, a help text longer than the line length is
   re-flowed by word_wrap=True (the option conformance leaves on) and comes back with a line break in it.
   Real code: emit.argparse_function then parse.argparse_ast on this IR returns the help text with a newline after
   the word final. *)
Definition long_help9 : str :=
  L "number of passes over the data set that the optimiser makes before it stops and reports the final loss value".

Definition ir9_long : ir :=
  mkIR FNone (Has (L "static")) (Has (L "Train a model."))
       [(L "epochs", gp9 long_help9 (L "int") (VInt 5))] FNone None.

Lemma argparse_wrap_needed :
  guard_C04_ast ir9_long = true /\ argparse_wrap_neutral [] ir9_long = false
  /\ argparse_doc_layer_ok 100 ir9_long = true
  /\ match emit_argparse_inst 100 [] ir9_long (L "set_cli_args") (Some (L "static")) with
     | Ok n => match parse_argparse_node n with
               | Ok i' => same_interface_argparse (argparse_type_norm ir9_long) i' = false
               | Err _ => False
               end
     | Err _ => False
     end.
Proof. vm_compute. repeat split; reflexivity. Qed.

(* the function instance composes as well: at this truth the emitted function, parsed at the node, has the same
   interface (a computed point; for all IRs the round trip of function targets is the premise RT_at) *)
Example function_target_point :
  match emit_inst 100 [] KFunction ir9
                  (opts_inst (Some (SFunc (L "train") no_arguments [] [] None)) [L "train"] KFunction) with
  | Ok n => match parse_node_inst false true KFunction n with
            | Ok i' => same_interface_inst KFunction ir9 i' = true
                       /\ map fst (ir_params i') = [L "epochs"; L "name"; L "rate"]
            | Err _ => False
            end
  | Err _ => False
  end.
Proof. vm_compute. split; reflexivity. Qed.
