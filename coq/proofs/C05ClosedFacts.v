(* C05ClosedFacts: C05 (any chain preserves the interface) and C08 (one pass normalises) for the kinds whose round trip
   is closed by a theorem -- ReST, numpydoc, google, class, argparse -- over the concrete converters of
   model/C05Closed.v, on the executable domain closed_dom, with NO per-kind law hypothesis.
   1. on complete descriptions [preserved] determines summary and parameters exactly;
   2. closed_dom looks at a description only through summary, parameters, absence of a return entry and the shape of
      the carried body;
   3. what each parser writes into the other fields (name, type, return entry, carried body);
   4. the carried body  return argument_parser  that parse.argparse_ast records is harmless for emit.class_ and
      emit.argparse_function (guard_C02_ast / guard_C04_ast alone are NOT closed under the argparse conversion);
   5. the law of each kind on closed_dom (round trip from C01 / C01Ext / C02Ext / C04, closure from 1-4);
   6. every chain over the closed kinds; 7. C08: the converted description is a fixed point of its conversion. *)
From Coq Require Import List Ascii Bool Arith ZArith Lia.
From Coq Require String.
Import String.StringSyntax.
From DT Require Import PyStr Sexp PyVal TyExpr PureUtils Defaults PyAst IR Extracted C17Spec DocParse C01Spec C05Spec.
From DT Require Import EmitAst ParseAst C02Spec C02Codec C02DocLinkDefs C04Spec C04Codec C05Closed.
From DT Require Import PyStrFacts.
From DT Require DocEmit DocParseNG C01SpecNG SyncProps.
From DT Require DefaultsFacts EmitAstFacts ParseAstFacts DocParseFacts DocParseNGFacts NGScanLink.
From DT Require SplitFacts C02Compose C02DocLink C04Compose C05Facts C08Facts.
Import ListNotations.

(* ------------------------------------------------------------------ 1. complete descriptions *)

Definition no_ret (i : ir) : Prop := forall g, ir_returns i <> Has g.

Lemma no_ret_fld_opt : forall i, no_ret i <-> fld_opt (ir_returns i) = None.
Proof.
  intros i. unfold no_ret. split; intros H.
  - destruct (ir_returns i) as [| |g]; try reflexivity. exfalso. apply (H g). reflexivity.
  - intros g E. rewrite E in H. discriminate H.
Qed.

Lemma fld_str_Has : forall f x, fld_str f = Some x -> f = Has x.
Proof. intros [| |[|c r]] x H; cbn in H; try discriminate. injection H as H. subst. reflexivity. Qed.

Lemma opt_eqb_str_Some : forall x o, opt_eqb str_eqb (Some x) o = true -> o = Some x.
Proof. intros x [y|] H; cbn in H; [|discriminate]. apply str_eqb_eq in H. subst. reflexivity. Qed.

Lemma complete_entry_eq : forall g g', complete_entry g = true -> preserved_entry g g' = true -> g' = g.
Proof.
  intros [gd gt gdef] [gd' gt' gdef'] Hc Hp. unfold complete_entry in Hc. cbn [g_doc g_typ g_default] in Hc.
  destruct (fld_str gd) as [x|] eqn:Ed; [|discriminate]. destruct (fld_str gt) as [t|] eqn:Et; [|discriminate].
  destruct gdef as [[v|e|r]|]; try discriminate. apply negb_true_iff in Hc.
  apply C05Facts.preserved_entry_split in Hp. destruct Hp as [Ht [Hd Hv]].
  unfold C01Spec.same_typ in Ht. unfold C01Spec.same_prose in Hd. cbn [g_doc g_typ g_default] in *.
  rewrite Et in Ht. rewrite Ed in Hd. apply opt_eqb_str_Some in Ht. apply opt_eqb_str_Some in Hd.
  rewrite (fld_str_Has _ _ Ed), (fld_str_Has _ _ Et), (fld_str_Has _ _ Ht), (fld_str_Has _ _ Hd).
  destruct gdef' as [y|]; [|discriminate Hv]. cbn [same_default_ir] in Hv.
  assert (Hn : none_like_d (DV v) = false) by exact Hc. rewrite Hn in Hv. cbn [andb] in Hv. rewrite orb_false_r in Hv.
  apply C05Facts.dval_eqb_eq in Hv. subst y. reflexivity.
Qed.

Lemma complete_params_eq : forall ps ps',
    forallb (fun kv => complete_entry (snd kv)) ps = true -> preserved_params ps ps' = true -> ps' = ps.
Proof.
  induction ps as [|[n g] ps IH]; intros [|[n' g'] ps'] Hc Hp; cbn [preserved_params] in Hp; try discriminate; [reflexivity|].
  cbn [forallb snd] in Hc. apply andb_true_iff in Hc. destruct Hc as [Hg Hc].
  apply andb_true_iff in Hp. destruct Hp as [Hp Hr]. apply andb_true_iff in Hp. destruct Hp as [Hn He].
  apply str_eqb_eq in Hn. subst n'. rewrite (complete_entry_eq g g' Hg He), (IH ps' Hc Hr). reflexivity.
Qed.

Lemma complete_inv : forall i, complete i = true ->
    (exists d, ir_doc i = Has d) /\ ir_params i <> []
    /\ forallb (fun kv => complete_entry (snd kv)) (ir_params i) = true /\ no_ret i.
Proof.
  intros i H. unfold complete in H.
  apply andb_true_iff in H. destruct H as [H Hr]. apply andb_true_iff in H. destruct H as [H Hf].
  apply andb_true_iff in H. destruct H as [Hd Hne].
  split; [destruct (ir_doc i) as [| |d]; try discriminate; exists d; reflexivity|].
  split; [destruct (ir_params i); [discriminate|discriminate]|]. split; [exact Hf|].
  intros g E. rewrite E in Hr. discriminate.
Qed.

(* on a complete description, preserved determines the summary and the parameters, and there is no return entry *)
Theorem complete_preserved_eq : forall i i', complete i = true -> preserved i i' = true ->
    ir_doc i' = ir_doc i /\ ir_params i' = ir_params i /\ no_ret i'.
Proof.
  intros i i' Hc Hp. destruct (complete_inv i Hc) as [[d Hd] [_ [Hf Hnr]]].
  apply C05Facts.preserved_split in Hp. destruct Hp as [Hs [Hps Hr]]. split; [|split].
  - unfold same_summary in Hs. rewrite Hd in *. cbn [fld_opt] in Hs. apply opt_eqb_str_Some in Hs.
    destruct (ir_doc i') as [| |d']; try discriminate. cbn in Hs. injection Hs as Hs. subst. reflexivity.
  - apply complete_params_eq; assumption.
  - apply no_ret_fld_opt. apply no_ret_fld_opt in Hnr. unfold preserved_returns in Hr. rewrite Hnr in Hr.
    destruct (fld_opt (ir_returns i')); [discriminate|reflexivity].
Qed.

(* ------------------------------------------------------------------ 2. what closed_dom looks at *)

Definition core (i : ir) : ir := mkIR FNone FNone (ir_doc i) (ir_params i) FNone None.

Ltac core_tac :=
  match goal with
  | |- forall i : ir, _ => intros [n t d ps r b] H; destruct r as [| |g]; [| |exfalso; apply (H g); reflexivity]; reflexivity
  end.

Lemma core_chain_safe : forall ks i, no_ret i -> chain_safe ks i = chain_safe ks (core i).
Proof. intros ks. core_tac. Qed.
Lemma core_complete : forall i, no_ret i -> complete i = complete (core i).
Proof. core_tac. Qed.
Lemma core_rest : forall i, no_ret i -> guard_C01_rest false i = guard_C01_rest false (core i).
Proof. core_tac. Qed.
Lemma core_ng : forall st i, no_ret i -> C01SpecNG.guard_C01_ng st i = C01SpecNG.guard_C01_ng st (core i).
Proof. intros st. core_tac. Qed.
Lemma core_c02 : forall i, no_ret i -> guard_C02_ast (clear_internal i) = guard_C02_ast (core i).
Proof. core_tac. Qed.
Lemma core_link : forall w e ww i, no_ret i -> doc_link_ok w e ww i = doc_link_ok w e ww (core i).
Proof. intros w e ww. core_tac. Qed.
Lemma core_c04 : forall i, no_ret i -> guard_C04_ast (clear_internal i) = guard_C04_ast (core i).
Proof. core_tac. Qed.

Definition dom_static (o : cenv) (i : ir) : bool :=
  chain_safe closed_kinds i && complete i && guard_C01_rest false i
  && C01SpecNG.guard_C01_ng DocParseNG.SNumpydoc i && C01SpecNG.guard_C01_ng DocParseNG.SGoogle i
  && guard_C02_ast (clear_internal i) && doc_link_ok (ce_w o) (ce_edd o) (ce_ww o) i && guard_C04_ast (clear_internal i).

Lemma closed_dom_split : forall o i, closed_dom o i = dom_static o i && internal_ok i.
Proof. reflexivity. Qed.

Lemma dom_static_core : forall o i, no_ret i -> dom_static o i = dom_static o (core i).
Proof.
  intros o i H. unfold dom_static.
  rewrite (core_chain_safe _ i H), (core_complete i H), (core_rest i H), (core_ng _ i H), (core_ng _ i H),
    (core_c02 i H), (core_link _ _ _ i H), (core_c04 i H).
  reflexivity.
Qed.

Record core_eq (i i' : ir) : Prop := mkCoreEq {
  ce_doc : ir_doc i' = ir_doc i;
  ce_params : ir_params i' = ir_params i;
  ce_ret : no_ret i';
  ce_int : internal_ok i' = true
}.

Lemma core_eq_core : forall i i', core_eq i i' -> core i' = core i.
Proof. intros i i' [Hd Hp _ _]. unfold core. rewrite Hd, Hp. reflexivity. Qed.

Lemma closed_dom_inv : forall o i, closed_dom o i = true ->
    chain_safe closed_kinds i = true /\ complete i = true /\ guard_C01_rest false i = true
    /\ C01SpecNG.guard_C01_ng DocParseNG.SNumpydoc i = true /\ C01SpecNG.guard_C01_ng DocParseNG.SGoogle i = true
    /\ guard_C02_ast (clear_internal i) = true /\ doc_link_ok (ce_w o) (ce_edd o) (ce_ww o) i = true
    /\ guard_C04_ast (clear_internal i) = true /\ internal_ok i = true.
Proof.
  intros o i H. unfold closed_dom in H. do 8 (apply andb_true_iff in H; destruct H as [H ?]). repeat split; assumption.
Qed.

Lemma closed_dom_no_ret : forall o i, closed_dom o i = true -> no_ret i.
Proof. intros o i H. destruct (closed_dom_inv o i H) as [_ [Hc _]]. apply (complete_inv i Hc). Qed.

(* the closure argument, once: a description with the same summary and parameters, no return entry and a harmless
   carried body is in the domain again *)
Theorem closed_dom_core_eq : forall o i i', closed_dom o i = true -> core_eq i i' -> closed_dom o i' = true.
Proof.
  intros o i i' H Hce. pose proof (closed_dom_no_ret o i H) as Hnr. rewrite closed_dom_split in *.
  apply andb_true_iff in H. destruct H as [Hs _]. apply andb_true_iff. split; [|exact (ce_int _ _ Hce)].
  rewrite (dom_static_core o i' (ce_ret _ _ Hce)), (core_eq_core i i' Hce), <- (dom_static_core o i Hnr). exact Hs.
Qed.

Lemma core_eq_of_preserved : forall o i i',
    closed_dom o i = true -> preserved i i' = true -> internal_ok i' = true -> core_eq i i'.
Proof.
  intros o i i' H Hp Hi. destruct (closed_dom_inv o i H) as [_ [Hc _]].
  destruct (complete_preserved_eq i i' Hc Hp) as [Hd [Hps Hr]]. constructor; assumption.
Qed.

Lemma core_eq_preserved : forall o i i', closed_dom o i = true -> core_eq i i' -> preserved i i' = true.
Proof.
  intros o i i' H [Hd Hp Hr _]. pose proof (closed_dom_no_ret o i H) as Hnr.
  apply C05Facts.preserved_split. split; [|split].
  - unfold same_summary. rewrite Hd. apply C05Facts.opt_eqb_refl. exact str_eqb_refl.
  - rewrite Hp. apply C05Facts.preserved_params_refl.
  - unfold preserved_returns. apply no_ret_fld_opt in Hr. apply no_ret_fld_opt in Hnr. rewrite Hr, Hnr. reflexivity.
Qed.

(* ------------------------------------------------------------------ 3. what the docstring parsers write elsewhere *)

Ltac binv H :=
  let a := fresh "a" in
  let Ha := fresh "Ha" in
  apply ParseAstFacts.bind_Ok_inv in H; destruct H as [a [Ha H]].

Lemma parse_dot_internal : forall t a b c i',
    parse_dot_docstring ng_unmodelled t a b c = Ok i' -> ir_internal i' = None.
Proof.
  intros t a b c i' H. unfold parse_dot_docstring, parse_docstring in H.
  destruct t as [|ch0 t]; [injection H as H; subst i'; reflexivity|].
  match type of H with match ?x with Rest => _ | Google => _ | Numpydoc => _ end = _ => destruct x end.
  - unfold parse_rest in H. binv H. binv H. binv H. binv H. injection H as H. subst i'. reflexivity.
  - unfold ng_unmodelled in H. cbn [bind] in H. discriminate H.
  - unfold ng_unmodelled in H. cbn [bind] in H. discriminate H.
Qed.

Lemma parse_ng_internal : forall style fl t i', DocParseNG.parse_ng style fl t = Ok i' -> ir_internal i' = None.
Proof.
  intros style fl t i' H. unfold DocParseNG.parse_ng in H.
  revert H. destruct (negb (forallb DocParseNG.in_alphabet t)); intros H; [discriminate H|].
  revert H. destruct (DocParseNG.is_empty t); intros H; [injection H as H; subst i'; reflexivity|].
  binv H. binv H. destruct a0 as [[doc params] returns]. binv H. binv H. injection H as H. subst i'. reflexivity.
Qed.

Lemma internal_ok_None : forall i, ir_internal i = None -> internal_ok i = true.
Proof. intros i H. unfold internal_ok. rewrite H. reflexivity. Qed.

(* ------------------------------------------------------------------ 5a. the laws of the docstring kinds *)

Theorem law_rest : forall o, kind_law (conv_model o) (closed_dom o) KRest.
Proof.
  intros o i H. destruct (closed_dom_inv o i H) as [_ [_ [Hg _]]].
  destruct (C05Facts.RT_rest_roundtrip i Hg) as [i' [Hc Hp]].
  exists i'. split; [exact Hc|]. split; [exact Hp|].
  apply (closed_dom_core_eq o i i' H). apply (core_eq_of_preserved o i i' H Hp).
  apply internal_ok_None. unfold conv_rest in Hc. binv Hc. exact (parse_dot_internal _ _ _ _ _ Hc).
Qed.

Lemma conv_ng_roundtrip : forall style i, C01SpecNG.guard_C01_ng style i = true ->
    exists i', conv_ng style i = Ok i' /\ preserved i i' = true.
Proof.
  intros style i Hg. destruct (NGScanLink.C01_ng_partial style i Hg) as [text [i' [Ht [_ [Hp Hs]]]]].
  exists i'. split; [unfold conv_ng; rewrite Ht; exact Hp|]. apply C05Facts.ng_same_interface_preserved. exact Hs.
Qed.

Lemma law_ng : forall o style,
    (forall i, closed_dom o i = true -> C01SpecNG.guard_C01_ng style i = true) ->
    forall i, closed_dom o i = true ->
    exists i', conv_ng style i = Ok i' /\ preserved i i' = true /\ closed_dom o i' = true.
Proof.
  intros o style Hin i H. destruct (conv_ng_roundtrip style i (Hin i H)) as [i' [Hc Hp]].
  exists i'. split; [exact Hc|]. split; [exact Hp|].
  apply (closed_dom_core_eq o i i' H). apply (core_eq_of_preserved o i i' H Hp).
  apply internal_ok_None. unfold conv_ng in Hc. binv Hc. exact (parse_ng_internal _ _ _ _ Hc).
Qed.

Theorem law_numpydoc : forall o, kind_law (conv_model o) (closed_dom o) KNumpydoc.
Proof. intros o. unfold kind_law. apply (law_ng o DocParseNG.SNumpydoc). intros i H. apply (closed_dom_inv o i H). Qed.

Theorem law_google : forall o, kind_law (conv_model o) (closed_dom o) KGoogle.
Proof. intros o. unfold kind_law. apply (law_ng o DocParseNG.SGoogle). intros i H. apply (closed_dom_inv o i H). Qed.

(* ------------------------------------------------------------------ 4. the carried body parse.argparse_ast records *)

Lemma remnant_eq : forall b, stmts_eqb_remnant b = true -> b = argparse_remnant.
Proof.
  intros b H. unfold stmts_eqb_remnant in H.
  destruct b as [|s b']; [discriminate H|]. destruct s; try discriminate H.
  destruct e as [e|]; [|discriminate H]. destruct e; try discriminate H.
  destruct b'; [|discriminate H].
  apply str_eqb_eq in H. subst. reflexivity.
Qed.

Lemma internal_ok_cases : forall i, internal_ok i = true ->
    (match ir_internal i with Some it => in_body it | None => [] end) = []
    \/ exists it fnm, ir_internal i = Some it /\ in_body it = argparse_remnant
                      /\ in_from_name it = Has fnm /\ in_from_type it = Has (L "static").
Proof.
  intros i H. unfold internal_ok in H. destruct (ir_internal i) as [it|]; [|left; reflexivity].
  destruct (in_body it) as [|s b] eqn:Eb; [left; reflexivity|]. right.
  apply andb_true_iff in H. destruct H as [H Ht]. apply andb_true_iff in H. destruct H as [Hb Hn].
  apply remnant_eq in Hb. destruct (in_from_name it) as [| |fnm] eqn:En; try discriminate Hn.
  destruct (in_from_type it) as [| |ft] eqn:Et; try discriminate Ht. apply str_eqb_eq in Ht. subst ft.
  rewrite Hb in Eb. exists it, fnm. repeat split; try assumption; reflexivity.
Qed.

Lemma get_internal_body_cases : forall tn tt i, internal_ok i = true ->
    get_internal_body tn tt i = Ok [] \/ get_internal_body tn tt i = Ok argparse_remnant.
Proof.
  intros tn tt i H. unfold get_internal_body. destruct (internal_ok_cases i H) as [E|[it [fnm [Ei [Eb [En Et]]]]]].
  - left. destruct (ir_internal i) as [it|]; [|reflexivity]. rewrite E. reflexivity.
  - rewrite Ei, Eb, En, Et. unfold argparse_remnant at 1.
    destruct (fld_eq_opt (Has fnm) tn); [|left; reflexivity].
    destruct (fld_eq_opt (Has (L "static")) tt); [right|left]; reflexivity.
Qed.

Lemma filter_calls : forall calls rest,
    filter (fun s => negb (is_argparse_add_argument s)) (map ParseAstFacts.call_stmt calls ++ rest)
    = filter (fun s => negb (is_argparse_add_argument s)) rest.
Proof.
  induction calls as [|c calls IH]; intros rest; [reflexivity|].
  cbn [map app filter]. 
  assert (E : is_argparse_add_argument (ParseAstFacts.call_stmt c) = true) by reflexivity.
  rewrite E. cbn [negb]. apply IH.
Qed.

Definition argparse_out (o : cenv) (i : ir) : ir :=
  mkIR (fld_of_opt (ce_afn o))
       (Has (match truthy_opt_str (ce_aft o) with Some t => t | None => L "static" end))
       (ir_doc i) (ir_params i) Missing
       (Some (mkInternal argparse_remnant (Has (ce_fn o)) (Has (L "static")))).

(* the argparse conversion in closed form, with or without the remnant as carried body *)
Theorem argparse_full : forall pt i edd fc fr tc tr ds di ft' fnm,
    internal_ok i = true -> guard_C04_ast (clear_internal i) = true ->
    exists s,
      emit_argparse pt i edd (Some (fc :: fr)) (Some (tc :: tr)) false false (Ok ds) = Ok (s, i)
      /\ parse_argparse_ast (Ok di) s ft' fnm
         = Ok (mkIR (fld_of_opt fnm) (Has (match truthy_opt_str ft' with Some t => t | None => L "static" end))
                    (ir_doc i) (norm_params_C04 false (ir_params i)) Missing
                    (Some (mkInternal argparse_remnant (Has (fc :: fr)) (Has (L "static"))))).
Proof.
  intros pt i edd fc fr tc tr ds di ft' fnm Hint Hg.
  destruct (C04Compose.guard_C04_ast_inv (clear_internal i) Hg) as [Hnd [Hpok [Hret [_ [[d [Hdoc Hsv]] Hexp]]]]].
  cbn [clear_internal ir_params ir_doc] in Hnd, Hpok, Hdoc.
  assert (Hret' : return_with_default i = None) by exact Hret.
  destruct (C04Compose.argparse_loop_codec pt edd di
              (SExpr (EConst (VStr (set_value_str (indent tab ds ++ tab)))) :: description_assign (VStr d)
                     :: [] ++ [SReturn (Some argparser)])
              (ir_params i) [] (Has (set_value_str d)) Missing false Hpok Hnd) as [calls [Hcalls _]].
  assert (Hemit : emit_argparse pt i edd (Some (fc :: fr)) (Some (tc :: tr)) false false (Ok ds)
                  = Ok (SFunc (fc :: fr) (mkArguments [set_arg (L "argument_parser") None] [] [] [] None None)
                              (SExpr (EConst (VStr (set_value_str (indent tab ds ++ tab))))
                                     :: description_assign (VStr d)
                                     :: map ParseAstFacts.call_stmt calls ++ [SReturn (Some argparser)]) [] None, i)).
  { unfold emit_argparse. cbn [py_or bind].
    destruct (get_internal_body_cases (Some (fc :: fr)) (Some (tc :: tr)) i Hint) as [Hib|Hib]; rewrite Hib; cbn [bind];
      rewrite Hdoc; cbn [fill_if bind]; rewrite Hcalls.
    - cbn [bind argparse_body_skip]. change (last_is_return []) with false. cbv iota.
      rewrite (C04Compose.argparse_return_plain pt i Hret'). reflexivity.
    - unfold argparse_remnant. cbn [bind argparse_body_skip expr_stmt_is_str].
      change (last_is_return [SReturn (Some (EName (L "argument_parser")))]) with true. cbv iota. cbn [bind].
      rewrite app_nil_r. reflexivity. }
  destruct (C04Compose.argparse_loop_codec pt edd di
              (SExpr (EConst (VStr (set_value_str (indent tab ds ++ tab)))) :: description_assign (VStr d)
                     :: map ParseAstFacts.call_stmt calls ++ [SReturn (Some argparser)])
              (ir_params i) [] (Has (set_value_str d)) Missing false Hpok Hnd) as [calls' [Hcalls' Hloop]].
  rewrite Hcalls in Hcalls'. inversion Hcalls' as [Hcc]. rewrite <- Hcc in Hloop.
  eexists. split; [exact Hemit|].
  rewrite C04Compose.parse_argparse_on_emitted. cbn [argparse_loop].
  assert (Hdesc : forall fb st, argparse_step di fb st (description_assign (VStr d))
                                = Ok (mkAP (ap_params st) (Has (set_value_str d)) (ap_returns st) (ap_require_default st))).
  { intros fb st. unfold description_assign, argparse_step, set_value. cbn [argparse_stmt_declined].
    change (str_eqb (L "description") (L "description") && str_eqb (L "argument_parser") (L "argument_parser")) with true.
    reflexivity. }
  rewrite Hdesc. cbn [bind ap_params ap_returns ap_require_default].
  rewrite Hloop. cbn [List.app argparse_loop argparse_step argparse_stmt_declined bind].
  cbn [ap_doc ap_params ap_returns].
  rewrite (C04Compose.sv_stable_str d Hsv), Hdoc.
  assert (Hf : filter (fun s => negb (is_argparse_description s))
                      (filter (fun s => negb (is_argparse_add_argument s))
                              (description_assign (VStr d) :: map ParseAstFacts.call_stmt calls ++ [SReturn (Some argparser)]))
               = argparse_remnant).
  { cbn [filter]. assert (E1 : is_argparse_add_argument (description_assign (VStr d)) = false) by reflexivity.
    rewrite E1. cbn [negb]. rewrite filter_calls. cbn [filter is_argparse_add_argument negb].
    assert (E2 : is_argparse_description (description_assign (VStr d)) = true) by reflexivity.
    rewrite E2. reflexivity. }
  rewrite Hf. reflexivity.
Qed.

(* ------------------------------------------------------------------ 5b. the law of the argparse kind *)

Lemma complete_entry_shape : forall g, complete_entry g = true ->
    exists c r t v, g = mkG (Has (c :: r)) (Has t) (Some (DV v)) /\ in_none_types v = false.
Proof.
  intros [gd gt gdef] H. unfold complete_entry in H. cbn [g_doc g_typ g_default] in H.
  destruct gd as [| |[|c r]]; try discriminate H. destruct gt as [| |[|tc tr]]; try discriminate H.
  cbn [fld_str] in H. destruct gdef as [[v|e|r0]|]; try discriminate H. apply negb_true_iff in H.
  exists c, r, (tc :: tr), v. split; [reflexivity|exact H].
Qed.

Lemma norm_param_C04_complete : forall rd g, complete_entry g = true -> norm_param_C04 rd g = g.
Proof.
  intros rd g H. destruct (complete_entry_shape g H) as [c [r [t [v [E _]]]]]. subst g.
  unfold norm_param_C04. cbn [g_typ g_default]. destruct (shape_of_typ t); reflexivity.
Qed.

Lemma norm_params_C04_complete : forall ps rd,
    forallb (fun kv => complete_entry (snd kv)) ps = true -> norm_params_C04 rd ps = ps.
Proof.
  induction ps as [|[n g] ps IH]; intros rd H; [reflexivity|].
  cbn [forallb snd] in H. apply andb_true_iff in H. destruct H as [Hg H].
  cbn [norm_params_C04]. rewrite (norm_param_C04_complete rd g Hg), (IH _ H). reflexivity.
Qed.

Theorem conv_argparse_closed : forall o i, env_ok o = true -> closed_dom o i = true ->
    conv_argparse o i = Ok (argparse_out o i).
Proof.
  intros o i He H. destruct (closed_dom_inv o i H) as [_ [Hc [_ [_ [_ [_ [_ [Hg Hi]]]]]]]].
  destruct (complete_inv i Hc) as [_ [_ [Hf _]]].
  unfold env_ok in He. destruct (ce_fn o) as [|fc fr] eqn:Efn; [discriminate He|].
  destruct (argparse_full (ce_pt o) i (ce_aedd o) fc fr "s"%char (L "tatic") (ce_ads o i) (ce_adi o i) (ce_aft o) (ce_afn o) Hi Hg)
    as [s [Hem Hpa]].
  unfold conv_argparse. rewrite Efn.
  change (Some ("s"%char :: L "tatic")) with (Some (L "static")) in Hem.
  assert (Hem' : emit_argparse (ce_pt o) i (ce_aedd o) (@Some str (fc :: fr)) (@Some str (L "static")) false false (Ok (ce_ads o i))
                 = Ok (s, i)) by exact Hem.
  rewrite Hem'. cbn [bind fst]. rewrite Hpa.
  rewrite (norm_params_C04_complete _ false Hf). unfold argparse_out. rewrite Efn. reflexivity.
Qed.

Lemma argparse_out_core_eq : forall o i, no_ret i -> core_eq i (argparse_out o i).
Proof.
  intros o i _. constructor; try reflexivity. intros g E. discriminate E.
Qed.

Theorem law_argparse : forall o, env_ok o = true -> kind_law (conv_model o) (closed_dom o) KArgparse.
Proof.
  intros o He i H. exists (argparse_out o i). split; [exact (conv_argparse_closed o i He H)|].
  pose proof (argparse_out_core_eq o i (closed_dom_no_ret o i H)) as Hce.
  split; [exact (core_eq_preserved o i _ H Hce) | exact (closed_dom_core_eq o i _ H Hce)].
Qed.

(* ------------------------------------------------------------------ 4b. the class docstring link, with the summary *)

(* proofs/C02DocLink.v derives the IR read back from the class docstring in closed form but exports only doc_agrees;
   the same derivation, keeping the summary (the proof is that of C02DocLink.link_doc_agrees / C02_doc_link_lemma) *)
Module ClassLink.
Import SplitFacts DefaultsFacts DocParseFacts C02DocLink.

Theorem link_doc_agrees_sum : forall w ww edd i S ps_p es_p ds_p ps_r es_r ds_r,
    ir_doc i = Has S -> sum_fine S -> ascii_text S = true -> wrap_fine w ww S ->
    C02_domain i = true ->
    link w ww edd (ir_params i) ps_p es_p ds_p -> es_p <> [] ->
    link w ww edd (C02Compose.ret_entry i) ps_r es_r ds_r ->
    exists text d, class_docstring_text w edd ww i = Ok text /\ class_docstring_ir text = Ok d
                   /\ doc_agrees i d = true /\ ir_doc d = Has S.
Proof.
  intros w ww edd i S ps_p es_p ds_p ps_r es_r ds_r Hdoc HS HSa HSw Hdom Hlp Hne Hlr.
  destruct (C02Compose.C02_domain_facts i Hdom) as [Hnd [Hnr _]].
  pose proof (C02Compose.fold_returns_params i Hnr) as Hfold.
  pose proof (link_app _ _ _ _ _ _ _ _ _ _ _ Hlp Hlr) as Hl.
  destruct (link_ret_shape _ _ _ _ _ _ _ Hlr) as [r Er].
  set (gps := ir_params i ++ C02Compose.ret_entry i) in *.
  set (es := es_p ++ es_r) in *. set (ds := ds_p ++ ds_r) in *.
  assert (Hes_ne : es <> []).
  { unfold es. destruct es_p; [contradiction|discriminate]. }
  assert (Hi2doc : ir_doc (class_fold_returns i) = Has S).
  { unfold class_fold_returns. destruct (ir_returns i); exact Hdoc. }
  assert (Hi2ret : forall g, ir_returns (class_fold_returns i) <> Has g).
  { intros g. unfold class_fold_returns. destruct (ir_returns i) eqn:E; cbn [ir_returns]; try rewrite E; discriminate. }
  assert (Htext : class_docstring_text w edd ww i = Ok (T1 S es)).
  { unfold class_docstring_text.
    rewrite (to_docstring_T1 w ww edd (class_fold_returns i) S (ps_p ++ ps_r) es Hi2doc (proj1 HS) (proj1 (proj2 HS)) HSw).
    - reflexivity.
    - rewrite Hfold. apply (link_params_of _ _ _ _ _ _ _ Hl).
    - exact Hi2ret.
    - apply (link_emits _ _ _ _ _ _ _ Hl).
    - exact Hes_ne. }
  exists (T1 S es).
  pose proof (link_entries _ _ _ _ _ _ _ Hl) as Hent.
  assert (Hall : all_params es_p).
  { intros e He. destruct (link_entries _ _ _ _ _ _ _ Hlp e He) as [_ [_ [_ [_ Hin]]]].
    unfold DocEmit.is_return. apply str_eqb_neq. intros E. apply Hnr.
    change return_type_key with (L "return_type"). rewrite <- E. exact Hin. }
  assert (Hfine : forall e, In e es -> entry_fine e) by (intros e He; apply (Hent e He)).
  assert (Hplain : forall e, In e es -> entry_plain e) by (intros e He; apply entry_fine_plain; apply Hfine; exact He).
  assert (Htok : forall e, In e es -> entry_tok e) by (intros e He; apply (Hent e He)).
  assert (Hcd : class_docstring (T1 S es) = T3 S es).
  { unfold es. rewrite Er. destruct es_p as [|e1 ps']; [contradiction|].
    apply class_docstring_T1; [exact HS|exact Hall|]. rewrite <- Er. exact Hfine. }
  assert (Hget : class_get_docstring (T1 S es) = Ok (cleaned S es)).
  { unfold class_get_docstring. rewrite Hcd. rewrite T3_ascii; [|exact HSa|].
    - rewrite (cleandoc_T3 S es HS Hes_ne Hplain). reflexivity.
    - intros e He. destruct (Hent e He) as [_ [_ [A [B _]]]]. split; assumption. }
  destruct (build_entries es ds (link_reads _ _ _ _ _ _ _ Hl)) as [ents [Hnames [Hblocks [Hoks Hdocs]]]].
  assert (Hents_ne : ents <> []).
  { intros E. subst ents. cbn [map] in Hnames. destruct es; [contradiction|discriminate]. }
  destruct (link_names _ _ _ _ _ _ _ Hl) as [Hn1 Hn2].
  assert (Hndup : NoDup (map e_name ents)).
  { rewrite Hnames, Hn1. apply NoDup_map_filter. unfold gps. rewrite map_app.
    unfold C02Compose.ret_entry. destruct (ir_returns i); cbn [map]; try (rewrite app_nil_r; exact Hnd).
    cbn [fst]. apply NoDup_snoc; assumption. }
  pose proof HS as [He [HSnl HStok]].
  assert (Hparse : class_docstring_ir (T1 S es)
                   = Ok (DocParse.ir_of_parts S (map (fun e => (e_name e, e_fin e)) ents) None)).
  { unfold class_docstring_ir. rewrite Hget. cbn [bind].
    change (L ":cvar") with A4. change (L ":param") with B4.
    rewrite (stepA4 S es HS Htok). rewrite (parsed_text_form S es Hes_ne). rewrite <- Hblocks.
    apply parse_entries.
    - apply no_rest_token_ws; [exact HStok|reflexivity].
    - change (S ++ [nl; nl]) with ([] ++ S ++ [nl; nl]). apply strip_pad; [reflexivity|reflexivity|exact He].
    - destruct He as [[c [r' [E _]]] _]. rewrite E. discriminate.
    - exact Hents_ne.
    - exact Hoks.
    - exact Hndup. }
  eexists. split; [exact Htext|]. split; [exact Hparse|]. split; [|reflexivity].
  unfold doc_agrees. rewrite Hfold. fold gps.
  unfold DocParse.ir_of_parts. cbn [ir_params ir_returns]. rewrite andb_true_r.
  apply (link_agrees _ _ _ _ _ _ _ Hl).
  - rewrite !map_map. cbn [fst]. exact Hnames.
  - rewrite !map_map. cbn [snd gparam_of_param g_doc]. exact Hdocs.
Qed.

Theorem doc_link_sum : forall w edd ww i,
    guard_C02_ast i = true -> doc_link_ok w edd ww i = true ->
    exists text d, class_docstring_text w edd ww i = Ok text /\ class_docstring_ir text = Ok d
                   /\ doc_agrees i d = true /\ ir_doc d = ir_doc i.
Proof.
  intros w edd ww i Hg Hok.
  destruct (C02Compose.guard_C02_ast_inv i Hg) as [Hdom [_ [Hpok [Hrok _]]]].
  destruct (C02Compose.C02_domain_facts i Hdom) as [_ [Hnr _]].
  pose proof (C02Compose.forall_folded_ok i Hpok Hrok) as Hall.
  apply Forall_app in Hall. destruct Hall as [Hallp Hallr].
  unfold doc_link_ok in Hok. rewrite (C02Compose.fold_returns_params i Hnr) in Hok.
  apply andb_true_iff in Hok. destruct Hok as [Hok Hnw]. apply andb_true_iff in Hok. destruct Hok as [Hok Hle].
  apply andb_true_iff in Hok. destruct Hok as [Hsum Hex].
  rewrite forallb_app in Hle, Hnw.
  apply andb_true_iff in Hle. destruct Hle as [Hlep Hler]. apply andb_true_iff in Hnw. destruct Hnw as [Hnwp Hnwr].
  destruct (ir_doc i) as [| |S] eqn:Edoc; try discriminate.
  apply andb_true_iff in Hsum. destruct Hsum as [Hsl Hsw].
  destruct (line_ok_facts S Hsl) as [_ [Hedge [Hnl [Hasc [Htok _]]]]].
  destruct (link_all w ww edd (ir_params i) Hallp Hlep Hnwp) as [ps_p [es_p [ds_p Hlp]]].
  destruct (link_all w ww edd (C02Compose.ret_entry i) Hallr Hler Hnwr) as [ps_r [es_r [ds_r Hlr]]].
  apply (link_doc_agrees_sum w ww edd i S ps_p es_p ds_p ps_r es_r ds_r); try assumption.
  - split; [exact Hedge|]. split; assumption.
  - apply wrap_fine_of. exact Hsw.
  - destruct (link_names _ _ _ _ _ _ _ Hlp) as [Hn1 _]. intros E. subst es_p. cbn [map] in Hn1.
    apply existsb_exists in Hex. destruct Hex as [kv [Hin Hd]].
    assert (Hf : In kv (filter documented (ir_params i))) by (apply filter_In; split; assumption).
    destruct (filter documented (ir_params i)); [destruct Hf|discriminate].
Qed.
End ClassLink.
