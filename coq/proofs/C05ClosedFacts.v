(* C05ClosedFacts: C05 (any chain preserves the interface) and C08 (one pass normalises) for the kinds whose round trip
   is closed by a theorem -- ReST, numpydoc, google, class, argparse -- over the concrete converters of
   model/C05Closed.v, on the executable domain closed_dom, with NO per-kind law hypothesis.
   1. on complete descriptions [preserved] determines summary and parameters exactly;
   2. closed_dom looks at a description only through summary, parameters, absence of a return entry and the shape of
      the carried body;
   3. what each parser writes into the other fields (name, type, return entry, carried body);
   4. the carried body  return argument_parser  that parse.argparse_ast records is harmless for emit.class_ and
      emit.argparse_function (guard_C02_ast / guard_C04_ast alone are NOT closed under the argparse conversion);
   5. the law of each kind on closed_dom (round trip from C01 / C01Ext / C02Ext / C04, closure from 1-4);
   6. every chain over the closed kinds; 7. C08: the converted description is a fixed point of its conversion. *)
From Coq Require Import List Ascii Bool Arith ZArith Lia.
From Coq Require String.
Import String.StringSyntax.
From DT Require Import PyStr Sexp PyVal TyExpr PureUtils Defaults PyAst IR Extracted C17Spec DocParse C01Spec C05Spec.
From DT Require Import EmitAst ParseAst C02Spec C02Codec C02DocLinkDefs C04Spec C04Codec C05Closed.
From DT Require Import PyStrFacts.
From DT Require DocEmit DocParseNG C01SpecNG SyncProps.
From DT Require DefaultsFacts EmitAstFacts ParseAstFacts DocParseFacts DocParseNGFacts NGScanLink.
From DT Require SplitFacts C02Compose C02DocLink C04Compose C05Facts C08Facts.
From DT Require Merge ParseSig C12Spec C07Spec MergeFacts C12Facts ParseSigFacts C07Facts.
From DT Require PureUtilsFacts C03Spec C03Compose C03DocLinkDefs C03DocLink C03DocLinkClean C03DocLinkEmit C03DocLinkLines C03DocLinkGuard C03DocLinkMain.
Import ListNotations.

(* ------------------------------------------------------------------ 1. complete descriptions *)

Definition no_ret (i : ir) : Prop := forall g, ir_returns i <> Has g.

Lemma no_ret_fld_opt : forall i, no_ret i <-> fld_opt (ir_returns i) = None.
Proof.
  intros i. unfold no_ret. split; intros H.
  - destruct (ir_returns i) as [| |g]; try reflexivity. exfalso. apply (H g). reflexivity.
  - intros g E. rewrite E in H. discriminate H.
Qed.

Lemma fld_str_Has : forall f x, fld_str f = Some x -> f = Has x.
Proof. intros [| |[|c r]] x H; cbn in H; try discriminate. injection H as H. subst. reflexivity. Qed.

Lemma opt_eqb_str_Some : forall x o, opt_eqb str_eqb (Some x) o = true -> o = Some x.
Proof. intros x [y|] H; cbn in H; [|discriminate]. apply str_eqb_eq in H. subst. reflexivity. Qed.

Lemma complete_entry_eq : forall g g', complete_entry g = true -> preserved_entry g g' = true -> g' = g.
Proof.
  intros [gd gt gdef] [gd' gt' gdef'] Hc Hp. unfold complete_entry in Hc. cbn [g_doc g_typ g_default] in Hc.
  destruct (fld_str gd) as [x|] eqn:Ed; [|discriminate]. destruct (fld_str gt) as [t|] eqn:Et; [|discriminate].
  destruct gdef as [[v|e|r]|]; try discriminate. apply negb_true_iff in Hc.
  apply C05Facts.preserved_entry_split in Hp. destruct Hp as [Ht [Hd Hv]].
  unfold C01Spec.same_typ in Ht. unfold C01Spec.same_prose in Hd. cbn [g_doc g_typ g_default] in *.
  rewrite Et in Ht. rewrite Ed in Hd. apply opt_eqb_str_Some in Ht. apply opt_eqb_str_Some in Hd.
  rewrite (fld_str_Has _ _ Ed), (fld_str_Has _ _ Et), (fld_str_Has _ _ Ht), (fld_str_Has _ _ Hd).
  destruct gdef' as [y|]; [|discriminate Hv]. cbn [same_default_ir] in Hv.
  assert (Hn : none_like_d (DV v) = false) by exact Hc. rewrite Hn in Hv. cbn [andb] in Hv. rewrite orb_false_r in Hv.
  apply C05Facts.dval_eqb_eq in Hv. subst y. reflexivity.
Qed.

Lemma complete_params_eq : forall ps ps',
    forallb (fun kv => complete_entry (snd kv)) ps = true -> preserved_params ps ps' = true -> ps' = ps.
Proof.
  induction ps as [|[n g] ps IH]; intros [|[n' g'] ps'] Hc Hp; cbn [preserved_params] in Hp; try discriminate; [reflexivity|].
  cbn [forallb snd] in Hc. apply andb_true_iff in Hc. destruct Hc as [Hg Hc].
  apply andb_true_iff in Hp. destruct Hp as [Hp Hr]. apply andb_true_iff in Hp. destruct Hp as [Hn He].
  apply str_eqb_eq in Hn. subst n'. rewrite (complete_entry_eq g g' Hg He), (IH ps' Hc Hr). reflexivity.
Qed.

Lemma complete_inv : forall i, complete i = true ->
    (exists d, ir_doc i = Has d) /\ ir_params i <> []
    /\ forallb (fun kv => complete_entry (snd kv)) (ir_params i) = true /\ no_ret i.
Proof.
  intros i H. unfold complete in H.
  apply andb_true_iff in H. destruct H as [H Hr]. apply andb_true_iff in H. destruct H as [H Hf].
  apply andb_true_iff in H. destruct H as [Hd Hne].
  split; [destruct (ir_doc i) as [| |d]; try discriminate; exists d; reflexivity|].
  split; [destruct (ir_params i); [discriminate|discriminate]|]. split; [exact Hf|].
  intros g E. rewrite E in Hr. discriminate.
Qed.

(* on a complete description, preserved determines the summary and the parameters, and there is no return entry *)
Theorem complete_preserved_eq : forall i i', complete i = true -> preserved i i' = true ->
    ir_doc i' = ir_doc i /\ ir_params i' = ir_params i /\ no_ret i'.
Proof.
  intros i i' Hc Hp. destruct (complete_inv i Hc) as [[d Hd] [_ [Hf Hnr]]].
  apply C05Facts.preserved_split in Hp. destruct Hp as [Hs [Hps Hr]]. split; [|split].
  - unfold same_summary in Hs. rewrite Hd in *. cbn [fld_opt] in Hs. apply opt_eqb_str_Some in Hs.
    destruct (ir_doc i') as [| |d']; try discriminate. cbn in Hs. injection Hs as Hs. subst. reflexivity.
  - apply complete_params_eq; assumption.
  - apply no_ret_fld_opt. apply no_ret_fld_opt in Hnr. unfold preserved_returns in Hr. rewrite Hnr in Hr.
    destruct (fld_opt (ir_returns i')); [discriminate|reflexivity].
Qed.

(* ------------------------------------------------------------------ 2. what closed_dom looks at *)

Definition core (i : ir) : ir := mkIR FNone FNone (ir_doc i) (ir_params i) FNone None.

Ltac core_tac :=
  match goal with
  | |- forall i : ir, _ => intros [n t d ps r b] H; destruct r as [| |g]; [| |exfalso; apply (H g); reflexivity]; reflexivity
  end.

Lemma core_chain_safe : forall ks i, no_ret i -> chain_safe ks i = chain_safe ks (core i).
Proof. intros ks. core_tac. Qed.
Lemma core_complete : forall i, no_ret i -> complete i = complete (core i).
Proof. core_tac. Qed.
Lemma core_rest : forall i, no_ret i -> guard_C01_rest false i = guard_C01_rest false (core i).
Proof. core_tac. Qed.
Lemma core_ng : forall st i, no_ret i -> C01SpecNG.guard_C01_ng st i = C01SpecNG.guard_C01_ng st (core i).
Proof. intros st. core_tac. Qed.
Lemma core_c02 : forall i, no_ret i -> guard_C02_ast (clear_internal i) = guard_C02_ast (core i).
Proof. core_tac. Qed.
Lemma core_link : forall w e ww i, no_ret i -> doc_link_ok w e ww i = doc_link_ok w e ww (core i).
Proof. intros w e ww. core_tac. Qed.
Lemma core_c04 : forall i, no_ret i -> guard_C04_ast (clear_internal i) = guard_C04_ast (core i).
Proof. core_tac. Qed.

Definition dom_static (o : cenv) (i : ir) : bool :=
  chain_safe closed_kinds i && complete i && guard_C01_rest false i
  && C01SpecNG.guard_C01_ng DocParseNG.SNumpydoc i && C01SpecNG.guard_C01_ng DocParseNG.SGoogle i
  && guard_C02_ast (clear_internal i) && doc_link_ok (ce_w o) (ce_edd o) (ce_ww o) i && guard_C04_ast (clear_internal i).

Lemma closed_dom_split : forall o i, closed_dom o i = dom_static o i && internal_ok i.
Proof. reflexivity. Qed.

Lemma dom_static_core : forall o i, no_ret i -> dom_static o i = dom_static o (core i).
Proof.
  intros o i H. unfold dom_static.
  rewrite (core_chain_safe _ i H), (core_complete i H), (core_rest i H), (core_ng _ i H), (core_ng _ i H),
    (core_c02 i H), (core_link _ _ _ i H), (core_c04 i H).
  reflexivity.
Qed.

Record core_eq (i i' : ir) : Prop := mkCoreEq {
  ce_doc : ir_doc i' = ir_doc i;
  ce_params : ir_params i' = ir_params i;
  ce_ret : no_ret i';
  ce_int : internal_ok i' = true
}.

Lemma core_eq_core : forall i i', core_eq i i' -> core i' = core i.
Proof. intros i i' [Hd Hp _ _]. unfold core. rewrite Hd, Hp. reflexivity. Qed.

Lemma closed_dom_inv : forall o i, closed_dom o i = true ->
    chain_safe closed_kinds i = true /\ complete i = true /\ guard_C01_rest false i = true
    /\ C01SpecNG.guard_C01_ng DocParseNG.SNumpydoc i = true /\ C01SpecNG.guard_C01_ng DocParseNG.SGoogle i = true
    /\ guard_C02_ast (clear_internal i) = true /\ doc_link_ok (ce_w o) (ce_edd o) (ce_ww o) i = true
    /\ guard_C04_ast (clear_internal i) = true /\ internal_ok i = true.
Proof.
  intros o i H. unfold closed_dom in H. do 8 (apply andb_true_iff in H; destruct H as [H ?]). repeat split; assumption.
Qed.

Lemma closed_dom_no_ret : forall o i, closed_dom o i = true -> no_ret i.
Proof. intros o i H. destruct (closed_dom_inv o i H) as [_ [Hc _]]. apply (complete_inv i Hc). Qed.

(* the closure argument, once: a description with the same summary and parameters, no return entry and a harmless
   carried body is in the domain again *)
Theorem closed_dom_core_eq : forall o i i', closed_dom o i = true -> core_eq i i' -> closed_dom o i' = true.
Proof.
  intros o i i' H Hce. pose proof (closed_dom_no_ret o i H) as Hnr. rewrite closed_dom_split in *.
  apply andb_true_iff in H. destruct H as [Hs _]. apply andb_true_iff. split; [|exact (ce_int _ _ Hce)].
  rewrite (dom_static_core o i' (ce_ret _ _ Hce)), (core_eq_core i i' Hce), <- (dom_static_core o i Hnr). exact Hs.
Qed.

Lemma core_eq_of_preserved : forall o i i',
    closed_dom o i = true -> preserved i i' = true -> internal_ok i' = true -> core_eq i i'.
Proof.
  intros o i i' H Hp Hi. destruct (closed_dom_inv o i H) as [_ [Hc _]].
  destruct (complete_preserved_eq i i' Hc Hp) as [Hd [Hps Hr]]. constructor; assumption.
Qed.

Lemma core_eq_preserved : forall o i i', closed_dom o i = true -> core_eq i i' -> preserved i i' = true.
Proof.
  intros o i i' H [Hd Hp Hr _]. pose proof (closed_dom_no_ret o i H) as Hnr.
  apply C05Facts.preserved_split. split; [|split].
  - unfold same_summary. rewrite Hd. apply C05Facts.opt_eqb_refl. exact str_eqb_refl.
  - rewrite Hp. apply C05Facts.preserved_params_refl.
  - unfold preserved_returns. apply no_ret_fld_opt in Hr. apply no_ret_fld_opt in Hnr. rewrite Hr, Hnr. reflexivity.
Qed.

(* ------------------------------------------------------------------ 3. what the docstring parsers write elsewhere *)

Ltac binv H :=
  let a := fresh "a" in
  let Ha := fresh "Ha" in
  apply ParseAstFacts.bind_Ok_inv in H; destruct H as [a [Ha H]].

Lemma parse_dot_internal : forall t a b c i',
    parse_dot_docstring ng_unmodelled t a b c = Ok i' -> ir_internal i' = None.
Proof.
  intros t a b c i' H. unfold parse_dot_docstring, parse_docstring in H.
  destruct t as [|ch0 t]; [injection H as H; subst i'; reflexivity|].
  match type of H with match ?x with Rest => _ | Google => _ | Numpydoc => _ end = _ => destruct x end.
  - unfold parse_rest in H. binv H. binv H. binv H. binv H. injection H as H. subst i'. reflexivity.
  - unfold ng_unmodelled in H. cbn [bind] in H. discriminate H.
  - unfold ng_unmodelled in H. cbn [bind] in H. discriminate H.
Qed.

Definition doc_shape (i' : ir) : Prop :=
  ir_name i' = FNone /\ ir_type i' = Has (L "static") /\ ir_internal i' = None
  /\ (ir_returns i' = FNone \/ exists g, ir_returns i' = Has g).

Lemma parse_dot_shape : forall t a b c i', parse_dot_docstring ng_unmodelled t a b c = Ok i' -> doc_shape i'.
Proof.
  intros t a b c i' H. unfold parse_dot_docstring, parse_docstring in H.
  destruct t as [|ch0 t]; [injection H as H; subst i'; repeat split; left; reflexivity|].
  match type of H with match ?x with Rest => _ | Google => _ | Numpydoc => _ end = _ => destruct x end.
  - unfold parse_rest in H. binv H. binv H. binv H. binv H. injection H as H. subst i'.
    unfold ir_of_parts. repeat split. cbn [ir_returns]. destruct (snd a3); [right; eexists; reflexivity|left; reflexivity].
  - unfold ng_unmodelled in H. cbn [bind] in H. discriminate H.
  - unfold ng_unmodelled in H. cbn [bind] in H. discriminate H.
Qed.

Lemma parse_ng_internal : forall style fl t i', DocParseNG.parse_ng style fl t = Ok i' -> ir_internal i' = None.
Proof.
  intros style fl t i' H. unfold DocParseNG.parse_ng in H.
  revert H. destruct (negb (forallb DocParseNG.in_alphabet t)); intros H; [discriminate H|].
  revert H. destruct (DocParseNG.is_empty t); intros H; [injection H as H; subst i'; reflexivity|].
  binv H. binv H. destruct a0 as [[doc params] returns]. binv H. binv H. injection H as H. subst i'. reflexivity.
Qed.

Lemma internal_ok_None : forall i, ir_internal i = None -> internal_ok i = true.
Proof. intros i H. unfold internal_ok. rewrite H. reflexivity. Qed.

(* ------------------------------------------------------------------ 5a. the laws of the docstring kinds *)

Theorem law_rest : forall o, kind_law (conv_model o) (closed_dom o) KRest.
Proof.
  intros o i H. destruct (closed_dom_inv o i H) as [_ [_ [Hg _]]].
  destruct (C05Facts.RT_rest_roundtrip i Hg) as [i' [Hc Hp]].
  exists i'. split; [exact Hc|]. split; [exact Hp|].
  apply (closed_dom_core_eq o i i' H). apply (core_eq_of_preserved o i i' H Hp).
  apply internal_ok_None. unfold conv_rest in Hc. binv Hc. exact (parse_dot_internal _ _ _ _ _ Hc).
Qed.

Lemma conv_ng_roundtrip : forall style i, C01SpecNG.guard_C01_ng style i = true ->
    exists i', conv_ng style i = Ok i' /\ preserved i i' = true.
Proof.
  intros style i Hg. destruct (NGScanLink.C01_ng_partial style i Hg) as [text [i' [Ht [_ [Hp Hs]]]]].
  exists i'. split; [unfold conv_ng; rewrite Ht; exact Hp|]. apply C05Facts.ng_same_interface_preserved. exact Hs.
Qed.

Lemma law_ng : forall o style,
    (forall i, closed_dom o i = true -> C01SpecNG.guard_C01_ng style i = true) ->
    forall i, closed_dom o i = true ->
    exists i', conv_ng style i = Ok i' /\ preserved i i' = true /\ closed_dom o i' = true.
Proof.
  intros o style Hin i H. destruct (conv_ng_roundtrip style i (Hin i H)) as [i' [Hc Hp]].
  exists i'. split; [exact Hc|]. split; [exact Hp|].
  apply (closed_dom_core_eq o i i' H). apply (core_eq_of_preserved o i i' H Hp).
  apply internal_ok_None. unfold conv_ng in Hc. binv Hc. exact (parse_ng_internal _ _ _ _ Hc).
Qed.

Theorem law_numpydoc : forall o, kind_law (conv_model o) (closed_dom o) KNumpydoc.
Proof. intros o. unfold kind_law. apply (law_ng o DocParseNG.SNumpydoc). intros i H. apply (closed_dom_inv o i H). Qed.

Theorem law_google : forall o, kind_law (conv_model o) (closed_dom o) KGoogle.
Proof. intros o. unfold kind_law. apply (law_ng o DocParseNG.SGoogle). intros i H. apply (closed_dom_inv o i H). Qed.

(* ------------------------------------------------------------------ 4. the carried body parse.argparse_ast records *)

Lemma remnant_eq : forall b, stmts_eqb_remnant b = true -> b = argparse_remnant.
Proof.
  intros b H. unfold stmts_eqb_remnant in H.
  destruct b as [|s b']; [discriminate H|]. destruct s; try discriminate H.
  destruct e as [e|]; [|discriminate H]. destruct e; try discriminate H.
  destruct b'; [|discriminate H].
  apply str_eqb_eq in H. subst. reflexivity.
Qed.

Lemma internal_ok_cases : forall i, internal_ok i = true ->
    (match ir_internal i with Some it => in_body it | None => [] end) = []
    \/ exists it fnm, ir_internal i = Some it /\ in_body it = argparse_remnant
                      /\ in_from_name it = Has fnm /\ in_from_type it = Has (L "static").
Proof.
  intros i H. unfold internal_ok in H. destruct (ir_internal i) as [it|]; [|left; reflexivity].
  destruct (in_body it) as [|s b] eqn:Eb; [left; reflexivity|]. right.
  apply andb_true_iff in H. destruct H as [H Ht]. apply andb_true_iff in H. destruct H as [Hb Hn].
  apply remnant_eq in Hb. destruct (in_from_name it) as [| |fnm] eqn:En; try discriminate Hn.
  destruct (in_from_type it) as [| |ft] eqn:Et; try discriminate Ht. apply str_eqb_eq in Ht. subst ft.
  rewrite Hb in Eb. exists it, fnm. repeat split; try assumption; reflexivity.
Qed.

Lemma get_internal_body_cases : forall tn tt i, internal_ok i = true ->
    get_internal_body tn tt i = Ok [] \/ get_internal_body tn tt i = Ok argparse_remnant.
Proof.
  intros tn tt i H. unfold get_internal_body. destruct (internal_ok_cases i H) as [E|[it [fnm [Ei [Eb [En Et]]]]]].
  - left. destruct (ir_internal i) as [it|]; [|reflexivity]. rewrite E. reflexivity.
  - rewrite Ei, Eb, En, Et. unfold argparse_remnant at 1.
    destruct (fld_eq_opt (Has fnm) tn); [|left; reflexivity].
    destruct (fld_eq_opt (Has (L "static")) tt); [right|left]; reflexivity.
Qed.

Lemma filter_calls : forall calls rest,
    filter (fun s => negb (is_argparse_add_argument s)) (map ParseAstFacts.call_stmt calls ++ rest)
    = filter (fun s => negb (is_argparse_add_argument s)) rest.
Proof.
  induction calls as [|c calls IH]; intros rest; [reflexivity|].
  cbn [map app filter]. 
  assert (E : is_argparse_add_argument (ParseAstFacts.call_stmt c) = true) by reflexivity.
  rewrite E. cbn [negb]. apply IH.
Qed.

Definition argparse_out (o : cenv) (i : ir) : ir :=
  mkIR (fld_of_opt (ce_afn o))
       (Has (match truthy_opt_str (ce_aft o) with Some t => t | None => L "static" end))
       (ir_doc i) (ir_params i) Missing
       (Some (mkInternal argparse_remnant (Has (ce_fn o)) (Has (L "static")))).

(* the argparse conversion in closed form, with or without the remnant as carried body *)
Theorem argparse_full : forall pt i edd fc fr tc tr ds di ft' fnm,
    internal_ok i = true -> guard_C04_ast (clear_internal i) = true ->
    exists s,
      emit_argparse pt i edd (Some (fc :: fr)) (Some (tc :: tr)) false false (Ok ds) = Ok (s, i)
      /\ parse_argparse_ast (Ok di) s ft' fnm
         = Ok (mkIR (fld_of_opt fnm) (Has (match truthy_opt_str ft' with Some t => t | None => L "static" end))
                    (ir_doc i) (norm_params_C04 false (ir_params i)) Missing
                    (Some (mkInternal argparse_remnant (Has (fc :: fr)) (Has (L "static"))))).
Proof.
  intros pt i edd fc fr tc tr ds di ft' fnm Hint Hg.
  destruct (C04Compose.guard_C04_ast_inv (clear_internal i) Hg) as [Hnd [Hpok [Hret [_ [[d [Hdoc Hsv]] Hexp]]]]].
  cbn [clear_internal ir_params ir_doc] in Hnd, Hpok, Hdoc.
  assert (Hret' : return_with_default i = None) by exact Hret.
  destruct (C04Compose.argparse_loop_codec pt edd di
              (SExpr (EConst (VStr (set_value_str (indent tab ds ++ tab)))) :: description_assign (VStr d)
                     :: [] ++ [SReturn (Some argparser)])
              (ir_params i) [] (Has (set_value_str d)) Missing false Hpok Hnd) as [calls [Hcalls _]].
  assert (Hemit : emit_argparse pt i edd (Some (fc :: fr)) (Some (tc :: tr)) false false (Ok ds)
                  = Ok (SFunc (fc :: fr) (mkArguments [set_arg (L "argument_parser") None] [] [] [] None None)
                              (SExpr (EConst (VStr (set_value_str (indent tab ds ++ tab))))
                                     :: description_assign (VStr d)
                                     :: map ParseAstFacts.call_stmt calls ++ [SReturn (Some argparser)]) [] None, i)).
  { unfold emit_argparse. cbn [py_or bind].
    destruct (get_internal_body_cases (Some (fc :: fr)) (Some (tc :: tr)) i Hint) as [Hib|Hib]; rewrite Hib; cbn [bind];
      rewrite Hdoc; cbn [fill_if bind]; rewrite Hcalls.
    - cbn [bind argparse_body_skip]. change (last_is_return []) with false. cbv iota.
      rewrite (C04Compose.argparse_return_plain pt i Hret'). reflexivity.
    - unfold argparse_remnant. cbn [bind argparse_body_skip expr_stmt_is_str].
      change (last_is_return [SReturn (Some (EName (L "argument_parser")))]) with true. cbv iota. cbn [bind].
      rewrite app_nil_r. reflexivity. }
  destruct (C04Compose.argparse_loop_codec pt edd di
              (SExpr (EConst (VStr (set_value_str (indent tab ds ++ tab)))) :: description_assign (VStr d)
                     :: map ParseAstFacts.call_stmt calls ++ [SReturn (Some argparser)])
              (ir_params i) [] (Has (set_value_str d)) Missing false Hpok Hnd) as [calls' [Hcalls' Hloop]].
  rewrite Hcalls in Hcalls'. inversion Hcalls' as [Hcc]. rewrite <- Hcc in Hloop.
  eexists. split; [exact Hemit|].
  rewrite C04Compose.parse_argparse_on_emitted. cbn [argparse_loop].
  assert (Hdesc : forall fb st, argparse_step di fb st (description_assign (VStr d))
                                = Ok (mkAP (ap_params st) (Has (set_value_str d)) (ap_returns st) (ap_require_default st))).
  { intros fb st. unfold description_assign, argparse_step, set_value. cbn [argparse_stmt_declined].
    change (str_eqb (L "description") (L "description") && str_eqb (L "argument_parser") (L "argument_parser")) with true.
    reflexivity. }
  rewrite Hdesc. cbn [bind ap_params ap_returns ap_require_default].
  rewrite Hloop. cbn [List.app argparse_loop argparse_step argparse_stmt_declined bind].
  cbn [ap_doc ap_params ap_returns].
  rewrite (C04Compose.sv_stable_str d Hsv), Hdoc.
  assert (Hf : filter (fun s => negb (is_argparse_description s))
                      (filter (fun s => negb (is_argparse_add_argument s))
                              (description_assign (VStr d) :: map ParseAstFacts.call_stmt calls ++ [SReturn (Some argparser)]))
               = argparse_remnant).
  { cbn [filter]. assert (E1 : is_argparse_add_argument (description_assign (VStr d)) = false) by reflexivity.
    rewrite E1. cbn [negb]. rewrite filter_calls. cbn [filter is_argparse_add_argument negb].
    assert (E2 : is_argparse_description (description_assign (VStr d)) = true) by reflexivity.
    rewrite E2. reflexivity. }
  rewrite Hf. reflexivity.
Qed.

(* ------------------------------------------------------------------ 5b. the law of the argparse kind *)

Lemma complete_entry_shape : forall g, complete_entry g = true ->
    exists c r t v, g = mkG (Has (c :: r)) (Has t) (Some (DV v)) /\ in_none_types v = false.
Proof.
  intros [gd gt gdef] H. unfold complete_entry in H. cbn [g_doc g_typ g_default] in H.
  destruct gd as [| |[|c r]]; try discriminate H. destruct gt as [| |[|tc tr]]; try discriminate H.
  cbn [fld_str] in H. destruct gdef as [[v|e|r0]|]; try discriminate H. apply negb_true_iff in H.
  exists c, r, (tc :: tr), v. split; [reflexivity|exact H].
Qed.

Lemma norm_param_C04_complete : forall rd g, complete_entry g = true -> norm_param_C04 rd g = g.
Proof.
  intros rd g H. destruct (complete_entry_shape g H) as [c [r [t [v [E _]]]]]. subst g.
  unfold norm_param_C04. cbn [g_typ g_default]. destruct (shape_of_typ t); reflexivity.
Qed.

Lemma norm_params_C04_complete : forall ps rd,
    forallb (fun kv => complete_entry (snd kv)) ps = true -> norm_params_C04 rd ps = ps.
Proof.
  induction ps as [|[n g] ps IH]; intros rd H; [reflexivity|].
  cbn [forallb snd] in H. apply andb_true_iff in H. destruct H as [Hg H].
  cbn [norm_params_C04]. rewrite (norm_param_C04_complete rd g Hg), (IH _ H). reflexivity.
Qed.

Theorem conv_argparse_closed : forall o i, env_ok o = true -> closed_dom o i = true ->
    conv_argparse o i = Ok (argparse_out o i).
Proof.
  intros o i He H. destruct (closed_dom_inv o i H) as [_ [Hc [_ [_ [_ [_ [_ [Hg Hi]]]]]]]].
  destruct (complete_inv i Hc) as [_ [_ [Hf _]]].
  unfold env_ok in He. destruct (ce_fn o) as [|fc fr] eqn:Efn; [discriminate He|].
  destruct (argparse_full (ce_pt o) i (ce_aedd o) fc fr "s"%char (L "tatic") (ce_ads o i) (ce_adi o i) (ce_aft o) (ce_afn o) Hi Hg)
    as [s [Hem Hpa]].
  unfold conv_argparse. rewrite Efn.
  change (Some ("s"%char :: L "tatic")) with (Some (L "static")) in Hem.
  assert (Hem' : emit_argparse (ce_pt o) i (ce_aedd o) (@Some str (fc :: fr)) (@Some str (L "static")) false false (Ok (ce_ads o i))
                 = Ok (s, i)) by exact Hem.
  rewrite Hem'. cbn [bind fst]. rewrite Hpa.
  rewrite (norm_params_C04_complete _ false Hf). unfold argparse_out. rewrite Efn. reflexivity.
Qed.

Lemma argparse_out_core_eq : forall o i, no_ret i -> core_eq i (argparse_out o i).
Proof.
  intros o i _. constructor; try reflexivity. intros g E. discriminate E.
Qed.

Theorem law_argparse : forall o, env_ok o = true -> kind_law (conv_model o) (closed_dom o) KArgparse.
Proof.
  intros o He i H. exists (argparse_out o i). split; [exact (conv_argparse_closed o i He H)|].
  pose proof (argparse_out_core_eq o i (closed_dom_no_ret o i H)) as Hce.
  split; [exact (core_eq_preserved o i _ H Hce) | exact (closed_dom_core_eq o i _ H Hce)].
Qed.

(* ------------------------------------------------------------------ 4b. the class docstring link, with the summary *)

(* proofs/C02DocLink.v derives the IR read back from the class docstring in closed form but exports only doc_agrees;
   the same derivation, keeping the summary (the proof is that of C02DocLink.link_doc_agrees / C02_doc_link_lemma) *)
Module ClassLink.
Import SplitFacts DefaultsFacts DocParseFacts C02DocLink.

Theorem link_doc_agrees_sum : forall w ww edd i S ps_p es_p ds_p ps_r es_r ds_r,
    ir_doc i = Has S -> sum_fine S -> ascii_text S = true -> wrap_fine w ww S ->
    C02_domain i = true ->
    link w ww edd (ir_params i) ps_p es_p ds_p -> es_p <> [] ->
    link w ww edd (C02Compose.ret_entry i) ps_r es_r ds_r ->
    exists text d, class_docstring_text w edd ww i = Ok text /\ class_docstring_ir text = Ok d
                   /\ doc_agrees i d = true /\ ir_doc d = Has S.
Proof.
  intros w ww edd i S ps_p es_p ds_p ps_r es_r ds_r Hdoc HS HSa HSw Hdom Hlp Hne Hlr.
  destruct (C02Compose.C02_domain_facts i Hdom) as [Hnd [Hnr _]].
  pose proof (C02Compose.fold_returns_params i Hnr) as Hfold.
  pose proof (link_app _ _ _ _ _ _ _ _ _ _ _ Hlp Hlr) as Hl.
  destruct (link_ret_shape _ _ _ _ _ _ _ Hlr) as [r Er].
  set (gps := ir_params i ++ C02Compose.ret_entry i) in *.
  set (es := es_p ++ es_r) in *. set (ds := ds_p ++ ds_r) in *.
  assert (Hes_ne : es <> []).
  { unfold es. destruct es_p; [contradiction|discriminate]. }
  assert (Hi2doc : ir_doc (class_fold_returns i) = Has S).
  { unfold class_fold_returns. destruct (ir_returns i); exact Hdoc. }
  assert (Hi2ret : forall g, ir_returns (class_fold_returns i) <> Has g).
  { intros g. unfold class_fold_returns. destruct (ir_returns i) eqn:E; cbn [ir_returns]; try rewrite E; discriminate. }
  assert (Htext : class_docstring_text w edd ww i = Ok (T1 S es)).
  { unfold class_docstring_text.
    rewrite (to_docstring_T1 w ww edd (class_fold_returns i) S (ps_p ++ ps_r) es Hi2doc (proj1 HS) (proj1 (proj2 HS)) HSw).
    - reflexivity.
    - rewrite Hfold. apply (link_params_of _ _ _ _ _ _ _ Hl).
    - exact Hi2ret.
    - apply (link_emits _ _ _ _ _ _ _ Hl).
    - exact Hes_ne. }
  exists (T1 S es).
  pose proof (link_entries _ _ _ _ _ _ _ Hl) as Hent.
  assert (Hall : all_params es_p).
  { intros e He. destruct (link_entries _ _ _ _ _ _ _ Hlp e He) as [_ [_ [_ [_ Hin]]]].
    unfold DocEmit.is_return. apply str_eqb_neq. intros E. apply Hnr.
    change return_type_key with (L "return_type"). rewrite <- E. exact Hin. }
  assert (Hfine : forall e, In e es -> entry_fine e) by (intros e He; apply (Hent e He)).
  assert (Hplain : forall e, In e es -> entry_plain e) by (intros e He; apply entry_fine_plain; apply Hfine; exact He).
  assert (Htok : forall e, In e es -> entry_tok e) by (intros e He; apply (Hent e He)).
  assert (Hcd : class_docstring (T1 S es) = T3 S es).
  { unfold es. rewrite Er. destruct es_p as [|e1 ps']; [contradiction|].
    apply class_docstring_T1; [exact HS|exact Hall|]. rewrite <- Er. exact Hfine. }
  assert (Hget : class_get_docstring (T1 S es) = Ok (cleaned S es)).
  { unfold class_get_docstring. rewrite Hcd. rewrite T3_ascii; [|exact HSa|].
    - rewrite (cleandoc_T3 S es HS Hes_ne Hplain). reflexivity.
    - intros e He. destruct (Hent e He) as [_ [_ [A [B _]]]]. split; assumption. }
  destruct (build_entries es ds (link_reads _ _ _ _ _ _ _ Hl)) as [ents [Hnames [Hblocks [Hoks Hdocs]]]].
  assert (Hents_ne : ents <> []).
  { intros E. subst ents. cbn [map] in Hnames. destruct es; [contradiction|discriminate]. }
  destruct (link_names _ _ _ _ _ _ _ Hl) as [Hn1 Hn2].
  assert (Hndup : NoDup (map e_name ents)).
  { rewrite Hnames, Hn1. apply NoDup_map_filter. unfold gps. rewrite map_app.
    unfold C02Compose.ret_entry. destruct (ir_returns i); cbn [map]; try (rewrite app_nil_r; exact Hnd).
    cbn [fst]. apply NoDup_snoc; assumption. }
  pose proof HS as [He [HSnl HStok]].
  assert (Hparse : class_docstring_ir (T1 S es)
                   = Ok (DocParse.ir_of_parts S (map (fun e => (e_name e, e_fin e)) ents) None)).
  { unfold class_docstring_ir. rewrite Hget. cbn [bind].
    change (L ":cvar") with A4. change (L ":param") with B4.
    rewrite (stepA4 S es HS Htok). rewrite (parsed_text_form S es Hes_ne). rewrite <- Hblocks.
    apply parse_entries.
    - apply no_rest_token_ws; [exact HStok|reflexivity].
    - change (S ++ [nl; nl]) with ([] ++ S ++ [nl; nl]). apply strip_pad; [reflexivity|reflexivity|exact He].
    - destruct He as [[c [r' [E _]]] _]. rewrite E. discriminate.
    - exact Hents_ne.
    - exact Hoks.
    - exact Hndup. }
  eexists. split; [exact Htext|]. split; [exact Hparse|]. split; [|reflexivity].
  unfold doc_agrees. rewrite Hfold. fold gps.
  unfold DocParse.ir_of_parts. cbn [ir_params ir_returns]. rewrite andb_true_r.
  apply (link_agrees _ _ _ _ _ _ _ Hl).
  - rewrite !map_map. cbn [fst]. exact Hnames.
  - rewrite !map_map. cbn [snd gparam_of_param g_doc]. exact Hdocs.
Qed.

Theorem doc_link_sum : forall w edd ww i,
    guard_C02_ast i = true -> doc_link_ok w edd ww i = true ->
    exists text d, class_docstring_text w edd ww i = Ok text /\ class_docstring_ir text = Ok d
                   /\ doc_agrees i d = true /\ ir_doc d = ir_doc i.
Proof.
  intros w edd ww i Hg Hok.
  destruct (C02Compose.guard_C02_ast_inv i Hg) as [Hdom [_ [Hpok [Hrok _]]]].
  destruct (C02Compose.C02_domain_facts i Hdom) as [_ [Hnr _]].
  pose proof (C02Compose.forall_folded_ok i Hpok Hrok) as Hall.
  apply Forall_app in Hall. destruct Hall as [Hallp Hallr].
  unfold doc_link_ok in Hok. rewrite (C02Compose.fold_returns_params i Hnr) in Hok.
  apply andb_true_iff in Hok. destruct Hok as [Hok Hnw]. apply andb_true_iff in Hok. destruct Hok as [Hok Hle].
  apply andb_true_iff in Hok. destruct Hok as [Hsum Hex].
  rewrite forallb_app in Hle, Hnw.
  apply andb_true_iff in Hle. destruct Hle as [Hlep Hler]. apply andb_true_iff in Hnw. destruct Hnw as [Hnwp Hnwr].
  destruct (ir_doc i) as [| |S] eqn:Edoc; try discriminate.
  apply andb_true_iff in Hsum. destruct Hsum as [Hsl Hsw].
  destruct (line_ok_facts S Hsl) as [_ [Hedge [Hnl [Hasc [Htok _]]]]].
  destruct (link_all w ww edd (ir_params i) Hallp Hlep Hnwp) as [ps_p [es_p [ds_p Hlp]]].
  destruct (link_all w ww edd (C02Compose.ret_entry i) Hallr Hler Hnwr) as [ps_r [es_r [ds_r Hlr]]].
  apply (link_doc_agrees_sum w ww edd i S ps_p es_p ds_p ps_r es_r ds_r); try assumption.
  - split; [exact Hedge|]. split; assumption.
  - apply wrap_fine_of. exact Hsw.
  - destruct (link_names _ _ _ _ _ _ _ Hlp) as [Hn1 _]. intros E. subst es_p. cbn [map] in Hn1.
    apply existsb_exists in Hex. destruct Hex as [kv [Hin Hd]].
    assert (Hf : In kv (filter documented (ir_params i))) by (apply filter_In; split; assumption).
    destruct (filter documented (ir_params i)); [destruct Hf|discriminate].
Qed.
End ClassLink.

(* ------------------------------------------------------------------ 4c. emit.class_ and the remnant *)

Lemma fold_params_clear : forall i, ir_params (class_fold_returns (clear_internal i)) = ir_params (class_fold_returns i).
Proof. intros [n t d ps r b]. unfold class_fold_returns, clear_internal. cbn [ir_returns]. destruct r; reflexivity. Qed.

(* with emit_call off, emit.class_ writes the same class for a description that carries the remnant (the body is
   rewritten by RewriteName, which succeeds, and then dropped) *)
Lemma emit_class_remnant : forall pt i cn bs ds ww tds s,
    internal_ok i = true ->
    emit_class pt (clear_internal i) false cn bs ds ww tds = Ok (s, clear_internal i) ->
    emit_class pt i false cn bs ds ww tds = Ok (s, i).
Proof.
  intros pt i cn bs ds ww tds s Hint H. unfold emit_class in *.
  rewrite fold_params_clear in H. cbn [clear_internal ir_internal ir_returns ir_params] in H.
  destruct (internal_ok_cases i Hint) as [E|[it [fnm [Ei [Eb _]]]]].
  - rewrite E.
    destruct (od_keys (ir_params i)) as [|k ks]; cbn [bind] in *; destruct tds as [text|e]; cbn [bind] in *; try discriminate H;
      destruct (map_outcome _ (ir_params (class_fold_returns i))) as [attrs|e]; cbn [bind] in *; try discriminate H;
      injection H as H; subst s; reflexivity.
  - rewrite Ei, Eb. unfold argparse_remnant, rewrite_body.
    cbn [forallb rewritable_stmt rewritable_opt rewritable_expr andb].
    destruct (od_keys (ir_params i)) as [|k ks]; cbn [bind] in *; destruct tds as [text|e]; cbn [bind] in *; try discriminate H;
      destruct (map_outcome _ (ir_params (class_fold_returns i))) as [attrs|e]; cbn [bind] in *; try discriminate H;
      injection H as H; subst s; reflexivity.
Qed.

Lemma filter_attrs : forall xs,
    filter (fun s => negb (is_assignment s)) (map ParseAstFacts.attr_stmt xs ++ []) = [].
Proof. induction xs as [|x xs IH]; [reflexivity|]. cbn [map app filter ParseAstFacts.attr_stmt is_assignment negb]. exact IH. Qed.

Lemma norm_params_C02_complete : forall ps,
    forallb (fun kv => complete_entry (snd kv)) ps = true -> norm_params_C02 ps = ps.
Proof.
  induction ps as [|[n g] ps IH]; intros H; [reflexivity|].
  cbn [forallb snd] in H. apply andb_true_iff in H. destruct H as [Hg H].
  unfold norm_params_C02 in *. cbn [map fst snd]. rewrite (IH H). f_equal. f_equal.
  destruct (complete_entry_shape g Hg) as [c [r [t [v [E Hv]]]]]. subst g.
  unfold norm_param_C02, prose_fld, prose_fld_of, prose_of, canon_default, zero_default_norm_param.
  cbn [g_doc g_typ g_default]. rewrite Hv. reflexivity.
Qed.

Lemma doc_link_ok_clear : forall w e ww i, doc_link_ok w e ww (clear_internal i) = doc_link_ok w e ww i.
Proof. intros w e ww [n t d ps [| |g] b]; reflexivity. Qed.

Lemma class_text_clear : forall w e ww i,
    class_docstring_text w e ww (clear_internal i) = class_docstring_text w e ww i.
Proof.
  intros w e ww i. unfold class_docstring_text.
  assert (X : forall x : outcome (str * ir), (do r <- x; Ok (fst r)) = C08Facts.text_of x)
    by (intros [[t j]|err]; reflexivity).
  rewrite !X. apply C08Facts.to_docstring_text_lemma; destruct i as [n t d ps r b];
    unfold class_fold_returns, clear_internal; cbn [ir_returns ir_name ir_type ir_doc ir_params ir_internal];
    destruct r; reflexivity.
Qed.

(* ------------------------------------------------------------------ 5c. the law of the class kind *)

Theorem conv_class_closed : forall o i, closed_dom o i = true ->
    exists i', conv_class o i = Ok i' /\ core_eq i i'
               /\ (ir_name i' = FNone /\ ir_type i' = Has (L "static") /\ ir_returns i' = FNone
                   /\ ir_internal i' = Some (mkInternal [] (Has (ce_cn o)) (Has (L "cls")))).
Proof.
  intros o i H. destruct (closed_dom_inv o i H) as [_ [Hc [_ [_ [_ [Hg [Hl [_ Hi]]]]]]]].
  destruct (complete_inv i Hc) as [_ [_ [Hf Hnr]]].
  set (i0 := clear_internal i) in *.
  assert (Hl0 : doc_link_ok (ce_w o) (ce_edd o) (ce_ww o) i0 = true).
  { unfold i0. rewrite doc_link_ok_clear. exact Hl. }
  destruct (ClassLink.doc_link_sum _ _ _ i0 Hg Hl0) as [text [d [Ht [Hd [Ha Hsum]]]]].
  destruct (C02Compose.C02_ast_partial_lemma (ce_pt o) i0 (ce_cn o) (ce_bases o) (ce_decos o) (ce_ww o) text d
              (ce_it o) (ce_pww o) Hg Ha) as [s [i' [Hem [Hpa [Hps [Hrs _]]]]]].
  (* the shape of the emitted class *)
  destruct (C02Compose.guard_C02_ast_inv i0 Hg) as [Hdom [_ [Hpok [Hrok Hbody]]]].
  destruct (C02Compose.C02_domain_facts i0 Hdom) as [_ [Hrt _]].
  pose proof (C02Compose.forall_folded_ok i0 Hpok Hrok) as Hall.
  destruct (C02Compose.map_outcome_attrs (ce_pt o) _ Hall) as [xs [Hxs _]].
  rewrite <- (C02Compose.fold_returns_params i0 Hrt) in Hxs.
  pose proof (C02Compose.emit_class_ok (ce_pt o) i0 (ce_cn o) (ce_bases o) (ce_decos o) (ce_ww o) text _ Hbody Hxs) as Hem2.
  rewrite Hem in Hem2. injection Hem2 as Hs. subst s.
  rewrite C02Compose.parse_class_on_emitted in Hpa. binv Hpa. binv Hpa. injection Hpa as Hpa.
  assert (Hshape : ir_name d = FNone /\ ir_type d = Has (L "static")).
  { unfold class_docstring_ir in Hd. binv Hd. destruct (parse_dot_shape _ _ _ _ _ Hd) as [Hn [Hty _]]. split; assumption. }
  exists i'. split; [|split].
  - unfold conv_class.
    assert (Ht' : class_docstring_text (ce_w o) (ce_edd o) (ce_ww o) i = Ok text).
    { rewrite <- Ht. unfold i0. symmetry. apply class_text_clear. }
    rewrite Ht'. cbn [bind].
    rewrite (emit_class_remnant _ i _ _ _ _ _ _ Hi Hem). cbn [bind fst]. rewrite Hd.
    rewrite C02Compose.parse_class_on_emitted. rewrite Ha0. cbn [bind]. rewrite Ha1. cbn [bind]. f_equal. exact Hpa.
  - subst i'. cbn [ir_params ir_returns] in Hps, Hrs. constructor; cbn [ir_doc ir_params ir_returns ir_internal].
    + rewrite Hsum. reflexivity.
    + rewrite Hps. unfold i0. cbn [clear_internal ir_params]. apply norm_params_C02_complete. exact Hf.
    + intros g E. rewrite Hrs in E. unfold norm_returns_C02, i0 in E. cbn [clear_internal ir_returns] in E.
      destruct (ir_returns i) as [| |g0] eqn:Er; try discriminate E. apply (Hnr g0). exact Er.
    + unfold internal_ok. cbn [ir_internal in_body]. rewrite filter_attrs. reflexivity.
  - subst i'. cbn [ir_params ir_returns] in Hps, Hrs. cbn [ir_name ir_type ir_returns ir_internal].
    destruct Hshape as [Hn Hty]. rewrite filter_attrs. split; [exact Hn|]. split; [exact Hty|]. split; [|reflexivity].
    rewrite Hrs. unfold norm_returns_C02, i0. cbn [clear_internal ir_returns].
    destruct (ir_returns i) as [| |g0] eqn:Er; try reflexivity. exfalso. apply (Hnr g0). exact Er.
Qed.

Theorem law_class : forall o, kind_law (conv_model o) (closed_dom o) KClass.
Proof.
  intros o i H. destruct (conv_class_closed o i H) as [i' [Hc [Hce _]]]. exists i'. split; [exact Hc|].
  split; [exact (core_eq_preserved o i _ H Hce) | exact (closed_dom_core_eq o i _ H Hce)].
Qed.

(* ------------------------------------------------------------------ 6. every chain over the closed kinds *)

Lemma closed_kind_law : forall o k, env_ok o = true -> closed_kind k = true -> kind_law (conv_model o) (closed_dom o) k.
Proof.
  intros o k He Hk. destruct k; try discriminate Hk;
    [apply law_rest | apply law_numpydoc | apply law_google | apply law_class | apply law_argparse; exact He].
Qed.

Theorem chain_closed : forall o cs, env_ok o = true -> forallb closed_kind cs = true ->
    forall i, closed_dom o i = true ->
    exists i', chain (conv_model o) cs i = Ok i' /\ preserved i i' = true /\ closed_dom o i' = true.
Proof.
  intros o cs He Hcs.
  apply (C05Facts.chain_preserved ir kind preserved (conv_model o) (closed_dom o)
                                  C05Facts.preserved_refl C05Facts.preserved_trans cs).
  intros k Hk. rewrite forallb_forall in Hcs. exact (closed_kind_law o k He (Hcs k Hk)).
Qed.

Lemma closed_kind_incl : forall cs, incl cs closed_kinds -> forallb closed_kind cs = true.
Proof.
  intros cs H. apply forallb_forall. intros k Hk. apply H in Hk.
  unfold closed_kinds in Hk. cbn [In] in Hk. destruct Hk as [E|[E|[E|[E|[E|[]]]]]]; subst k; reflexivity.
Qed.

(* in the shape of C05.C05_chain_preserved: chains drawn from closed_kinds *)
Corollary chain_closed_incl : forall o cs, env_ok o = true -> incl cs closed_kinds ->
    forall i, closed_dom o i = true ->
    exists i', chain (conv_model o) cs i = Ok i' /\ preserved i i' = true /\ closed_dom o i' = true.
Proof. intros o cs He Hcs. apply chain_closed; [exact He|apply closed_kind_incl; exact Hcs]. Qed.

Corollary chain_closed_no_swap : forall o cs, env_ok o = true -> forallb closed_kind cs = true ->
    forall i, closed_dom o i = true ->
    exists i', chain (conv_model o) cs i = Ok i'
               /\ List.length (ir_params i) = List.length (ir_params i')
               /\ forall k n g, nth_error (ir_params i) k = Some (n, g) ->
                  exists g', nth_error (ir_params i') k = Some (n, g')
                             /\ C01Spec.same_typ g g' = true /\ C01Spec.same_prose g g' = true
                             /\ same_default_ir (g_default g) (g_default g') = true.
Proof.
  intros o cs He Hcs i Hi. destruct (chain_closed o cs He Hcs i Hi) as [i' [Hc [Hp _]]].
  exists i'. split; [exact Hc|]. exact (C05Facts.preserved_no_swap i i' Hp).
Qed.

(* on the domain a chain even returns summary and parameters unchanged *)
Corollary chain_closed_exact : forall o cs, env_ok o = true -> forallb closed_kind cs = true ->
    forall i, closed_dom o i = true ->
    exists i', chain (conv_model o) cs i = Ok i' /\ ir_doc i' = ir_doc i /\ ir_params i' = ir_params i
               /\ (forall g, ir_returns i' <> Has g).
Proof.
  intros o cs He Hcs i Hi. destruct (chain_closed o cs He Hcs i Hi) as [i' [Hc [Hp _]]].
  exists i'. split; [exact Hc|]. destruct (closed_dom_inv o i Hi) as [_ [Hco _]].
  exact (complete_preserved_eq i i' Hco Hp).
Qed.

Lemma closed_dom_in_region : forall o i, closed_dom o i = true -> chain_safe closed_kinds i = true.
Proof. intros o i H. apply (closed_dom_inv o i H). Qed.

(* ------------------------------------------------------------------ 7. closed forms; C08 *)

Definition docstring_out (i : ir) : ir := mkIR FNone (Has (L "static")) (ir_doc i) (ir_params i) FNone None.

Definition class_out (o : cenv) (i : ir) : ir :=
  mkIR FNone (Has (L "static")) (ir_doc i) (ir_params i) FNone
       (Some (mkInternal [] (Has (ce_cn o)) (Has (L "cls")))).

(* N_k: what one pass of kind k returns on the domain *)
Definition out_model (o : cenv) (k : kind) (i : ir) : ir :=
  match k with
  | KRest | KNumpydoc | KGoogle => docstring_out i
  | KClass => class_out o i
  | KArgparse => argparse_out o i
  | KFunction | KMethod => i
  end.

Lemma parse_phase_ng_ret : forall style fl sc doc params returns,
    DocParseNG.parse_phase_ng style fl sc = Ok (doc, params, returns) ->
    returns = FNone \/ exists p, returns = Has p.
Proof.
  intros style fl sc doc params returns H. unfold DocParseNG.parse_phase_ng in H.
  destruct (DocParseNG.afterward_index (DocParseNG.sc_args sc) 0) as [[|k]|]; cbv zeta in H;
    (binv H; destruct a as [pairs req];
     destruct (DocParseNG.retv_truthy (DocParseNG.sc_ret sc));
     [binv H; destruct a as [rp is_list]; binv H; binv H; injection H as _ _ H; right; eexists; symmetry; exact H
     |injection H as _ _ H; left; symmetry; exact H]).
Qed.

Lemma parse_ng_shape : forall style t i', DocParseNG.parse_ng style C01SpecNG.rt_flags t = Ok i' -> doc_shape i'.
Proof.
  intros style t i' H. unfold DocParseNG.parse_ng in H.
  revert H. destruct (negb (forallb DocParseNG.in_alphabet t)); intros H; [discriminate H|].
  revert H. destruct (DocParseNG.is_empty t); intros H; [injection H as H; subst i'; repeat split; left; reflexivity|].
  binv H. binv H. destruct a0 as [[doc params] returns].
  cbn [C01SpecNG.rt_flags DocParseNG.f_emit_default_prop bind] in H. injection H as H. subst i'.
  repeat split. cbn [ir_returns].
  destruct (parse_phase_ng_ret _ _ _ _ _ _ Ha0) as [E|[p E]]; subst returns; [left|right; eexists]; reflexivity.
Qed.

Lemma doc_shape_out : forall i i', doc_shape i' -> core_eq i i' -> i' = docstring_out i.
Proof.
  intros i [n t d ps r b] [Hn [Ht [Hb Hr]]] [Hd Hp Hnr _]. cbn [ir_name ir_type ir_doc ir_params ir_returns ir_internal] in *.
  subst n t b d ps. unfold docstring_out. f_equal.
  destruct Hr as [E|[g E]]; [exact E|]. exfalso. apply (Hnr g). exact E.
Qed.

Theorem conv_rest_closed : forall o i, closed_dom o i = true -> conv_rest i = Ok (docstring_out i).
Proof.
  intros o i H. destruct (closed_dom_inv o i H) as [_ [_ [Hg _]]].
  destruct (C05Facts.RT_rest_roundtrip i Hg) as [i' [Hc Hp]]. rewrite Hc. f_equal.
  apply doc_shape_out.
  - unfold conv_rest in Hc. binv Hc. exact (parse_dot_shape _ _ _ _ _ Hc).
  - apply (core_eq_of_preserved o i i' H Hp). apply internal_ok_None.
    unfold conv_rest in Hc. binv Hc. exact (parse_dot_internal _ _ _ _ _ Hc).
Qed.

Theorem conv_ng_closed : forall o style i, closed_dom o i = true -> C01SpecNG.guard_C01_ng style i = true ->
    conv_ng style i = Ok (docstring_out i).
Proof.
  intros o style i H Hg. destruct (conv_ng_roundtrip style i Hg) as [i' [Hc Hp]]. rewrite Hc. f_equal.
  apply doc_shape_out.
  - unfold conv_ng in Hc. binv Hc. exact (parse_ng_shape _ _ _ Hc).
  - apply (core_eq_of_preserved o i i' H Hp). apply internal_ok_None.
    unfold conv_ng in Hc. binv Hc. exact (parse_ng_internal _ _ _ _ Hc).
Qed.

Theorem conv_class_out : forall o i, closed_dom o i = true -> conv_class o i = Ok (class_out o i).
Proof.
  intros o i H. destruct (conv_class_closed o i H) as [[n t d ps r b] [Hc [[Hd Hp _ _] [Hn [Ht [Hr Hb]]]]]].
  rewrite Hc. cbn [ir_name ir_type ir_doc ir_params ir_returns ir_internal] in *. subst. reflexivity.
Qed.

(* one pass in closed form: parse_k (emit_k i) = N_k i on the domain *)
Theorem conv_model_closed : forall o k i, env_ok o = true -> closed_kind k = true -> closed_dom o i = true ->
    conv_model o k i = Ok (out_model o k i).
Proof.
  intros o k i He Hk H. destruct k; try discriminate Hk; cbn [conv_model out_model].
  - exact (conv_rest_closed o i H).
  - apply (conv_ng_closed o); [exact H|apply (closed_dom_inv o i H)].
  - apply (conv_ng_closed o); [exact H|apply (closed_dom_inv o i H)].
  - exact (conv_class_out o i H).
  - exact (conv_argparse_closed o i He H).
Qed.

Lemma out_model_core_eq : forall o k i, closed_kind k = true -> core_eq i (out_model o k i).
Proof.
  intros o k i Hk. destruct k; try discriminate Hk; constructor; try reflexivity; intros g E; discriminate E.
Qed.

(* the domain is closed under N_k, and N_k is idempotent (everywhere) *)
Theorem out_model_closed : forall o k i, closed_kind k = true -> closed_dom o i = true ->
    closed_dom o (out_model o k i) = true.
Proof. intros o k i Hk H. exact (closed_dom_core_eq o i _ H (out_model_core_eq o k i Hk)). Qed.

Theorem out_model_idem : forall o k i, out_model o k (out_model o k i) = out_model o k i.
Proof. intros o k i. destruct k; reflexivity. Qed.

Theorem out_model_preserved : forall o k i, closed_kind k = true -> closed_dom o i = true ->
    preserved i (out_model o k i) = true.
Proof. intros o k i Hk H. exact (core_eq_preserved o i _ H (out_model_core_eq o k i Hk)). Qed.

(* the fixed point: the description one pass returns is returned unchanged by the next pass *)
Theorem conv_model_fixpoint : forall o k i i1, env_ok o = true -> closed_kind k = true -> closed_dom o i = true ->
    conv_model o k i = Ok i1 -> conv_model o k i1 = Ok i1.
Proof.
  intros o k i i1 He Hk H Hc. rewrite (conv_model_closed o k i He Hk H) in Hc. injection Hc as Hc. subst i1.
  rewrite (conv_model_closed o k _ He Hk (out_model_closed o k i Hk H)). rewrite out_model_idem. reflexivity.
Qed.

Lemma conv_emit : forall o k i i', conv_model o k i = Ok i' -> exists t, emit_model o k i = Ok t.
Proof.
  intros o k i i' H. destruct k; cbn [conv_model emit_model] in *; try discriminate H.
  - unfold conv_rest in H. binv H. rewrite Ha. eexists. reflexivity.
  - unfold conv_numpydoc, conv_ng in H. binv H. rewrite Ha. eexists. reflexivity.
  - unfold conv_google, conv_ng in H. binv H. rewrite Ha. eexists. reflexivity.
  - unfold conv_class in H. binv H. binv H. rewrite Ha. cbn [bind]. rewrite Ha0. eexists. reflexivity.
  - unfold conv_argparse in H. binv H. rewrite Ha. eexists. reflexivity.
Qed.

(* C08 for the closed kinds: the three emissions exist; second and third are the same artefact *)
Theorem C08_closed_lemma : forall o k i, env_ok o = true -> closed_kind k = true -> closed_dom o i = true ->
    C08_at o k i.
Proof.
  intros o k i He Hk H. pose proof (conv_model_closed o k i He Hk H) as H1.
  pose proof (conv_model_fixpoint o k i _ He Hk H H1) as H2.
  destruct (conv_emit o k i _ H1) as [t1 E1]. destruct (conv_emit o k _ _ H2) as [t2 E2].
  exists t1, (out_model o k i), t2, (out_model o k i), t2. repeat split; assumption.
Qed.

(* along a chain: after any chain over the closed kinds, one more pass of any closed kind is already a fixed point *)
Corollary C08_after_chain : forall o cs k i, env_ok o = true -> forallb closed_kind cs = true -> closed_kind k = true ->
    closed_dom o i = true ->
    exists i', chain (conv_model o) cs i = Ok i' /\ C08_at o k i'.
Proof.
  intros o cs k i He Hcs Hk H. destruct (chain_closed o cs He Hcs i H) as [i' [Hc [_ Hd]]].
  exists i'. split; [exact Hc|]. exact (C08_closed_lemma o k i' He Hk Hd).
Qed.

(* for the docstring kinds and the class kind the first emission is already the fixed text: the emitters do not look at
   what the description was parsed from *)
Lemma rest_text_core : forall i i', core_eq i i' -> no_ret i -> rest_text_of i' = rest_text_of i.
Proof.
  intros i i' [Hd Hp Hr _] Hnr. unfold rest_text_of. rewrite Hd, Hp.
  destruct (ir_returns i) as [| |g] eqn:E; [| |exfalso; apply (Hnr g); exact E];
    (destruct (ir_returns i') as [| |g'] eqn:E'; [| |exfalso; apply (Hr g'); exact E']; reflexivity).
Qed.

Lemma ng_text_core : forall style i i', core_eq i i' -> no_ret i ->
    C01SpecNG.text_of_o style i' = C01SpecNG.text_of_o style i.
Proof.
  intros style i i' [Hd Hp Hr _] Hnr. unfold C01SpecNG.text_of_o. rewrite Hd, Hp.
  destruct (ir_returns i) as [| |g] eqn:E; [| |exfalso; apply (Hnr g); exact E];
    (destruct (ir_returns i') as [| |g'] eqn:E'; [| |exfalso; apply (Hr g'); exact E']; reflexivity).
Qed.

Theorem docstring_text_fixed : forall o k i, env_ok o = true -> closed_dom o i = true ->
    is_doc_kind k = true -> emit_model o k (out_model o k i) = emit_model o k i.
Proof.
  intros o k i He H Hk. pose proof (closed_dom_no_ret o i H) as Hnr.
  destruct k; try discriminate Hk; cbn [emit_model out_model].
  - rewrite (rest_text_core i (docstring_out i) (out_model_core_eq o KRest i eq_refl) Hnr). reflexivity.
  - rewrite (ng_text_core _ i (docstring_out i) (out_model_core_eq o KRest i eq_refl) Hnr). reflexivity.
  - rewrite (ng_text_core _ i (docstring_out i) (out_model_core_eq o KRest i eq_refl) Hnr). reflexivity.
Qed.

(* ------------------------------------------------------------------ 8. the domain is inhabited; why its conjuncts *)

Lemma w_closed_in_dom : closed_dom default_env w_closed = true /\ List.length (ir_params w_closed) = 5.
Proof. vm_compute. split; reflexivity. Qed.

Definition env_edd : cenv :=
  mkCE 100 true true [] (L "ConfigClass") [L "object"] [] false false
       true (L "set_cli_args") (fun _ => L "Doc.") (fun _ => C04Codec.empty_doc_ir) None None.

Lemma w_closed_in_dom_edd : closed_dom env_edd w_closed = true.
Proof. vm_compute. reflexivity. Qed.

Definition sample_chain : list kind := [KClass; KGoogle; KArgparse; KRest; KClass; KArgparse; KArgparse; KNumpydoc].

Lemma sample_chain_runs :
  match chain (conv_model default_env) sample_chain w_closed with
  | Ok i' => preserved w_closed i' && closed_dom default_env i'
  | Err _ => false
  end = true.
Proof. vm_compute. reflexivity. Qed.

(* after the argparse conversion the description carries the remnant: it is outside guard_C02_ast and guard_C04_ast,
   the guards of C02_partial_closed and C04_partial, although the next class / argparse conversion succeeds *)
Lemma guards_not_closed_under_argparse :
  match conv_argparse default_env w_closed with
  | Ok i' => negb (guard_C02_ast i') && negb (guard_C04_ast i') && guard_C02_ast w_closed && guard_C04_ast w_closed
             && internal_ok i' && closed_dom default_env i'
  | Err _ => false
  end = true.
Proof. vm_compute. reflexivity. Qed.

(* why the guards of the per-kind theorems are conjuncts of closed_dom and chain_safe alone is not enough:
   inside chain_safe closed_kinds (class None for the one-hop chain) the conversion of the faithful model does NOT
   preserve the interface -- both confirmed on the real code *)
Definition w1p (s : str) (g : gparam) : ir := mkIR FNone (Has (L "static")) (Has s) [(L "x", g)] FNone None.

(* float default -0.0 through emit.class_ / parse.class_ comes back as 0.0 *)
Definition w_negzero : ir := w1p (L "Sum.") (cg (L "first.") (L "float") (VFloat (L "-0.0"))).

Lemma region_hole_negzero :
  chain_safe closed_kinds w_negzero = true /\ complete w_negzero = true
  /\ c05_class_of [KClass] w_negzero = None
  /\ guard_C02_ast w_negzero = false
  /\ match conv_class default_env w_negzero with Ok i' => preserved w_negzero i' | Err _ => true end = false.
Proof. vm_compute. repeat split; reflexivity. Qed.

(* a summary wrapped in quote marks loses them through emit.argparse_function / parse.argparse_ast *)
Definition w_quoted_summary : ir := w1p (L "'quoted'") (cg (L "first.") (L "int") (VInt 1)).

Lemma region_hole_quoted_summary :
  chain_safe closed_kinds w_quoted_summary = true /\ complete w_quoted_summary = true
  /\ c05_class_of [KArgparse] w_quoted_summary = None
  /\ guard_C04_ast w_quoted_summary = false
  /\ match conv_argparse default_env w_quoted_summary with Ok i' => preserved w_quoted_summary i' | Err _ => true end = false.
Proof. vm_compute. repeat split; reflexivity. Qed.

(* a float default in exponent notation: inside chain_safe, outside the guards of the C01 theorems (the numpydoc / google
   model declines the text, the ReST model round-trips it): these conjuncts bound what is PROVED, not what holds *)
Definition w_exp_float : ir := w1p (L "Sum.") (cg (L "first.") (L "float") (VFloat (L "1e+20"))).

Lemma guard_conjuncts_docstring :
  chain_safe closed_kinds w_exp_float = true /\ complete w_exp_float = true
  /\ guard_C01_rest false w_exp_float = false
  /\ C01SpecNG.guard_C01_ng DocParseNG.SGoogle w_exp_float = false
  /\ C01SpecNG.guard_C01_ng DocParseNG.SNumpydoc w_exp_float = false
  /\ conv_google w_exp_float = Err Unmodelled
  /\ match conv_rest w_exp_float with Ok i' => preserved w_exp_float i' | Err _ => false end = true.
Proof. vm_compute. repeat split; reflexivity. Qed.

(* the conjunct complete: without an explicit default the class kind invents one (already outside chain_safe) *)
Definition w_no_default : ir := w1p (L "Sum.") (mkG (Has (L "first.")) (Has (L "int")) None).

Lemma complete_needed :
  complete w_no_default = false /\ chain_safe closed_kinds w_no_default = false
  /\ guard_C02_ast w_no_default = true
  /\ match conv_class default_env w_no_default with Ok i' => preserved w_no_default i' | Err _ => true end = false.
Proof. vm_compute. repeat split; reflexivity. Qed.

Lemma closed_dom_fields : forall o i i',
    closed_dom o i = true ->
    ir_doc i' = ir_doc i -> ir_params i' = ir_params i -> (forall g, ir_returns i' <> Has g) ->
    internal_ok i' = true ->
    closed_dom o i' = true.
Proof. intros o i i' H Hd Hp Hr Hi. exact (closed_dom_core_eq o i i' H (mkCoreEq i i' Hd Hp Hr Hi)). Qed.

(* ================================================================== *)
(* 9. the function and method kinds: all seven kinds                                                                  *)
(* ================================================================== *)

Lemma core_view_core : forall i, core_view i = core i.
Proof. reflexivity. Qed.

(* ---- emit.function does not look at name, type, an absent return entry or a harmless carried body ---- *)

Lemma get_internal_body_fn : forall k i, internal_ok i = true -> internal_ok7 i = true ->
    get_internal_body (Some C03Spec.fname) (Some k) i = Ok [].
Proof.
  intros k i H H7. unfold get_internal_body. unfold internal_ok7 in H7.
  destruct (internal_ok_cases i H) as [E|[it [fnm [Ei [Eb [En Et]]]]]].
  - destruct (ir_internal i) as [it|]; [|reflexivity]. rewrite E. reflexivity.
  - rewrite Ei in *. rewrite Eb, En in *. unfold argparse_remnant in *. rewrite Et.
    apply negb_true_iff in H7. unfold fld_eq_opt. rewrite H7. reflexivity.
Qed.

Lemma emit_fn_core : forall fo i tds c r, C03Spec.fo_kind fo = c :: r ->
    internal_ok i = true -> internal_ok7 i = true -> no_ret i ->
    C03Spec.emit_fn fo i tds = C03Spec.emit_fn fo (core i) tds.
Proof.
  intros fo i tds c r Hk H H7 Hnr. unfold C03Spec.emit_fn, emit_function.
  pose proof (get_internal_body_fn (C03Spec.fo_kind fo) i H H7) as Hb.
  assert (Hb' : get_internal_body (Some C03Spec.fname) (Some (C03Spec.fo_kind fo)) (core i) = Ok []) by reflexivity.
  assert (Hf : forall x, py_or (Some C03Spec.fname) x = Ok (Some C03Spec.fname)) by reflexivity.
  assert (Hkd : forall x, py_or (Some (C03Spec.fo_kind fo)) x = Ok (Some (C03Spec.fo_kind fo))) by (rewrite Hk; reflexivity).
  rewrite !Hf, !Hkd. cbn [bind]. rewrite Hb, Hb'.
  assert (Hrp : returns_param i = None).
  { unfold returns_param. destruct (ir_returns i) as [| |g] eqn:E; try reflexivity. exfalso. apply (Hnr g). exact E. }
  assert (Hrp' : returns_param (core i) = None) by reflexivity.
  unfold function_return_val. rewrite Hrp, Hrp'. cbn [core ir_params]. 
  destruct (map_outcome _ _) as [afp|e]; cbn [bind]; [|reflexivity].
  destruct (map_outcome _ _) as [dfp|e]; cbn [bind]; [|reflexivity].
  destruct tds as [text|e]; cbn [bind]; [|reflexivity].
  destruct (C03Spec.fo_inline fo); cbn [bind fst]; reflexivity.
Qed.

Lemma to_docstring_text_noret : forall w i i' edd il et est ww,
    ir_doc i = ir_doc i' -> ir_params i = ir_params i' -> no_ret i -> no_ret i' ->
    C08Facts.text_of (DocEmit.to_docstring w i edd DocEmit.Rest il et est ww)
    = C08Facts.text_of (DocEmit.to_docstring w i' edd DocEmit.Rest il et est ww).
Proof.
  intros w [n t d ps r b] [n' t' d' ps' r' b'] edd il et est ww Hd Hp Hr Hr'.
  cbn [ir_doc ir_params] in Hd, Hp. subst d' ps'.
  unfold DocEmit.to_docstring. cbn [ir_doc ir_params ir_returns].
  destruct r as [| |g]; [| |exfalso; apply (Hr g); reflexivity];
    (destruct r' as [| |g']; [| |exfalso; apply (Hr' g'); reflexivity];
     (destruct (DocEmit.params_of ps) as [pl|]; [|reflexivity]; cbv zeta;
      repeat match goal with
             | |- C08Facts.text_of (bind ?x _) = C08Facts.text_of (bind ?x _) => destruct x; cbn [bind]
             end; reflexivity)).
Qed.

Lemma fn_text_core : forall w fo i, no_ret i ->
    C03DocLinkDefs.function_docstring_text w fo i = C03DocLinkDefs.function_docstring_text w fo (core i).
Proof.
  intros w fo i Hnr. unfold C03DocLinkDefs.function_docstring_text.
  assert (X : forall x : outcome (str * ir), (do r <- x; Ok (fst r)) = C08Facts.text_of x)
    by (intros [[t j]|err]; reflexivity).
  rewrite !X. apply to_docstring_text_noret; try reflexivity; [exact Hnr|intros g E; discriminate E].
Qed.

Lemma conv_fn_core : forall o f c r i, internal_ok i = true -> internal_ok7 i = true -> no_ret i ->
    conv_fn o f (c :: r) i = conv_fn o f (c :: r) (core i).
Proof.
  intros o f c r i H H7 Hnr. unfold conv_fn. rewrite (fn_text_core _ _ i Hnr).
  destruct (C03DocLinkDefs.function_docstring_text _ _ (core i)) as [text|e]; cbn [bind]; [|reflexivity].
  destruct (C03DocLinkDefs.function_docstring_ir text) as [d|e]; cbn [bind]; [|reflexivity].
  unfold C03Spec.round_trip_fn. rewrite (emit_fn_core (fn_opts o f (c :: r)) i (Ok text) c r eq_refl H H7 Hnr). reflexivity.
Qed.

(* ---- the function docstring link, with the summary ---- *)

(* proofs/C03DocLink.v / C03DocLinkMain.v derive the IR read back from the function docstring with an unnamed summary;
   the same derivations (the proofs are those of C03DocLink.parse_heads and C03DocLinkMain.C03_doc_link_lemma), keeping it *)
Module FnLink.
Import PureUtilsFacts DefaultsFacts DocParseFacts.
Import C03Spec C03Compose C03DocLinkDefs C03DocLink.

Theorem parse_heads_sum : forall sd docs r ws0 hws,
    (forall d0, sd = Some d0 -> no_rest_token d0 = true) ->
    Forall dent_ok docs -> NoDup (map dn docs) -> rent_ok r -> (docs <> [] \/ r <> None) ->
    map fst hws = heads sd docs r -> forallb isspace ws0 = true -> ws_all hws ->
    exists sdoc,
      parse_cleaned (text_of_heads ws0 hws)
      = Ok (ir_of_parts sdoc (map (fun e => (dn e, dent_fin e)) docs) (rent_fin r))
      /\ (forall d0, sd = Some d0 -> exists w0, sdoc = strip (ws0 ++ d0 ++ w0) /\ forallb isspace w0 = true).
Proof.
  intros sd docs r ws0 hws Hsd Hdocs Hnd Hr Hsome Hh Hws0 Hws.
  (* the summary part *)
  assert (Hsplit : exists docpart hwsB,
             text_of_heads ws0 hws = docpart ++ hw_text hwsB /\ no_rest_token docpart = true
             /\ map fst hwsB = concat (map dent_heads docs) ++ rent_heads r /\ ws_all hwsB
             /\ (forall d0', sd = Some d0' -> exists w0, docpart = ws0 ++ d0' ++ w0 /\ forallb isspace w0 = true)).
  { unfold heads in Hh. destruct sd as [d0|].
    - destruct hws as [|[h0 w0] hwsB]; [discriminate|]. cbn [map fst app] in Hh. injection Hh as E0 EB. subst h0.
      exists (ws0 ++ d0 ++ w0), hwsB. split; [|split; [|split; [|split]]].
      + unfold text_of_heads, hw_text. cbn [map concat fst snd]. rewrite <- !app_assoc. reflexivity.
      + apply ws_lead_token_free; [exact Hws0|]. apply no_rest_token_ws; [apply Hsd; reflexivity|].
        apply (Hws (d0, w0)). left. reflexivity.
      + exact EB.
      + intros hw Hin. apply Hws. right. exact Hin.
      + intros d0' E. injection E as E. subst d0'. exists w0. split; [reflexivity|]. apply (Hws (d0, w0)). left. reflexivity.
    - exists ws0, hws. split; [reflexivity|]. split; [apply isspace_no_token; exact Hws0|]. split; [exact Hh|].
      split; [exact Hws|]. intros d0' E. discriminate E. }
  destruct Hsplit as [docpart [hwsB [Etext [Hdoctok [HhB [HwsB Hdocform]]]]]].
  destruct (dents_entries docs hwsB (rent_heads r) Hdocs HhB HwsB)
    as [es [hws2 [Etxt [Hh2 [Hws2 [Hnames [Hoks [Hfin [Hmid Hescv]]]]]]]]].
  destruct (rent_blocks r hws2 Hr Hh2 Hws2) as [rblocks [Ertxt [Hrrun [Hrpost [Hrgood [Hrcv Hrne]]]]]].
  set (blocks := all_blocks es ++ rblocks).
  assert (Etext' : text_of_heads ws0 hws = docpart ++ concat (map blk blocks)).
  { rewrite Etext, Etxt, Ertxt. unfold blocks. rewrite map_app, concat_app. reflexivity. }
  assert (Hes_good : forall b, In b (all_blocks es) -> block_good b).
  { intros b Hb. unfold all_blocks in Hb. apply in_concat in Hb.
    destruct Hb as [bl [Hbl Hb]]. apply in_map_iff in Hbl. destruct Hbl as [e [Ee He]]. subst bl.
    destruct (Hoks e He) as [_ [_ [Hg _]]]. apply Hg. exact Hb. }
  assert (Hblocks_good : forall b, In b blocks -> block_good b).
  { intros b Hb. unfold blocks in Hb. apply in_app_or in Hb. destruct Hb as [Hb|Hb]; [apply Hes_good|apply Hrgood]; exact Hb. }
  assert (Hblocks_ne : exists b0, In b0 blocks).
  { destruct es as [|e1 es1].
    - assert (Eps : docs = []) by (destruct docs; [reflexivity|discriminate]).
      destruct rblocks as [|b0 rb].
      + exfalso. destruct Hsome as [H|H]; [apply H; exact Eps|apply (Hrne H); reflexivity].
      + exists b0. unfold blocks. cbn [all_blocks map concat app]. left. reflexivity.
    - destruct (Hoks e1) as [_ [_ [_ Hne]]]; [left; reflexivity|].
      destruct (e_blocks e1) as [|b0 bl] eqn:Eb; [contradiction|].
      exists b0. unfold blocks, all_blocks. cbn [map concat]. rewrite Eb. left. reflexivity. }
  (* the replace is the identity *)
  assert (Hrepl : replace cvar (L ":param") (docpart ++ concat (map blk blocks)) = docpart ++ concat (map blk blocks)).
  { apply replace_absent. apply cvar_free_text.
    - apply (proj1 (no_rest_token_spec docpart) Hdoctok cvar cvar_in_tokens).
    - intros b Hb. unfold blocks in Hb. apply in_app_or in Hb. destruct Hb as [Hb|Hb]; [apply Hescv|apply Hrcv]; exact Hb. }
  (* the scanner *)
  assert (Hscan : scan_rest (docpart ++ concat (map blk blocks)) = (false, docpart) :: map as_line blocks).
  { apply scan_rest_blocks; [exact Hdoctok|exact Hblocks_good|].
    left. destruct Hblocks_ne as [b0 Hb0]. intros E. rewrite E in Hb0. destruct Hb0. }
  (* the parse phase *)
  assert (Hnd' : NoDup (map e_name es)) by (rewrite Hnames; exact Hnd).
  set (sdoc := strip docpart).
  assert (Hphase : exists cur', parse_phase_rest ((false, docpart) :: map as_line blocks) false true true true
                   = Ok (mkRS sdoc (map (fun e => (e_name e, e_mid e)) es) (rent_fin r) cur')).
  { unfold parse_phase_rest. cbn [fold_outcome]. unfold parse_rest_line at 1. cbn [init_rstate rs_doc].
    unfold init_rstate. cbn [bind rs_params rs_returns rs_cur rs_doc]. fold sdoc.
    unfold blocks. rewrite map_app, fold_outcome_app, <- all_lines_blocks.
    fold (step true true).
    destruct es as [|e1 es1].
    - cbn [all_lines map concat fold_outcome bind].
      rewrite Hrrun by reflexivity. cbn [bind rs_doc rs_params rs_returns rs_cur fst].
      eexists. reflexivity.
    - rewrite (run_entries true true (e1 :: es1) sdoc [] None (None, empty_param) Hoks).
      2:{ cbn [names_ok]. split; [reflexivity|].
          apply (names_ok_of_nodup true true).
          - intros e He. apply Hoks. right. exact He.
          - destruct (Hoks e1) as [[_ Hb] _]; [left; reflexivity|exact Hb].
          - exact Hnd'. }
      cbn [bind]. rewrite Hrrun by reflexivity. cbn [bind rs_doc rs_params rs_returns rs_cur].
      cbn [run_spec]. change (flushed [] (None, empty_param)) with (@nil (str * param)).
      destruct (final_params es1 [] (e_name e1) (e_mid e1)) as [nl' [pl [H1 [H2 H3]]]].
      { cbn [map app]. exact Hnd'. }
      rewrite H1. cbn [fst snd].
      assert (Hlast : exists e, In e (e1 :: es1) /\ nl' = e_name e /\ pl = e_mid e).
      { destruct H3 as [[E1 [E2 E3]]|[e [He [E2 E3]]]].
        - exists e1. split; [left; reflexivity|]. split; assumption.
        - exists e. split; [right; exact He|]. split; assumption. }
      destruct Hlast as [el [Hel [Enl Epl]]]. subst nl' pl.
      destruct (Hoks el Hel) as [_ [[_ [[mi [HI HS]] _]] _]].
      rewrite HI. cbn [bind]. rewrite HS. cbn [bind fst snd]. unfold maybe_remove. rewrite andb_false_r. cbn [bind].
      rewrite H2. eexists. reflexivity. }
  destruct Hphase as [cur' Hphase].
  assert (Hparse : parse_rest (docpart ++ concat (map blk blocks)) false true true true
                   = Ok (ir_of_parts sdoc (map (fun e => (e_name e, e_fin e)) es) (rent_fin r))).
  { unfold parse_rest. rewrite Hscan, Hphase. cbn [bind rs_params rs_returns rs_doc].
    rewrite (map_params_entries true es).
    2:{ intros e He. destruct (Hoks e He) as [_ [[_ [_ H]] _]]. exact H. }
    cbn [bind]. rewrite Hrpost. cbn [bind post_remove fst snd]. reflexivity. }
  assert (Hstyle : detect_style (Some (docpart ++ concat (map blk blocks))) = Rest).
  { destruct Hblocks_ne as [b0 Hb0].
    apply (detect_style_rest _ (fst b0)).
    - rewrite <- rest_scan_tokens_eq. apply (Hblocks_good b0 Hb0).
    - apply contains_block_token. exact Hb0. }
  exists sdoc. split; [|intros d0' E; destruct (Hdocform d0' E) as [w0 [Ed Hw0]]; exists w0; split; [unfold sdoc; rewrite Ed; reflexivity|exact Hw0]].
  unfold parse_cleaned. rewrite Etext', Hrepl.
  rewrite parse_dot_rest; [|destruct Hblocks_ne as [b0 Hb0]|exact Hstyle].
  - rewrite Hparse, Hfin. reflexivity.
  - intros E. apply app_eq_nil in E. destruct E as [_ E].
    apply in_split in Hb0. destruct Hb0 as [l1 [l2 El]]. rewrite El in E.
    rewrite map_app, concat_app in E. apply app_eq_nil in E. destruct E as [_ E].
    cbn [map concat] in E. apply app_eq_nil in E. destruct E as [E _].
    destruct (Hblocks_good b0) as [Htok _]; [rewrite El; apply in_or_app; right; left; reflexivity|].
    unfold blk in E. apply app_eq_nil in E. destruct E as [E _]. rewrite E in Htok.
    revert Htok. vm_compute. intros H. repeat (destruct H as [H|H]; [discriminate|]). exact H.
Qed.

Theorem fn_doc_link_sum : forall w o i,
    guard_C03 o i = true -> doc_link_ok w o i = true ->
    exists text d,
      function_docstring_text w o i = Ok text
      /\ function_docstring_ir text = Ok d
      /\ doc_agrees o i d = true
      /\ (forall d0, ir_doc i = Has d0 -> d0 <> [] -> ir_doc d = Has d0).
Proof.
  intros w o i Hg Hl.
  pose proof (C03DocLinkGuard.guard_link_facts w o i Hg Hl) as Hfacts. cbv zeta in Hfacts.
  destruct Hfacts as [Hsum [Hsumtok [Hents [Hret [Hdents [Hnd [Hrent Hsome]]]]]]].
  destruct (C03DocLink.guard_agree_facts o i Hg) as [Hndp [Hpf Hrf]].
  assert (Hlast : forall g d l, ir_returns i = Has g -> prose_of g = Some d ->
                                emitted_typ (negb (fo_inline o)) g = None -> last_c d = Some l -> isspace l = false).
  { intros g d l Eg Ep _ Hlc. destruct (Hrf g Eg d Ep) as [_ [[_ [l' [Hl' Hsp]]] _]].
    rewrite Hlc in Hl'. injection Hl' as Hl'. subst l'. exact Hsp. }
  destruct (C03DocLinkLines.to_docstring_lines w i (fo_edd o) (fo_indent o) (negb (fo_inline o)) (fo_sep_tab o)
              (fo_word_wrap o) Hsum Hents Hret Hlast Hsome)
    as [text [i' [lns [Htd [Etext [Hne [Hok Hheads]]]]]]].
  destruct (C03DocLinkClean.cleandoc_heads lns Hne Hok) as [ws0 [hws [Hcd [Hfst [Hws0 Hws]]]]].
  assert (Hwsall : C03DocLink.ws_all hws).
  { intros hw Hin. rewrite forallb_forall in Hws. apply (Hws hw Hin). }
  rewrite Hheads in Hfst.
  destruct (parse_heads_sum (sum_of i) (docs_of (negb (fo_inline o)) (ir_params i))
              (rent_of (negb (fo_inline o)) (ir_returns i)) ws0 hws Hsumtok Hdents Hnd Hrent Hsome Hfst Hws0 Hwsall)
    as [sdoc [Hparse Hsdoc]].
  exists text. eexists. split; [|split; [|split]].
  - unfold function_docstring_text. rewrite Htd. reflexivity.
  - unfold function_docstring_ir. rewrite Etext, Hcd. cbn [bind]. exact Hparse.
  - unfold doc_agrees, DocParse.ir_of_parts. cbn [ir_params ir_returns]. rewrite map_map. cbn [fst snd].
    rewrite (C03DocLink.params_agree (negb (fo_inline o)) (ir_params i) Hndp Hpf). cbn [andb].
    apply C03DocLink.returns_agree. exact Hrf.
  - intros d0 Ed0 Hne0. unfold DocParse.ir_of_parts. cbn [ir_doc]. f_equal.
    assert (Es : sum_of i = Some d0).
    { unfold sum_of, DocEmit.truthy_fld. rewrite Ed0. destruct d0; [contradiction|reflexivity]. }
    destruct (Hsdoc d0 Es) as [w0 [E Hw0]]. rewrite E.
    apply strip_pad; [exact Hws0|exact Hw0|].
    apply strip_fix_edge_ok; [exact Hne0|].
    unfold doc_link_ok in Hl. apply andb_true_iff in Hl. destruct Hl as [Hl _]. apply andb_true_iff in Hl. destruct Hl as [Hl _].
    apply andb_true_iff in Hl. destruct Hl as [Hl _]. unfold summary_link_ok in Hl. rewrite Es in Hl.
    apply andb_true_iff in Hl. destruct Hl as [Hl _]. apply andb_true_iff in Hl. destruct Hl as [Hl _].
    unfold C01Spec.clean_line in Hl. apply andb_true_iff in Hl. destruct Hl as [Hl _]. apply str_eqb_eq in Hl. exact Hl.
Qed.
End FnLink.

(* ---- the function round trip, with the fields C03_at does not mention ---- *)

Module FnRT.
Import Merge ParseSig C12Spec C07Spec MergeFacts C12Facts ParseSigFacts C07Facts.
Import C03Spec C03Compose.

(* parse.function on a function whose body is its docstring alone: no carried body is recorded *)
Lemma parse_fn_internal : forall d n a text r res, ir_internal d = None ->
    parse_fn (Some d) (SFunc n a [SExpr (EConst (VStr text))] [] r) = Ok res -> ir_internal res = None.
Proof.
  intros d n a text r res Hd H. unfold parse_fn, parse_function in H.
  binv H. binv H. rename a0 into pp. rename a1 into merged.
  unfold pf_prepare in Ha. cbn [negb] in Ha.
  destruct (negb (arg_exprs_ok a)); [discriminate Ha|]. cbn [docstring_of bind tl] in Ha.
  binv Ha. injection Ha as Ha. subst pp. cbn [pp_target pp_other] in Ha0.
  unfold ir_merge in Ha0. cbn [ir_params ir_returns ir_internal ir_name ir_type ir_doc] in Ha0.
  match type of Ha0 with (if ?c then _ else _) = _ => destruct c; [discriminate Ha0|] end.
  binv Ha0. binv Ha0. injection Ha0 as Ha0. subst merged.
  unfold pf_finish in H. cbn [ir_internal ir_name ir_type ir_doc ir_params ir_returns] in H.
  binv H. binv H. binv H. injection H as H. subst res. cbn [ir_internal merge_internal]. exact Hd.
Qed.

Theorem fn_round_trip_fields : forall o i text d,
  guard_C03 o i = true -> doc_agrees o i d = true -> ir_returns i = FNone -> ir_internal d = None ->
  exists r, round_trip_fn o i (Ok text) (Some d) = Ok r /\ same_interface_fn (fo_kind o) i r = true
            /\ ir_doc r = ir_doc d /\ ir_internal r = None.
Proof.
  intros o i text d G DA Hnoret Hdint. pose proof (guard_inv o i G) as GF.
  unfold doc_agrees in DA. apply andb_true_iff in DA. destruct DA as [DAp DAr].
  destruct (returns_round_trip o i d GF DAr)
    as (rv & rv' & ann & ann' & Hrv & Hann & Hrvre & Hannre & rets & rets' & Hir & Hfin & Hsame_r).
  assert (Hps : forall kv, In kv (nkp i) -> emitted_param_facts o (snd kv)).
  { intros [n g] Hin. cbn [snd]. apply nkp_In in Hin. destruct Hin as [HinP Hnk].
    pose proof (gf_entries _ _ GF n g HinP) as Hdom.
    destruct (param_class_inv o n g Hnk Hdom (gf_params _ _ GF n g HinP)) as [v F].
    apply (param_emitted_facts o g v Hdom F). }
  assert (Hemit : emit_fn o i (Ok text) = Ok (SFunc fname (emitted_arguments o i) (emitted_body text rv) [] ann)).
  { apply emit_fn_shape; [exact (gf_kind _ _ GF)|exact (gf_internal _ _ GF)| |exact Hrv|exact Hann].
    intros kv Hkv. split; [apply (epf_fits _ _ (Hps kv Hkv))|apply (epf_scalar _ _ (Hps kv Hkv))]. }
  assert (Hre : reparse_stmt (SFunc fname (emitted_arguments o i) (emitted_body text rv) [] ann)
                = Ok (SFunc fname (reparsed_arguments o i) (emitted_body text rv') [] ann')).
  { apply reparse_emitted; [|exact Hrvre|exact Hannre].
    intros kv Hkv. split; [apply (epf_stable _ _ (Hps kv Hkv))|apply (epf_reparses _ _ (Hps kv Hkv))]. }
  destruct (params_round_trip o i d GF DAp) as (T & app & m & params2 & Hkw & HmT & HmO & Hm & Hsnt & Hsame_p).
  pose proof (reparsed_exprs_ok o i Hps) as Hok.
  destruct (parse_fn_eq d fname (reparsed_arguments o i) (EmitAst.set_value_str text) (opt_list rv') ann'
                        T app m params2 rets rets' Hok Hkw HmT HmO Hm Hsnt Hir Hfin) as [it Hparse].
  assert (Erv : rv = None).
  { unfold EmitAst.function_return_val, EmitAst.returns_param in Hrv. rewrite Hnoret in Hrv. cbn [fget] in Hrv.
    injection Hrv as Hrv. symmetry. exact Hrv. }
  subst rv. cbn [opt_list mapM] in Hrvre. injection Hrvre as Hrvre.
  assert (Hint : ir_internal (mkIR (Has fname) (Has (get_function_type (reparsed_arguments o i))) (ir_doc d) params2 rets' it) = None).
  { apply (parse_fn_internal d fname (reparsed_arguments o i) (EmitAst.set_value_str text) ann' _ Hdint).
    rewrite <- Hparse. rewrite <- Hrvre. reflexivity. }
  unfold round_trip_fn. rewrite Hemit. cbn [bind]. rewrite Hre. cbn [bind].
  unfold emitted_body, EmitAst.set_value. rewrite Hparse.
  eexists. split; [reflexivity|]. split; [|split; [reflexivity|exact Hint]].
  unfold same_interface_fn. cbn [ir_params ir_returns]. rewrite Hsame_p, Hsame_r. cbn [andb].
  unfold kind_preserved. cbn [ir_type].
  assert (HinS : forallb not_self_cls (nk_names i) = true).
  { apply forallb_forall. intros n Hn. unfold nk_names in Hn. apply in_map_iff in Hn. destruct Hn as [[n' g] [E Hin]].
    cbn [fst] in E. subst n'. apply nkp_In in Hin. destruct Hin as [Hin _].
    apply (name_facts n). apply (gf_names _ _ GF). apply in_map_iff. exists (n, g). auto. }
  rewrite (found_type_kind o i (gf_kind _ _ GF) HinS). apply str_eqb_refl.
Qed.
End FnRT.

(* ---- same_interface_fn on complete descriptions ---- *)

Lemma same_param_fn_complete : forall g g', complete_entry g = true -> C03Spec.same_param_fn g g' = true -> g' = g.
Proof.
  intros g [gd' gt' gdef'] Hc H. destruct (complete_entry_shape g Hc) as [c [r [t [v [E Hv]]]]]. subst g.
  unfold C03Spec.same_param_fn in H. apply andb_true_iff in H. destruct H as [H Hd]. apply andb_true_iff in H. destruct H as [Ht Hp].
  unfold C02Spec.same_typ in Ht. unfold C02Spec.same_prose, C02Spec.prose_of in Hp. unfold C02Spec.default_same in Hd.
  cbn [g_doc g_typ g_default fget] in *.
  destruct gt' as [| |t']; cbn [fget C02Spec.opt_str_eqb] in Ht; try discriminate Ht. apply str_eqb_eq in Ht. subst t'.
  destruct gd' as [| |[|c' r']]; cbn [C02Spec.opt_str_eqb] in Hp; try discriminate Hp. apply str_eqb_eq in Hp. rewrite <- Hp.
  destruct gdef' as [w|]; [|discriminate Hd]. unfold C02Spec.same_default in Hd.
  assert (Hn : C02Spec.d_none_like (DV v) = false) by exact Hv. rewrite Hn in Hd. cbn [andb orb] in Hd.
  apply C05Facts.dval_eqb_eq in Hd. subst w. reflexivity.
Qed.

Lemma od_get_skip : forall (k n : str) (g : gparam) b, k <> n -> od_get k ((n, g) :: b) = od_get k b.
Proof.
  intros k n g b H. cbn [od_get]. destruct (str_eqb k n) eqn:E; [apply str_eqb_eq in E; contradiction|reflexivity].
Qed.

Lemma same_params_fn_complete : forall a b, NoDup (map fst a) ->
    forallb (fun kv => complete_entry (snd kv)) a = true -> C03Spec.same_params_fn a b = true -> b = a.
Proof.
  intros a b Hnd Hc H. unfold C03Spec.same_params_fn in H. apply andb_true_iff in H. destruct H as [Hk Hf].
  apply C03Compose.list_eqb_str_eq in Hk. unfold od_keys in Hk.
  revert b Hnd Hc Hk Hf. induction a as [|[n g] a IH]; intros [|[n' g'] b] Hnd Hc Hk Hf; cbn [map fst] in Hk; try discriminate Hk.
  - reflexivity.
  - injection Hk as Hn Hk. subst n'. inversion Hnd as [|x l Hnotin Hnd']; subst x l.
    cbn [forallb snd fst] in Hc, Hf. apply andb_true_iff in Hc. destruct Hc as [Hg Hc].
    apply andb_true_iff in Hf. destruct Hf as [Hh Hf].
    cbn [od_get] in Hh. rewrite str_eqb_refl in Hh.
    rewrite (same_param_fn_complete g g' Hg Hh). f_equal. apply (IH b Hnd' Hc Hk).
    apply forallb_forall. intros kv Hin. rewrite forallb_forall in Hf. specialize (Hf kv Hin).
    rewrite od_get_skip in Hf; [exact Hf|]. intros E. apply Hnotin. rewrite <- E. apply in_map. exact Hin.
Qed.

(* ---- the seven-kind domain ---- *)

Lemma closed_dom7_inv : forall o f i, closed_dom7 o f i = true ->
    closed_dom o i = true /\ internal_ok7 i = true /\ fn_guard o f kind_static i = true /\ fn_guard o f kind_self i = true.
Proof.
  intros o f i H. unfold closed_dom7 in H. do 3 (apply andb_true_iff in H; destruct H as [H ?]). repeat split; assumption.
Qed.

Lemma fn_guard_core : forall o f k i i', core i' = core i -> fn_guard o f k i' = fn_guard o f k i.
Proof. intros o f k i i' E. unfold fn_guard. rewrite !core_view_core, E. reflexivity. Qed.

Theorem closed_dom7_core_eq : forall o f i i', closed_dom7 o f i = true -> core_eq i i' -> internal_ok7 i' = true ->
    closed_dom7 o f i' = true.
Proof.
  intros o f i i' H Hce H7. destruct (closed_dom7_inv o f i H) as [Hd [_ [Hs Hm]]].
  unfold closed_dom7. rewrite (closed_dom_core_eq o i i' Hd Hce), H7.
  rewrite (fn_guard_core o f _ i i' (core_eq_core i i' Hce)), (fn_guard_core o f _ i i' (core_eq_core i i' Hce)), Hs, Hm.
  reflexivity.
Qed.

Lemma closed_dom_summary : forall o i, closed_dom o i = true -> exists d0, ir_doc i = Has d0 /\ d0 <> [].
Proof.
  intros o i H. destruct (closed_dom_inv o i H) as [_ [_ [_ [_ [_ [_ [Hl _]]]]]]].
  unfold doc_link_ok in Hl. do 3 (apply andb_true_iff in Hl; destruct Hl as [Hl ?]).
  destruct (ir_doc i) as [| |d0]; try discriminate Hl. exists d0. split; [reflexivity|].
  apply andb_true_iff in Hl. destruct Hl as [Hl _]. unfold link_line_ok in Hl.
  do 4 (apply andb_true_iff in Hl; destruct Hl as [Hl ?]). destruct d0; [discriminate Hl|discriminate].
Qed.

(* ---- the law of the function / method kinds ---- *)

Theorem conv_fn_closed : forall o f c r i, closed_dom7 o f i = true -> fn_guard o f (c :: r) i = true ->
    exists i', conv_fn o f (c :: r) i = Ok i' /\ core_eq i i' /\ ir_internal i' = None.
Proof.
  intros o f c r i H Hg. destruct (closed_dom7_inv o f i H) as [Hd [H7 _]].
  destruct (closed_dom_inv o i Hd) as [_ [Hc [_ [_ [_ [_ [_ [_ Hi]]]]]]]].
  destruct (complete_inv i Hc) as [_ [_ [Hf Hnr]]].
  destruct (closed_dom_summary o i Hd) as [d0 [Ed0 Hne0]].
  rewrite (conv_fn_core o f c r i Hi H7 Hnr).
  unfold fn_guard in Hg. rewrite core_view_core in Hg. apply andb_true_iff in Hg. destruct Hg as [Hg Hl].
  set (fo := fn_opts o f (c :: r)) in *.
  destruct (FnLink.fn_doc_link_sum (ce_w o) fo (core i) Hg Hl) as [text [d [Ht [Hdd [Ha Hsum]]]]].
  assert (Hdint : ir_internal d = None).
  { unfold C03DocLinkDefs.function_docstring_ir in Hdd. binv Hdd. exact (parse_dot_internal _ _ _ _ _ Hdd). }
  destruct (FnRT.fn_round_trip_fields fo (core i) text d Hg Ha eq_refl Hdint) as [i' [Hrt [Hsame [Hdoc Hint]]]].
  exists i'. split; [|split; [|exact Hint]].
  - unfold conv_fn. fold fo. rewrite Ht. cbn [bind]. rewrite Hdd. cbn [bind]. exact Hrt.
  - unfold C03Spec.same_interface_fn in Hsame. apply andb_true_iff in Hsame. destruct Hsame as [Hsame _].
    apply andb_true_iff in Hsame. destruct Hsame as [Hps Hrs]. cbn [core ir_params ir_returns] in Hps, Hrs.
    constructor.
    + rewrite Hdoc. rewrite Ed0. apply Hsum; [exact Ed0|exact Hne0].
    + apply same_params_fn_complete; [|exact Hf|exact Hps].
      exact (C03Compose.gf_nodup _ _ (C03Compose.guard_inv fo (core i) Hg)).
    + intros g E. unfold C03Spec.same_returns_fn in Hrs. rewrite E in Hrs. cbn [fget] in Hrs. discriminate Hrs.
    + apply internal_ok_None. exact Hint.
Qed.

Lemma internal_ok7_None : forall i, ir_internal i = None -> internal_ok7 i = true.
Proof. intros i H. unfold internal_ok7. rewrite H. reflexivity. Qed.

Lemma internal_ok7_out : forall o k i, env_ok7 o = true -> closed_kind k = true -> internal_ok7 (out_model o k i) = true.
Proof.
  intros o k i He Hk. unfold env_ok7 in He. apply andb_true_iff in He. destruct He as [_ He].
  destruct k; try discriminate Hk; try reflexivity.
  unfold internal_ok7. cbn [out_model argparse_out ir_internal in_body in_from_name argparse_remnant]. exact He.
Qed.

Lemma env_ok7_env_ok : forall o, env_ok7 o = true -> env_ok o = true.
Proof. intros o H. unfold env_ok7 in H. apply andb_true_iff in H. apply H. Qed.

Theorem law7 : forall o f k, env_ok7 o = true -> kind_law (conv_model7 o f) (closed_dom7 o f) k.
Proof.
  intros o f k He i H. destruct (closed_dom7_inv o f i H) as [Hd [_ [Hs Hm]]].
  pose proof (env_ok7_env_ok o He) as He5.
  assert (Hold : closed_kind k = true -> conv_model7 o f k i = conv_model o k i ->
                 exists i', conv_model7 o f k i = Ok i' /\ preserved i i' = true /\ closed_dom7 o f i' = true).
  { intros Hk Hcm. exists (out_model o k i). split; [rewrite Hcm; exact (conv_model_closed o k i He5 Hk Hd)|].
    split; [exact (out_model_preserved o k i Hk Hd)|].
    exact (closed_dom7_core_eq o f i _ H (out_model_core_eq o k i Hk) (internal_ok7_out o k i He Hk)). }
  assert (Hfn : forall c r, fn_guard o f (c :: r) i = true ->
                exists i', conv_fn o f (c :: r) i = Ok i' /\ preserved i i' = true /\ closed_dom7 o f i' = true).
  { intros c r Hg. destruct (conv_fn_closed o f c r i H Hg) as [i' [Hc [Hce Hint]]]. exists i'. split; [exact Hc|].
    split; [exact (core_eq_preserved o i i' Hd Hce)|].
    exact (closed_dom7_core_eq o f i i' H Hce (internal_ok7_None i' Hint)). }
  destruct k; try (apply Hold; reflexivity).
  - exact (Hfn _ _ Hs).
  - exact (Hfn _ _ Hm).
Qed.

Theorem chain_closed7 : forall o f cs, env_ok7 o = true ->
    forall i, closed_dom7 o f i = true ->
    exists i', chain (conv_model7 o f) cs i = Ok i' /\ preserved i i' = true /\ closed_dom7 o f i' = true.
Proof.
  intros o f cs He.
  apply (C05Facts.chain_preserved ir kind preserved (conv_model7 o f) (closed_dom7 o f)
                                  C05Facts.preserved_refl C05Facts.preserved_trans cs).
  intros k _. exact (law7 o f k He).
Qed.

Corollary chain_closed7_no_swap : forall o f cs, env_ok7 o = true ->
    forall i, closed_dom7 o f i = true ->
    exists i', chain (conv_model7 o f) cs i = Ok i'
               /\ List.length (ir_params i) = List.length (ir_params i')
               /\ forall k n g, nth_error (ir_params i) k = Some (n, g) ->
                  exists g', nth_error (ir_params i') k = Some (n, g')
                             /\ C01Spec.same_typ g g' = true /\ C01Spec.same_prose g g' = true
                             /\ same_default_ir (g_default g) (g_default g') = true.
Proof.
  intros o f cs He i Hi. destruct (chain_closed7 o f cs He i Hi) as [i' [Hc [Hp _]]].
  exists i'. split; [exact Hc|]. exact (C05Facts.preserved_no_swap i i' Hp).
Qed.

Corollary chain_closed7_exact : forall o f cs, env_ok7 o = true ->
    forall i, closed_dom7 o f i = true ->
    exists i', chain (conv_model7 o f) cs i = Ok i' /\ ir_doc i' = ir_doc i /\ ir_params i' = ir_params i
               /\ (forall g, ir_returns i' <> Has g).
Proof.
  intros o f cs He i Hi. destruct (chain_closed7 o f cs He i Hi) as [i' [Hc [Hp _]]].
  exists i'. split; [exact Hc|]. destruct (closed_dom7_inv o f i Hi) as [Hd _].
  destruct (closed_dom_inv o i Hd) as [_ [Hco _]]. exact (complete_preserved_eq i i' Hco Hp).
Qed.

Lemma closed_dom7_in_closed_dom : forall o f i, closed_dom7 o f i = true -> closed_dom o i = true.
Proof. intros o f i H. apply (closed_dom7_inv o f i H). Qed.

(* ---- C08 for all seven kinds ---- *)

Theorem conv_model7_fixpoint : forall o f k i i1, env_ok7 o = true -> closed_dom7 o f i = true ->
    conv_model7 o f k i = Ok i1 -> conv_model7 o f k i1 = Ok i1.
Proof.
  intros o f k i i1 He H Hc. destruct (closed_dom7_inv o f i H) as [Hd [_ [Hs Hm]]].
  pose proof (env_ok7_env_ok o He) as He5.
  assert (Hfn : forall c r, fn_guard o f (c :: r) i = true -> conv_fn o f (c :: r) i = Ok i1 -> conv_fn o f (c :: r) i1 = Ok i1).
  { intros c r Hg Hcf. destruct (conv_fn_closed o f c r i H Hg) as [i' [Hc' [Hce Hint]]].
    rewrite Hcf in Hc'. injection Hc' as Hc'. subst i'.
    destruct (closed_dom_inv o i Hd) as [_ [Hco [_ [_ [_ [_ [_ [_ Hi]]]]]]]]. destruct (complete_inv i Hco) as [_ [_ [_ Hnr]]].
    destruct (closed_dom7_inv o f i H) as [_ [H7 _]].
    rewrite (conv_fn_core o f c r i1 (internal_ok_None i1 Hint) (internal_ok7_None i1 Hint) (ce_ret _ _ Hce)).
    rewrite (core_eq_core i i1 Hce). rewrite <- (conv_fn_core o f c r i Hi H7 Hnr). exact Hcf. }
  destruct k;
    try (match goal with |- conv_model7 _ _ ?k _ = _ => exact (conv_model_fixpoint o k i i1 He5 eq_refl Hd Hc) end).
  - exact (Hfn _ _ Hs Hc).
  - exact (Hfn _ _ Hm Hc).
Qed.

Lemma conv_emit7 : forall o f k i i', conv_model7 o f k i = Ok i' -> exists t, emit_model7 o f k i = Ok t.
Proof.
  intros o f k i i' H.
  assert (Hfn : forall kd, conv_fn o f kd i = Ok i' ->
                exists t, (do text <- C03DocLinkDefs.function_docstring_text (ce_w o) (fn_opts o f kd) i;
                           do s <- C03Spec.emit_fn (fn_opts o f kd) i (Ok text); Ok (AStmt s)) = Ok t).
  { intros kd Hc. unfold conv_fn in Hc. binv Hc. binv Hc. unfold C03Spec.round_trip_fn in Hc. binv Hc.
    rewrite Ha. cbn [bind]. rewrite Ha1. eexists. reflexivity. }
  destruct k;
    try (match goal with |- exists t, emit_model7 _ _ ?k _ = _ => exact (conv_emit o k i i' H) end).
  - exact (Hfn _ H).
  - exact (Hfn _ H).
Qed.

Theorem C08_closed7_lemma : forall o f k i, env_ok7 o = true -> closed_dom7 o f i = true -> C08_at7 o f k i.
Proof.
  intros o f k i He H. destruct (law7 o f k He i H) as [i1 [H1 _]].
  pose proof (conv_model7_fixpoint o f k i i1 He H H1) as H2.
  destruct (conv_emit7 o f k i _ H1) as [t1 E1]. destruct (conv_emit7 o f k _ _ H2) as [t2 E2].
  exists t1, i1, t2, i1, t2. repeat split; assumption.
Qed.

Corollary C08_after_chain7 : forall o f cs k i, env_ok7 o = true -> closed_dom7 o f i = true ->
    exists i', chain (conv_model7 o f) cs i = Ok i' /\ C08_at7 o f k i'.
Proof.
  intros o f cs k i He H. destruct (chain_closed7 o f cs He i H) as [i' [Hc [_ Hd]]].
  exists i'. split; [exact Hc|]. exact (C08_closed7_lemma o f k i' He Hd).
Qed.

(* ---- non-vacuity and the side condition on the argparse function name ---- *)

Lemma w_closed_in_dom7 :
  env_ok7 default_env = true /\ closed_dom7 default_env default_fenv w_closed = true
  /\ closed_dom7 default_env (mkFE false false 1 false false) w_closed = true.
Proof. vm_compute. repeat split; reflexivity. Qed.

Definition sample_chain7 : list kind :=
  [KClass; KFunction; KArgparse; KMethod; KRest; KFunction; KGoogle; KArgparse; KClass; KMethod; KMethod; KNumpydoc].

Lemma sample_chain7_runs :
  match chain (conv_model7 default_env default_fenv) sample_chain7 w_closed with
  | Ok i' => preserved w_closed i' && closed_dom7 default_env default_fenv i'
  | Err _ => false
  end = true.
Proof. vm_compute. reflexivity. Qed.

(* env_ok7 is needed: when the argparse function is also named f, emit.function splices the carried
   return argument_parser  into f and parse.function invents a return entry (confirmed on the real code) *)
Definition env_fname_f : cenv :=
  mkCE 100 false false [] (L "ConfigClass") [L "object"] [] false false
       false (L "f") (fun _ => L "Doc.") (fun _ => C04Codec.empty_doc_ir) None None.

Lemma env_ok7_needed :
  env_ok env_fname_f = true /\ env_ok7 env_fname_f = false
  /\ closed_dom7 env_fname_f default_fenv w_closed = true
  /\ match chain (conv_model7 env_fname_f default_fenv) [KArgparse; KFunction] w_closed with
     | Ok i' => negb (preserved w_closed i') && match ir_returns i' with Has _ => true | _ => false end
     | Err _ => false
     end = true.
Proof. vm_compute. repeat split; reflexivity. Qed.

(* ---- which kind blocks which enlargement of the domain ---- *)

Definition passes (k : kind) (i : ir) : bool :=
  match conv_model7 default_env default_fenv k i with Ok i' => preserved i i' | Err _ => false end.

(* a typed return entry with prose (no default): carried by rest, function, method; numpydoc / google / class give it
   the default 0, argparse drops it *)
Definition w_ret : ir :=
  mkIR FNone (Has (L "static")) (ir_doc w_closed) (ir_params w_closed)
       (Has (mkG (Has (L "the result.")) (Has (L "int")) None)) None.

Lemma return_entry_blockers :
  map (fun k => passes k w_ret) all_kinds = [true; false; false; false; true; true; false]
  /\ map (fun k => chain_safe [k] w_ret) all_kinds = [true; false; false; false; true; true; false].
Proof. vm_compute. split; reflexivity. Qed.

(* the default None under Optional[...]: only argparse loses it (the default disappears); every other kind returns it
   as the spelling NoneStr -- which [preserved] identifies with None, so [preserved] no longer determines the
   parameters and the closure argument of this file (closed_dom_core_eq) does not apply as it stands *)
Definition w_none : ir :=
  mkIR FNone (Has (L "static")) (Has (L "Sum."))
       [(L "x", mkG (Has (L "first.")) (Has (L "Optional[int]")) (Some (DV VNone)));
        (L "y", cg (L "second.") (L "int") (VInt 2))] FNone None.

Lemma none_default_blockers :
  map (fun k => passes k w_none) all_kinds = [true; true; true; true; true; true; false]
  /\ map (fun k => chain_safe [k] w_none) all_kinds = [true; true; true; true; true; true; false]
  /\ map (fun k => match conv_model7 default_env default_fenv k w_none with
                   | Ok i' => match ir_params i' with (_, g) :: _ => g_default g | [] => None end
                   | Err _ => None
                   end) all_kinds
     = [Some (DV (VStr PureUtils.NoneStr)); Some (DV (VStr PureUtils.NoneStr)); Some (DV (VStr PureUtils.NoneStr));
        Some (DV (VStr PureUtils.NoneStr)); Some (DV (VStr PureUtils.NoneStr)); Some (DV (VStr PureUtils.NoneStr)); None].
Proof. vm_compute. repeat split; reflexivity. Qed.

(* ================================================================== *)
(* 10. a typed return entry with prose, over rest / function / method                                                 *)
(* ================================================================== *)

Module FnRT2.
Import Merge ParseSig C12Spec C07Spec MergeFacts C12Facts ParseSigFacts C07Facts.
Import C03Spec C03Compose.

Theorem fn_round_trip_fields_ret : forall o i text d,
  guard_C03 o i = true -> doc_agrees o i d = true -> (forall g, ir_returns i = Has g -> g_default g = None) ->
  ir_internal d = None ->
  exists r, round_trip_fn o i (Ok text) (Some d) = Ok r /\ same_interface_fn (fo_kind o) i r = true
            /\ ir_doc r = ir_doc d /\ ir_internal r = None.
Proof.
  intros o i text d G DA Hnoret Hdint. pose proof (guard_inv o i G) as GF.
  unfold doc_agrees in DA. apply andb_true_iff in DA. destruct DA as [DAp DAr].
  destruct (returns_round_trip o i d GF DAr)
    as (rv & rv' & ann & ann' & Hrv & Hann & Hrvre & Hannre & rets & rets' & Hir & Hfin & Hsame_r).
  assert (Hps : forall kv, In kv (nkp i) -> emitted_param_facts o (snd kv)).
  { intros [n g] Hin. cbn [snd]. apply nkp_In in Hin. destruct Hin as [HinP Hnk].
    pose proof (gf_entries _ _ GF n g HinP) as Hdom.
    destruct (param_class_inv o n g Hnk Hdom (gf_params _ _ GF n g HinP)) as [v F].
    apply (param_emitted_facts o g v Hdom F). }
  assert (Hemit : emit_fn o i (Ok text) = Ok (SFunc fname (emitted_arguments o i) (emitted_body text rv) [] ann)).
  { apply emit_fn_shape; [exact (gf_kind _ _ GF)|exact (gf_internal _ _ GF)| |exact Hrv|exact Hann].
    intros kv Hkv. split; [apply (epf_fits _ _ (Hps kv Hkv))|apply (epf_scalar _ _ (Hps kv Hkv))]. }
  assert (Hre : reparse_stmt (SFunc fname (emitted_arguments o i) (emitted_body text rv) [] ann)
                = Ok (SFunc fname (reparsed_arguments o i) (emitted_body text rv') [] ann')).
  { apply reparse_emitted; [|exact Hrvre|exact Hannre].
    intros kv Hkv. split; [apply (epf_stable _ _ (Hps kv Hkv))|apply (epf_reparses _ _ (Hps kv Hkv))]. }
  destruct (params_round_trip o i d GF DAp) as (T & app & m & params2 & Hkw & HmT & HmO & Hm & Hsnt & Hsame_p).
  pose proof (reparsed_exprs_ok o i Hps) as Hok.
  destruct (parse_fn_eq d fname (reparsed_arguments o i) (EmitAst.set_value_str text) (opt_list rv') ann'
                        T app m params2 rets rets' Hok Hkw HmT HmO Hm Hsnt Hir Hfin) as [it Hparse].
  assert (Erv : rv = None).
  { unfold EmitAst.function_return_val, EmitAst.returns_param in Hrv.
    destruct (ir_returns i) as [| |g0] eqn:Er0; cbn [fget] in Hrv;
      [injection Hrv as Hrv; symmetry; exact Hrv|injection Hrv as Hrv; symmetry; exact Hrv|].
    rewrite (Hnoret g0 eq_refl) in Hrv. injection Hrv as Hrv. symmetry. exact Hrv. }
  subst rv. cbn [opt_list mapM] in Hrvre. injection Hrvre as Hrvre.
  assert (Hint : ir_internal (mkIR (Has fname) (Has (get_function_type (reparsed_arguments o i))) (ir_doc d) params2 rets' it) = None).
  { apply (FnRT.parse_fn_internal d fname (reparsed_arguments o i) (EmitAst.set_value_str text) ann' _ Hdint).
    rewrite <- Hparse. rewrite <- Hrvre. reflexivity. }
  unfold round_trip_fn. rewrite Hemit. cbn [bind]. rewrite Hre. cbn [bind].
  unfold emitted_body, EmitAst.set_value. rewrite Hparse.
  eexists. split; [reflexivity|]. split; [|split; [reflexivity|exact Hint]].
  unfold same_interface_fn. cbn [ir_params ir_returns]. rewrite Hsame_p, Hsame_r. cbn [andb].
  unfold kind_preserved. cbn [ir_type].
  assert (HinS : forallb not_self_cls (nk_names i) = true).
  { apply forallb_forall. intros n Hn. unfold nk_names in Hn. apply in_map_iff in Hn. destruct Hn as [[n' g] [E Hin]].
    cbn [fst] in E. subst n'. apply nkp_In in Hin. destruct Hin as [Hin _].
    apply (name_facts n). apply (gf_names _ _ GF). apply in_map_iff. exists (n, g). auto. }
  rewrite (found_type_kind o i (gf_kind _ _ GF) HinS). apply str_eqb_refl.
Qed.
End FnRT2.

Lemma complete_return_eq : forall g g', complete_return g = true -> preserved_entry g g' = true -> g' = g.
Proof.
  intros [gd gt gdef] [gd' gt' gdef'] Hc Hp. unfold complete_return in Hc. cbn [g_doc g_typ g_default] in Hc.
  destruct (fld_str gd) as [x|] eqn:Ed; [|discriminate]. destruct (fld_str gt) as [t|] eqn:Et; [|discriminate].
  destruct gdef; [discriminate|].
  apply C05Facts.preserved_entry_split in Hp. destruct Hp as [Ht [Hd Hv]].
  unfold C01Spec.same_typ in Ht. unfold C01Spec.same_prose in Hd. cbn [g_doc g_typ g_default] in *.
  rewrite Et in Ht. rewrite Ed in Hd. apply opt_eqb_str_Some in Ht. apply opt_eqb_str_Some in Hd.
  rewrite (fld_str_Has _ _ Ed), (fld_str_Has _ _ Et), (fld_str_Has _ _ Ht), (fld_str_Has _ _ Hd).
  destruct gdef'; [discriminate Hv|reflexivity].
Qed.

Lemma complete_ret_inv : forall i, complete_ret i = true ->
    (exists d, ir_doc i = Has d) /\ forallb (fun kv => complete_entry (snd kv)) (ir_params i) = true
    /\ exists g, ir_returns i = Has g /\ complete_return g = true.
Proof.
  intros i H. unfold complete_ret in H. do 3 (apply andb_true_iff in H; destruct H as [H ?]).
  split; [destruct (ir_doc i) as [| |d]; try discriminate; exists d; reflexivity|]. split; [assumption|].
  destruct (ir_returns i) as [| |g]; try discriminate. exists g. split; [reflexivity|assumption].
Qed.

Record ret_eq (i i' : ir) : Prop := mkRetEq {
  re_doc : ir_doc i' = ir_doc i;
  re_params : ir_params i' = ir_params i;
  re_ret : ir_returns i' = ir_returns i;
  re_int : ir_internal i' = None
}.

Theorem complete_ret_preserved_eq : forall i i', complete_ret i = true -> preserved i i' = true ->
    ir_doc i' = ir_doc i /\ ir_params i' = ir_params i /\ ir_returns i' = ir_returns i.
Proof.
  intros i i' Hc Hp. destruct (complete_ret_inv i Hc) as [[d Hd] [Hf [g [Hg Hcg]]]].
  apply C05Facts.preserved_split in Hp. destruct Hp as [Hs [Hps Hr]]. split; [|split].
  - unfold same_summary in Hs. rewrite Hd in *. cbn [fld_opt] in Hs. apply opt_eqb_str_Some in Hs.
    destruct (ir_doc i') as [| |d']; try discriminate. cbn in Hs. injection Hs as Hs. subst. reflexivity.
  - apply complete_params_eq; assumption.
  - unfold preserved_returns in Hr. rewrite Hg in *. cbn [fld_opt C01Spec.opt_eqb] in Hr.
    destruct (ir_returns i') as [| |g']; cbn [fld_opt] in Hr; try discriminate Hr.
    rewrite (complete_return_eq g g' Hcg Hr). reflexivity.
Qed.

Lemma ret_view_eq : forall i i', ret_eq i i' -> ret_view i' = ret_view i.
Proof. intros i i' [Hd Hp Hr _]. unfold ret_view. rewrite Hd, Hp, Hr. reflexivity. Qed.

Lemma closed_dom_ret_inv : forall o f i, closed_dom_ret o f i = true ->
    chain_safe ret_kinds i = true /\ complete_ret i = true /\ guard_C01_rest false i = true
    /\ internal_ok i = true /\ internal_ok7 i = true
    /\ fn_guard_ret o f kind_static i = true /\ fn_guard_ret o f kind_self i = true.
Proof.
  intros o f i H. unfold closed_dom_ret in H. do 6 (apply andb_true_iff in H; destruct H as [H ?]). repeat split; assumption.
Qed.

Lemma ret_static_view : forall o f i,
    (chain_safe ret_kinds i && complete_ret i && guard_C01_rest false i
     && fn_guard_ret o f kind_static i && fn_guard_ret o f kind_self i)
    = (chain_safe ret_kinds (ret_view i) && complete_ret (ret_view i) && guard_C01_rest false (ret_view i)
       && fn_guard_ret o f kind_static (ret_view i) && fn_guard_ret o f kind_self (ret_view i)).
Proof. intros o f [n t d ps r b]. reflexivity. Qed.

Theorem closed_dom_ret_eq : forall o f i i', closed_dom_ret o f i = true -> ret_eq i i' -> closed_dom_ret o f i' = true.
Proof.
  intros o f i i' H Hre. destruct (closed_dom_ret_inv o f i H) as [H1 [H2 [H3 [_ [_ [H6 H7]]]]]].
  pose proof (ret_static_view o f i) as E. rewrite H1, H2, H3, H6, H7 in E. cbn [andb] in E.
  pose proof (ret_static_view o f i') as E'. rewrite (ret_view_eq i i' Hre), <- E in E'.
  apply andb_true_iff in E'. destruct E' as [E' Ee]. apply andb_true_iff in E'. destruct E' as [E' Ed].
  apply andb_true_iff in E'. destruct E' as [E' Ec]. apply andb_true_iff in E'. destruct E' as [Ea Eb].
  unfold closed_dom_ret. rewrite Ea, Eb, Ec, Ed, Ee.
  rewrite (internal_ok_None i' (re_int _ _ Hre)), (internal_ok7_None i' (re_int _ _ Hre)). reflexivity.
Qed.

Lemma ret_eq_of_preserved : forall o f i i', closed_dom_ret o f i = true -> preserved i i' = true ->
    ir_internal i' = None -> ret_eq i i'.
Proof.
  intros o f i i' H Hp Hi. destruct (closed_dom_ret_inv o f i H) as [_ [Hc _]].
  destruct (complete_ret_preserved_eq i i' Hc Hp) as [Hd [Hps Hr]]. constructor; assumption.
Qed.

Lemma ret_eq_preserved : forall i i', ret_eq i i' -> preserved i i' = true.
Proof.
  intros i i' [Hd Hp Hr _]. apply C05Facts.preserved_split. split; [|split].
  - unfold same_summary. rewrite Hd. apply C05Facts.opt_eqb_refl. exact str_eqb_refl.
  - rewrite Hp. apply C05Facts.preserved_params_refl.
  - rewrite Hr. apply C05Facts.preserved_returns_refl.
Qed.

(* rest *)
Theorem law_rest_ret : forall o f i, closed_dom_ret o f i = true ->
    exists i', conv_rest i = Ok i' /\ preserved i i' = true /\ closed_dom_ret o f i' = true.
Proof.
  intros o f i H. destruct (closed_dom_ret_inv o f i H) as [_ [_ [Hg _]]].
  destruct (C05Facts.RT_rest_roundtrip i Hg) as [i' [Hc Hp]].
  exists i'. split; [exact Hc|]. split; [exact Hp|].
  apply (closed_dom_ret_eq o f i i' H). apply (ret_eq_of_preserved o f i i' H Hp).
  unfold conv_rest in Hc. binv Hc. exact (parse_dot_internal _ _ _ _ _ Hc).
Qed.

(* function / method: emit.function and to_docstring look at summary, parameters and return entry only *)
Lemma emit_fn_ret_view : forall fo i tds c r, C03Spec.fo_kind fo = c :: r ->
    internal_ok i = true -> internal_ok7 i = true ->
    C03Spec.emit_fn fo i tds = C03Spec.emit_fn fo (ret_view i) tds.
Proof.
  intros fo i tds c r Hk H H7.
  pose proof (get_internal_body_fn (C03Spec.fo_kind fo) i H H7) as Hb.
  destruct i as [n t d ps rr b]. unfold ret_view. cbn [ir_doc ir_params ir_returns].
  unfold C03Spec.emit_fn, emit_function.
  assert (Hf : forall x, py_or (Some C03Spec.fname) x = Ok (Some C03Spec.fname)) by reflexivity.
  assert (Hkd : forall x, py_or (Some (C03Spec.fo_kind fo)) x = Ok (Some (C03Spec.fo_kind fo))) by (rewrite Hk; reflexivity).
  rewrite !Hf, !Hkd. cbn [bind]. rewrite Hb.
  assert (Hb' : get_internal_body (Some C03Spec.fname) (Some (C03Spec.fo_kind fo)) (mkIR FNone FNone d ps rr None) = Ok [])
    by reflexivity.
  rewrite Hb'. unfold function_return_val, returns_param. cbn [ir_params ir_returns ir_name ir_type bind].
  repeat match goal with
         | |- bind (bind ?x _) _ = bind (bind ?x _) _ => destruct x; cbn [bind]
         end; reflexivity.
Qed.

Lemma conv_fn_ret_view : forall o f c r i, internal_ok i = true -> internal_ok7 i = true ->
    conv_fn o f (c :: r) i = conv_fn o f (c :: r) (ret_view i).
Proof.
  intros o f c r i H H7. unfold conv_fn.
  assert (Et : C03DocLinkDefs.function_docstring_text (ce_w o) (fn_opts o f (c :: r)) i
               = C03DocLinkDefs.function_docstring_text (ce_w o) (fn_opts o f (c :: r)) (ret_view i)).
  { unfold C03DocLinkDefs.function_docstring_text.
    assert (X : forall x : outcome (str * ir), (do r <- x; Ok (fst r)) = C08Facts.text_of x)
      by (intros [[t j]|err]; reflexivity).
    rewrite !X. apply C08Facts.to_docstring_text_lemma; reflexivity. }
  rewrite Et.
  destruct (C03DocLinkDefs.function_docstring_text _ _ (ret_view i)) as [text|e]; cbn [bind]; [|reflexivity].
  destruct (C03DocLinkDefs.function_docstring_ir text) as [d|e]; cbn [bind]; [|reflexivity].
  unfold C03Spec.round_trip_fn. rewrite (emit_fn_ret_view (fn_opts o f (c :: r)) i (Ok text) c r eq_refl H H7). reflexivity.
Qed.

Lemma same_return_fn_complete : forall g g', complete_return g = true -> C03Spec.same_param_fn g g' = true -> g' = g.
Proof.
  intros [gd gt gdef] [gd' gt' gdef'] Hc H. unfold complete_return in Hc. cbn [g_doc g_typ g_default] in Hc.
  destruct gd as [| |[|c r]]; try discriminate Hc. destruct gt as [| |[|tc tr]]; try discriminate Hc.
  cbn [fld_str] in Hc. destruct gdef; [discriminate Hc|].
  unfold C03Spec.same_param_fn in H. apply andb_true_iff in H. destruct H as [H Hd]. apply andb_true_iff in H. destruct H as [Ht Hp].
  unfold C02Spec.same_typ in Ht. unfold C02Spec.same_prose, C02Spec.prose_of in Hp. unfold C02Spec.default_same in Hd.
  cbn [g_doc g_typ g_default fget] in *.
  destruct gt' as [| |t']; cbn [fget C02Spec.opt_str_eqb] in Ht; try discriminate Ht. apply str_eqb_eq in Ht. subst t'.
  destruct gd' as [| |[|c' r']]; cbn [C02Spec.opt_str_eqb] in Hp; try discriminate Hp. apply str_eqb_eq in Hp. rewrite <- Hp.
  destruct gdef'; [discriminate Hd|reflexivity].
Qed.

Theorem conv_fn_ret_closed : forall o f c r i, closed_dom_ret o f i = true -> fn_guard_ret o f (c :: r) i = true ->
    exists i', conv_fn o f (c :: r) i = Ok i' /\ ret_eq i i'.
Proof.
  intros o f c r i H Hg. destruct (closed_dom_ret_inv o f i H) as [_ [Hc [Hrest [Hi [H7 _]]]]].
  destruct (complete_ret_inv i Hc) as [[d0 Ed0] [Hf [g [Eg Hcg]]]].
  assert (Hne0 : d0 <> []).
  { unfold guard_C01_rest in Hrest. apply andb_true_iff in Hrest. destruct Hrest as [_ Hfc].
    intros E. subst d0.
    unfold fn_guard_ret in Hg. apply andb_true_iff in Hg. destruct Hg as [_ Hl].
    unfold C03DocLinkDefs.doc_link_ok in Hl. do 3 (apply andb_true_iff in Hl; destruct Hl as [Hl ?]).
    clear - H Ed0. unfold closed_dom_ret in H. do 6 (apply andb_true_iff in H; destruct H as [H ?]).
    unfold chain_safe in H. apply andb_true_iff in H. destruct H as [_ H].
    unfold c05_class_of, summary_class in H. rewrite Ed0 in H. cbn in H. discriminate H. }
  rewrite (conv_fn_ret_view o f c r i Hi H7).
  unfold fn_guard_ret in Hg. apply andb_true_iff in Hg. destruct Hg as [Hg Hl].
  set (fo := fn_opts o f (c :: r)) in *.
  destruct (FnLink.fn_doc_link_sum (ce_w o) fo (ret_view i) Hg Hl) as [text [d [Ht [Hdd [Ha Hsum]]]]].
  assert (Hdint : ir_internal d = None).
  { unfold C03DocLinkDefs.function_docstring_ir in Hdd. binv Hdd. exact (parse_dot_internal _ _ _ _ _ Hdd). }
  assert (Hnod : forall g0, ir_returns (ret_view i) = Has g0 -> g_default g0 = None).
  { intros g0 E0. cbn [ret_view ir_returns] in E0. rewrite Eg in E0. injection E0 as E0. subst g0.
    unfold complete_return in Hcg. destruct (fld_str (g_doc g)); [|discriminate]. destruct (fld_str (g_typ g)); [|discriminate].
    destruct (g_default g); [discriminate|reflexivity]. }
  destruct (FnRT2.fn_round_trip_fields_ret fo (ret_view i) text d Hg Ha Hnod Hdint) as [i' [Hrt [Hsame [Hdoc Hint]]]].
  exists i'. split.
  - unfold conv_fn. fold fo. rewrite Ht. cbn [bind]. rewrite Hdd. cbn [bind]. exact Hrt.
  - unfold C03Spec.same_interface_fn in Hsame. apply andb_true_iff in Hsame. destruct Hsame as [Hsame _].
    apply andb_true_iff in Hsame. destruct Hsame as [Hps Hrs]. cbn [ret_view ir_params ir_returns] in Hps, Hrs.
    constructor.
    + rewrite Hdoc. rewrite Ed0. apply Hsum; [exact Ed0|exact Hne0].
    + apply same_params_fn_complete; [|exact Hf|exact Hps].
      exact (C03Compose.gf_nodup _ _ (C03Compose.guard_inv fo (ret_view i) Hg)).
    + unfold C03Spec.same_returns_fn in Hrs. rewrite Eg in *. cbn [fget] in Hrs.
      destruct (ir_returns i') as [| |g']; cbn [fget] in Hrs; try discriminate Hrs.
      rewrite (same_return_fn_complete g g' Hcg Hrs). reflexivity.
    + exact Hint.
Qed.

Theorem law_ret : forall o f k, ret_kind k = true -> kind_law (conv_model7 o f) (closed_dom_ret o f) k.
Proof.
  intros o f k Hk i H. destruct (closed_dom_ret_inv o f i H) as [_ [_ [_ [_ [_ [Hs Hm]]]]]].
  assert (Hfn : forall c r, fn_guard_ret o f (c :: r) i = true ->
                exists i', conv_fn o f (c :: r) i = Ok i' /\ preserved i i' = true /\ closed_dom_ret o f i' = true).
  { intros c r Hg. destruct (conv_fn_ret_closed o f c r i H Hg) as [i' [Hc Hre]]. exists i'. split; [exact Hc|].
    split; [exact (ret_eq_preserved i i' Hre)|exact (closed_dom_ret_eq o f i i' H Hre)]. }
  destruct k; try discriminate Hk.
  - exact (law_rest_ret o f i H).
  - exact (Hfn _ _ Hs).
  - exact (Hfn _ _ Hm).
Qed.

Theorem chain_closed_ret : forall o f cs, forallb ret_kind cs = true ->
    forall i, closed_dom_ret o f i = true ->
    exists i', chain (conv_model7 o f) cs i = Ok i' /\ preserved i i' = true /\ closed_dom_ret o f i' = true.
Proof.
  intros o f cs Hcs.
  apply (C05Facts.chain_preserved ir kind preserved (conv_model7 o f) (closed_dom_ret o f)
                                  C05Facts.preserved_refl C05Facts.preserved_trans cs).
  intros k Hk. rewrite forallb_forall in Hcs. exact (law_ret o f k (Hcs k Hk)).
Qed.

Lemma w_ret_closed_in_dom :
  closed_dom_ret default_env default_fenv w_ret_closed = true
  /\ closed_dom_ret default_env (mkFE false false 1 false false) w_ret_closed = true
  /\ match chain (conv_model7 default_env default_fenv) [KFunction; KRest; KMethod; KMethod; KRest; KFunction] w_ret_closed with
     | Ok i' => preserved w_ret_closed i' && closed_dom_ret default_env default_fenv i'
     | Err _ => false
     end = true.
Proof. vm_compute. repeat split; reflexivity. Qed.
