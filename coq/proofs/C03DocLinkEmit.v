(* C03DocLinkEmit: closed forms of DocEmit.td_param (the inner _param2docstring_param of to_docstring, ReST) and of
   to_docstring's text as a list of lines, for entries whose lines need no wrapping.
   Used by proofs/C03DocLink.v (property C03, docstring link).  Proofs only. *)
From Coq Require Import List Ascii Bool Arith ZArith Lia.
From Coq Require String.
Import String.StringSyntax.
From DT Require Import PyStr Sexp PyVal TyExpr Extracted PureUtils Defaults PyAst IR Fill C17Spec.
From DT Require Import PyStrFacts SplitFacts DefaultsFacts DocEmit DocEmitFacts C03DocLinkDefs.
From DT Require PureUtilsFacts.
Import ListNotations.

(* ------------------------------------------------------------------ *)
(* one-line strings                                                     *)
(* ------------------------------------------------------------------ *)

Lemma mem_c_false_notin : forall c s, mem_c c s = false -> ~ In c s.
Proof.
  intros c s H Hin. apply mem_c_In in Hin. rewrite Hin in H. discriminate.
Qed.

Lemma split_nl_one : forall s, mem_c nl s = false -> split_nl s = [s].
Proof.
  intros s H. rewrite split_nl_eq. apply split_c_no_sep_id. apply mem_c_false_notin. exact H.
Qed.

Lemma splitlines_one : forall c r, mem_c nl (c :: r) = false -> splitlines (c :: r) = [c :: r].
Proof.
  intros c r H. unfold splitlines. rewrite (split_nl_one _ H). reflexivity.
Qed.

Lemma dropwhile_app_all : forall (p : ascii -> bool) (a b : str),
    forallb p a = true -> dropwhile p (a ++ b) = dropwhile p b.
Proof.
  intros p a b. induction a as [|x t IH]; intros H; [reflexivity|].
  cbn [forallb] in H. apply andb_true_iff in H. destruct H as [Hx Ht].
  cbn [app dropwhile]. rewrite Hx. apply IH. exact Ht.
Qed.

Lemma rstrip_by_app : forall (p : ascii -> bool) (s t : str) l,
    forallb p t = true -> last_c s = Some l -> p l = false -> rstrip_by p (s ++ t) = s.
Proof.
  intros p s t l Ht Hl Hp. unfold rstrip_by. rewrite rev_app_distr.
  rewrite dropwhile_app_all.
  - apply last_c_spec in Hl. destruct Hl as [r0 E]. subst s.
    rewrite rev_app_distr. cbn [rev app dropwhile]. rewrite Hp.
    change (l :: rev r0) with (rev [l] ++ rev r0). rewrite <- rev_app_distr. apply rev_involutive.
  - apply forallb_forall. intros x Hx. apply in_rev in Hx.
    rewrite forallb_forall in Ht. apply Ht. exact Hx.
Qed.

Lemma multiline_noquote_one : forall c r l,
    mem_c nl (c :: r) = false -> last_c (c :: r) = Some l ->
    mem_c l (L " " ++ [nl; ch 92]) = false ->
    multiline_noquote (c :: r) = c :: r.
Proof.
  intros c r l Hnl Hl Hm. unfold multiline_noquote.
  apply (PureUtilsFacts.multiline_noquote_line c r l (splitlines_one c r Hnl) Hl).
  change (L " " ++ [nl; ch 92]) with [sp; nl; ch 92] in Hm. change (L " " ++ [nl]) with [sp; nl].
  unfold mem_c in *. cbn [existsb] in *.
  apply orb_false_iff in Hm. destruct Hm as [H1 Hm]. apply orb_false_iff in Hm. destruct Hm as [H2 _].
  rewrite H1, H2. reflexivity.
Qed.

Lemma replace_aux_no_char : forall x b fuel s,
    mem_c x s = false -> replace_aux fuel [x] b s = s.
Proof.
  intros x b fuel. induction fuel as [|f IH]; intros s H; [reflexivity|].
  destruct s as [|c r]; [reflexivity|].
  cbn [replace_aux]. rewrite startswith_single_cons.
  rewrite mem_c_cons in H. apply orb_false_iff in H. destruct H as [Hc Hr].
  rewrite Hc. rewrite (IH r Hr). reflexivity.
Qed.

Lemma replace_no_char : forall x b s, mem_c x s = false -> replace [x] b s = s.
Proof. intros x b s H. unfold replace. apply replace_aux_no_char. exact H. Qed.

(* ------------------------------------------------------------------ *)
(* td_fill on a line that fits                                          *)
(* ------------------------------------------------------------------ *)

Lemma td_fill_fits : forall w ww il c r,
    mem_c nl (c :: r) = false -> (ww = true -> List.length (c :: r) <= w) ->
    td_fill w ww il (c :: r) = Ok (c :: r).
Proof.
  intros w ww il c r Hnl Hw. unfold td_fill.
  destruct ww; [|reflexivity].
  rewrite (splitlines_one c r Hnl). cbn [existsb andb orb].
  assert (E : Nat.ltb w (List.length (c :: r)) = false).
  { apply Nat.ltb_ge. apply Hw. reflexivity. }
  rewrite E. reflexivity.
Qed.

(* ------------------------------------------------------------------ *)
(* the two ReST lines carry no line break                               *)
(* ------------------------------------------------------------------ *)

Lemma rest_doc_line_no_nl : forall n d,
    mem_c nl n = false -> mem_c nl d = false -> mem_c nl (rest_doc_line n d) = false.
Proof.
  intros n d Hn Hd. unfold rest_doc_line, rest_key.
  destruct (is_return n); rewrite !mem_c_app; rewrite ?Hn, ?Hd; reflexivity.
Qed.

Lemma rest_typ_line_no_nl : forall n t,
    mem_c nl n = false -> mem_c nl t = false -> mem_c nl (rest_typ_line n t) = false.
Proof.
  intros n t Hn Ht. unfold rest_typ_line, rest_key_typ.
  destruct (is_return n); rewrite !mem_c_app; rewrite ?Hn, ?Ht; reflexivity.
Qed.

Lemma fill_or_id_one : forall ww w s,
    (ww = true -> fill w s = Ok s) -> fill_or_id ww w s = Ok s.
Proof.
  intros ww w s H. unfold fill_or_id. destruct ww; [apply H; reflexivity|reflexivity].
Qed.

Lemma td_fill_fits_ne : forall w ww il s,
    s <> [] -> mem_c nl s = false -> (ww = true -> List.length s <= w) ->
    td_fill w ww il s = Ok s.
Proof.
  intros w ww il s Hne Hnl Hw. destruct s as [|c r]; [contradiction|].
  apply td_fill_fits; assumption.
Qed.

Lemma rest_doc_line_ne : forall n d, rest_doc_line n d <> [].
Proof. intros n d. destruct (rest_doc_line_head n d) as [r E]. rewrite E. discriminate. Qed.

Lemma rest_typ_line_ne : forall n t, rest_typ_line n t <> [].
Proof. intros n t. destruct (rest_typ_line_head n t) as [r E]. rewrite E. discriminate. Qed.

(* ------------------------------------------------------------------ *)
(* sdd_doc / emit_param_str on a param that set_default_doc leaves alone *)
(* ------------------------------------------------------------------ *)

Lemma sdd_doc_stable : forall n p edd d,
    set_default_doc n p edd = Ok p -> p_doc p = Has d -> sdd_doc n p edd = Ok (d, p).
Proof.
  intros n p edd d Hs Hd. unfold sdd_doc. rewrite Hs. rewrite bind_Ok. rewrite Hd. reflexivity.
Qed.

Lemma emit_param_str_doc_line : forall w n p c r ww edd,
    p_doc p = Has (c :: r) -> set_default_doc n p edd = Ok p ->
    mem_c nl n = false -> mem_c nl (c :: r) = false ->
    (ww = true -> fill w (rest_doc_line n (c :: r)) = Ok (rest_doc_line n (c :: r))) ->
    emit_param_str w n p Rest true false ww edd = Ok (rest_doc_line n (c :: r), p).
Proof.
  intros w n p c r ww edd Hdoc Hs Hn Hd Hf.
  unfold emit_param_str, rest_raw_lines. rewrite Hdoc, truthy_fld_Has.
  rewrite (sdd_doc_stable n p edd (c :: r) Hs Hdoc).
  rewrite ?bind_Ok. cbn [fst snd cat_options mapM].
  rewrite (fill_or_id_one ww w _ Hf). rewrite ?bind_Ok. cbn [map join].
  rewrite iabf_rest_doc_line; [reflexivity|].
  apply mem_c_false_notin. apply rest_doc_line_no_nl; assumption.
Qed.

Lemma emit_param_str_typ_line : forall w n p t ww edd,
    p_typ p = Has t -> t <> [] ->
    mem_c nl n = false -> mem_c nl t = false ->
    (ww = true -> fill w (rest_typ_line n t) = Ok (rest_typ_line n t)) ->
    emit_param_str w n p Rest false true ww edd = Ok (rest_typ_line n t, p).
Proof.
  intros w n p t ww edd Htyp Hne Hn Ht Hf.
  unfold emit_param_str, rest_raw_lines. rewrite ?bind_Ok. cbn [fst snd]. rewrite Htyp.
  destruct t as [|c r]; [contradiction|]. rewrite truthy_fld_Has.
  cbn [cat_options mapM].
  rewrite (fill_or_id_one ww w _ Hf). rewrite ?bind_Ok. cbn [map join].
  rewrite iabf_rest_typ_line; [reflexivity|].
  apply mem_c_false_notin. apply rest_typ_line_no_nl; assumption.
Qed.

(* what set_default_doc does to a documented entry under the hypotheses of the main lemma *)
Lemma sdd_step : forall n d typ dflt edd,
    no_announce d = true ->
    (edd = true -> exists p', set_default_doc n (mkParam (Has d) typ dflt) true = Ok p' /\ p_doc p' = Has d) ->
    exists dflt',
      set_default_doc n (mkParam (Has d) typ dflt) edd = Ok (mkParam (Has d) typ dflt')
      /\ set_default_doc n (mkParam (Has d) typ dflt') edd = Ok (mkParam (Has d) typ dflt').
Proof.
  intros n d typ dflt edd Hna Hedd. destruct edd.
  - destruct (Hedd eq_refl) as [p' [Hs Hd]].
    pose proof (set_default_doc_typ _ _ _ _ Hs) as Ht. cbn [p_typ] in Ht.
    pose proof (set_default_doc_idem _ _ _ Hs) as Hi.
    destruct p' as [pd pt pv]. cbn [p_doc p_typ] in Hd, Ht. subst pd pt.
    exists pv. split; assumption.
  - exists dflt. split; apply (set_default_doc_no_announce n _ d); try reflexivity; exact Hna.
Qed.

(* ------------------------------------------------------------------ *)
(* td_param                                                             *)
(* ------------------------------------------------------------------ *)

Lemma td_param_documented : forall w ww edd et il n d typ dflt c r l,
    d = c :: r -> isspace c = false -> mem_c nl d = false ->
    last_c d = Some l -> mem_c l (L " " ++ [nl; ch 92]) = false ->
    no_announce d = true ->
    (edd = true -> exists p', set_default_doc n (mkParam (Has d) typ dflt) true = Ok p' /\ p_doc p' = Has d) ->
    (ww = true -> fill w (rest_doc_line n d) = Ok (rest_doc_line n d) /\ List.length (rest_doc_line n d) <= w) ->
    (match typ with
     | Has t => et = true ->
                t <> [] /\ mem_c nl t = false
                /\ (ww = true -> fill w (rest_typ_line n t) = Ok (rest_typ_line n t)
                                 /\ List.length (rest_typ_line n t) <= w)
     | Missing => True
     | FNone => False
     end) ->
    mem_c nl n = false ->
    exists p', td_param w ww edd et il n (mkParam (Has d) typ dflt) = Ok (Some (entry_text il et n d typ), p').
Proof.
  intros w ww edd et il n d typ dflt c r l Ed Hc Hnl Hl Hm Hna Hedd Hww Htyp Hn.
  destruct (sdd_step n d typ dflt edd Hna Hedd) as [dflt' [Hs1 Hs2]].
  subst d.
  unfold td_param. cbn [p_doc p_typ p_default]. unfold extract_default_fld.
  rewrite (extract_default_no_announce (c :: r) true None edd Hna).
  rewrite ?bind_Ok. cbn [fst snd]. rewrite ?bind_Ok. cbn [p_doc]. rewrite truthy_fld_Has.
  assert (Hsdd : sdd_doc n (mkParam (Has (c :: r)) typ dflt) edd
                 = Ok (c :: r, mkParam (Has (c :: r)) typ dflt')).
  { unfold sdd_doc.
    apply (f_equal (fun o => bind o (fun p' => match p_doc p' with
                                               | Has d0 => Ok (d0, p')
                                               | _ => Err KeyError
                                               end))) in Hs1.
    exact Hs1. }
  rewrite Hsdd. rewrite bind_Ok. cbn [fst snd p_typ p_default].
  rewrite (indent_all_but_first_one_line c r (abs_pred il) (mem_c_false_notin _ _ Hnl) Hc).
  rewrite (multiline_noquote_one c r l Hnl Hl Hm).
  assert (Hfd : ww = true -> fill w (rest_doc_line n (c :: r)) = Ok (rest_doc_line n (c :: r))).
  { intros E. apply (Hww E). }
  assert (Hld : ww = true -> List.length (rest_doc_line n (c :: r)) <= w).
  { intros E. apply (Hww E). }
  match goal with
  | |- context [emit_param_str w n ?p Rest true false ww edd] =>
    rewrite (emit_param_str_doc_line w n p c r ww edd eq_refl Hs2 Hn Hnl Hfd)
  end.
  rewrite ?bind_Ok. cbn [fst snd p_typ].
  pose proof (rest_doc_line_no_nl n (c :: r) Hn Hnl) as Hdnl.
  pose proof (td_fill_fits_ne w ww il _ (rest_doc_line_ne n (c :: r)) Hdnl Hld) as Hfilld.
  destruct typ as [| |t].
  - (* Missing *)
    rewrite ?bind_Ok. cbn [fst snd]. unfold td_joiner. rewrite Hfilld. rewrite ?bind_Ok.
    eexists. unfold entry_text. cbv zeta. cbn [app]. rewrite app_nil_r. reflexivity.
  - contradiction.
  - destruct et.
    + destruct (Htyp eq_refl) as [Hne [Htnl Htw]].
      assert (Hft : ww = true -> fill w (rest_typ_line n t) = Ok (rest_typ_line n t)).
      { intros E. apply (Htw E). }
      assert (Hlt : ww = true -> List.length (rest_typ_line n t) <= w).
      { intros E. apply (Htw E). }
      match goal with
      | |- context [emit_param_str w n ?p Rest false true ww edd] =>
        rewrite (emit_param_str_typ_line w n p t ww edd eq_refl Hne Hn Htnl Hft)
      end.
      rewrite ?bind_Ok. cbn [fst snd].
      pose proof (rest_typ_line_no_nl n t Hn Htnl) as Htl.
      unfold td_joiner.
      rewrite (replace_no_char nl _ _ Hdnl), (replace_no_char nl _ _ Htl).
      rewrite Hfilld.
      rewrite (td_fill_fits_ne w ww il _ (rest_typ_line_ne n t) Htl Hlt).
      rewrite ?bind_Ok.
      eexists. unfold entry_text. cbv zeta. cbn [app]. reflexivity.
    + rewrite ?bind_Ok. cbn [fst snd]. unfold td_joiner. rewrite Hfilld. rewrite ?bind_Ok.
      eexists. unfold entry_text. cbv zeta. cbn [app]. rewrite app_nil_r. reflexivity.
Qed.
Print Assumptions td_param_documented.

Lemma no_announce_nil : no_announce [] = true.
Proof. vm_compute. reflexivity. Qed.

Lemma td_param_undocumented : forall w ww edd et il n gd typ dflt,
    (gd = Missing \/ gd = Has []) -> (et = false \/ typ = Missing) -> typ <> FNone ->
    td_param w ww edd et il n (mkParam gd typ dflt) = Ok (None, mkParam gd typ dflt).
Proof.
  intros w ww edd et il n gd typ dflt Hgd Het Hfn.
  unfold td_param. cbn [p_doc p_typ p_default].
  destruct Hgd as [E|E]; subst gd.
  - rewrite ?bind_Ok. cbn [p_doc truthy_fld]. rewrite ?bind_Ok. cbn [fst snd p_typ].
    destruct Het as [E|E]; subst.
    + destruct typ as [| |t]; rewrite ?bind_Ok; reflexivity.
    + rewrite ?bind_Ok. reflexivity.
  - unfold extract_default_fld.
    rewrite (extract_default_no_announce [] true None edd no_announce_nil).
    rewrite ?bind_Ok. cbn [fst snd]. rewrite ?bind_Ok. cbn [p_doc truthy_fld].
    rewrite ?bind_Ok. cbn [fst snd p_typ].
    destruct Het as [E|E]; subst.
    + destruct typ as [| |t]; rewrite ?bind_Ok; reflexivity.
    + rewrite ?bind_Ok. reflexivity.
Qed.
Print Assumptions td_param_undocumented.
